CONSTANT Alphabet = {1200, 1300, 1420, 1500}
CONSTANT N = 4
INIT Init
NEXT Next
INVARIANT Emit
CHECK_DEADLOCK FALSE
