--------------------------- MODULE ProgressTrace ---------------------------
(***************************************************************************)
(* Trace validation for C02.  Each run is an event-driven workload on real *)
(* quinn-proto over a network that misbehaves only on a TLC-enumerated     *)
(* prefix of datagrams and is loss-free afterwards (the property's         *)
(* fairness premise made concrete).  The run must end with every           *)
(* written-and-finished stream delivered and acknowledged (`done`) within  *)
(* the virtual-time budget, without panic or runaway loop, and the         *)
(* obligations Progress.tla shows sufficient must hold at every step:      *)
(*   O1  established, ack-eliciting data in flight, not amplification      *)
(*       blocked  =>  the loss-detection timer is armed                    *)
(*   O1b a handshaking client whose address the server has not yet         *)
(*       validated keeps its loss-detection timer armed                    *)
(***************************************************************************)
EXTENDS Naturals, Integers, Sequences, FiniteSets, TLC, Json, IOUtils

Rec == ndJsonDeserialize(IOEnv.TRACE)
N == Len(Rec)
VARIABLES l, bad, budget, ended, deviations, cur
vars == <<l, bad, budget, ended, deviations, cur>>
e == Rec[l]
Is(k) == l <= N /\ e.ev = k
Flag(c, name) == IF c THEN {} ELSE {name}

TInit == l = 1 /\ bad = {} /\ budget = 0 /\ ended = TRUE /\ deviations = {} /\ cur = <<0>>
Reset == /\ Is("Reset") /\ bad' = Flag(ended, "RunWithoutEnd") /\ budget' = e.budget_s /\ ended' = FALSE
         /\ deviations' = {} /\ cur' = <<e.run>> /\ l' = l + 1

Open(st) == st \in {"hs", "est"}

Step ==
  /\ Is("Step")
  /\ bad' = bad
       \* obligations are demanded where the connection goes quiet (nothing more happens at this instant)
       \* (a pending pacing timer means a transmission is due, which arms the loss timer)
       \cup Flag((e.quiet /\ e.st = "est" /\ e.ifae > 0 /\ ~e.ampb) => (e.tm0 # -1 \/ e.tm6 # -1),
                  "LossTimerNotArmedWithDataInFlight")
       \cup Flag((e.quiet /\ e.side = "c" /\ e.st = "hs" /\ ~e.pcav) => (e.tm0 # -1 \/ e.tm6 # -1),
                  "ClientTimerNotArmedBeforeValidation")
       \* "never wedges because of congestion": the window a built-in controller reports always has
       \* room for two datagrams - below one, nothing can be sent and nothing is in flight to be acknowledged
       \cup Flag(~e.wlow, "WindowBelowTwoDatagrams")
  /\ l' = l + 1 /\ UNCHANGED <<budget, ended, deviations, cur>>

\* a panic or a runaway loop inside the library ends the run abnormally
Abnormal ==
  /\ (Is("Panic") \/ Is("StepBound"))
  /\ bad' = bad \cup {IF e.ev = "Panic" THEN "Panic" ELSE "RunawayLoop"}
  /\ l' = l + 1 /\ UNCHANGED <<budget, ended, deviations, cur>>

\* KNOWN FINDING (C02): with pad_to_mtu, ACK-only packets are padded, therefore count as bytes in
\* flight, but being non-ack-eliciting they are acknowledged by the peer only incidentally.  They
\* accumulate until the congestion window is full; from then on everything ack-eliciting
\* (including MAX_DATA, and ACKs that share a packet with it) is blocked and no timer is armed.
\* Recognised at the end of an incomplete run by bytes in flight without any ack-eliciting packet
\* in flight on a padding side.
\* KNOWN FINDING (C02): a server may fill its congestion window with 1-RTT packets (0.5-RTT data,
\* NEW_TOKEN / NEW_CONNECTION_ID, much larger with pad_to_mtu) that the client cannot acknowledge
\* before the handshake completes.  If Handshake CRYPTO data is then lost, its retransmission is
\* congestion blocked, the PTO ignores the Data space while handshaking, the Handshake space has
\* nothing in flight any more: neither side has a timer and the handshake never completes.
\* Recognised at the end of an incomplete run by exactly that state on a handshaking side.
End ==
  /\ Is("End")
  /\ bad' = bad \cup Flag(e.done \/ e.stuckpad \/ e.hsstarved, "WorkloadNotCompleted")
                \cup Flag(e.lost = 0, "ConnectionLostDuringWorkload")
  /\ deviations' = IF ~e.done /\ e.hsstarved THEN {"HandshakeRetransmitStarvedBy1RttData"}
                    ELSE IF ~e.done /\ e.stuckpad THEN {"PaddedAckOnlyPacketsFillWindow"} ELSE {}
  /\ ended' = TRUE /\ l' = l + 1 /\ UNCHANGED <<budget, cur>>

TNext == (Reset \/ Step \/ Abnormal \/ End)
         /\ (deviations' \subseteq deviations
             \/ PrintT(<<"KNOWN", deviations' \ deviations, "line", l, "run", cur>>))
TraceSpec == TInit /\ [][TNext]_vars
Watch == TLCSet(1, <<l, bad, cur>>) /\ bad = {}
TraceAccepted ==
  LET r == TLCGet(1) d == TLCGet("stats").diameter IN
  IF r[2] # {} THEN Print(<<"VIOLATION", r[2], "line", r[1] - 1, "run", r[3]>>, FALSE)
  ELSE IF d - 1 # N THEN Print(<<"UNMATCHED", "line", d, "run", r[3]>>, FALSE)
  ELSE TRUE
=============================================================================
