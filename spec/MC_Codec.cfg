CONSTANT Fams = {"var", "pn", "frame", "ackraw", "close", "tp", "pkt", "token", "tokenraw", "cidgen", "b2", "b4"}
CONSTANT W = 8
CONSTANT Scale = "mc"
SPECIFICATION Spec
INVARIANT Thm
CHECK_DEADLOCK FALSE
