CONSTANT Window = 2
CONSTANT Total = 5
SPECIFICATION CSpec
INVARIANT CreditInv
PROPERTY Monotone
CHECK_DEADLOCK FALSE
