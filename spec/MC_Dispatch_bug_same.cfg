CONSTANT Sizes = {0, 1, 7, 20, 21, 22, 23, 30, 43, 44, 100, 1199, 1200, 1500}
CONSTANT CloseSize = 60
CONSTANT ResetSameSize = TRUE
SPECIFICATION DSpec
PROPERTY Dies
PROPERTY NoGrowth
CHECK_DEADLOCK FALSE
