SPECIFICATION MSpec
INVARIANT StreamSMInv
CHECK_DEADLOCK FALSE
