------------------------------- MODULE HsKeys -------------------------------
(***************************************************************************)
(* The packet protection keys of a QUIC handshake (RFC 9001 section 4.9).  *)
(* A client and a server exchange                                          *)
(*     CH  (Initial)    client hello                                       *)
(*     SH  (Initial)    server hello                                       *)
(*     SF  (Handshake)  the rest of the server's flight, up to Finished    *)
(*     CF  (Handshake)  the client's Finished                              *)
(*     HD  (1-RTT)      HANDSHAKE_DONE                                     *)
(* and acknowledgements in the Initial and Handshake spaces.  Packets are  *)
(* lost, duplicated and reordered; whatever was sent is sent again while   *)
(* its keys exist.  Keys are installed and discarded at the points the     *)
(* implementation uses:                                                    *)
(*   client  Initial keys go when it sends its first Handshake packet,     *)
(*           Handshake keys when HANDSHAKE_DONE arrives                    *)
(*   server  Initial keys go when it processes its first Handshake packet, *)
(*           Handshake keys when the client's Finished arrives             *)
(*   DiscardedKeysNotNeeded   an endpoint never discards keys its peer     *)
(*                            still needs to get past its current stage    *)
(*   Completes                with a fair network both ends confirm the    *)
(*                            handshake                                    *)
(* Variant EagerServer (the server drops its Handshake keys when it has    *)
(* SENT its Finished) is refuted: the client's Finished cannot be read.    *)
(***************************************************************************)
EXTENDS Naturals, FiniteSets

CONSTANTS MaxLoss,      \* packets the network may lose
          EagerServer   \* defect variant

Spaces == {"I", "H", "A"}
\* what a message needs at the receiver and what it is
Space(m) == CASE m \in {"CH", "SH", "AckI"} -> "I"
              [] m \in {"SF", "CF", "AckH"} -> "H"
              [] OTHER -> "A"

VARIABLES keys,      \* keys[x]: spaces x holds keys for
          gone,      \* gone[x]: spaces whose keys x has discarded
          stage,     \* client: "start","hello","gotSH","complete","confirmed"; server: "wait","sent","confirmed"
          sent,      \* sent[x]: messages x has sent at least once (and may send again)
          net,       \* messages in flight: <<to, message>>
          lost       \* packets lost so far

hvars == <<keys, gone, stage, sent, net, lost>>
Ends == {"c", "s"}
Other(x) == IF x = "c" THEN "s" ELSE "c"

HInit == /\ keys = [x \in Ends |-> {"I"}] /\ gone = [x \in Ends |-> {}]
         /\ stage = [c |-> "start", s |-> "wait"] /\ sent = [x \in Ends |-> {}] /\ net = {} /\ lost = 0

Discard(x, sp, k, g) == <<k \ {sp}, g \cup {sp}>>

\* put message m of x on the wire; the client's first Handshake packet costs it the Initial keys
Emit(x, m) ==
  /\ Space(m) \in keys[x]
  /\ net' = net \cup {<<Other(x), m>>}
  /\ sent' = [sent EXCEPT ![x] = @ \cup {m}]
  /\ IF x = "c" /\ Space(m) = "H" /\ "I" \in keys[x]
       THEN keys' = [keys EXCEPT ![x] = @ \ {"I"}] /\ gone' = [gone EXCEPT ![x] = @ \cup {"I"}]
       ELSE UNCHANGED <<keys, gone>>

ClientHello == /\ stage["c"] = "start" /\ Emit("c", "CH") /\ stage' = [stage EXCEPT !["c"] = "hello"]
               /\ UNCHANGED lost

\* retransmission of anything sent before, while the keys exist
Resend(x) == \E m \in sent[x] : Emit(x, m) /\ UNCHANGED <<stage, lost>>

Lose == \E p \in net : lost < MaxLoss /\ net' = net \ {p} /\ lost' = lost + 1
                       /\ UNCHANGED <<keys, gone, stage, sent>>

\* delivery; a message whose keys the receiver lacks is dropped (keep: duplication)
Deliver(p, keep) ==
  /\ p \in net
  /\ LET x == p[1] m == p[2] IN
     /\ net' = IF keep THEN net ELSE net \ {p}
     /\ IF Space(m) \notin keys[x]
          THEN UNCHANGED <<keys, gone, stage, sent, lost>>
          ELSE
            CASE x = "s" /\ m = "CH" /\ stage["s"] = "wait" ->
                   \* the server's whole flight goes out at once: SH, SF; it now holds all keys
                   /\ keys' = [keys EXCEPT !["s"] = IF EagerServer THEN {"I", "A"} ELSE {"I", "H", "A"}]
                   /\ gone' = [gone EXCEPT !["s"] = IF EagerServer THEN {"H"} ELSE {}]
                   /\ stage' = [stage EXCEPT !["s"] = "sent"]
                   /\ sent' = [sent EXCEPT !["s"] = @ \cup {"SH", "SF", "AckI"}]
                   /\ UNCHANGED lost
              [] x = "c" /\ m = "SH" /\ stage["c"] = "hello" ->
                   /\ keys' = [keys EXCEPT !["c"] = @ \cup {"H"}] /\ stage' = [stage EXCEPT !["c"] = "gotSH"]
                   /\ sent' = [sent EXCEPT !["c"] = @ \cup {"AckI"}]
                   /\ UNCHANGED <<gone, lost>>
              [] x = "c" /\ m = "SF" /\ stage["c"] = "gotSH" ->
                   /\ keys' = [keys EXCEPT !["c"] = @ \cup {"A"}] /\ stage' = [stage EXCEPT !["c"] = "complete"]
                   /\ sent' = [sent EXCEPT !["c"] = @ \cup {"CF", "AckH"}]
                   /\ UNCHANGED <<gone, lost>>
              [] x = "s" /\ Space(m) = "H" /\ stage["s"] = "sent" ->
                   \* first Handshake packet processed: Initial keys go; the Finished completes and confirms
                   IF m = "CF"
                     THEN /\ keys' = [keys EXCEPT !["s"] = {"A"}] /\ gone' = [gone EXCEPT !["s"] = {"I", "H"}]
                          /\ stage' = [stage EXCEPT !["s"] = "confirmed"]
                          /\ sent' = [sent EXCEPT !["s"] = @ \cup {"HD"}]
                          /\ UNCHANGED lost
                     ELSE /\ keys' = [keys EXCEPT !["s"] = @ \ {"I"}] /\ gone' = [gone EXCEPT !["s"] = @ \cup {"I"}]
                          /\ UNCHANGED <<stage, sent, lost>>
              [] x = "c" /\ m = "HD" /\ stage["c"] = "complete" ->
                   /\ keys' = [keys EXCEPT !["c"] = @ \ {"H"}] /\ gone' = [gone EXCEPT !["c"] = @ \cup {"H"}]
                   /\ stage' = [stage EXCEPT !["c"] = "confirmed"]
                   /\ UNCHANGED <<sent, lost>>
              [] OTHER -> UNCHANGED <<keys, gone, stage, sent, lost>>

HNext == \/ ClientHello \/ Lose
         \/ \E x \in Ends : Resend(x)
         \/ \E p \in net, k \in BOOLEAN : Deliver(p, k)
HSpec == HInit /\ [][HNext]_hvars
Fair == /\ WF_hvars(ClientHello) /\ \A x \in Ends : \A m \in {"CH", "SH", "SF", "CF", "HD", "AckI", "AckH"} :
             WF_hvars(m \in sent[x] /\ Emit(x, m) /\ UNCHANGED <<stage, lost>>)
        /\ \A p \in Ends \X {"CH", "SH", "SF", "CF", "HD", "AckI", "AckH"} : WF_hvars(Deliver(p, FALSE))
HLive == HSpec /\ Fair

\* what the peer of x still has to receive from x to leave its current stage
Needs(x) == IF x = "c" THEN (CASE stage["s"] = "wait" -> {"I"} [] stage["s"] = "sent" -> {"H"} [] OTHER -> {})
            ELSE (CASE stage["c"] = "hello" -> {"I"} [] stage["c"] = "gotSH" -> {"H"}
                    [] stage["c"] = "complete" -> {"A"} [] OTHER -> {})
\* x can still send what its peer is waiting for, unless x has not reached the point of producing it
DiscardedKeysNotNeeded == \A x \in Ends : Needs(x) \cap gone[x] = {}
NoUseAfterDiscard == \A x \in Ends : keys[x] \cap gone[x] = {}
Completes == <>(stage["c"] = "confirmed" /\ stage["s"] = "confirmed")
=============================================================================
