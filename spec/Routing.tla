------------------------------ MODULE Routing ------------------------------
(***************************************************************************)
(* Datagram routing of one endpoint (property C09).                        *)
(*                                                                         *)
(* The endpoint owns a slab of connection handles (lowest free slot is     *)
(* reused first) and an index from connection ID to handle; a connection   *)
(* owns the set of IDs it has issued and not yet retired.  IDs come from a *)
(* small pool so that identifiers, like handles, are reused after they are *)
(* released.  Route(cid) is what Endpoint::handle does with a datagram.    *)
(***************************************************************************)
EXTENDS Naturals, FiniteSets

CONSTANTS Cids,        \* pool of connection IDs
          Handles,     \* 0 .. k-1, slab slots
          MaxUid,      \* connections created during a behaviour
          MaxActive    \* active IDs per connection

Free == 0                         \* uids start at 1
None == 99

VARIABLES slot,      \* handle -> uid occupying it, or Free
          idx,       \* cid -> handle, or None
          active,    \* uid -> set of cids it has issued and not retired
          issuer,    \* cid -> uid that issued it last (history, for the property)
          drained,   \* set of uids that are gone
          nextUid,
          last       \* <<cid, uid handed the datagram>> of the latest Route

rvars == <<slot, idx, active, issuer, drained, nextUid, last>>

Uids == 1 .. MaxUid
HandleOf(u) == CHOOSE h \in Handles : slot[h] = u
Live(u) == \E h \in Handles : slot[h] = u
Unused(c) == idx[c] = None

RInit ==
  /\ slot = [h \in Handles |-> Free]
  /\ idx = [c \in Cids |-> None]
  /\ active = [u \in Uids |-> {}]
  /\ issuer = [c \in Cids |-> Free]
  /\ drained = {}
  /\ nextUid = 1
  /\ last = <<None, Free>>

\* Endpoint::connect / accept: lowest free slot, first ID
NewConn(c) ==
  /\ nextUid <= MaxUid
  /\ \E h \in Handles : slot[h] = Free
  /\ Unused(c)
  /\ LET h == CHOOSE x \in Handles : slot[x] = Free /\ \A y \in Handles : slot[y] = Free => x <= y
         u == nextUid
     IN /\ slot' = [slot EXCEPT ![h] = u]
        /\ idx' = [idx EXCEPT ![c] = h]
        /\ active' = [active EXCEPT ![u] = {c}]
        /\ issuer' = [issuer EXCEPT ![c] = u]
        /\ nextUid' = u + 1
  /\ UNCHANGED <<drained, last>>

\* NeedIdentifiers -> NewIdentifiers
Issue(u, c) ==
  /\ Live(u) /\ Unused(c) /\ Cardinality(active[u]) < MaxActive
  /\ idx' = [idx EXCEPT ![c] = HandleOf(u)]
  /\ active' = [active EXCEPT ![u] = @ \cup {c}]
  /\ issuer' = [issuer EXCEPT ![c] = u]
  /\ UNCHANGED <<slot, drained, nextUid, last>>

\* RETIRE_CONNECTION_ID processed -> RetireConnectionId endpoint event
Retire(u, c) ==
  /\ Live(u) /\ c \in active[u]
  /\ idx' = [idx EXCEPT ![c] = None]
  /\ active' = [active EXCEPT ![u] = @ \ {c}]
  /\ UNCHANGED <<slot, issuer, drained, nextUid, last>>

\* EndpointEvent::Drained: every key of the connection leaves the index, the slot is released
Drain(u) ==
  /\ Live(u)
  /\ idx' = [c \in Cids |-> IF c \in active[u] THEN None ELSE idx[c]]
  /\ slot' = [slot EXCEPT ![HandleOf(u)] = Free]
  /\ active' = [active EXCEPT ![u] = {}]
  /\ drained' = drained \cup {u}
  /\ UNCHANGED <<issuer, nextUid, last>>

\* Endpoint::handle for a datagram whose destination ID is c
Route(c) ==
  /\ last' = <<c, IF idx[c] = None THEN Free ELSE slot[idx[c]]>>
  /\ UNCHANGED <<slot, idx, active, issuer, drained, nextUid>>

RNext ==
  \/ \E c \in Cids : NewConn(c) \/ Route(c)
  \/ \E u \in Uids, c \in Cids : Issue(u, c) \/ Retire(u, c)
  \/ \E u \in Uids : Drain(u)

RSpec == RInit /\ [][RNext]_rvars

\* ---- properties -----------------------------------------------------------------------------
\* a datagram is handed to the connection that issued its destination ID and to no other
RoutedToIssuer ==
  [][last' # last => (last'[2] # Free => (issuer[last'[1]] = last'[2] /\ last'[2] \notin drained))]_rvars
\* every index entry names a live connection that owns the key
TableConsistent == \A c \in Cids : idx[c] # None => (slot[idx[c]] # Free /\ c \in active[slot[idx[c]]])
\* every active ID of a live connection is routed to it
ActiveIndexed == \A u \in Uids : Live(u) => \A c \in active[u] : idx[c] = HandleOf(u)
\* connections never share an ID; a drained connection owns nothing; a reused slot inherits nothing
Disjoint == \A u, v \in Uids : u # v => active[u] \cap active[v] = {}
DrainedOwnsNothing == \A u \in drained : active[u] = {} /\ ~Live(u)
=============================================================================
