--------------------------- MODULE MigrationTrace ---------------------------
(***************************************************************************)
(* Trace validation for C15.  Every connection of a run is followed        *)
(* through the actions of Migration.tla using the path state reported by   *)
(* the probe before and after each call into the library:                  *)
(*   Rx    Migration!Recv / Respond: the path may move only on an          *)
(*         authenticated, non-probing, new-highest packet, only on a       *)
(*         server that permits migration; a new path starts unvalidated    *)
(*         with a challenge outstanding and a deadline within three probe  *)
(*         timeouts; it becomes validated only by a PATH_RESPONSE from     *)
(*         that address carrying a token the connection sent there;        *)
(*         clients and servers with migration disabled are unchanged by    *)
(*         anything from another address                                   *)
(*   Tick  Migration!Expire: the only other way the path changes is back   *)
(*         to the previous path, not before the deadline, and not (much)   *)
(*         after it                                                        *)
(*   Tx    destinations are the current path, the previous path being      *)
(*         probed, or an address an authenticated challenge came from      *)
(*   End   the server ends up, validated, where the client really is       *)
(***************************************************************************)
EXTENDS Naturals, Integers, Sequences, FiniteSets, TLC, Json, IOUtils

Rec == ndJsonDeserialize(IOEnv.TRACE)
N == Len(Rec)
VARIABLES l, bad, mig, late, srv, peer, chalSent, chalFrom, deadline, cli, cur
vars == <<l, bad, mig, late, srv, peer, chalSent, chalFrom, deadline, cli, cur>>
e == Rec[l]
Is(k) == l <= N /\ e.ev = k
Flag(c, name) == IF c THEN {} ELSE {name}
At(f, a, d) == IF a \in DOMAIN f THEN f[a] ELSE d
Set(f, a, v) == IF a \in DOMAIN f THEN [f EXCEPT ![a] = v] ELSE f @@ (a :> v)
ToSet(s) == {s[i] : i \in 1 .. Len(s)}
Slack == 5000

TInit == /\ l = 1 /\ bad = {} /\ mig = TRUE /\ late = 0 /\ srv = <<>> /\ peer = <<>> /\ chalSent = {}
         /\ chalFrom = {} /\ deadline = <<>> /\ cli = <<>> /\ cur = <<0>>

Reset == /\ Is("Reset") /\ bad' = {} /\ mig' = e.migration /\ late' = e.late /\ srv' = <<>> /\ peer' = <<>>
         /\ chalSent' = {} /\ chalFrom' = {} /\ deadline' = <<>> /\ cli' = <<>> /\ cur' = <<e.run>> /\ l' = l + 1

Conn == /\ Is("Conn")
        /\ srv' = Set(srv, e.uid, e.srv) /\ peer' = Set(peer, e.uid, e.peer)
        /\ cli' = IF e.srv /\ e.peer \notin DOMAIN cli THEN Set(cli, e.peer, e.p.rem) ELSE cli
        /\ deadline' = Set(deadline, e.uid, 0)
        /\ bad' = bad /\ l' = l + 1 /\ UNCHANGED <<mig, late, chalSent, chalFrom, cur>>

MayMigrate(u) == At(srv, u, FALSE) /\ mig

\* the validation period of connection u is over and the path is still where it was
Overdue(u, t) == At(deadline, u, 0) # 0 /\ t > At(deadline, u, 0) + late + Slack

Rx ==
  /\ Is("Rx")
  /\ LET u == e.uid
         moved == e.post.rem # e.pre.rem
         validatedNow == e.post.val /\ ~e.pre.val /\ ~moved
     IN
       /\ bad' = bad
            \cup Flag(moved => (MayMigrate(u) /\ e.src = e.post.rem /\ e.authed /\ e.hi /\ e.nonprobing),
                      "MigratedOnIneligiblePacket")
            \cup Flag((~MayMigrate(u) /\ e.src # e.pre.rem) => e.same, "ForeignAddressChangedState")
            \cup Flag(validatedNow => (e.src = e.post.rem
                                       /\ (\/ \E i \in 1 .. Len(e.resp) : <<u, e.post.rem, e.resp[i]>> \in chalSent
                                           \* during the handshake: a Handshake packet from the address
                                           \/ (e.hs /\ e.authed))),
                      "ValidatedWithoutMatchingResponse")
            \cup Flag((moved /\ ~e.closed) => (e.post.chal /\ ~e.post.val /\ e.post.prem # 0 /\ e.post.pv # -1
                                               /\ e.post.pv <= e.t + e.pto3 + Slack),
                      "NewPathWithoutChallengeOrDeadline")
            \cup Flag(~Overdue(u, e.t) \/ e.closed, "NoRevertAfterFailedValidation")
       /\ deadline' = IF moved THEN Set(deadline, u, e.post.pv)
                      ELSE IF validatedNow \/ e.closed THEN Set(deadline, u, 0) ELSE deadline
       /\ chalFrom' = IF e.authed /\ Len(e.chal) > 0 THEN chalFrom \cup {<<u, e.src>>} ELSE chalFrom
  /\ l' = l + 1 /\ UNCHANGED <<mig, late, srv, peer, chalSent, cli, cur>>

Tick ==
  /\ Is("Tick")
  /\ LET u == e.uid
         moved == e.post.rem # e.pre.rem
     IN
       /\ bad' = bad
            \cup Flag(moved => (e.post.rem = e.pre.prem /\ ~e.pre.val /\ e.pre.pv # -1 /\ e.t >= e.pre.pv),
                      "PathChangedByTimerWronglyOrEarly")
            \cup Flag(~Overdue(u, e.t) \/ moved \/ (e.pre.chal /\ ~e.post.chal) \/ ~e.post.chal,
                      "NoRevertAfterFailedValidation")
       /\ deadline' = IF moved \/ ~e.post.chal THEN Set(deadline, u, 0) ELSE deadline
  /\ l' = l + 1 /\ UNCHANGED <<mig, late, srv, peer, chalSent, chalFrom, cli, cur>>

Tx ==
  /\ Is("Tx")
  /\ LET u == e.uid
         allowed == {e.post.rem} \cup (IF e.post.prem # 0 THEN {e.post.prem} ELSE {})
                    \cup (IF MayMigrate(u) THEN {x[2] : x \in {y \in chalFrom : y[1] = u}} ELSE {})
     IN
       /\ bad' = bad \cup Flag(e.dst \in allowed, "SentToForeignAddress")
       /\ chalSent' = chalSent \cup {<<u, e.dst, e.chal[i]>> : i \in 1 .. Len(e.chal)}
  /\ l' = l + 1 /\ UNCHANGED <<mig, late, srv, peer, chalFrom, deadline, cli, cur>>

Move == /\ Is("Move") /\ cli' = Set(cli, e.n, e.new) /\ bad' = bad /\ l' = l + 1
        /\ UNCHANGED <<mig, late, srv, peer, chalSent, chalFrom, deadline, cur>>

End ==
  /\ Is("End")
  /\ bad' = bad \cup UNION { LET x == e.conns[i] IN
                             IF At(srv, x.uid, FALSE) /\ mig /\ ~x.lost /\ ~x.drained /\ x.st = 1
                               THEN Flag(x.rem = At(cli, At(peer, x.uid, -1), 0) /\ x.val, "ServerNotOnClientsValidatedPath")
                               ELSE {}
                             : i \in 1 .. Len(e.conns) }
  /\ l' = l + 1 /\ UNCHANGED <<mig, late, srv, peer, chalSent, chalFrom, deadline, cli, cur>>

TNext == Reset \/ Conn \/ Rx \/ Tick \/ Tx \/ Move \/ End
TraceSpec == TInit /\ [][TNext]_vars
Watch == TLCSet(1, <<l, bad, cur>>) /\ bad = {}
TraceAccepted ==
  LET r == TLCGet(1) d == TLCGet("stats").diameter IN
  IF r[2] # {} THEN Print(<<"VIOLATION", r[2], "line", r[1] - 1, "run", r[3]>>, FALSE)
  ELSE IF d - 1 # N THEN Print(<<"UNMATCHED", "line", d, "run", r[3]>>, FALSE)
  ELSE TRUE
=============================================================================
