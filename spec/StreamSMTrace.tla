--------------------------- MODULE StreamSMTrace ---------------------------
(***************************************************************************)
(* Trace validation for C11.  For every stream half the abstract state of  *)
(* StreamSMOps is reconstructed from what is observable: results of the    *)
(* application's own calls, control frames that were delivered to and      *)
(* processed by the connection (STOP_SENDING, FIN, RESET_STREAM) and the   *)
(* events the connection emitted.  Every operation result must be in the   *)
(* result set the table gives for that state; events and MAX_STREAMS       *)
(* credit must agree with the states.                                      *)
(***************************************************************************)
EXTENDS StreamSMOps, Sequences, TLC, Json, IOUtils

Rec == ndJsonDeserialize(IOEnv.TRACE)
N == Len(Rec)

VARIABLES l, bad, snd, rcv, used, opened, acc, init, adv, cur
vars == <<l, bad, snd, rcv, used, opened, acc, init, adv, cur>>

e == Rec[l]
Is(k) == l <= N /\ e.ev = k
Flag(c, name) == IF c THEN {} ELSE {name}
Max(a, b) == IF a >= b THEN a ELSE b
Other(s) == IF s = "c" THEN "s" ELSE "c"
At(f, a, d) == IF a \in DOMAIN f THEN f[a] ELSE d
Set(f, a, v) == IF a \in DOMAIN f THEN [f EXCEPT ![a] = v] ELSE f @@ (a :> v)

Initiator(id) == IF id % 2 = 0 THEN "c" ELSE "s"
IsUni(id) == (id \div 2) % 2 = 1
Index(id) == id \div 4
TypeOf(id) == id % 4

\* per half extra bookkeeping on top of StreamSMOps' records
SF == [fin |-> FALSE, rst |-> FALSE, stop |-> -1, freed |-> FALSE, finDelivered |-> FALSE,
       finishedEv |-> 0, stoppedEv |-> 0]
RF == [term |-> "none", stopped |-> FALSE, finArr |-> FALSE, rstArr |-> -1, unord |-> FALSE, dataArr |-> FALSE]
S(k) == At(snd, k, SF)
R(k) == At(rcv, k, RF)

\* MAX_STREAMS credit: only for remote streams whose both halves the application has terminated
Terminated(sd, ty) ==
  {id \in {k[2] : k \in (DOMAIN rcv) \cup (DOMAIN snd)} :
     /\ TypeOf(id) = ty
     /\ (R(<<sd, id>>).term # "none" \/ R(<<sd, id>>).stopped)
     /\ (IsUni(id) \/ S(<<sd, id>>).fin \/ S(<<sd, id>>).rst)}

\* does side s have state for stream id?  Locally initiated: once opened.  Remotely initiated:
\* every stream the peer is currently allowed to open (quinn pre-allocates those).
Allowed(s, id) == Max(At(init, <<s, IF IsUni(id) THEN 1 ELSE 0>>, 0), At(adv, <<s, IF IsUni(id) THEN 1 ELSE 0>>, 0))
Known(s, id) ==
  IF Initiator(id) = s THEN <<s, id>> \in opened
  ELSE Index(id) < Allowed(s, id)

\* credit for a terminated remote stream is released (and the next remote stream allocated) before
\* the MAX_STREAMS frame is on the wire: in that window nothing is demanded
Unsure(s, id) ==
  /\ Initiator(id) # s /\ ~Known(s, id)
  /\ Index(id) < At(init, <<s, IF IsUni(id) THEN 1 ELSE 0>>, 0) + Cardinality(Terminated(s, TypeOf(id)))

\* once reset, the half may already have been freed by the acknowledgement of the RESET_STREAM
WithFreed(s, T(_)) == T(s) \cup (IF s.rst THEN T([s EXCEPT !.freed = TRUE]) ELSE {})

TInit == /\ l = 1 /\ bad = {} /\ snd = <<>> /\ rcv = <<>> /\ used = <<>> /\ opened = {} /\ acc = <<>>
         /\ init = <<>> /\ adv = <<>> /\ cur = <<0>>
Reset == /\ Is("Reset") /\ snd' = <<>> /\ rcv' = <<>> /\ used' = <<>> /\ opened' = {} /\ acc' = <<>>
         /\ init' = <<>> /\ adv' = <<>> /\ bad' = {} /\ cur' = <<e.run>> /\ l' = l + 1

Init == /\ Is("Init") /\ init' = Set(Set(init, <<e.side, 0>>, e.msb), <<e.side, 1>>, e.msu)
        /\ l' = l + 1 /\ UNCHANGED <<bad, snd, rcv, used, opened, acc, adv, cur>>

Op ==
  /\ Is("Op")
  /\ LET k == <<e.side, e.id>>
         s == S(k)
         r == R(k)
         known == Known(e.side, e.id)
         unsure == e.id >= 0 /\ Unsure(e.side, e.id)
         sOps == [fin |-> s.fin, rst |-> s.rst, stop |-> s.stop, freed |-> s.freed]
         rOps == [term |-> r.term, stopped |-> r.stopped]
     IN
     CASE e.op = "write" ->
            /\ bad' = bad \cup Flag(e.closed \/ unsure \/ (IF known THEN e.res \in WithFreed(sOps, WriteResults) ELSE e.res = "ClosedStream"),
                                    "WriteResultNotInTable")
                          \cup Flag(e.res = "Stopped" => e.code = s.stop, "WrongStopCode")
            /\ UNCHANGED <<snd, rcv, opened, acc>>
       [] e.op = "finish" ->
            /\ bad' = bad \cup Flag(unsure \/ (IF known THEN e.res \in WithFreed(sOps, FinishResults) ELSE e.res = "ClosedStream"),
                                    "FinishResultNotInTable")
                          \cup Flag(e.res = "Stopped" => e.code = s.stop, "WrongStopCode")
            /\ snd' = IF e.res = "Ok" THEN Set(snd, k, [s EXCEPT !.fin = TRUE]) ELSE snd
            /\ UNCHANGED <<rcv, opened, acc>>
       [] e.op = "reset" ->
            \* a reset half may already have been freed by the acknowledgement of the reset
            /\ bad' = bad \cup Flag(unsure \/ (IF known THEN e.res \in WithFreed(sOps, ResetResults) ELSE e.res = "ClosedStream"),
                                    "ResetResultNotInTable")
            /\ snd' = IF e.res = "Ok" THEN Set(snd, k, [s EXCEPT !.rst = TRUE]) ELSE snd
            /\ UNCHANGED <<rcv, opened, acc>>
       [] e.op = "stopped" ->
            /\ bad' = bad \cup Flag(unsure \/ (IF ~known THEN e.res = "ClosedStream"
                                    ELSE e.res \in WithFreed(sOps, StoppedResults)),
                                    "StoppedResultNotInTable")
                          \cup Flag(e.res = "Some" => e.code = s.stop, "WrongStopCode")
            /\ UNCHANGED <<snd, rcv, opened, acc>>
       [] e.op = "read" ->
            \* an ordered read (arg 1) of a half that has been read unordered (arg 0) is refused and
            \* changes nothing; it is the only way to get that answer
            /\ LET tab == ReadResults(rOps)
                   refused == e.arg = 1 /\ r.unord /\ "ClosedStream" \notin tab
               IN bad' = bad \cup Flag(unsure \/ (IF known THEN (IF refused THEN e.res = "IllegalOrderedRead" ELSE e.res \in tab)
                                                    ELSE e.res = "ClosedStream"),
                                       "ReadResultNotInTable")
                          \cup Flag(e.res = "Finished" => r.finArr, "EndOfStreamWithoutFin")
                          \* the end is reported by the read that delivers the last byte below the final size,
                          \* not as soon as the final size is known
                          \cup Flag((e.res = "Finished" /\ e.br0 # -1) => (e.fs0 # -1 /\ e.br0 + e.tot = e.fs0),
                                    "EndOfStreamBeforeAllData")
                          \cup Flag(e.res = "Reset" => r.rstArr = e.code, "ResetOutcomeWithoutReset")
            /\ rcv' = IF e.res = "Finished" THEN Set(rcv, k, [r EXCEPT !.term = "eos"])
                      ELSE IF e.res = "Reset" THEN Set(rcv, k, [r EXCEPT !.term = "rst"])
                      ELSE IF e.arg = 0 /\ e.res \notin {"ClosedStream", "IllegalOrderedRead"} THEN Set(rcv, k, [r EXCEPT !.unord = TRUE])
                      ELSE rcv
            /\ UNCHANGED <<snd, opened, acc>>
       [] e.op = "stop" ->
            /\ bad' = bad \cup Flag(unsure \/ (IF known THEN e.res \in StopResults(rOps) ELSE e.res = "ClosedStream"),
                                    "StopResultNotInTable")
            /\ rcv' = IF e.res = "Ok" THEN Set(rcv, k, [r EXCEPT !.stopped = TRUE]) ELSE rcv
            /\ UNCHANGED <<snd, opened, acc>>
       [] e.op = "received_reset" ->
            /\ bad' = bad \cup Flag(unsure \/ (IF known THEN e.res \in ReceivedResetResults(rOps) ELSE e.res = "ClosedStream"),
                                    "ReceivedResetResultNotInTable")
                          \cup Flag(e.res = "Some" => r.rstArr = e.code, "ResetOutcomeWithoutReset")
            /\ rcv' = IF e.res = "Some" THEN Set(rcv, k, [r EXCEPT !.term = "rst"]) ELSE rcv
            /\ UNCHANGED <<snd, opened, acc>>
       [] e.op = "open" ->
            /\ bad' = bad \cup Flag(e.res = "Some" => (Initiator(e.id) = e.side /\ IsUni(e.id) = (e.arg = 1)
                                                         /\ <<e.side, e.id>> \notin opened), "OpenReturnedWrongId")
            /\ opened' = IF e.res = "Some" THEN opened \cup {<<e.side, e.id>>} ELSE opened
            /\ UNCHANGED <<snd, rcv, acc>>
       [] e.op = "accept" ->
            LET a == <<e.side, e.arg>>
                nxt == At(acc, a, 0)
                ty == (IF e.side = "c" THEN 1 ELSE 0) + 2 * e.arg   \* type bits of the peer's streams
            IN
            /\ bad' = bad \cup Flag(e.res = "Some" => (TypeOf(e.id) = ty /\ Index(e.id) = nxt
                                                         /\ At(used, <<e.side, ty>>, -1) >= nxt),
                                    "AcceptedStreamThePeerNeverUsed")
            /\ acc' = IF e.res = "Some" THEN Set(acc, a, nxt + 1) ELSE acc
            /\ UNCHANGED <<snd, rcv, opened>>
  /\ l' = l + 1 /\ UNCHANGED <<used, init, adv, cur>>

\* control frames that were delivered to and processed by side e.side
RECURSIVE ApplyArr(_, _, _, _, _, _)
ApplyArr(fr, k, sn, rc, us, sd) ==
  IF k = 0 THEN <<sn, rc, us>>
  ELSE LET f == fr[k]
           key == <<sd, f.id>>
           pk == <<Other(sd), f.id>>
           us2 == IF Initiator(f.id) # sd
                  THEN Set(us, <<sd, TypeOf(f.id)>>, Max(At(us, <<sd, TypeOf(f.id)>>, -1), Index(f.id)))
                  ELSE us
           sn2 == IF f.k = "stop" /\ ~At(sn, key, SF).freed /\ At(sn, key, SF).stop = -1
                  THEN Set(sn, key, [At(sn, key, SF) EXCEPT !.stop = f.code])
                  ELSE IF f.k = "fin" THEN Set(sn, pk, [At(sn, pk, SF) EXCEPT !.finDelivered = TRUE])
                  ELSE sn
           rc2 == IF f.k = "fin" THEN Set(rc, key, [At(rc, key, RF) EXCEPT !.finArr = TRUE])
                  ELSE IF f.k = "data" THEN Set(rc, key, [At(rc, key, RF) EXCEPT !.dataArr = TRUE])
                  ELSE IF f.k = "rst" /\ At(rc, key, RF).rstArr = -1
                       THEN Set(rc, key, [At(rc, key, RF) EXCEPT !.rstArr = f.code])
                  ELSE rc
       IN ApplyArr(fr, k - 1, sn2, rc2, us2, sd)

Arr ==
  /\ Is("Arr")
  /\ LET r == ApplyArr(e.fr, Len(e.fr), snd, rcv, used, e.side) IN
       snd' = r[1] /\ rcv' = r[2] /\ used' = r[3]
  /\ l' = l + 1 /\ UNCHANGED <<bad, opened, acc, init, adv, cur>>

AppEv ==
  /\ Is("AppEv")
  /\ LET k == <<e.side, e.id>>
         s == S(k)
     IN
     CASE e.k = "Finished" ->
            /\ bad' = bad \cup Flag(s.fin /\ ~s.rst, "FinishedWithoutFinish")
                          \cup Flag(s.finishedEv = 0, "FinishedTwice")
                          \cup Flag(s.finDelivered, "FinishedBeforeFinDelivered")
            /\ snd' = Set(snd, k, [s EXCEPT !.finishedEv = @ + 1, !.freed = TRUE])
       [] e.k = "Stopped" ->
            /\ bad' = bad \cup Flag(s.stop = e.code /\ e.code # -1, "StoppedWithoutStopSending")
                          \cup Flag(s.stoppedEv = 0, "StoppedTwice")
            /\ snd' = Set(snd, k, [s EXCEPT !.stoppedEv = @ + 1])
       [] e.k \in {"Readable", "Writable"} ->
            /\ bad' = bad \cup Flag(Known(e.side, e.id), "EventForUnknownStream")
                          \* Readable: the peer has sent something on that stream - data, its end or a reset
                          \* (credit for OUR sending half is not it)
                          \cup Flag(e.k = "Readable" => (R(k).dataArr \/ R(k).finArr \/ R(k).rstArr # -1),
                                    "ReadableWithoutPeerData")
            /\ UNCHANGED snd
       [] OTHER -> UNCHANGED <<bad, snd>>
  /\ l' = l + 1 /\ UNCHANGED <<rcv, used, opened, acc, init, adv, cur>>

MaxStreams ==
  /\ Is("MaxStreams")
  /\ LET ty == (IF e.side = "c" THEN 1 ELSE 0) + (IF e.uni THEN 2 ELSE 0)
         base == At(init, <<e.side, IF e.uni THEN 1 ELSE 0>>, 0)
     IN bad' = bad \cup Flag(e.v <= base + Cardinality(Terminated(e.side, ty)),
                             "StreamCreditReleasedBeforeBothHalvesTerminal")
  /\ adv' = Set(adv, <<e.side, IF e.uni THEN 1 ELSE 0>>, Max(At(adv, <<e.side, IF e.uni THEN 1 ELSE 0>>, 0), e.v))
  /\ l' = l + 1 /\ UNCHANGED <<snd, rcv, used, opened, acc, init, cur>>

TNext == Reset \/ Init \/ Op \/ Arr \/ AppEv \/ MaxStreams
TraceSpec == TInit /\ [][TNext]_vars
Watch == TLCSet(1, <<l, bad, cur>>) /\ bad = {}
TraceAccepted ==
  LET r == TLCGet(1) d == TLCGet("stats").diameter IN
  IF r[2] # {} THEN Print(<<"VIOLATION", r[2], "line", r[1] - 1, "run", r[3]>>, FALSE)
  ELSE IF d - 1 # N THEN Print(<<"UNMATCHED", "line", d, "run", r[3]>>, FALSE)
  ELSE TRUE
=============================================================================
