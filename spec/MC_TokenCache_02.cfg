CONSTANT Servers = {1, 2, 3}
CONSTANT MaxTok = 6
CONSTANT S = 0
CONSTANT P = 2
SPECIFICATION Spec
INVARIANT AtMostOnce
INVARIANT OwnServerOnly
INVARIANT OldestFirst
INVARIANT Capacity
INVARIANT ZeroNeverReturns
INVARIANT Disjoint
INVARIANT NewestKept
CHECK_DEADLOCK FALSE
