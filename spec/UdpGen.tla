------------------------------- MODULE UdpGen -------------------------------
(***************************************************************************)
(* C19 case generator.  The space of transmit descriptors the property     *)
(* quantifies over is a bounded product; TLC enumerates it exhaustively    *)
(* (every initial state is one descriptor, printed as JSON), the check     *)
(* turns every descriptor into concrete transmits for qv-udp.              *)
(*   path  sender socket > receiver socket : destination kind              *)
(*   seg   segment size                 cnt  number of segments (clamped   *)
(*         by the check to max_gso_segments() and the largest UDP payload) *)
(*   tail  "full": last segment full, "one": 1 byte, "m1": seg - 1 bytes   *)
(*   ecn   0 none, 2 ECT(0), 1 ECT(1), 3 CE                                *)
(*   src   Transmit.src_ip: none, own address, alternate loopback address  *)
(* InitLens enumerates single datagrams of every listed length with the    *)
(* three ways to say "one datagram": no segment size, equal, larger.       *)
(***************************************************************************)
EXTENDS Naturals, TLC, Json
CONSTANTS Paths, AltPaths, Segs, Counts, Tails, Ecns, Srcs, Lens, Forms
VARIABLE c

\* descriptors that denote the same transmit twice are left out
Shape(x) == /\ (x.seg = 1 => x.tail = "full")
            /\ (x.seg = 2 => x.tail # "m1")
            /\ (x.src = "alt" => x.path \in AltPaths)
InitShapes == c \in {x \in [kind : {"shape"}, path : Paths, seg : Segs, cnt : Counts, tail : Tails,
                                ecn : Ecns, src : Srcs] : Shape(x)}
InitLens == c \in {x \in [kind : {"len"}, path : Paths, len : Lens, form : Forms, ecn : Ecns, src : Srcs] :
                     x.src = "alt" => x.path \in AltPaths}
Next == UNCHANGED c
Emit == PrintT(<<"GEN", ToJson(c)>>)
=============================================================================
