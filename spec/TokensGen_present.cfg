CONSTANT Table = "present"
