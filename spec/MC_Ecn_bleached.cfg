CONSTANT MaxPkts = 4
CONSTANT Bleach = FALSE
CONSTANT Rewrite = FALSE
CONSTANT AllBleached = TRUE
CONSTANT CountDuplicates = FALSE
SPECIFICATION ESpec
INVARIANT BleachedPathGivesUp
INVARIANT SignalsAreReal
INVARIANT CeSeenOnce
INVARIANT ReportsAreExact
CHECK_DEADLOCK FALSE
