SPECIFICATION Spec
CONSTANT Lens = {2, 10}
CONSTANT SendBuf = 12
CONSTANT RecvBuf = 12
CONSTANT PeerLimit = 21
CONSTANT Mtus = {32, 40}
CONSTANT Cid = 0
CONSTANT MaxDg = 3
CONSTANT MaxPkts = 3
CONSTANT Bug = "none"
INVARIANT Accounting
INVARIANT Bounded
INVARIANT Intact
INVARIANT AtMostOnce
INVARIANT Whole
INVARIANT SendFifo
INVARIANT OldestFirst
INVARIANT Admission
INVARIANT MaxSafe
INVARIANT WireSafe
INVARIANT NoWedge
INVARIANT Unblocking
PROPERTY Released
CHECK_DEADLOCK FALSE
