----------------------------- MODULE MC_ZeroRtt -----------------------------
(* Model-checking constants for ZeroRtt (records cannot be written in a cfg) *)
EXTENDS ZeroRtt
MCRem == [ms |-> 1, md |-> 1]
\* equal, larger and smaller than remembered
MCNews == {[ms |-> 1, md |-> 1], [ms |-> 2, md |-> 2], [ms |-> 0, md |-> 1], [ms |-> 2, md |-> 0]}
\* second configuration (thorough tier): one stream of two units, two losses
MCRem2 == [ms |-> 1, md |-> 2]
MCNews2 == {[ms |-> 1, md |-> 2], [ms |-> 1, md |-> 3], [ms |-> 1, md |-> 1]}
=============================================================================
