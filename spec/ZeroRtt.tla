------------------------------- MODULE ZeroRtt -------------------------------
(***************************************************************************)
(* Design model for C17: 0-RTT data is delivered once if accepted and      *)
(* vanishes if rejected.                                                   *)
(*                                                                         *)
(* A client holding a session ticket (remembered limits Rem) opens         *)
(* streams, writes and finishes before the handshake completes.  Every     *)
(* unit of stream data (and every FIN) travels in its own packet, sent as  *)
(* soon as the application hands it over: 0-RTT ("Z") while the handshake  *)
(* is running, 1-RTT ("S") afterwards.  The network loses, duplicates and  *)
(* reorders packets (the set `net`).  The server may answer the first      *)
(* Initial with a Retry (the client then sends everything again towards    *)
(* the new connection ID), keeps 0-RTT packets that arrive between the     *)
(* Initial and the application's accept decision in a buffer, drops those  *)
(* that arrive earlier, and decides to accept or reject early data.  On    *)
(* acceptance units whose packets are gone are sent again in 1-RTT packets *)
(* and the receiver deduplicates by packet and by offset; with limits      *)
(* smaller than the remembered ones the client refuses the connection.  On *)
(* rejection the client forgets every early stream (their handles report   *)
(* the rejection) and continues exactly like a fresh connection: `sh` is a *)
(* shadow connection that starts from the new parameters and takes the     *)
(* same application calls (self-composition).  Acknowledgements are        *)
(* immediate and reliable, the server application reads whatever is        *)
(* contiguous (both without influence on the properties below).            *)
(*                                                                         *)
(* Bug # "none" plants a defect; the MC_ZeroRtt_bug_*.cfg show that the    *)
(* invariants notice each of them.                                         *)
(***************************************************************************)
EXTENDS Naturals, Integers, Sequences, FiniteSets, TLC

CONSTANTS NS,       \* stream slots the application tries to use
          MaxW,     \* data units per stream
          Rem,      \* remembered limits [ms |-> streams, md |-> connection data]
          News,     \* candidate new limits
          MaxLoss, MaxDup, MaxSpur,
          Bug

Streams == 0 .. NS - 1
FIN == MaxW                      \* offset value that marks the FIN unit
Max(a, b) == IF a > b THEN a ELSE b
Data(e, s, o) == [ep |-> e, s |-> s, off |-> o, sz |-> 0]
Fin(e, s, z) == [ep |-> e, s |-> s, off |-> FIN, sz |-> z]

VARIABLES
  dec, new, useRetry,                      \* environment choices, fixed at Init
  cst, attempt, ep, cnext, cw, cfin, cmaxs, cmd, cds, infl, rejd, opened0,
  net,
  sst, sat, sbuf, zkeys, seen, rb, sfin, sacked, dlog, ddup,
  sh,
  losses, dups, spurs

cvars == <<cst, attempt, ep, cnext, cw, cfin, cmaxs, cmd, cds, infl, rejd, opened0>>
svars == <<sst, sat, sbuf, zkeys, seen, rb, sfin, sacked, dlog, ddup>>
evars == <<dec, new, useRetry>>
budgets == <<losses, dups, spurs>>
vars == <<evars, cvars, net, svars, sh, budgets>>

Incompat == new.ms < Rem.ms \/ new.md < Rem.md
FreshView(p) == [next |-> 0, cw |-> [s \in Streams |-> 0], cfin |-> [s \in Streams |-> FALSE],
                 maxs |-> p.ms, md |-> p.md, ds |-> 0]
View == [next |-> cnext, cw |-> cw, cfin |-> cfin, maxs |-> cmaxs, md |-> cmd, ds |-> cds]

Init ==
  /\ dec \in {"accept", "reject"} /\ new \in News /\ useRetry \in BOOLEAN
  /\ cst = "early" /\ attempt = 0 /\ ep = 0 /\ cnext = 0
  /\ cw = [s \in Streams |-> 0] /\ cfin = [s \in Streams |-> FALSE]
  /\ cmaxs = Rem.ms /\ cmd = Rem.md /\ cds = 0 /\ infl = {} /\ rejd = {} /\ opened0 = {}
  /\ net = {[ty |-> "I", at |-> 0]}
  /\ sst = "idle" /\ sat = 0 /\ sbuf = {} /\ zkeys = FALSE /\ seen = {}
  /\ rb = [s \in Streams |-> <<>>] /\ sfin = [s \in Streams |-> -1]
  /\ sacked = {} /\ dlog = {} /\ ddup = {}
  /\ sh = FreshView(Rem)
  /\ losses = 0 /\ dups = 0 /\ spurs = 0

Active == cst \in {"early", "est"}

\* --------------------------------------------------------------------------------------------
\* application calls on the client (before and after the handshake); after a rejection the shadow
\* connection takes the same call

Open ==
  /\ Active /\ cnext < cmaxs /\ cnext < NS
  /\ cnext' = cnext + 1
  /\ opened0' = IF ep = 0 /\ cst = "early" THEN opened0 \cup {cnext} ELSE opened0
  /\ sh' = IF ep = 1 THEN [sh EXCEPT !.next = @ + 1] ELSE sh
  /\ UNCHANGED <<evars, cst, attempt, ep, cw, cfin, cmaxs, cmd, cds, infl, rejd, net, svars, budgets>>

\* a unit handed over by the application is transmitted at once: in a 0-RTT packet while the
\* handshake is running, in a 1-RTT packet afterwards
Pkt(u) == [ty |-> IF cst = "early" THEN "Z" ELSE "S", at |-> attempt, u |-> u]

Write(s) ==
  /\ Active /\ s = cnext - 1 /\ ~cfin[s] /\ cw[s] < MaxW /\ cds < cmd
  /\ infl' = infl \cup {Data(ep, s, cw[s])} /\ net' = net \cup {Pkt(Data(ep, s, cw[s]))}
  /\ cw' = [cw EXCEPT ![s] = @ + 1] /\ cds' = cds + 1
  /\ sh' = IF ep = 1 THEN [sh EXCEPT !.cw[s] = @ + 1, !.ds = @ + 1] ELSE sh
  /\ UNCHANGED <<evars, cst, attempt, ep, cnext, cfin, cmaxs, cmd, rejd, opened0, svars, budgets>>

Finish(s) ==
  /\ Active /\ s = cnext - 1 /\ ~cfin[s]
  /\ infl' = infl \cup {Fin(ep, s, cw[s])} /\ net' = net \cup {Pkt(Fin(ep, s, cw[s]))}
  /\ cfin' = [cfin EXCEPT ![s] = TRUE]
  /\ sh' = IF ep = 1 THEN [sh EXCEPT !.cfin[s] = TRUE] ELSE sh
  /\ UNCHANGED <<evars, cst, attempt, ep, cnext, cw, cmaxs, cmd, cds, rejd, opened0, svars, budgets>>

\* --------------------------------------------------------------------------------------------
\* client transport

\* a packet is consumed, or (within the duplication budget) delivered and left in the network
Take(p, d) == /\ (d => dups < MaxDup)
              /\ net' = IF d THEN net ELSE net \ {p}
              /\ dups' = IF d THEN dups + 1 ELSE dups

HasData(u) == u.off # FIN \/ u.sz > 0

\* Retry: new Initial towards the new connection ID, everything sent in 0-RTT is sent again
RecvRetry(p, d) ==
  /\ p \in net /\ p.ty = "R"
  /\ d => dups < MaxDup
  /\ dups' = IF d THEN dups + 1 ELSE dups
  /\ IF cst = "early" /\ attempt = 0
     THEN LET again == CASE Bug = "no_requeue_on_retry" -> {}
                         [] Bug = "empty_fin_not_requeued" -> {u \in infl : HasData(u)}
                         [] OTHER -> infl
          IN /\ attempt' = 1
             /\ net' = (IF d THEN net ELSE net \ {p}) \cup {[ty |-> "I", at |-> 1]}
                           \cup {[ty |-> "Z", at |-> 1, u |-> u] : u \in again}
             /\ infl' = again
     ELSE /\ net' = IF d THEN net ELSE net \ {p}
          /\ UNCHANGED <<attempt, infl>>
  /\ UNCHANGED <<evars, cst, ep, cnext, cw, cfin, cmaxs, cmd, cds, rejd, opened0, svars, sh, losses, spurs>>

\* the server's flight completes the handshake at the client: acceptance or rejection of early data
RecvSH(p, d) ==
  /\ p \in net /\ p.ty = "SH" /\ Take(p, d)
  /\ IF cst # "early" \/ p.at # attempt
     THEN UNCHANGED <<cst, ep, cnext, cw, cfin, cmaxs, cmd, cds, infl, rejd, sh>>
     ELSE IF p.dec = "accept"
     THEN \* HandshakeAccepted / RefuseIncompatible
          /\ cst' = IF Incompat /\ Bug # "no_compat_check" THEN "closed" ELSE "est"
          /\ cmaxs' = new.ms /\ cmd' = Max(cmd, new.md)
          /\ UNCHANGED <<ep, cnext, cw, cfin, cds, infl, rejd, sh>>
     ELSE \* Reject: forget the early epoch, restart from the new parameters
          /\ cst' = "est" /\ ep' = 1
          /\ rejd' = IF Bug = "rejection_not_reported" THEN {} ELSE 0 .. cnext - 1
          /\ cnext' = IF Bug = "ids_not_restarted" THEN cnext ELSE 0
          /\ cw' = [s \in Streams |-> 0] /\ cfin' = [s \in Streams |-> FALSE]
          /\ cds' = IF Bug = "data_sent_not_reset" THEN cds ELSE 0
          /\ cmaxs' = new.ms
          /\ cmd' = IF Bug = "stale_max_data" THEN Max(cmd, new.md) ELSE new.md
          /\ infl' = IF Bug = "early_survives_rejection" THEN infl ELSE {}
          /\ sh' = FreshView(new)
  /\ UNCHANGED <<evars, attempt, opened0, svars, losses, spurs>>

\* acknowledgements are reliable and immediate in this abstraction: a unit the server has taken
\* (`sacked`) no longer counts as in flight

\* loss detection after the handshake: a unit whose packets are gone (or, spuriously, any unit in
\* flight) is queued again and travels in a 1-RTT packet
Retransmit(u) ==
  /\ cst = "est" /\ u \in infl /\ u \notin sacked
  /\ LET gone == ~\E p \in net : p.ty \in {"Z", "S"} /\ p.u = u IN
       /\ (gone \/ spurs < MaxSpur)
       /\ spurs' = IF gone THEN spurs ELSE spurs + 1
  /\ net' = net \cup {[ty |-> "S", at |-> attempt, u |-> u]}
  /\ UNCHANGED <<evars, cvars, svars, sh, losses, dups>>

\* probe timeout during the handshake: the Initial of the current attempt again
ResendInitial ==
  /\ cst = "early" /\ spurs < MaxSpur /\ [ty |-> "I", at |-> attempt] \notin net
  /\ net' = net \cup {[ty |-> "I", at |-> attempt]} /\ spurs' = spurs + 1
  /\ UNCHANGED <<evars, cvars, svars, sh, losses, dups>>

\* --------------------------------------------------------------------------------------------
\* server

\* a unit that passed the packet filter: reassembly keeps the first copy of every offset
Insert(rb0, fin0, dl0, dd0, u) ==
  LET have == \E i \in DOMAIN rb0[u.s] : rb0[u.s][i].off = u.off IN
  IF u.off = FIN
  THEN [rb |-> rb0, fin |-> IF fin0[u.s] = -1 THEN [fin0 EXCEPT ![u.s] = u.sz] ELSE fin0,
        dl |-> dl0 \cup {u}, dd |-> IF u \in dl0 /\ Bug = "no_offset_dedup" THEN dd0 \cup {u} ELSE dd0]
  ELSE IF have /\ Bug # "no_offset_dedup" THEN [rb |-> rb0, fin |-> fin0, dl |-> dl0, dd |-> dd0]
  ELSE [rb |-> [rb0 EXCEPT ![u.s] = Append(@, u)], fin |-> fin0, dl |-> dl0 \cup {u},
        dd |-> IF u \in dl0 THEN dd0 \cup {u} ELSE dd0]

Process(p) ==
  IF p \in seen /\ Bug # "no_packet_dedup"
  THEN UNCHANGED <<seen, rb, sfin, dlog, ddup, sacked>>
  ELSE LET r == Insert(rb, sfin, dlog, ddup, p.u) IN
       /\ seen' = seen \cup {p} /\ sacked' = sacked \cup {p.u}
       /\ rb' = r.rb /\ sfin' = r.fin /\ dlog' = r.dl /\ ddup' = r.dd

RecvI(p, d) ==
  /\ p \in net /\ p.ty = "I"
  /\ d => dups < MaxDup
  /\ dups' = IF d THEN dups + 1 ELSE dups
  /\ LET rest == IF d THEN net ELSE net \ {p} IN
     IF sst = "idle" /\ useRetry /\ p.at = 0
     THEN net' = rest \cup {[ty |-> "R"]} /\ UNCHANGED <<sst, sat>>
     ELSE IF sst = "idle"
     THEN net' = rest /\ sst' = "incoming" /\ sat' = p.at
     ELSE net' = rest /\ UNCHANGED <<sst, sat>>
  /\ UNCHANGED <<evars, cvars, sbuf, zkeys, seen, rb, sfin, sacked, dlog, ddup, sh, losses, spurs>>

RECURSIVE Fold(_, _)
Fold(acc, ps) ==
  IF ps = {} THEN acc
  ELSE LET p == CHOOSE x \in ps : TRUE
           r == Insert(acc.rb, acc.fin, acc.dl, acc.dd, p.u)
       IN Fold([rb |-> r.rb, fin |-> r.fin, dl |-> r.dl, dd |-> r.dd], ps \ {p})

\* the application accepts the connection (at once or late): the decision about early data is taken,
\* the buffered early packets are processed if it is positive
AcceptConn ==
  /\ sst = "incoming"
  /\ sst' = "open" /\ zkeys' = (dec = "accept")
  /\ net' = net \cup {[ty |-> "SH", at |-> sat, dec |-> dec]}
  /\ IF dec = "accept" \/ Bug = "early_processed_without_keys"
     THEN LET r == Fold([rb |-> rb, fin |-> sfin, dl |-> dlog, dd |-> ddup], sbuf) IN
          /\ rb' = r.rb /\ sfin' = r.fin /\ dlog' = r.dl /\ ddup' = r.dd
          /\ seen' = seen \cup sbuf /\ sacked' = sacked \cup {p.u : p \in sbuf}
     ELSE UNCHANGED <<seen, rb, sfin, dlog, ddup, sacked>>
  /\ sbuf' = {}
  /\ UNCHANGED <<evars, cvars, sat, sh, budgets>>

RecvZ(p, d) ==
  /\ p \in net /\ p.ty = "Z" /\ Take(p, d)
  /\ IF sst = "idle" \/ p.at # sat
     THEN \* no connection (yet) for this connection ID: dropped
          UNCHANGED <<sbuf, seen, rb, sfin, dlog, ddup, sacked>>
     ELSE IF sst = "incoming"
     THEN sbuf' = sbuf \cup {p} /\ UNCHANGED <<seen, rb, sfin, dlog, ddup, sacked>>
     ELSE IF zkeys \/ Bug = "early_processed_without_keys"
     THEN Process(p) /\ UNCHANGED sbuf
     ELSE UNCHANGED <<sbuf, seen, rb, sfin, dlog, ddup, sacked>>
  /\ UNCHANGED <<evars, cvars, sst, sat, zkeys, sh, losses, spurs>>

\* the client's Finished: handshake complete at the server, 0-RTT keys are discarded
RecvCF ==
  /\ sst = "open" /\ cst \in {"est", "closed"}
  /\ sst' = "est" /\ zkeys' = FALSE
  /\ UNCHANGED <<evars, cvars, net, sat, sbuf, seen, rb, sfin, sacked, dlog, ddup, sh, budgets>>

RecvS(p, d) ==
  /\ p \in net /\ p.ty = "S" /\ Take(p, d)
  /\ IF sst \in {"open", "est"} /\ p.at = sat
     THEN Process(p)
     ELSE UNCHANGED <<seen, rb, sfin, dlog, ddup, sacked>>
  /\ UNCHANGED <<evars, cvars, sst, sat, sbuf, zkeys, sh, losses, spurs>>

Lose(p) ==
  /\ p \in net /\ losses < MaxLoss
  /\ net' = net \ {p} /\ losses' = losses + 1
  /\ UNCHANGED <<evars, cvars, svars, sh, dups, spurs>>

Next ==
  \/ Open \/ (\E s \in Streams : Write(s) \/ Finish(s))
  \/ (\E u \in infl : Retransmit(u))
  \/ ResendInitial \/ AcceptConn \/ RecvCF
  \/ (\E p \in net, d \in BOOLEAN : RecvRetry(p, d) \/ RecvSH(p, d) \/ RecvI(p, d) \/ RecvZ(p, d) \/ RecvS(p, d))
  \/ (\E p \in net : Lose(p))

Spec == Init /\ [][Next]_vars

\* --------------------------------------------------------------------------------------------
\* properties

\* units of the current epoch the application has handed over
Written == {u \in {Data(ep, s, o) : s \in Streams, o \in 0 .. MaxW - 1} : u.off < cw[u.s]}
           \cup {Fin(ep, s, cw[s]) : s \in {x \in Streams : cfin[x]}}

\* accepted (or sent after the handshake): every unit reaches the server's stream exactly once ...
ExactlyOnce == ddup = {}
\* ... and none is forgotten: when nothing is queued, in flight or in the network, all have arrived
Quiescent == cst = "est" /\ infl \subseteq sacked /\ ~\E p \in net : p.ty \in {"Z", "S"}
Complete == Quiescent => Written \subseteq dlog
\* what the server application can read in order: the contiguous prefix and, if its size is known
\* and reached, the end of the stream; never more than was written, never two epochs in one stream
Offs(s) == {rb[s][i].off : i \in DOMAIN rb[s]}
Eps(s) == {rb[s][i].ep : i \in DOMAIN rb[s]}
ReadsArePrefix == \A s \in Streams : /\ Cardinality(Eps(s)) <= 1
                                      /\ (Eps(s) = {ep} => \A o \in Offs(s) : o < cw[s])
                                      /\ (sfin[s] # -1 /\ Eps(s) \subseteq {ep} /\ (\E u \in dlog : u.s = s /\ u.off = FIN /\ u.ep = ep)
                                            => sfin[s] = cw[s])

\* rejected: nothing of the early epoch is ever taken by the server
RejectedInvisible == dec = "reject" => (\A u \in dlog : u.ep = 1) /\ (\A s \in Streams : Eps(s) \subseteq {1})
\* accepted: the server only ever sees the one epoch
AcceptedSingleEpoch == dec = "accept" => \A u \in dlog : u.ep = 0
\* the early handles report the rejection, all of them and only after a rejection
RejectedReported == (ep = 1 => rejd = opened0) /\ (ep = 0 => rejd = {})
\* nothing early is queued, in flight or on its way in a 1-RTT packet after a rejection
NoEarlyAfterReject == ep = 1 => /\ \A u \in infl : u.ep = 1
                                /\ \A p \in net : p.ty = "S" => p.u.ep = 1
\* after a rejection the connection is indistinguishable from a fresh one with the new parameters
FreshAfterReject == ep = 1 => View = sh
\* limits: remembered ones before, negotiated ones after the handshake
EarlyWithinRemembered == cst = "early" => cnext <= Rem.ms /\ cds <= Rem.md
PostWithinNew == cst = "est" => cnext <= new.ms /\ cds <= new.md
\* acceptance with smaller limits than remembered is refused by the client
IncompatibleRefused == (dec = "accept" /\ Incompat) => cst # "est"
\* 0-RTT packets are produced only while the handshake is running
ZeroRttOnlyEarly == \A p \in net : p.ty = "Z" => p.u.ep = 0
=============================================================================
