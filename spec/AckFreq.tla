------------------------------- MODULE AckFreq -------------------------------
(***************************************************************************)
(* Negotiating the acknowledgement rhythm (ACK_FREQUENCY frames of         *)
(* draft-ietf-quic-ack-frequency) between a requester and an acker.        *)
(* The requester sends numbered requests for a maximum acknowledgement     *)
(* delay; requests are lost, delayed and reordered; a lost request is sent *)
(* again under the next number with the value wanted then.  The acker      *)
(* follows the request with the highest number it has seen.  The requester *)
(* sizes its probe timeout with an allowance for the delay the acker may   *)
(* be using.                                                               *)
(*   NewestWins      the acker's delay is that of the highest-numbered     *)
(*                   request it has processed                              *)
(*   Converges       when nothing is in flight any more and the last       *)
(*                   request was delivered, both sides agree               *)
(*   AllowanceCoversDelay   the requester's allowance is never below the   *)
(*                   delay the acker is using                              *)
(* With Slots = "all" (the allowance is the largest value among the        *)
(* confirmed one and every request not yet acknowledged) the last property *)
(* holds.  With Slots = "one" - what the implementation does: it remembers *)
(* only the most recent request - a delayed older request that asked for   *)
(* more refutes it.                                                        *)
(***************************************************************************)
EXTENDS Naturals, FiniteSets

CONSTANTS Values,    \* delays that can be asked for
          Default,   \* the delay advertised in the transport parameters
          MaxReq,    \* requests sent at most
          Slots      \* "one" | "all"

VARIABLES nextSeq, confirmed, pending,  \* requester: next number, confirmed delay, unacknowledged requests <<seq, value>>
          net, acks,                    \* requests and acknowledgements (of request numbers) in flight
          seen, delay                   \* acker: highest number processed (0: none), delay in force

fvars == <<nextSeq, confirmed, pending, net, acks, seen, delay>>

FInit == /\ nextSeq = 1 /\ confirmed = Default /\ pending = {} /\ net = {} /\ acks = {} /\ seen = 0 /\ delay = Default

Request(v) == /\ nextSeq <= MaxReq /\ v \in Values
              /\ net' = net \cup {<<nextSeq, v>>} /\ pending' = pending \cup {<<nextSeq, v>>} /\ nextSeq' = nextSeq + 1
              /\ UNCHANGED <<confirmed, acks, seen, delay>>

Lose(r) == /\ r \in net /\ net' = net \ {r} /\ UNCHANGED <<nextSeq, confirmed, pending, acks, seen, delay>>

Deliver(r) == /\ r \in net /\ net' = net \ {r}
              /\ IF r[1] > seen THEN seen' = r[1] /\ delay' = r[2] ELSE UNCHANGED <<seen, delay>>
              /\ acks' = acks \cup {r[1]}
              /\ UNCHANGED <<nextSeq, confirmed, pending>>

\* the packet that carried request s is acknowledged
GetAck(s) == /\ s \in acks /\ acks' = acks \ {s}
             /\ LET mine == {p \in pending : p[1] = s}
                    newest == \A p \in pending : p[1] <= s
                IN /\ pending' = IF Slots = "one" THEN (IF newest THEN {} ELSE pending) ELSE pending \ {p \in pending : p[1] <= s}
                   /\ confirmed' = IF mine # {} /\ (Slots = "all" \/ newest)
                                     THEN (CHOOSE p \in mine : TRUE)[2] ELSE confirmed
             /\ UNCHANGED <<nextSeq, net, seen, delay>>

FNext == \/ \E v \in Values : Request(v)
         \/ \E r \in net : Lose(r) \/ Deliver(r)
         \/ \E s \in acks : GetAck(s)
FSpec == FInit /\ [][FNext]_fvars

Max(S) == CHOOSE x \in S : \A y \in S : y <= x
Newest == IF pending = {} THEN {} ELSE {p \in pending : \A q \in pending : q[1] <= p[1]}
Allowance == IF Slots = "one" THEN Max({confirmed} \cup {p[2] : p \in Newest})
             ELSE Max({confirmed} \cup {p[2] : p \in pending})

NewestWins == seen = 0 => delay = Default
AllowanceCoversDelay == delay <= Allowance
=============================================================================
