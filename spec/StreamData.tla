----------------------------- MODULE StreamData -----------------------------
(***************************************************************************)
(* Reliable, ordered, exactly-once delivery of one direction of one QUIC   *)
(* stream (property C01).                                                  *)
(*                                                                         *)
(* Sender: write / finish / reset; the transport (re)transmits any         *)
(* not-yet-acknowledged range with any chunking (SendBuffer::poll_transmit,*)
(* retransmit).  Network: loss, duplication, reordering.  Receiver:        *)
(* Assembler::insert, ordered reads (Chunks::next with ordered = true),    *)
(* unordered reads, end of stream, reset.                                  *)
(* Bytes are identified by their offset: the payload at offset o is the    *)
(* function Byte(key, o), so "content equals what was written at that      *)
(* offset" is the statement that a delivered chunk is labelled with the    *)
(* offsets it really came from.                                            *)
(***************************************************************************)
EXTENDS Naturals, Integers, FiniteSets, Sequences

CONSTANTS MaxLen,      \* bytes the application may write
          MaxSeg,      \* longest segment on the wire
          MaxLoss      \* packets the network may lose

VARIABLES
  w,        \* bytes written so far
  fin,      \* final size once finish() was called, -1 before
  rst,      \* reset code once reset() was called, -1 before
  sent,     \* segments handed to the network so far (for retransmission any sub-range may be resent)
  net,      \* segments in flight: <<off, len, isFin>>
  lost,     \* number of segments lost so far
  acked,    \* offsets acknowledged
  rcvd,     \* offsets buffered at the receiver (not yet read)
  finalSeen,\* final size learnt by the receiver, -1 before
  rstSeen,  \* reset code learnt by the receiver, -1 before
  mode,     \* "ordered" until the first unordered read
  cursor,   \* next offset of an ordered read
  got,      \* offset -> number of times handed to the application
  eos,      \* end of stream reported
  rstRead   \* reset reported to the application (code), -1 before

vars == <<w, fin, rst, sent, net, lost, acked, rcvd, finalSeen, rstSeen, mode, cursor, got, eos, rstRead>>

Offsets == 0 .. (MaxLen - 1)
Range(a, n) == a .. (a + n - 1)

Init ==
  /\ w = 0 /\ fin = -1 /\ rst = -1 /\ sent = {} /\ net = {} /\ lost = 0 /\ acked = {}
  /\ rcvd = {} /\ finalSeen = -1 /\ rstSeen = -1 /\ mode = "ordered" /\ cursor = 0
  /\ got = [o \in Offsets |-> 0] /\ eos = FALSE /\ rstRead = -1

\* --- sender application ------------------------------------------------------------------
Write(n) == /\ fin = -1 /\ rst = -1 /\ w + n <= MaxLen /\ n > 0
            /\ w' = w + n
            /\ UNCHANGED <<fin, rst, sent, net, lost, acked, rcvd, finalSeen, rstSeen, mode, cursor, got, eos, rstRead>>
Finish == /\ fin = -1 /\ rst = -1 /\ fin' = w
          /\ UNCHANGED <<w, rst, sent, net, lost, acked, rcvd, finalSeen, rstSeen, mode, cursor, got, eos, rstRead>>
ResetStream(code) == /\ rst = -1 /\ rst' = code
          /\ UNCHANGED <<w, fin, sent, net, lost, acked, rcvd, finalSeen, rstSeen, mode, cursor, got, eos, rstRead>>

\* --- transport: (re)transmission of any unacknowledged range, any chunking ---------------
Transmit(off, len) ==
  /\ rst = -1
  /\ off + len <= w /\ len <= MaxSeg
  /\ (len > 0 \/ (fin # -1 /\ off = fin))                      \* empty segment only to carry FIN
  /\ \E o \in Range(off, len) \cup {-1} : (o = -1 /\ len = 0) \/ (o # -1 /\ o \notin acked)
  /\ LET isFin == (fin # -1 /\ off + len = fin) IN
       net' = net \cup {<<off, len, isFin>>}
  /\ UNCHANGED <<w, fin, rst, sent, lost, acked, rcvd, finalSeen, rstSeen, mode, cursor, got, eos, rstRead>>

TransmitReset ==
  /\ rst # -1 /\ net' = net \cup {<<-1, rst, FALSE>>}
  /\ UNCHANGED <<w, fin, rst, sent, lost, acked, rcvd, finalSeen, rstSeen, mode, cursor, got, eos, rstRead>>

\* --- network ------------------------------------------------------------------------------
Lose(m) == /\ m \in net /\ lost < MaxLoss /\ net' = net \ {m} /\ lost' = lost + 1
           /\ UNCHANGED <<w, fin, rst, sent, acked, rcvd, finalSeen, rstSeen, mode, cursor, got, eos, rstRead>>

\* delivery without removal models duplication; delivery of any element models reordering
Deliver(m, remove) ==
  /\ m \in net
  /\ net' = IF remove THEN net \ {m} ELSE net
  /\ IF m[1] = -1
       THEN /\ rstSeen' = IF rstSeen = -1 THEN m[2] ELSE rstSeen
            /\ UNCHANGED <<rcvd, finalSeen, acked>>
       ELSE /\ rcvd' = rcvd \cup {o \in Range(m[1], m[2]) : got[o] = 0 /\ ~(mode = "ordered" /\ o < cursor)}
            /\ finalSeen' = IF m[3] THEN m[1] + m[2] ELSE finalSeen
            /\ acked' = acked \cup Range(m[1], m[2])
            /\ UNCHANGED rstSeen
  /\ UNCHANGED <<w, fin, rst, sent, lost, mode, cursor, got, eos, rstRead>>

\* --- receiver application ------------------------------------------------------------------
\* the guard of a legal ordered chunk and of a legal unordered chunk; also used by the trace spec
OrderedChunkOk(off, len) == mode = "ordered" /\ off = cursor /\ len > 0 /\ off + len <= w
UnorderedChunkOk(off, len) == len > 0 /\ off + len <= w /\ \A o \in Range(off, len) : got[o] = 0
EndOk == fin # -1 /\ \A o \in 0 .. (fin - 1) : got[o] = 1
ResetOk(code) == rst = code /\ code # -1

ReadOrdered(len) ==
  /\ mode = "ordered" /\ ~eos /\ rstRead = -1 /\ rstSeen = -1
  /\ len > 0 /\ Range(cursor, len) \subseteq rcvd
  /\ got' = [o \in Offsets |-> IF o \in Range(cursor, len) THEN got[o] + 1 ELSE got[o]]
  /\ rcvd' = rcvd \ Range(cursor, len)
  /\ cursor' = cursor + len
  /\ UNCHANGED <<w, fin, rst, sent, net, lost, acked, finalSeen, rstSeen, mode, eos, rstRead>>

ReadUnordered(off, len) ==
  /\ ~eos /\ rstRead = -1 /\ rstSeen = -1
  /\ len > 0 /\ Range(off, len) \subseteq rcvd
  /\ mode' = "unordered"
  /\ got' = [o \in Offsets |-> IF o \in Range(off, len) THEN got[o] + 1 ELSE got[o]]
  /\ rcvd' = rcvd \ Range(off, len)
  /\ UNCHANGED <<w, fin, rst, sent, net, lost, acked, finalSeen, rstSeen, cursor, eos, rstRead>>

ReadEnd ==
  /\ ~eos /\ rstRead = -1 /\ rstSeen = -1 /\ finalSeen # -1
  /\ \A o \in 0 .. (finalSeen - 1) : got[o] >= 1
  /\ eos' = TRUE
  /\ UNCHANGED <<w, fin, rst, sent, net, lost, acked, rcvd, finalSeen, rstSeen, mode, cursor, got, rstRead>>

ReadReset ==
  /\ ~eos /\ rstRead = -1 /\ rstSeen # -1
  /\ rstRead' = rstSeen
  /\ UNCHANGED <<w, fin, rst, sent, net, lost, acked, rcvd, finalSeen, rstSeen, mode, cursor, got, eos>>

Next ==
  \/ \E n \in 1 .. MaxLen : Write(n)
  \/ Finish \/ ResetStream(7)
  \/ \E off \in 0 .. MaxLen, len \in 0 .. MaxSeg : Transmit(off, len)
  \/ TransmitReset
  \/ \E m \in net : Lose(m) \/ Deliver(m, TRUE) \/ Deliver(m, FALSE)
  \/ \E len \in 1 .. MaxLen : ReadOrdered(len)
  \/ \E off \in Offsets, len \in 1 .. MaxLen : ReadUnordered(off, len)
  \/ ReadEnd \/ ReadReset

Spec == Init /\ [][Next]_vars

-----------------------------------------------------------------------------
\* C01
NoPhantom == \A o \in Offsets : got[o] > 0 => o < w
ExactlyOnce == \A o \in Offsets : got[o] <= 1
OrderedPrefix == mode = "ordered" => \A o \in Offsets : (got[o] = 1) = (o < cursor)
EosAfterAll == eos => EndOk
ResetCode == rstRead # -1 => rstRead = rst
NothingBuffered == \A o \in rcvd : o < w /\ got[o] = 0

StreamDataInv == NoPhantom /\ ExactlyOnce /\ OrderedPrefix /\ EosAfterAll /\ ResetCode /\ NothingBuffered

\* bound the model: in-flight set size
Bounded == Cardinality(net) <= 3
=============================================================================
