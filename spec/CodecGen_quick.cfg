CONSTANT Fams = {"var", "pn", "frame", "ackraw", "close", "tp", "pkt", "token", "tokenraw", "cidgen", "b2", "b4"}
CONSTANT W = 4
CONSTANT Scale = "quick"
SPECIFICATION Spec
INVARIANT Emit
CHECK_DEADLOCK FALSE
