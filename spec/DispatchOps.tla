----------------------------- MODULE DispatchOps -----------------------------
(***************************************************************************)
(* What an endpoint does with a datagram that belongs to none of its       *)
(* connections, as a decision table shared by the design model Dispatch    *)
(* and the trace specification DispatchTrace.                              *)
(* A datagram is described by                                              *)
(*   form   "junk" (empty or header not decodable), "short", "long"        *)
(*   ver    long: "ok" (supported), "bad" (anything else but 0), "zero"    *)
(*   ty     long with ver ok: "I", "Z", "H", "R"                           *)
(*   size   bytes                                                          *)
(*   cidok  the destination ID has the endpoint's ID length (short: by     *)
(*          construction) and is not empty                                 *)
(*   cids   long: the lengths of both connection IDs together              *)
(* Outcomes: "drop"; "vn" version negotiation; "reset" stateless reset;    *)
(* "admit" hand the Initial to admission (a new connection attempt, or a   *)
(* close in an Initial packet, or nothing when it does not authenticate).  *)
(***************************************************************************)
EXTENDS Integers

NVersions == 7          \* versions the endpoint supports (the default list)
MinInitial == 1200
TokenLen == 16
MinReset == 21          \* 5 bytes that look like a short header and the token
MinInciting == 22       \* a reset is smaller than what provoked it

\* a version negotiation packet repeats both connection IDs and lists the versions; like every answer
\* to an address that has proved nothing it must not exceed three times what provoked it
VnSize(d) == 7 + d.cids + 4 * (1 + NVersions)
VnFits(d) == VnSize(d) <= 3 * d.size

\* limited: a reset was sent less than the minimum interval ago
Outcome(d, server, limited) ==
  CASE d.form = "junk" -> "drop"
    [] d.form = "long" /\ d.ver = "bad" -> IF server /\ VnFits(d) THEN "vn" ELSE "drop"
    [] d.form = "long" /\ d.ver = "zero" -> "drop"
    [] d.form = "long" /\ d.ty = "I" ->
         IF server THEN (IF d.size < MinInitial THEN "drop" ELSE "admit")
         ELSE (IF limited \/ d.size < MinInciting THEN "drop" ELSE "reset")
    [] d.form = "long" -> "drop"
    [] OTHER -> IF ~d.cidok \/ limited \/ d.size < MinInciting THEN "drop" ELSE "reset"

\* sizes a reset provoked by n bytes may have
ResetSizes(n) == MinReset .. (n - 1)
=============================================================================
