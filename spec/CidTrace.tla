------------------------------ MODULE CidTrace ------------------------------
(***************************************************************************)
(* Trace validation of connection-ID management (CidFlow.tla) on runs with *)
(* one client/server pair.  For each direction (issuer X, user Y = peer):  *)
(*   SequenceGap / SequenceReused   new sequence numbers are consecutive;  *)
(*                                  a resent number carries the same ID    *)
(*   RetirePriorToAboveSequence     CidFlow!WellFormedFrames               *)
(*   MoreIdsThanPeerAllows          IDs issued at or above the largest     *)
(*                                  retire_prior_to sent and not yet       *)
(*                                  retired by the peer never exceed the   *)
(*                                  peer's active_connection_id_limit      *)
(*   RetiredUnissuedId              CidFlow!RetiresOnlyIssued              *)
(*   RetiredTwice                   each number is retired once            *)
(*   SentToRetiredId                after retiring an ID the user no       *)
(*                                  longer addresses packets to it         *)
(*   SentToUnknownId                1-RTT packets are addressed to IDs the *)
(*                                  peer issued                            *)
(***************************************************************************)
EXTENDS Naturals, Integers, Sequences, FiniteSets, TLC, Json, IOUtils
Rec == ndJsonDeserialize(IOEnv.TRACE)
N == Len(Rec)
VARIABLES l, bad, issued, cidOf, rptMax, gone, retired, limit, cur
vars == <<l, bad, issued, cidOf, rptMax, gone, retired, limit, cur>>
e == Rec[l]
Is(k) == l <= N /\ e.ev = k
Flag(c, name) == IF c THEN {} ELSE {name}
Sides == {"c", "s"}
Other(x) == IF x = "c" THEN "s" ELSE "c"
MaxOf(S) == IF S = {} THEN -1 ELSE CHOOSE x \in S : \A y \in S : y <= x
Window == 12

Blank == /\ issued = [x \in Sides |-> {}] /\ cidOf = [x \in Sides |-> <<>>] /\ rptMax = [x \in Sides |-> 0]
         /\ gone = [x \in Sides |-> {}] /\ retired = [x \in Sides |-> {}] /\ limit = [x \in Sides |-> 2]
TInit == l = 1 /\ bad = {} /\ Blank /\ cur = <<0>>
Reset == /\ Is("Reset") /\ bad' = {} /\ cur' = <<e.run>> /\ l' = l + 1
         /\ issued' = [x \in Sides |-> {}] /\ cidOf' = [x \in Sides |-> <<>>] /\ rptMax' = [x \in Sides |-> 0]
         /\ gone' = [x \in Sides |-> {}] /\ retired' = [x \in Sides |-> {}] /\ limit' = [x \in Sides |-> 2]

\* what a side advertises limits what its PEER may issue
Limit == /\ Is("Limit") /\ limit' = [limit EXCEPT ![e.side] = e.acid] /\ bad' = bad /\ l' = l + 1
         /\ UNCHANGED <<issued, cidOf, rptMax, gone, retired, cur>>

RECURSIVE Apply(_, _, _, _, _, _, _)
\* fold the frames of one transmission of side x: returns <<issued[x], cidOf[x], rptMax[x], retired[x], flags>>
Apply(fr, i, x, is, co, rm, rt) ==
  IF i > Len(fr) THEN <<is, co, rm, rt, {}>>
  ELSE LET f == fr[i]
           rest(is2, co2, rm2, rt2, fl) == LET r == Apply(fr, i + 1, x, is2, co2, rm2, rt2) IN <<r[1], r[2], r[3], r[4], r[5] \cup fl>>
       IN
       IF f.k = "scid" THEN
         rest(is \cup {0}, IF 0 \in DOMAIN co THEN co ELSE co @@ (0 :> f.cid), rm, rt,
              Flag(0 \notin DOMAIN co \/ co[0] = f.cid \/ is = {0}, "SequenceReused"))
       ELSE IF f.k = "new" THEN
         rest(is \cup {f.seq}, IF f.seq \in DOMAIN co THEN co ELSE co @@ (f.seq :> f.cid), IF f.rpt > rm THEN f.rpt ELSE rm, rt,
              Flag(f.seq \in is \/ f.seq = MaxOf(is) + 1 \/ f.seq < rm - Window, "SequenceGap")
              \cup Flag(f.seq \notin DOMAIN co \/ co[f.seq] = f.cid, "SequenceReused")
              \cup Flag(f.rpt <= f.seq, "RetirePriorToAboveSequence"))
       ELSE \* retire: side x retires an ID of its peer
         rest(is, co, rm, rt \cup {f.seq},
              Flag(f.seq <= MaxOf(issued[Other(x)]) \/ f.seq < rptMax[Other(x)], "RetiredUnissuedId"))

Sent ==
  /\ Is("Sent")
  /\ LET x == e.side
         y == Other(x)
         r == Apply(e.fr, 1, x, issued[x], cidOf[x], rptMax[x], retired[x])
         active == {s \in r[1] : s >= r[3] /\ s \notin gone[x]}
         \* IDs of the peer this side may still address: issued by the peer and not retired by this side
         usable == {cidOf[y][s] : s \in {t \in DOMAIN cidOf[y] : t \notin retired[x]}}
         retiredIds == {cidOf[y][s] : s \in {t \in DOMAIN cidOf[y] : t \in retired[x]}}
     IN
       \* only a window below retire_prior_to is remembered (older numbers never come back)
       /\ issued' = [issued EXCEPT ![x] = {s \in r[1] : s >= r[3] - Window \/ s = MaxOf(r[1])}]
       /\ cidOf' = [cidOf EXCEPT ![x] = [s \in {t \in DOMAIN r[2] : t >= r[3] - Window} |-> r[2][s]]]
       /\ rptMax' = [rptMax EXCEPT ![x] = r[3]]
       /\ retired' = [retired EXCEPT ![x] = {s \in r[4] : s >= rptMax[y] - Window}]
       /\ bad' = bad \cup r[5]
            \cup Flag(Cardinality(active) <= limit[y], "MoreIdsThanPeerAllows")
            \cup Flag(\A i \in 1 .. Len(e.dcids) : e.dcids[i] \notin retiredIds \/ e.dcids[i] \in usable, "SentToRetiredId")
            \cup Flag(\A i \in 1 .. Len(e.dcids) : e.dcids[i] = "" \/ e.dcids[i] \in usable \cup retiredIds, "SentToUnknownId")
  /\ l' = l + 1 /\ UNCHANGED <<gone, limit, cur>>

\* frames processed by side x: a retirement makes the issuer forget the ID
Arrived ==
  /\ Is("Arrived")
  /\ LET x == e.side
         rs == {e.fr[i].seq : i \in {j \in 1 .. Len(e.fr) : e.fr[j].k = "retire"}}
     IN gone' = [gone EXCEPT ![x] = {s \in gone[x] \cup rs : s >= rptMax[x] - Window}]
  /\ bad' = bad /\ l' = l + 1 /\ UNCHANGED <<issued, cidOf, rptMax, retired, limit, cur>>

TNext == Reset \/ Limit \/ Sent \/ Arrived
TraceSpec == TInit /\ [][TNext]_vars
Watch == TLCSet(1, <<l, bad, cur>>) /\ bad = {}
TraceAccepted ==
  LET r == TLCGet(1) d == TLCGet("stats").diameter IN
  IF r[2] # {} THEN Print(<<"VIOLATION", r[2], "line", r[1] - 1, "run", r[3]>>, FALSE)
  ELSE IF d - 1 # N THEN Print(<<"UNMATCHED", "line", d, "run", r[3]>>, FALSE)
  ELSE TRUE
=============================================================================
