CONSTANT MaxSteps = 4
CONSTANT Emit = TRUE
INIT Init
NEXT Next
INVARIANT PairInv
INVARIANT EmitInv
CHECK_DEADLOCK FALSE
