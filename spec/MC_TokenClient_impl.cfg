CONSTANT Cids = {"a", "b", "c"}
CONSTANT Strict = FALSE
CONSTANT MaxEvents = 5
SPECIFICATION Spec
INVARIANT AtMostOneRetry
INVARIANT FollowOnlyValid
INVARIANT FollowIfValid
INVARIANT CompletesOnlyWithEcho
INVARIANT ForgedRetryDetected
INVARIANT TokenOnlyFromRetry
CHECK_DEADLOCK FALSE
