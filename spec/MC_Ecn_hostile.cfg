CONSTANT MaxPkts = 3
CONSTANT Bleach = TRUE
CONSTANT Rewrite = TRUE
CONSTANT AllBleached = FALSE
CONSTANT CountDuplicates = FALSE
SPECIFICATION ESpec
INVARIANT NoFalseDisable
INVARIANT SignalsAreReal
INVARIANT CeSeenOnce
INVARIANT ReportsAreExact
CHECK_DEADLOCK FALSE
