---------------------------- MODULE AntiAmpTrace ----------------------------
(***************************************************************************)
(* Trace validation for C07.  The ledger of AntiAmp (rx, tx, validated) is *)
(* kept per peer address of each server-side connection from what the      *)
(* harness network really delivered and what the connection really emitted *)
(* (datagram sizes measured on the wire, destinations taken from the       *)
(* Transmit).  Every emitted datagram must be an enabled                   *)
(* AntiAmp!ServerDatagram: validated, or some budget left when it starts.  *)
(* Endpoint-level clauses: stateless resets smaller than the inciting      *)
(* datagram and rate limited; undersized Initials create no state.         *)
(***************************************************************************)
EXTENDS Naturals, Integers, Sequences, FiniteSets, TLC, Json, IOUtils

Rec == ndJsonDeserialize(IOEnv.TRACE)
N == Len(Rec)

VARIABLES l, bad, rx, tx, may, gen, curRem, lastReset, interval, cur

vars == <<l, bad, rx, tx, may, gen, curRem, lastReset, interval, cur>>

e == Rec[l]
Is(k) == l <= N /\ e.ev = k
Flag(c, name) == IF c THEN {} ELSE {name}

At(f, a, d) == IF a \in DOMAIN f THEN f[a] ELSE d
Set(f, a, v) == IF a \in DOMAIN f THEN [f EXCEPT ![a] = v] ELSE f @@ (a :> v)
\* `may` also remembers which path generations were validated with proof (addresses are positive)
GenKey(g) == 0 - (g + 1)

TInit == /\ l = 1 /\ bad = {} /\ rx = <<>> /\ tx = <<>> /\ may = <<>> /\ gen = 0 /\ curRem = 0
         /\ lastReset = <<>> /\ interval = 0 /\ cur = <<0, "none", 0>>

Reset ==
  /\ Is("Reset")
  /\ rx' = <<>> /\ tx' = <<>> /\ may' = <<>> /\ gen' = 0 /\ curRem' = 0 /\ bad' = {}
  /\ lastReset' = <<>>
  /\ interval' = IF e.kind = "endpoint" THEN e.interval ELSE interval
  /\ cur' = <<e.run, e.kind, IF e.kind = "conn" THEN e.c ELSE -1>>
  /\ l' = l + 1

\* a new path (migration): the ledger of the new address starts from zero, unvalidated
NewPath(p) == p.gen # gen

\* AntiAmp!ClientDatagram
RxC ==
  /\ Is("RxC")
  /\ LET a == e.src
         fresh == NewPath(e.path) /\ e.path.rem = a
         rx0 == IF fresh THEN 0 ELSE At(rx, a, 0)
         tx0 == IF fresh THEN 0 ELSE At(tx, a, 0)
         may0 == IF fresh THEN FALSE ELSE At(may, a, FALSE)
     IN
       /\ rx' = Set(rx, a, rx0 + e.size)
       /\ tx' = Set(tx, a, tx0)
       \* the implementation may consider the current path validated only with a proof - now, or
       \* earlier for this very path generation (a failed validation returns to the path before it)
       /\ LET legit == may0 \/ e.proves \/ At(may, e.path.rem, FALSE) \/ At(may, GenKey(e.path.gen), FALSE)
              m1 == Set(may, a, may0 \/ e.proves)
          IN /\ may' = IF e.path.val /\ legit THEN Set(Set(m1, e.path.rem, TRUE), GenKey(e.path.gen), TRUE) ELSE m1
             /\ bad' = bad \cup Flag(e.path.val => legit, "ValidatedWithoutProof")
       /\ gen' = e.path.gen /\ curRem' = e.path.rem
  /\ l' = l + 1 /\ UNCHANGED <<lastReset, interval, cur>>

RECURSIVE SumTo(_, _)
SumTo(s, i) == IF i = 0 THEN 0 ELSE s[i] + SumTo(s, i - 1)

\* AntiAmp!ServerDatagram for every datagram of the transmit
TxC ==
  /\ Is("TxC")
  /\ LET a == e.dst
         t0 == At(tx, a, 0)
         r0 == At(rx, a, 0)
         ok == At(may, a, FALSE)
             \/ \A i \in 1 .. Len(e.sizes) : t0 + SumTo(e.sizes, i - 1) < 3 * r0
     IN
       /\ bad' = bad \cup Flag(ok, "SentWithoutBudget")
       /\ tx' = Set(tx, a, t0 + SumTo(e.sizes, Len(e.sizes)))
  /\ l' = l + 1 /\ UNCHANGED <<rx, may, gen, curRem, lastReset, interval, cur>>

Tick ==
  /\ Is("Tick")
  /\ gen' = e.path.gen /\ curRem' = e.path.rem
  /\ LET legit == At(may, e.path.rem, FALSE) \/ At(may, GenKey(e.path.gen), FALSE)
     IN /\ bad' = bad \cup Flag(e.path.val => legit, "ValidatedWithoutProof")
        /\ may' = IF e.path.val /\ legit THEN Set(Set(may, e.path.rem, TRUE), GenKey(e.path.gen), TRUE) ELSE may
  /\ l' = l + 1 /\ UNCHANGED <<rx, tx, lastReset, interval, cur>>

\* endpoint level ---------------------------------------------------------------------------
Resp ==
  /\ Is("Resp")
  /\ IF e.reset
       THEN /\ bad' = bad \cup Flag(e.incite > 0 /\ e.size < e.incite, "ResetNotSmallerThanInciting")
                          \cup Flag(e.size >= 21, "ResetTooShort")
                          \cup Flag(At(lastReset, e.n, -1) = -1 \/ e.t - At(lastReset, e.n, -1) >= interval,
                                    "ResetRateExceeded")
            /\ lastReset' = Set(lastReset, e.n, e.t)
       ELSE /\ bad' = bad \cup Flag(e.incite <= 0 \/ e.size <= 3 * e.incite, "StatelessAmplification")
            /\ UNCHANGED lastReset
  /\ l' = l + 1 /\ UNCHANGED <<rx, tx, may, gen, curRem, interval, cur>>

RxEp ==
  /\ Is("RxEp")
  /\ bad' = bad \cup Flag(e.shortinit => (e.kind = "none" /\ e.epsame), "ShortInitialCreatedStateOrReply")
  /\ l' = l + 1 /\ UNCHANGED <<rx, tx, may, gen, curRem, lastReset, interval, cur>>

\* a reply to an undersized Initial shows up as a Resp right after it
NoReplyToShortInitial ==
  (l > 1 /\ l <= N /\ Rec[l - 1].ev = "RxEp" /\ Rec[l - 1].shortinit) => Rec[l].ev # "Resp"

TNext == Reset \/ RxC \/ TxC \/ Tick \/ Resp \/ RxEp
TraceSpec == TInit /\ [][TNext]_vars

Violations == bad \cup Flag(NoReplyToShortInitial, "ShortInitialCreatedStateOrReply")
Watch == TLCSet(1, <<l, Violations, cur>>) /\ Violations = {}

TraceAccepted ==
  LET r == TLCGet(1) d == TLCGet("stats").diameter IN
  IF r[2] # {} THEN Print(<<"VIOLATION", r[2], "line", r[1] - 1, "run", r[3]>>, FALSE)
  ELSE IF d - 1 # N THEN Print(<<"UNMATCHED", "line", d, "run", r[3]>>, FALSE)
  ELSE TRUE
=============================================================================
