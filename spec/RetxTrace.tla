------------------------------ MODULE RetxTrace ------------------------------
(***************************************************************************)
(* Trace validation of the delivery of control information (Retx.tla) on   *)
(* runs with one client/server pair.  Subjects are <<kind, key>>:          *)
(*   md connection data limit, msd stream data limit, ms stream count of   *)
(*   a direction, rst reset of a stream, stop STOP_SENDING for a stream,   *)
(*   hd HANDSHAKE_DONE, ncid / rcid connection ID issued / retired         *)
(* with values that only grow (1 for the ones that are just said).  The    *)
(* projection lists what each side put on the wire in 1-RTT packets and    *)
(* what reached the peer's connection, and at the end whether each side is *)
(* quiet (connection open, faults over for a second, network empty,        *)
(* nothing at all in flight, loss detection timer idle) and which   *)
(* subjects no longer matter (credit and STOP_SENDING for a stream the     *)
(* peer cannot send on any more).                                          *)
(*   ControlFrameNeverDelivered   Retx!Learned: when a side is quiet its   *)
(*                                peer has received the largest value it   *)
(*                                ever sent for every subject that matters *)
(***************************************************************************)
EXTENDS Naturals, Integers, Sequences, FiniteSets, TLC, Json, IOUtils
Rec == ndJsonDeserialize(IOEnv.TRACE)
N == Len(Rec)
VARIABLES l, bad, sent, deliv, cur
vars == <<l, bad, sent, deliv, cur>>
e == Rec[l]
Is(k) == l <= N /\ e.ev = k
Flag(c, name) == IF c THEN {} ELSE {name}
Sides == {"c", "s"}
At(f, a, d) == IF a \in DOMAIN f THEN f[a] ELSE d
Set(f, a, v) == IF a \in DOMAIN f THEN [f EXCEPT ![a] = v] ELSE f @@ (a :> v)
Max(a, b) == IF a > b THEN a ELSE b
Blank == [x \in Sides |-> <<>>]

TInit == /\ l = 1 /\ bad = {} /\ sent = Blank /\ deliv = Blank /\ cur = <<0>>
Reset == /\ Is("Reset") /\ bad' = {} /\ sent' = Blank /\ deliv' = Blank /\ cur' = <<e.run>> /\ l' = l + 1

RECURSIVE Fold(_, _, _)
Fold(m, fr, i) == IF i > Len(fr) THEN m
                  ELSE LET s == <<fr[i][1], fr[i][2]>> IN Fold(Set(m, s, Max(At(m, s, 0), fr[i][3])), fr, i + 1)

S == /\ Is("S") /\ sent' = [sent EXCEPT ![e.side] = Fold(@, e.fr, 1)] /\ bad' = bad /\ l' = l + 1
     /\ UNCHANGED <<deliv, cur>>
D == /\ Is("D") /\ deliv' = [deliv EXCEPT ![e.side] = Fold(@, e.fr, 1)] /\ bad' = bad /\ l' = l + 1
     /\ UNCHANGED <<sent, cur>>

SkipSet(x) == {<<e.skip[x][i][1], e.skip[x][i][2]>> : i \in 1 .. Len(e.skip[x])}
Missing(x) == {s \in DOMAIN sent[x] : s \notin SkipSet(x) /\ At(deliv[x], s, 0) < sent[x][s]}
AllQuiet == \A x \in Sides : e.quiet[x]
End == /\ Is("End")
       \* judged when both sides are quiet: while the peer still has packets in flight, what matters
       \* to it (a stream it is about to finish) can still change
       /\ bad' = bad \cup UNION {IF AllQuiet /\ Missing(x) # {} THEN {"ControlFrameNeverDelivered"} ELSE {} : x \in Sides}
       /\ (\A x \in Sides : (AllQuiet /\ Missing(x) # {}) => PrintT(<<"MISSING", x, Missing(x)>>))
       /\ l' = l + 1 /\ UNCHANGED <<sent, deliv, cur>>

TNext == Reset \/ S \/ D \/ End
TraceSpec == TInit /\ [][TNext]_vars
Watch == TLCSet(1, <<l, bad, cur>>) /\ bad = {}
TraceAccepted ==
  LET r == TLCGet(1) d == TLCGet("stats").diameter IN
  IF r[2] # {} THEN Print(<<"VIOLATION", r[2], "line", r[1] - 1, "run", r[3]>>, FALSE)
  ELSE IF d - 1 # N THEN Print(<<"UNMATCHED", "line", d, "run", r[3]>>, FALSE)
  ELSE TRUE
=============================================================================
