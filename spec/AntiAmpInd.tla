------------------------------ MODULE AntiAmpInd ------------------------------
(***************************************************************************)
(* The anti-amplification bound (AntiAmp!AmpBound) is inductive; Apalache  *)
(* discharges it for EVERY datagram size, client size set and byte count:  *)
(*   apalache-mc check --cinit=ConstInit --init=AInit   --next=ANext --inv=IndInv --length=0 *)
(*   apalache-mc check --cinit=ConstInit --init=IndInit --next=ANext --inv=IndInv --length=1 *)
(***************************************************************************)
EXTENDS AntiAmp, Apalache

ConstInit == /\ MaxDg \in Nat /\ MaxDg >= 1 /\ MaxRx \in Nat
             /\ Sizes = Gen(4) /\ \A s \in Sizes : s >= 0
IndInv == rx \in Nat /\ tx \in Nat /\ validated \in BOOLEAN /\ AmpBound
IndInit == rx \in Nat /\ tx \in Nat /\ validated \in BOOLEAN /\ IndInv
=============================================================================
