----------------------------- MODULE Controllers -----------------------------
(***************************************************************************)
(* Design-level check of the NewReno transcription: every call history up  *)
(* to Depth keeps the window at two datagrams or more.                     *)
(***************************************************************************)
EXTENDS NewReno
\* --- design-level check: all histories up to a depth -------------------------------------
CONSTANT Depth
VARIABLES s, now, n
cvars == <<s, now, n>>
CInit == now = 1000 /\ s = NrInit(1000) /\ n = 0
CNext == /\ n < Depth /\ \E op \in Ops : /\ s' = NrApply(s, op, now) /\ now' = now + Tick(op) /\ n' = n + 1
CSpec == CInit /\ [][CNext]_cvars
WindowAtLeastTwoDatagrams == s.window >= 2 * s.mtu
=============================================================================
