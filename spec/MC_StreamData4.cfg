CONSTANT MaxLen = 4
CONSTANT MaxSeg = 3
CONSTANT MaxLoss = 2
SPECIFICATION Spec
INVARIANT StreamDataInv
CONSTRAINT Bounded
CHECK_DEADLOCK FALSE
