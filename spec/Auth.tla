-------------------------------- MODULE Auth --------------------------------
(***************************************************************************)
(* Packet authentication and replay protection of one packet number space  *)
(* (property C04).  The receive path of Connection::handle_packet:         *)
(*    Authenticate  decrypt_packet (AEAD tag under the keys of this        *)
(*                  connection, space and key phase)                       *)
(*    Dedup         PacketSpace.dedup.insert, transcribed with its sliding *)
(*                  window (W bits below the highest number, older numbers *)
(*                  count as duplicates)                                   *)
(*    Process       frames are applied                                     *)
(* The network delivers genuine packets any number of times in any order   *)
(* and injects forged ones.                                                *)
(***************************************************************************)
EXTENDS Naturals, Integers, FiniteSets

CONSTANTS MaxPn,   \* packet numbers 0..MaxPn are sent
          W        \* size of the duplicate window below the highest number (real: 128)

VARIABLES next,       \* Dedup.next: lowest number higher than all authenticated
          window,     \* numbers strictly below next-1 recorded in the bitmap
          processed,  \* pn -> how often its frames were applied
          forgedDone  \* number of forged packets whose frames were applied

avars == <<next, window, processed, forgedDone>>

Init == next = 0 /\ window = {} /\ processed = [p \in 0 .. MaxPn |-> 0] /\ forgedDone = 0

Highest == next - 1

\* Dedup::insert: TRUE iff the packet must be treated as a duplicate
IsDup(p) ==
  IF p >= next THEN FALSE
  ELSE IF Highest - p < W + 1
         THEN IF p = Highest THEN TRUE ELSE p \in window
         ELSE TRUE

Insert(p) ==
  IF p >= next
    THEN /\ next' = p + 1
         \* shifting the bitmap: old highest enters it, numbers falling out of the window are dropped
         /\ window' = {q \in (window \cup (IF next > 0 THEN {Highest} ELSE {})) : p - q <= W}
    ELSE /\ next' = next
         /\ window' = IF Highest - p < W + 1 /\ p # Highest THEN window \cup {p} ELSE window

\* a genuine packet (fresh or replayed, the model does not need to know) is delivered
DeliverGenuine(p) ==
  /\ p \in 0 .. MaxPn
  /\ IF IsDup(p)
       THEN UNCHANGED <<next, window, processed>>
       ELSE /\ Insert(p)
            /\ processed' = [processed EXCEPT ![p] = @ + 1]
  /\ UNCHANGED forgedDone

\* a packet that fails authentication: never reaches dedup or frame processing
DeliverForged == UNCHANGED avars

Next == (\E p \in 0 .. MaxPn : DeliverGenuine(p)) \/ DeliverForged
Spec == Init /\ [][Next]_avars

AtMostOnce == \A p \in 0 .. MaxPn : processed[p] <= 1
OnlyAuthentic == forgedDone = 0
WindowSane == \A q \in window : q < next /\ Highest - q <= W + 1
AuthInv == AtMostOnce /\ OnlyAuthentic /\ WindowSane
=============================================================================
