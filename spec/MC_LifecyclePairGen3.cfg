CONSTANT MaxSteps = 3
CONSTANT Emit = TRUE
INIT Init
NEXT Next
INVARIANT PairInv
INVARIANT EmitInv
CHECK_DEADLOCK FALSE
