-------------------------- MODULE RecvLimitsTrace --------------------------
(***************************************************************************)
(* C06, honest traffic: the receiver half of Credit on real executions.    *)
(*   Credit!BufferedBounded       received-but-unread bytes held for the   *)
(*        connection never exceed the receive window (plus the debt of a   *)
(*        window shrunk at run time), per stream never the stream window   *)
(*   Credit!CreditOnlyForConsumed every MAX_DATA / MAX_STREAM_DATA value   *)
(*        put on the wire is at most what the application has consumed     *)
(*        (received minus still held) plus the window                      *)
(***************************************************************************)
EXTENDS Naturals, Integers, Sequences, FiniteSets, TLC, Json, IOUtils
Rec == ndJsonDeserialize(IOEnv.TRACE)
N == Len(Rec)
VARIABLES l, bad, cur
vars == <<l, bad, cur>>
e == Rec[l]
Is(k) == l <= N /\ e.ev = k
Flag(c, name) == IF c THEN {} ELSE {name}
TInit == l = 1 /\ bad = {} /\ cur = <<0>>
Reset == Is("Reset") /\ bad' = {} /\ cur' = <<e.run>> /\ l' = l + 1

Acct ==
  /\ Is("Acct")
  /\ bad' = bad
       \cup Flag(e.unread <= e.rwmax + e.debt, "BufferedBeyondReceiveWindow")
       \cup Flag(e.worst <= e.srw, "StreamBufferedBeyondStreamWindow")
       \* unread application datagrams never exceed datagram_receive_buffer_size
       \cup Flag(e.dgrb <= e.dgcap, "DatagramBufferBeyondLimit")
       \cup Flag(\A i \in DOMAIN e.credits :
                   LET c == e.credits[i] IN
                   IF c.k = "md" THEN c.v <= (e.dr - e.unread) + e.rwmax + e.debt
                   ELSE c.br < 0 \/ c.v <= c.br + e.srw,
                 "CreditIssuedForUnconsumedData")
  /\ l' = l + 1 /\ UNCHANGED cur

TNext == Reset \/ Acct
TraceSpec == TInit /\ [][TNext]_vars
Watch == TLCSet(1, <<l, bad, cur>>) /\ bad = {}
TraceAccepted ==
  LET r == TLCGet(1) d == TLCGet("stats").diameter IN
  IF r[2] # {} THEN Print(<<"VIOLATION", r[2], "line", r[1] - 1, "run", r[3]>>, FALSE)
  ELSE IF d - 1 # N THEN Print(<<"UNMATCHED", "line", d, "run", r[3]>>, FALSE)
  ELSE TRUE
=============================================================================
