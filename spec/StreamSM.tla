------------------------------ MODULE StreamSM ------------------------------
(***************************************************************************)
(* Design model for C11: both halves of one stream direction plus the      *)
(* control signals in flight, all interleavings; uses the operation table  *)
(* of StreamSMOps.                                                         *)
(***************************************************************************)
EXTENDS StreamSMOps

\* ---------------------------------------------------------------------------------------------
\* Design model: both halves plus signals in flight, all interleavings
VARIABLES snd, rcv, wire, arrived, finishedEv, stoppedEv, termSeen
mvars == <<snd, rcv, wire, arrived, finishedEv, stoppedEv, termSeen>>
\* wire: set of signals in flight {"fin","rst","stop","ackfin","ackrst"}; arrived: signals seen by the receiver
MInit == /\ snd = SFresh /\ rcv = RFresh /\ wire = {} /\ arrived = {} /\ finishedEv = 0
         /\ stoppedEv = 0 /\ termSeen = 0

AppWrite == /\ "Ok" \in WriteResults(snd) /\ UNCHANGED mvars
AppFinish == /\ FinishResults(snd) = {"Ok"} /\ snd' = [snd EXCEPT !.fin = TRUE]
             /\ wire' = wire \cup {"fin"} /\ UNCHANGED <<rcv, arrived, finishedEv, stoppedEv, termSeen>>
AppReset == /\ ResetResults(snd) = {"Ok"} /\ snd' = [snd EXCEPT !.rst = TRUE]
            /\ wire' = (wire \ {"fin"}) \cup {"rst"} /\ UNCHANGED <<rcv, arrived, finishedEv, stoppedEv, termSeen>>
AppStop == /\ StopResults(rcv) = {"Ok"} /\ rcv' = [rcv EXCEPT !.stopped = TRUE]
           /\ wire' = IF {"fin", "rst"} \cap arrived = {} THEN wire \cup {"stop"} ELSE wire
           /\ UNCHANGED <<snd, arrived, finishedEv, stoppedEv, termSeen>>
\* reader obtains a terminal outcome
AppReadEos == /\ ~RClosed(rcv) /\ "fin" \in arrived /\ "rst" \notin arrived
              /\ rcv' = [rcv EXCEPT !.term = "eos"] /\ termSeen' = termSeen + 1
              /\ UNCHANGED <<snd, wire, arrived, finishedEv, stoppedEv>>
AppReadRst == /\ ~RClosed(rcv) /\ "rst" \in arrived
              /\ rcv' = [rcv EXCEPT !.term = "rst"] /\ termSeen' = termSeen + 1
              /\ UNCHANGED <<snd, wire, arrived, finishedEv, stoppedEv>>
\* network
Arrive(m) ==
  /\ m \in wire
  /\ CASE m \in {"fin", "rst"} ->
            /\ arrived' = arrived \cup {m}
            /\ wire' = (wire \ {m}) \cup (IF m = "rst" THEN {"ackrst"} ELSE {"ackfin"})
            /\ UNCHANGED <<snd, rcv, finishedEv, stoppedEv, termSeen>>
       [] m = "stop" ->
            \* StreamsState::received_stop_sending: ignored once the half is gone
            /\ IF ~snd.freed /\ snd.stop = -1
                 THEN snd' = [snd EXCEPT !.stop = 1] /\ stoppedEv' = stoppedEv + 1
                 ELSE UNCHANGED <<snd, stoppedEv>>
            /\ wire' = wire \ {m}
            /\ UNCHANGED <<rcv, arrived, finishedEv, termSeen>>
       [] m = "ackfin" ->
            \* received_ack_of: all data and FIN acknowledged -> Finished, half freed
            /\ IF snd.fin /\ ~snd.rst /\ ~snd.freed
                 THEN snd' = [snd EXCEPT !.freed = TRUE] /\ finishedEv' = finishedEv + 1
                 ELSE UNCHANGED <<snd, finishedEv>>
            /\ wire' = wire \ {m}
            /\ UNCHANGED <<rcv, arrived, stoppedEv, termSeen>>
       [] m = "ackrst" ->
            /\ IF snd.rst /\ ~snd.freed THEN snd' = [snd EXCEPT !.freed = TRUE] ELSE UNCHANGED snd
            /\ wire' = wire \ {m}
            /\ UNCHANGED <<rcv, arrived, finishedEv, stoppedEv, termSeen>>
Lose(m) == m \in wire /\ m \in {"ackfin", "ackrst"} /\ wire' = wire \ {m}
           /\ UNCHANGED <<snd, rcv, arrived, finishedEv, stoppedEv, termSeen>>

MNext == AppWrite \/ AppFinish \/ AppReset \/ AppStop \/ AppReadEos \/ AppReadRst
         \/ \E m \in wire : Arrive(m) \/ Lose(m)
MSpec == MInit /\ [][MNext]_mvars

\* C11
FinishedAtMostOnce == finishedEv <= 1 /\ (finishedEv = 1 => snd.fin)
StoppedAtMostOnce == stoppedEv <= 1
OneTerminalOutcome == termSeen <= 1
FinishedOnlyAfterFinAcked == finishedEv = 1 => "fin" \in arrived
StreamSMInv == FinishedAtMostOnce /\ StoppedAtMostOnce /\ OneTerminalOutcome /\ FinishedOnlyAfterFinAcked
=============================================================================
