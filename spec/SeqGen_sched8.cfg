CONSTANT Alphabet = {0, 1, 2}
CONSTANT N = 8
INIT Init
NEXT Next
INVARIANT Emit
CHECK_DEADLOCK FALSE
