SPECIFICATION Spec
CONSTANT Readers = {"r1", "r2"}
CONSTANT MaxBytes = 2
CONSTANT WBytes = 2
CONSTANT InitCredit = 1
CONSTANT Spurious = 1
CONSTANT Bug = "no_wake"
INVARIANT TypeOK
INVARIANT NoLostWakeup
INVARIANT PendingHasWaker
INVARIANT NoStaleRegistration
INVARIANT DriverOutlivesHandles
PROPERTY Termination
CHECK_DEADLOCK FALSE
