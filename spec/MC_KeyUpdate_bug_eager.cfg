CONSTANT MaxPhase = 3
CONSTANT MaxPkts = 4
CONSTANT Eager = TRUE
SPECIFICATION KSpec
INVARIANT PhasesWithinOne
INVARIANT Readable
CHECK_DEADLOCK FALSE
