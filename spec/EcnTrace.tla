------------------------------ MODULE EcnTrace ------------------------------
(***************************************************************************)
(* Trace validation of explicit congestion notification (Ecn.tla) on runs  *)
(* with one client/server pair.  The network of the harness delivers a     *)
(* datagram with the mark it was sent with, marks it CE, strips the mark   *)
(* or rewrites it to ECT(1); the projection records the mark each datagram *)
(* arrived with, every ACK frame on the wire with its ECN counts, and the  *)
(* sender's belief (sending_ecn) before and after every step.              *)
(* Receiver (Ecn!Deliver, Ecn!Report):                                     *)
(*   EcnCountsNotExact       the counts of an ACK frame are the number of  *)
(*                           packets of that space the receiver processed  *)
(*                           with each mark, duplicates not counted        *)
(*   EcnBlockMissing / EcnBlockWithoutMarks   counts are reported exactly  *)
(*                           when a mark has been seen on the connection   *)
(* Sender (Ecn!Send, Ecn!GetAck with EcnOps!Verdict):                      *)
(*   EcnMarkingNotAsState    datagrams to the current path are ECT(0)      *)
(*                           exactly while the sender believes in ECN      *)
(*   EcnStateNotAsSpecified  the belief after an acknowledgement is what   *)
(*                           Ecn!GetAck gives: lost on a missing report    *)
(*                           or a failed validation, kept otherwise        *)
(*   EcnStateChangedWithoutAck   nothing else changes the belief on a path *)
(*   CongestionSignalIgnored a valid report with a CE increase is a        *)
(*                           congestion event                              *)
(***************************************************************************)
EXTENDS Naturals, Integers, Sequences, FiniteSets, TLC, Json, IOUtils, EcnOps
Rec == ndJsonDeserialize(IOEnv.TRACE)
N == Len(Rec)
\* lo/hi: marks certainly / possibly counted per side and space; seenLo/seenHi: a mark certainly /
\* possibly seen on the connection; fb: last accepted report per side and space; known: fb is known
VARIABLES l, bad, lo, hi, seenLo, seenHi, fb, known, cur
vars == <<l, bad, lo, hi, seenLo, seenHi, fb, known, cur>>
e == Rec[l]
Is(k) == l <= N /\ e.ev = k
Flag(c, name) == IF c THEN {} ELSE {name}
Sides == {"c", "s"}
Spaces == 0 .. 2
Blank(v) == [x \in Sides |-> [s \in Spaces |-> v]]
Cnt(a) == [ect0 |-> a[1], ect1 |-> a[2], ce |-> a[3]]
Le(a, b) == a.ect0 <= b.ect0 /\ a.ect1 <= b.ect1 /\ a.ce <= b.ce

TInit == /\ l = 1 /\ bad = {} /\ lo = Blank(Zero) /\ hi = Blank(Zero) /\ seenLo = [x \in Sides |-> FALSE]
         /\ seenHi = [x \in Sides |-> FALSE] /\ fb = Blank(Zero) /\ known = Blank(TRUE) /\ cur = <<0>>
Reset == /\ Is("Reset") /\ bad' = {} /\ lo' = Blank(Zero) /\ hi' = Blank(Zero) /\ seenLo' = [x \in Sides |-> FALSE]
         /\ seenHi' = [x \in Sides |-> FALSE] /\ fb' = Blank(Zero) /\ known' = Blank(TRUE)
         /\ cur' = <<e.run>> /\ l' = l + 1

\* a transmission: the mark and the reports it carries
Sent ==
  /\ Is("Sent")
  /\ LET x == e.side
         ackFlags == UNION {
           LET a == e.acks[i] IN
             IF a.has
               THEN Flag(Le(lo[x][a.sp], Cnt(a.c)) /\ Le(Cnt(a.c), hi[x][a.sp]), "EcnCountsNotExact")
                    \cup Flag(seenHi[x], "EcnBlockWithoutMarks")
               ELSE Flag(~seenLo[x], "EcnBlockMissing") : i \in 1 .. Len(e.acks)}
     IN bad' = bad \cup ackFlags \cup Flag(~e.onpath \/ e.mark = e.secn, "EcnMarkingNotAsState")
  /\ l' = l + 1 /\ UNCHANGED <<lo, hi, seenLo, seenHi, fb, known, cur>>

\* the sender's side of the ACK frames of one datagram, in order: <<belief, fb of the side, known, events>>
RECURSIVE Acks(_, _, _, _, _, _)
Acks(as, i, s, f, k, ev) ==
  IF i > Len(as) THEN <<s, f, k, ev>>
  ELSE LET a == as[i] IN
       IF a.newly = 0 \/ ~s THEN Acks(as, i + 1, s, f, k, ev)
       ELSE IF ~a.has THEN Acks(as, i + 1, FALSE, f, k, ev)
       ELSE IF ~a.newl THEN Acks(as, i + 1, s, f, k, ev)
       ELSE IF ~k[a.sp] THEN <<s, f, k, -1>>               \* feedback unknown: no expectation
       ELSE LET v == Verdict(f[a.sp], Cnt(a.c), a.newly) IN
            IF Fails(v) THEN Acks(as, i + 1, FALSE, [f EXCEPT ![a.sp] = Zero], k, ev)
            ELSE Acks(as, i + 1, s, [f EXCEPT ![a.sp] = Cnt(a.c)], k, IF v = "ce" THEN ev + 1 ELSE ev)

\* an arrival: the receiver counts the mark once per processed packet, the sender digests the reports
Got ==
  /\ Is("Got")
  /\ LET x == e.side
         mk == e.mark
         bumpAll(c, sure) == [s \in Spaces |->
            LET n == Cardinality({i \in 1 .. Len(e.sps) : e.sps[i] = s})
                add == IF sure THEN (IF e.sure THEN n ELSE 0) ELSE n
            IN CASE mk = "ect0" -> [c[s] EXCEPT !.ect0 = @ + add]
                 [] mk = "ect1" -> [c[s] EXCEPT !.ect1 = @ + add]
                 [] mk = "ce" -> [c[s] EXCEPT !.ce = @ + add]
                 [] OTHER -> c[s]]
         r == Acks(e.acks, 1, e.secn0, fb[x], known[x], 0)
         judged == e.sure /\ ~e.closed /\ e.gen0 = e.gen1 /\ r[4] >= 0
         touched == {e.acks[i].sp : i \in 1 .. Len(e.acks)}
     IN
       /\ lo' = [lo EXCEPT ![x] = bumpAll(lo[x], TRUE)]
       /\ hi' = [hi EXCEPT ![x] = bumpAll(hi[x], FALSE)]
       /\ seenLo' = [seenLo EXCEPT ![x] = @ \/ (e.sure /\ mk # "none" /\ Len(e.sps) > 0)]
       /\ seenHi' = [seenHi EXCEPT ![x] = @ \/ (mk # "none" /\ e.npk > 0)]
       /\ IF judged
            THEN /\ fb' = [fb EXCEPT ![x] = r[2]] /\ known' = known
                 /\ bad' = bad \cup Flag(e.secn1 = r[1], "EcnStateNotAsSpecified")
                               \cup Flag(e.cev >= r[4], "CongestionSignalIgnored")
            ELSE \* not sure which packets were processed, closed, a new path or unknown feedback:
                 \* trust the recorded belief, forget the feedback of the spaces an ACK touched
                 /\ fb' = fb
                 /\ known' = [known EXCEPT ![x] = [s \in Spaces |-> IF s \in touched THEN FALSE ELSE known[x][s]]]
                 /\ bad' = bad
  /\ l' = l + 1 /\ UNCHANGED cur

\* the belief changed outside the digestion of an acknowledgement
Chg == /\ Is("Chg")
       /\ bad' = bad \cup Flag(e.gen0 # e.gen1, "EcnStateChangedWithoutAck")
       /\ l' = l + 1 /\ UNCHANGED <<lo, hi, seenLo, seenHi, fb, known, cur>>

TNext == Reset \/ Sent \/ Got \/ Chg
TraceSpec == TInit /\ [][TNext]_vars
Watch == TLCSet(1, <<l, bad, cur>>) /\ bad = {}
TraceAccepted ==
  LET r == TLCGet(1) d == TLCGet("stats").diameter IN
  IF r[2] # {} THEN Print(<<"VIOLATION", r[2], "line", r[1] - 1, "run", r[3]>>, FALSE)
  ELSE IF d - 1 # N THEN Print(<<"UNMATCHED", "line", d, "run", r[3]>>, FALSE)
  ELSE TRUE
=============================================================================
