---------------------------- MODULE DispatchTrace ----------------------------
(***************************************************************************)
(* Trace validation of the endpoint's front door (Dispatch.tla): every     *)
(* datagram that was not handed to a connection is described from its      *)
(* bytes alone (form, version class, long type, connection ID lengths,     *)
(* size) and the endpoint's reaction is compared with DispatchOps!Outcome. *)
(*   AnsweredWhereSilenceIsDue   "drop" cases get no answer and create     *)
(*                               nothing                                   *)
(*   VersionNegotiationMissingOrMalformed   an unsupported version at a    *)
(*                               server is answered by a version           *)
(*                               negotiation packet of the expected size,  *)
(*                               unless that exceeds three times the cause *)
(*   ResetMissingOrMisSized      an unknown short packet (an unknown       *)
(*                               Initial at an endpoint that does not      *)
(*                               accept connections) is answered by a      *)
(*                               stateless reset, at least 21 bytes and    *)
(*                               smaller than the cause, unless one was    *)
(*                               sent less than the minimum interval ago   *)
(*   AdmissionMisrouted          an Initial of a supported version in a    *)
(*                               datagram of at least 1200 bytes goes to   *)
(*                               admission: a connection attempt, a close  *)
(*                               in an Initial packet, or nothing - never  *)
(*                               a reset or version negotiation            *)
(* With greasing of the fixed bit disabled (as in the harness) quinn       *)
(* insists on that bit before it looks at the version; the projection      *)
(* classifies such datagrams as junk.                                      *)
(***************************************************************************)
EXTENDS Naturals, Integers, Sequences, FiniteSets, TLC, Json, IOUtils, DispatchOps
Rec == ndJsonDeserialize(IOEnv.TRACE)
N == Len(Rec)
VARIABLES l, bad, lastReset, interval, cur
vars == <<l, bad, lastReset, interval, cur>>
e == Rec[l]
Is(k) == l <= N /\ e.ev = k
Flag(c, name) == IF c THEN {} ELSE {name}
At(f, a, d) == IF a \in DOMAIN f THEN f[a] ELSE d
Set(f, a, v) == IF a \in DOMAIN f THEN [f EXCEPT ![a] = v] ELSE f @@ (a :> v)

TInit == /\ l = 1 /\ bad = {} /\ lastReset = <<>> /\ interval = 20000 /\ cur = <<0>>
Reset == /\ Is("Reset") /\ bad' = {} /\ lastReset' = <<>> /\ interval' = e.interval /\ cur' = <<e.run>> /\ l' = l + 1

In ==
  /\ Is("In")
  /\ LET d == [form |-> e.form, ver |-> e.ver, ty |-> e.ty, cids |-> e.cids, size |-> e.size, cidok |-> e.cidok # "no"]
         lr == At(lastReset, e.n, -1)
         limited == lr # -1 /\ e.t < lr + interval
         o == Outcome(d, e.server, limited)
         silent == e.kind = "none"
         isReset == e.kind = "resp" /\ e.resp.k = "short"
         goodReset == isReset /\ e.resp.size >= MinReset /\ e.resp.size < e.size
         \* a header my decoder could not follow may be one quinn cannot follow either; an ID a hashing
         \* generator may refuse; both make silence acceptable
         maySilent == (e.form = "long" /\ e.ver = "ok" /\ ~e.parsed) \/ e.cidok = "maybe"
     IN
     /\ bad' = bad \cup
          (CASE o = "drop" -> Flag(silent, "AnsweredWhereSilenceIsDue")
             [] o = "vn" -> Flag(e.kind = "resp" /\ e.resp.k = "vn" /\ e.resp.size = VnSize(d), "VersionNegotiationMissingOrMalformed")
             [] o = "reset" -> Flag(goodReset \/ (maySilent /\ silent), "ResetMissingOrMisSized")
             [] OTHER -> Flag(silent \/ e.kind = "new" \/ (e.kind = "resp" /\ e.resp.k = "long"), "AdmissionMisrouted"))
     /\ lastReset' = IF isReset THEN Set(lastReset, e.n, e.t) ELSE lastReset
  /\ l' = l + 1 /\ UNCHANGED <<interval, cur>>

TNext == Reset \/ In
TraceSpec == TInit /\ [][TNext]_vars
Watch == TLCSet(1, <<l, bad, cur>>) /\ bad = {}
TraceAccepted ==
  LET r == TLCGet(1) d == TLCGet("stats").diameter IN
  IF r[2] # {} THEN Print(<<"VIOLATION", r[2], "line", r[1] - 1, "run", r[3]>>, FALSE)
  ELSE IF d - 1 # N THEN Print(<<"UNMATCHED", "line", d, "run", r[3]>>, FALSE)
  ELSE TRUE
=============================================================================
