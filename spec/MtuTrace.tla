------------------------------ MODULE MtuTrace ------------------------------
(***************************************************************************)
(* Trace validation for C13.  One history per connection (projection       *)
(* "mtu"): every transmit with the sizes and decoded content of its        *)
(* datagrams, and every step (datagram handled, timeout, API call) that    *)
(* changed the path MTU estimate, the path, the probe statistics or the    *)
(* availability of 1-RTT keys.                                             *)
(*                                                                         *)
(* The ledger g replays the design model Mtu.tla with the operators of     *)
(* MtuOps: estimate, peer limit, the single outstanding probe, the binary  *)
(* search (phase, bounds, loss count), the time of the last resolution.    *)
(* Every emitted datagram must be an enabled SendData / Pto / PollMtud of  *)
(* the model, every change of the estimate an Ack (rise to the size of the *)
(* acknowledged probe), a black hole fallback, PeerParams or NewPath.      *)
(*                                                                         *)
(* Named deviations (genuine, reported, not repaired):                     *)
(*  ProbeNotAboveEstimate   with minimum_change <= 2 the search probes the *)
(*      estimate itself or a smaller size; the acknowledgement of such a   *)
(*      probe lowers the estimate, possibly below min_mtu / 1200           *)
(*  PeerLimitLostOnNewPath  with MTU discovery disabled a new path (or     *)
(*      Connection::path_changed) starts from initial_mtu although the     *)
(*      peer's max_udp_payload_size is smaller                             *)
(*  NewPathAboveLinkNeverValidated  see Until                              *)
(***************************************************************************)
EXTENDS Naturals, Integers, Sequences, FiniteSets, TLC, Json, IOUtils, MtuOps

Rec == ndJsonDeserialize(IOEnv.TRACE)
N == Len(Rec)

VARIABLES l, bad, dev, c, g, cur
vars == <<l, bad, dev, c, g, cur>>

e == Rec[l]
Is(k) == l <= N /\ e.ev = k
Flag(cond, name) == IF cond THEN {} ELSE {name}

MaxUdp == 65527
Base == 1200                          \* INITIAL_MTU / MIN_INITIAL_SIZE
PeerOf(v) == Min(v, 65535)            \* u16::try_from(..).unwrap_or(u16::MAX)

\* configuration as TransportConfig / MtuDiscoveryConfig normalise it
MinMtuOf(r) == Max(r.minmtu, Base)
IMtuOf(r) == Max(Max(r.imtu, Base), MinMtuOf(r))
UpperOf(r) == Min(r.upper, MaxUdp)
MinMtu == MinMtuOf(c)
IMtu == IMtuOf(c)
Upper == UpperOf(c)

NoProbe == [pn |-> -1, sz |-> 0, dv |-> FALSE]
NoSearch == [lo |-> 0, hi |-> 0, last |-> 0, lost |-> 0]
NoSave == [ok |-> FALSE, mtu |-> 0, probe |-> NoProbe, ph |-> "", s |-> NoSearch]
NoCfg == [client |-> TRUE, imtu |-> Base, minmtu |-> Base, upper |-> 1452, minchg |-> 20, mtud |-> TRUE,
          interval |-> 0, cooldown |-> 0, live |-> FALSE, fb |-> FALSE]
G0 == [mtu |-> Base, peer |-> MaxUdp, known |-> FALSE, probe |-> NoProbe, ph |-> "init", s |-> NoSearch,
       tres |-> 0, wait |-> 0, sv |-> NoSave, floorx |-> MaxUdp, link |-> 0]

Covered(acks, pn) == \E i \in 1 .. Len(acks) : acks[i][1] <= pn /\ pn <= acks[i][2]

TInit == l = 1 /\ bad = {} /\ dev = {} /\ c = NoCfg /\ g = G0 /\ cur = <<0, 0, 0>>

\* a connection starts with initial_mtu, or with the peer's limit already applied (a server that
\* got the whole first flight, remembered 0-RTT parameters)
Reset ==
  /\ Is("Reset")
  /\ LET pk == e.ptp >= 0
         pv == PeerOf(e.ptp)
         capped == pk /\ e.mtu = Min(IMtuOf(e), pv)
         kn == pk /\ (e.keys \/ e.mtu < IMtuOf(e))
     IN
       \* (a server whose client spread its first flight over several datagrams learns the
       \* parameters after accept, like a client)
       /\ bad' = Flag(e.mtu = IMtuOf(e) \/ capped, "InitialMtuWrong")
       /\ g' = [G0 EXCEPT !.mtu = e.mtu, !.known = kn, !.peer = IF kn THEN pv ELSE MaxUdp,
                          !.ph = IF e.mtud THEN "init" ELSE "off", !.link = e.link, !.tres = e.t]
  /\ c' = [client |-> e.client, imtu |-> e.imtu, minmtu |-> e.minmtu, upper |-> e.upper,
           minchg |-> e.minchg, mtud |-> e.mtud, interval |-> e.interval, cooldown |-> e.cooldown,
           live |-> e.live, fb |-> e.fb]
  /\ dev' = {} /\ cur' = <<e.run, e.n, e.c>> /\ l' = l + 1

\* what the connection knows about the peer's limit after this line: the parameters are
\* processed at the latest when 1-RTT keys exist
KnownNow(kn) == kn \/ (e.keys /\ e.ptp >= 0)
PeerNow(kn, pr) == IF ~kn /\ e.keys /\ e.ptp >= 0 THEN PeerOf(e.ptp) ELSE pr

\* ---- a step that may change the estimate ------------------------------------------------------
Step ==
  /\ Is("Step")
  /\ LET pk == e.ptp >= 0
         pv == PeerOf(e.ptp)
         acked == g.probe.pn >= 0 /\ e.k = "rx" /\ Covered(e.acks, g.probe.pn)
         bh == e.bh1 > e.bh0
         plost == e.lp1 > e.lp0
         api == e.k = "call" /\ e.op = "path_changed"
         newer == e.gen1 > e.gen0
         fresh == api \/ (newer /\ (e.rem1 \div 65536) # (e.rem0 \div 65536))
         clone == newer /\ ~fresh
         revert == e.gen1 < e.gen0
         freshMtu == IF g.known THEN Min(IMtu, g.peer) ELSE IMtu
         lostPeer == fresh /\ g.known /\ ~c.mtud /\ e.m1 = IMtu /\ IMtu > g.peer
         off == g.ph = "off"
         Resolved(x) == [x EXCEPT !.probe = NoProbe, !.tres = e.t]
         \* effects on the current path: r = [g (new ledger), f (violations)], the estimate going
         \* from a to b (Ack / black hole / PeerParams of the model)
         OnPath(a, b) ==
           IF bh THEN
             [g |-> [Resolved(g) EXCEPT !.mtu = b, !.ph = IF off THEN "off" ELSE "done", !.wait = c.cooldown],
              f |-> Flag(b = MinMtu, "FallbackNotToMinMtu")]
           ELSE IF b > a THEN
             [g |-> [Resolved(g) EXCEPT !.mtu = b, !.s = [g.s EXCEPT !.lost = 0]],
              f |-> Flag(acked /\ b = g.probe.sz, "RiseWithoutAckedProbe")]
           ELSE IF b < a THEN
             (IF acked /\ g.probe.dv /\ b = g.probe.sz
                THEN [g |-> [Resolved(g) EXCEPT !.mtu = b, !.s = [g.s EXCEPT !.lost = 0],
                                               !.floorx = Min(g.floorx, b)],
                      f |-> {}]
                ELSE [g |-> [g EXCEPT !.mtu = b, !.peer = pv, !.known = TRUE],
                      f |-> Flag(pk /\ b = Min(a, pv), "UnexplainedMtuDrop")])
           ELSE IF plost THEN
             [g |-> [Resolved(g) EXCEPT !.s = IF g.ph = "search" THEN [g.s EXCEPT !.lost = @ + 1] ELSE g.s],
              f |-> Flag(g.probe.pn >= 0 \/ g.ph = "any", "LostProbeUnknown")]
           ELSE IF acked /\ g.probe.sz = a THEN
             [g |-> [Resolved(g) EXCEPT !.s = [g.s EXCEPT !.lost = 0]], f |-> {}]
           ELSE [g |-> g, f |-> {}]
         \* the path being left (frames are processed before the packet's address migrates the
         \* connection): its estimate is no longer observable, assume the model's effect
         left == OnPath(e.m0, IF bh THEN MinMtu
                              ELSE IF acked /\ (g.probe.sz > e.m0 \/ g.probe.dv) THEN g.probe.sz ELSE e.m0).g
         Snap(x) == IF newer /\ ~e.chal0
                      THEN [ok |-> TRUE, mtu |-> x.mtu, probe |-> x.probe, ph |-> x.ph, s |-> x.s]
                      ELSE g.sv
         \* r = [g, f, d (deviations)]
         r ==
           IF fresh THEN
             [g |-> [g EXCEPT !.mtu = e.m1, !.probe = NoProbe, !.s = NoSearch, !.sv = Snap(left),
                              !.ph = IF c.mtud THEN "init" ELSE "off", !.tres = e.t],
              f |-> Flag(e.m1 = freshMtu \/ lostPeer, "NewPathMtuWrong"),
              d |-> IF lostPeer THEN {"PeerLimitLostOnNewPath"} ELSE {}]
           ELSE IF clone THEN
             LET o == OnPath(e.m0, e.m1) IN [g |-> [o.g EXCEPT !.sv = Snap(o.g)], f |-> o.f, d |-> {}]
           ELSE IF revert THEN
             [g |-> [g EXCEPT !.mtu = e.m1, !.probe = g.sv.probe, !.s = g.sv.s, !.sv = NoSave,
                              !.ph = IF g.sv.ph = "off" \/ ~g.sv.ok THEN "off" ELSE "any"],
              f |-> Flag(g.sv.ok /\ e.m1 = g.sv.mtu, "NewPathMtuWrong"), d |-> {}]
           ELSE LET o == OnPath(e.m0, e.m1) IN [g |-> o.g, f |-> o.f, d |-> {}]
         kn == KnownNow(r.g.known)
         pr == PeerNow(r.g.known, r.g.peer)
     IN
       /\ g' = [r.g EXCEPT !.known = kn, !.peer = pr]
       /\ dev' = dev \cup r.d
       /\ bad' = bad \cup r.f
            \cup Flag(e.m0 = g.mtu, "UnobservedMtuChange")
            \cup Flag(e.m1 >= Min(Min(MinMtu, pr), r.g.floorx), "MtuBelowFloor")
            \cup Flag(kn => (e.m1 <= pr \/ "PeerLimitLostOnNewPath" \in dev \cup r.d), "MtuAbovePeerLimit")
  /\ l' = l + 1 /\ UNCHANGED <<c, cur>>

\* ---- a transmit ---------------------------------------------------------------------------------
RECURSIVE LossProbesFit(_, _, _)
\* a datagram started while its space holds a loss probe budget is a loss probe: at most 1200
LossProbesFit(dgs, i, lp) ==
  IF i > Len(dgs) THEN TRUE
  ELSE LET d == dgs[i]
           has == d.first \in 0 .. 2 /\ lp[d.first + 1] > 0 IN
       (has => d.size <= Base)
       /\ LossProbesFit(dgs, i + 1, IF has THEN [lp EXCEPT ![d.first + 1] = @ - 1] ELSE lp)

Tx ==
  /\ Is("Tx")
  /\ LET n == Len(e.dgs)
         D == 1 .. n
         d1 == e.dgs[1]
         isp == e.sp1 > e.sp0                       \* ConnectionStats.sent_plpmtud_probes moved
         shape == n = 1 /\ d1.pshape
         kn == KnownNow(g.known)
         pr == PeerNow(g.known, g.peer)
         lostPeer == "PeerLimitLostOnNewPath" \in dev
         x == d1.size
         \* PollMtud of the model: continue the search, or start one if that is due
         cont == g.ph = "search" /\ ProbeSize(g.s, c.minchg) # 0
         due == \/ g.ph = "init"
                \/ g.ph = "done" /\ e.t >= g.tres + g.wait
                \/ g.ph = "search" /\ ~cont /\ e.t >= g.tres + c.interval
         s0 == IF cont THEN g.s ELSE StartSearch(e.m0, pr, Upper)
         dvp == x <= e.m0
         general ==
              Flag(\A i \in D : e.dgs[i].size <= e.m0 \/ (isp /\ shape), "DatagramExceedsMtu")
         \cup Flag(kn => \A i \in D : e.dgs[i].size <= pr \/ lostPeer \/ isp, "DatagramExceedsPeerLimit")
         \cup Flag(\A i \in D : (c.client /\ e.dgs[i].init) => e.dgs[i].size >= Base, "ClientInitialUnpadded")
         \cup Flag(\A i \in D : (~c.client /\ e.dgs[i].initae) => e.dgs[i].size >= Base, "ServerInitialUnpadded")
         \cup Flag(\A i \in D : e.dgs[i].pathf => e.dgs[i].size >= Base, "PathFrameUnpadded")
         \cup Flag(LossProbesFit(e.dgs, 1, e.lp), "LossProbeTooLarge")
         \cup Flag(\A i \in D : e.dgs[i].ok, "DatagramUndecodable")
         \cup Flag(e.seg > 0 => \A i \in D : IF i < n THEN e.dgs[i].size = e.seg ELSE e.dgs[i].size <= e.seg,
                   "GsoSegmentMismatch")
         \cup Flag(e.m0 = g.mtu /\ e.m1 = e.m0, "UnobservedMtuChange")
         probing ==
              Flag(shape, "ProbeMalformed")
         \cup Flag(e.est, "ProbeBeforeEstablished")
         \cup Flag(c.mtud, "ProbeWhileDisabled")
         \cup Flag(g.probe.pn < 0, "SecondProbeOutstanding")
         \cup Flag(x <= Upper, "ProbeExceedsUpperBound")
         \cup Flag(kn => x <= pr, "ProbeExceedsPeerLimit")
         \cup Flag(g.ph = "any" \/ cont \/ due, "SearchRestartTooEarly")
         \cup Flag(g.ph = "any" \/ x = ProbeSize(s0, c.minchg), "ProbeSizeNotFromSearch")
     IN
       IF isp
         THEN /\ bad' = bad \cup general \cup probing
              /\ dev' = dev \cup (IF dvp THEN {"ProbeNotAboveEstimate"} ELSE {})
              /\ g' = [g EXCEPT !.known = kn, !.peer = pr,
                                !.probe = [pn |-> d1.pn, sz |-> x, dv |-> dvp],
                                !.s = IF g.ph = "any" THEN g.s ELSE AfterProbe(s0, x),
                                !.ph = IF g.ph \in {"any", "off"} THEN g.ph ELSE "search"]
         ELSE /\ bad' = bad \cup general
              /\ dev' = dev
              /\ g' = [g EXCEPT !.known = kn, !.peer = pr]
  /\ l' = l + 1 /\ UNCHANGED <<c, cur>>

Link == /\ Is("Link") /\ g' = [g EXCEPT !.link = e.v]
        /\ l' = l + 1 /\ UNCHANGED <<bad, dev, c, cur>>

\* the workload of a run whose path always carries min_mtu must complete whatever the path did.
\* Named deviation NewPathAboveLinkNeverValidated: a migration (also a mere port change) before
\* the fallback happened starts the new path with an estimate the link does not carry; the one
\* datagram the anti-amplification budget allows is filled to that size and lost, so neither the
\* PATH_CHALLENGE nor a loss probe ever reaches the peer and the connection times out.
Until == /\ Is("Until")
         /\ LET fail == c.live /\ ~e.ok IN
              /\ bad' = bad \cup Flag(fail => e.newbig, "WorkloadNotCompletedAfterPathChange")
              /\ dev' = dev \cup (IF fail /\ e.newbig THEN {"NewPathAboveLinkNeverValidated"} ELSE {})
         /\ l' = l + 1 /\ UNCHANGED <<c, g, cur>>

\* a bulk sender on a path that shrank must have fallen back to what the path carries
End == /\ Is("End")
       /\ bad' = bad \cup Flag(c.fb => g.mtu <= e.link, "NoFallbackAfterPathShrink")
       /\ l' = l + 1 /\ UNCHANGED <<dev, c, g, cur>>

Abnormal == /\ Is("Abnormal")
            /\ bad' = bad \cup {IF e.what = "Panic" THEN "Panic" ELSE "RunawayLoop"}
            /\ l' = l + 1 /\ UNCHANGED <<dev, c, g, cur>>

TNext == (Reset \/ Step \/ Tx \/ Link \/ Until \/ End \/ Abnormal)
         /\ (dev' \subseteq dev \/ PrintT(<<"KNOWN", dev' \ dev, "line", l, "run", cur>>))
TraceSpec == TInit /\ [][TNext]_vars

Watch == TLCSet(1, <<l, bad, cur>>) /\ bad = {}
TraceAccepted ==
  LET r == TLCGet(1) d == TLCGet("stats").diameter IN
  IF r[2] # {} THEN Print(<<"VIOLATION", r[2], "line", r[1] - 1, "run", r[3]>>, FALSE)
  ELSE IF d - 1 # N THEN Print(<<"UNMATCHED", "line", d, "run", r[3]>>, FALSE)
  ELSE TRUE
=============================================================================
