------------------------------ MODULE LossDetect ------------------------------
(***************************************************************************)
(* Design model of loss detection for one packet number space (RFC 9002    *)
(* section 6), the way quinn's on_ack_received / detect_lost_packets /      *)
(* on_loss_detection_timeout / set_loss_detection_timer do it.              *)
(*                                                                         *)
(* A sender numbers packets 1..N and sends them at integer instants; the   *)
(* network delivers, reorders or drops them; the receiver acknowledges      *)
(* everything it has with frames that are themselves delayed, reordered or *)
(* dropped.  The sender keeps, per packet, outstanding / acknowledged /    *)
(* lost; the largest acknowledged number; a loss time; the probe timeout   *)
(* count and a budget of probes.  Its single timer is a FUNCTION of that   *)
(* state (Timer below) and time never passes an armed timer: the           *)
(* implementation is bound to exactly this function by LossTrace.tla.      *)
(*                                                                         *)
(* Checked (TLC, exhaustive for the constants of the configuration):       *)
(*   LostWasOvertaken     a lost packet is below the largest acknowledged  *)
(*   LostOnlyAtThreshold  a packet becomes lost only K behind the largest  *)
(*                        acknowledged one or D after it was sent          *)
(*   NothingOverdue       what is outstanding below the largest            *)
(*                        acknowledged packet is less than K behind it,    *)
(*                        younger than D, and the loss time is armed for   *)
(*                        the oldest of it                                 *)
(*   TimerArmed           while anything is outstanding the timer is armed *)
(*   AckedStaysAcked      a packet's fate is final                         *)
(*   CountReset           the probe timeout count is zero after an ACK     *)
(*                        that newly acknowledged something                *)
(* Planted defects (CONSTANT Bug), each refuted by one of the above:       *)
(*   forget_time  the loss time is not armed for what stays outstanding    *)
(*   gt_threshold packet threshold compared with > instead of >=           *)
(*   above_largest  packets above the largest acknowledged are examined too *)
(*   no_rearm     a probe timeout does not arm the next one                *)
(***************************************************************************)
EXTENDS Naturals, Integers, FiniteSets, LossOps

CONSTANTS N,      \* packets
          T,      \* instants
          K,      \* packet threshold
          D,      \* time threshold (loss delay)
          P,      \* probe timeout base
          W,      \* packets allowed outstanding without a probe budget
          MaxPto, \* bound on the probe timeout count (state constraint)
          Bug

VARIABLES now, nextPn, sentAt, st, net, rcvd, acks, largest, lossTime, lastAe, ptoc, probes, newlyAcked
vars == <<now, nextPn, sentAt, st, net, rcvd, acks, largest, lossTime, lastAe, ptoc, probes, newlyAcked>>

Pn == 1 .. N
Out(s) == {p \in Pn : s[p] = "out"}
MaxOf(S) == CHOOSE x \in S : \A y \in S : y <= x
MinOf(S) == CHOOSE x \in S : \A y \in S : x <= y

Init == /\ now = 0 /\ nextPn = 1 /\ sentAt = [p \in Pn |-> -1] /\ st = [p \in Pn |-> "unsent"]
        /\ net = {} /\ rcvd = {} /\ acks = {} /\ largest = 0 /\ lossTime = -1 /\ lastAe = -1
        /\ ptoc = 0 /\ probes = 0 /\ newlyAcked = FALSE

\* set_loss_detection_timer as a function of the state; -1: not armed
TimerOf(s, lt, la, c) ==
  IF lt # -1 THEN lt
  ELSE IF Out(s) # {} /\ la # -1 THEN PtoAt(la, P, c)
  ELSE -1
Timer == TimerOf(st, lossTime, lastAe, ptoc)

\* time never passes an armed timer
Tick == /\ now < T /\ (Timer = -1 \/ now < Timer)
        /\ now' = now + 1 /\ newlyAcked' = FALSE
        /\ UNCHANGED <<nextPn, sentAt, st, net, rcvd, acks, largest, lossTime, lastAe, ptoc, probes>>

Send == /\ nextPn <= N
        /\ (Cardinality(Out(st)) < W \/ probes > 0)
        /\ st' = [st EXCEPT ![nextPn] = "out"] /\ sentAt' = [sentAt EXCEPT ![nextPn] = now]
        /\ net' = net \cup {nextPn} /\ nextPn' = nextPn + 1 /\ lastAe' = now
        /\ probes' = (IF probes > 0 THEN probes - 1 ELSE 0) /\ newlyAcked' = FALSE
        /\ UNCHANGED <<now, rcvd, acks, largest, lossTime, ptoc>>

Deliver(p) == /\ p \in net /\ net' = net \ {p} /\ rcvd' = rcvd \cup {p} /\ newlyAcked' = FALSE
              /\ UNCHANGED <<now, nextPn, sentAt, st, acks, largest, lossTime, lastAe, ptoc, probes>>
Drop(p) == /\ p \in net /\ net' = net \ {p} /\ newlyAcked' = FALSE
           /\ UNCHANGED <<now, nextPn, sentAt, st, rcvd, acks, largest, lossTime, lastAe, ptoc, probes>>
MakeAck == /\ rcvd # {} /\ rcvd \notin acks /\ acks' = acks \cup {rcvd} /\ newlyAcked' = FALSE
           /\ UNCHANGED <<now, nextPn, sentAt, st, net, rcvd, largest, lossTime, lastAe, ptoc, probes>>
DropAck(a) == /\ a \in acks /\ acks' = acks \ {a} /\ newlyAcked' = FALSE
              /\ UNCHANGED <<now, nextPn, sentAt, st, net, rcvd, largest, lossTime, lastAe, ptoc, probes>>

\* detect_lost_packets: the fates and the loss time after examining what is below `lg`
Examined(s, lg) == {p \in Out(s) : Bug = "above_largest" \/ p < lg}
Overdue(s, lg) == {p \in Examined(s, lg) :
                     IF Bug = "gt_threshold" THEN lg > p + K \/ now - sentAt[p] >= D
                     ELSE AtThreshold(lg, p, K, now - sentAt[p], D)}
Detect(s, lg) ==
  LET lostNow == Overdue(s, lg)
      rest == Examined(s, lg) \ lostNow
  IN /\ st' = [p \in Pn |-> IF p \in lostNow THEN "lost" ELSE s[p]]
     /\ lossTime' = IF rest = {} \/ Bug = "forget_time" THEN -1 ELSE MinOf({sentAt[p] + D : p \in rest})

ProcessAck(a) ==
  /\ a \in acks /\ acks' = acks \ {a}
  /\ LET newly == a \cap Out(st)
         lg == IF MaxOf(a) > largest THEN MaxOf(a) ELSE largest
         s1 == [p \in Pn |-> IF p \in newly THEN "acked" ELSE st[p]]
     IN /\ largest' = lg
        /\ IF newly = {} THEN UNCHANGED <<st, lossTime, ptoc>> /\ newlyAcked' = FALSE
           ELSE Detect(s1, lg) /\ ptoc' = 0 /\ newlyAcked' = TRUE
  /\ UNCHANGED <<now, nextPn, sentAt, net, rcvd, lastAe, probes>>

TimerFire ==
  /\ Timer # -1 /\ now >= Timer /\ newlyAcked' = FALSE
  /\ IF lossTime # -1
     THEN Detect(st, largest) /\ UNCHANGED <<ptoc, probes, lastAe>>
     ELSE /\ ptoc' = ptoc + 1 /\ probes' = 2 /\ UNCHANGED <<st, lossTime>>
          \* (the planted defect: the timer is left where it expired - modelled by forgetting what it runs from)
          /\ lastAe' = (IF Bug = "no_rearm" THEN -1 ELSE lastAe)
  /\ UNCHANGED <<now, nextPn, sentAt, net, rcvd, acks, largest>>

Next == Tick \/ Send \/ MakeAck \/ TimerFire
        \/ (\E p \in Pn : Deliver(p) \/ Drop(p))
        \/ (\E a \in acks : DropAck(a) \/ ProcessAck(a))
Spec == Init /\ [][Next]_vars

Bounded == ptoc <= MaxPto

--------------------------------------------------------------------------------
TypeOK == /\ now \in 0 .. T /\ nextPn \in 1 .. N + 1 /\ largest \in 0 .. N
          /\ st \in [Pn -> {"unsent", "out", "acked", "lost"}]
          /\ lossTime \in -1 .. T + D

LostWasOvertaken == \A p \in Pn : st[p] = "lost" => p < largest
NothingOverdue ==
  \A p \in Out(st) : p < largest =>
     /\ largest < p + K
     /\ now - sentAt[p] <= D
     /\ lossTime # -1 /\ lossTime <= sentAt[p] + D
TimerArmed == Out(st) # {} => Timer # -1
CountReset == newlyAcked => ptoc = 0

LostOnlyAtThreshold ==
  [][\A p \in Pn : (st[p] = "out" /\ st'[p] = "lost") => AtThreshold(largest', p, K, now - sentAt[p], D)]_vars
AckedStaysAcked ==
  [][\A p \in Pn : /\ (st[p] = "acked" => st'[p] = "acked")
                   /\ (st[p] = "lost" => st'[p] = "lost")
                   /\ (st'[p] = "acked" => st[p] \in {"out", "acked"})]_vars
=============================================================================
