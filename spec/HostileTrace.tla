---------------------------- MODULE HostileTrace ----------------------------
(***************************************************************************)
(* Spec -> implementation replay for C03 / C06: every case is one hostile  *)
(* input (an authenticated frame appended by the man in the middle, or     *)
(* hostile transport parameters, or raw datagrams) delivered to real       *)
(* quinn-proto.  The observed outcome must equal Hostile!Expected: the     *)
(* victim reports exactly that transport error (and puts it on the wire),  *)
(* or nothing happens; never a panic or runaway loop; queues stay below    *)
(* caps; none of the offending bytes reach the application; bystander      *)
(* connections complete their work.                                        *)
(***************************************************************************)
EXTENDS Hostile, Sequences, FiniteSets, TLC, Json, IOUtils

Rec == ndJsonDeserialize(IOEnv.TRACE)
N == Len(Rec)
VARIABLES l, bad, cur
vars == <<l, bad, cur>>
e == Rec[l]
Is(k) == l <= N /\ e.ev = k
Flag(c, name) == IF c THEN {} ELSE {name}

TInit == l = 1 /\ bad = {} /\ cur = <<0>>
Reset == Is("Reset") /\ bad' = {} /\ cur' = <<e.run>> /\ l' = l + 1

Observed == IF e.lostv.k = "TransportError" THEN e.lostv.code
            ELSE IF e.lostv.k = "none" THEN 0 ELSE -1

Case ==
  /\ Is("Case")
  /\ LET L == [md |-> e.md, sdbl |-> e.sdbl, sdbr |-> e.sdbr, sduni |-> e.sduni, msb |-> e.msb,
               msu |-> e.msu, dgram |-> e.dgram]
         kind == e.d.k
         exp == IF kind \in {"flood", "raw", "tp", "desync"} THEN -2 ELSE Expected(e.victim, L, e.d)
     IN bad' = bad
          \cup Flag(~e.panic, "Panic")
          \cup Flag(~e.stepbound, "RunawayLoop")
          \cup Flag(\A i \in 1 .. 7 : e.maxq[i] <= QueueCaps[i], "QueueGrewBeyondCap")
          \* a single targeted frame: predicted outcome = observed outcome
          \cup Flag((exp >= 0 /\ e.applied) => Observed = exp, "OutcomeDiffersFromTable")
          \cup Flag((exp > 0 /\ e.applied) => e.closev = exp, "CloseCodeOnWireDiffers")
          \* data beyond a limit is never handed to the application (C06)
          \cup Flag((exp > 0 /\ e.applied /\ kind = "stream") => e.read_after = 0,
                    "OffendingDataDelivered")
          \* floods / raw datagrams / hostile parameters: only this connection may be affected, and
          \* only by a transport error
          \cup Flag(exp = -2 => e.lostv.k \in {"none", "TransportError", "ConnectionClosed", "TimedOut", "Reset"},
                    "UnexpectedTermination")
          \cup Flag(e.bystander \/ ~e.d.by, "BystanderDisturbed")
  /\ l' = l + 1 /\ UNCHANGED cur

TNext == Reset \/ Case
TraceSpec == TInit /\ [][TNext]_vars
Watch == TLCSet(1, <<l, bad, cur>>) /\ bad = {}
TraceAccepted ==
  LET r == TLCGet(1) d == TLCGet("stats").diameter IN
  IF r[2] # {} THEN Print(<<"VIOLATION", r[2], "line", r[1] - 1, "run", r[3]>>, FALSE)
  ELSE IF d - 1 # N THEN Print(<<"UNMATCHED", "line", d, "run", r[3]>>, FALSE)
  ELSE TRUE
=============================================================================
