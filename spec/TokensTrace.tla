----------------------------- MODULE TokensTrace -----------------------------
(***************************************************************************)
(* Trace validation for C14 (validation tokens and Retry).                 *)
(*                                                                         *)
(* kind "conn": whole-connection executions on the real Endpoint /         *)
(* Connection.  The specification keeps the set of tokens this server      *)
(* sealed (Retry packets and NEW_TOKEN frames seen on the wire, tokens the *)
(* script minted under the server's key) with the address, second and      *)
(* original destination ID each was bound to, the reference set of tokens  *)
(* accepted so far and the exact BloomTokenLog period state, and replays   *)
(* Tokens!Present for every connection-creating Initial: predicted outcome *)
(* (validated / treated as absent / INVALID_TOKEN) against what the        *)
(* endpoint did.  Client side: TokenClient!RecvRetry for every Retry packet*)
(* delivered (integrity tag recomputed by the projection), the token and   *)
(* destination ID of every later Initial, TokenClient!RecvParams at the    *)
(* end of the handshake (connection IDs echoed by the server's parameters  *)
(* as tapped at the crypto provider), TokenCache for the shared store.     *)
(*                                                                         *)
(* kind "log" / "cache": call histories replayed directly into             *)
(* BloomTokenLog / TokenMemoryCache (qv tokens).                           *)
(***************************************************************************)
EXTENDS TokenOps, TLC, Json, IOUtils

Rec == ndJsonDeserialize(IOEnv.TRACE)
N == Len(Rec)

VARIABLES l, bad, deviations, cur,
          cfg,      \* parameters of the run
          issued,   \* token bytes -> what this server bound it to
          used,     \* NEW_TOKEN tokens the endpoint accepted so far (reference set)
          lg,       \* BloomTokenLog model
          pend,     \* the last connection-creating Initial
          lastAcc,  \* uid / client uid of the last accepted connection
          tpOf,     \* client uid -> server parameters and number of server connections it caused
          cl,       \* client uid -> Retry / token state
          cache, handed,  \* TokenMemoryCache model; tokens it handed out
          okset, maxI     \* component log histories: fingerprints accepted, latest issue instant

vars == <<l, bad, deviations, cur, cfg, issued, used, lg, pend, lastAcc, tpOf, cl, cache, handed, okset, maxI>>

e == Rec[l]
Is(k) == l <= N /\ e.ev = k
Flag(c, name) == IF c THEN {} ELSE {name}

At(f, a, d) == IF a \in DOMAIN f THEN f[a] ELSE d
Set(f, a, v) == IF a \in DOMAIN f THEN [f EXCEPT ![a] = v] ELSE f @@ (a :> v)

Sec == 1000000
IpOf(a) == a \div 65536
PortOf(a) == a % 65536

NoCfg == [kind |-> "none", rlife |-> 0, vlife |-> 0, logmode |-> "none", tpedit |-> FALSE, store |-> FALSE,
          S |-> 0, P |-> 0, life |-> 0]
NoPend == [tok |-> "", dcid |-> "", viaRetry |-> FALSE, odcid |-> "", out |-> "none"]
NoClient == [odcid |-> "", dcid |-> "", tok |-> "", known |-> FALSE, retried |-> FALSE, rscid |-> NoCid,
             sure |-> 0, anyc |-> 0, junk |-> 0, ninit |-> 0]
NoTp == [odcid |-> NoCid, iscid |-> NoCid, rscid |-> NoCid, n |-> 0, scid |-> NoCid, suid |-> -1]

TInit == /\ l = 1 /\ bad = {} /\ deviations = {} /\ cur = <<0>> /\ cfg = NoCfg
         /\ issued = <<>> /\ used = {} /\ lg = LogInit(FarPast) /\ pend = NoPend /\ lastAcc = <<-1, -1>>
         /\ tpOf = <<>> /\ cl = <<>> /\ cache = <<>> /\ handed = {} /\ okset = {} /\ maxI = 0

Reset ==
  /\ Is("Reset")
  /\ bad' = {} /\ deviations' = {} /\ cur' = <<e.run, e.kind>>
  /\ cfg' = IF e.kind = "conn"
              THEN [kind |-> "conn", rlife |-> e.rlife, vlife |-> e.vlife, logmode |-> e.logmode,
                    tpedit |-> e.tpedit, store |-> e.store, S |-> e.servers, P |-> e.per, life |-> 0]
            ELSE IF e.kind = "log"
              THEN [NoCfg EXCEPT !.kind = "log", !.logmode = e.mode, !.life = e.life]
              ELSE [NoCfg EXCEPT !.kind = "cache", !.S = e.servers, !.P = e.per]
  /\ issued' = <<>> /\ used' = {} /\ pend' = NoPend /\ lastAcc' = <<-1, -1>> /\ tpOf' = <<>> /\ cl' = <<>>
  /\ lg' = LogInit(IF e.kind = "log" THEN 0 ELSE FarPast)
  /\ cache' = <<>> /\ handed' = {} /\ okset' = {} /\ maxI' = 0
  /\ l' = l + 1

\* ---------------------------------------------------------------------------------------------
\* server side

\* Tokens!IssueRetry / IssueNew (also tokens minted by the script under this server's key)
Issue ==
  /\ Is("Issue")
  /\ issued' = IF e.own /\ e.tok # "" /\ e.tok \notin DOMAIN issued
                 THEN issued @@ (e.tok :> [kind |-> e.kind, ip |-> IpOf(e.addr), port |-> PortOf(e.addr),
                                            t |-> Floor(e.t, Sec), odcid |-> e.odcid])
                 ELSE issued
  /\ l' = l + 1
  /\ UNCHANGED <<bad, deviations, cur, cfg, used, lg, pend, lastAcc, tpOf, cl, cache, handed, okset, maxI>>

\* Tokens!Present
Present ==
  /\ Is("Present")
  /\ LET known == e.tok # "" /\ e.tok \in DOMAIN issued
         rec == IF known THEN issued[e.tok] ELSE [kind |-> "none", ip |-> 0, port |-> 0, t |-> 0, odcid |-> ""]
         ip == IpOf(e.src)
         port == PortOf(e.src)
         consult == Consults(known, rec, ip, e.t, cfg.vlife)
         ls == IF consult /\ cfg.logmode # "none" THEN LogStep(lg, e.tok, rec.t + cfg.vlife, cfg.vlife)
               ELSE [st |-> lg, ok |-> FALSE]
         exact == Outcome(known, rec, ip, port, e.t, cfg.rlife, cfg.vlife, ls.ok)
         judged == e.res \in {"new", "invalid"}
         obs == IF e.res = "new" THEN (IF e.validated THEN "validated" ELSE "absent")
                ELSE IF e.res = "invalid" THEN "invalid" ELSE "other"
         wrongAddr == known /\ (rec.ip # ip \/ (rec.kind = "retry" /\ rec.port # port))
         stale == known /\ Expired(rec.t, IF rec.kind = "retry" THEN cfg.rlife ELSE cfg.vlife, e.t)
         val == obs = "validated"
     IN
       /\ bad' = bad
            \cup Flag(~(val /\ ~known), "ForgedTokenValidated")
            \cup Flag(~(val /\ wrongAddr), "TokenValidatedFromWrongAddress")
            \cup Flag(~(val /\ stale), "ExpiredTokenValidated")
            \cup Flag(~(val /\ known /\ rec.kind = "new" /\ e.tok \in used), "TokenAcceptedTwice")
            \cup Flag(~(val /\ known /\ rec.kind = "new" /\ cfg.logmode = "none"), "TokenAcceptedWithoutLog")
            \cup Flag(~(obs = "invalid" /\ ~(known /\ rec.kind = "retry")), "NonRetryTokenRefused")
            \cup Flag(~((judged \/ e.res = "closed") /\ known /\ rec.kind = "retry" /\ (wrongAddr \/ stale)
                        /\ obs # "invalid"), "BadRetryTokenNotRefused")
            \cup Flag(~(judged /\ known /\ rec.kind = "retry" /\ ~wrongAddr /\ ~stale /\ ~val), "GoodRetryTokenRefused")
            \cup Flag(~(judged /\ exact = "validated" /\ ~val /\ cfg.logmode \in {"exact", "unlogged"}),
                      "FreshTokenRefused")
            \cup Flag((e.res = "new") => (e.may_retry <=> ~(val /\ known /\ rec.kind = "retry")), "MayRetryWrong")
            \cup Flag(~(cfg.logmode # "unlogged" /\ e.logn > 0 /\ ~consult), "TokenBurned")
            \cup Flag(~(cfg.logmode # "unlogged" /\ judged /\ consult /\ e.logn = 0), "LogSkipped")
            \cup Flag(e.logn <= 1, "LogConsultedTwice")
       /\ used' = IF val /\ known /\ rec.kind = "new" THEN used \cup {e.tok} ELSE used
       /\ lg' = IF judged THEN ls.st ELSE lg
       /\ pend' = [tok |-> e.tok, dcid |-> e.dcid, viaRetry |-> val /\ known /\ rec.kind = "retry",
                   odcid |-> rec.odcid, out |-> obs]
  /\ l' = l + 1
  /\ UNCHANGED <<deviations, cur, cfg, issued, lastAcc, tpOf, cl, cache, handed, okset, maxI>>

\* the token log was called although no connection-creating Initial was being handled
StrayLog ==
  /\ Is("StrayLog")
  /\ bad' = bad \cup {"TokenBurned"}
  /\ l' = l + 1
  /\ UNCHANGED <<deviations, cur, cfg, issued, used, lg, pend, lastAcc, tpOf, cl, cache, handed, okset, maxI>>

Accept ==
  /\ Is("Accept")
  /\ lastAcc' = IF e.ok THEN <<e.uid, e.puid>> ELSE <<-1, -1>>
  /\ bad' = bad \cup Flag(e.ok => pend.out \in {"validated", "absent"}, "AcceptedWithoutIncoming")
  /\ l' = l + 1
  /\ UNCHANGED <<deviations, cur, cfg, issued, used, lg, pend, tpOf, cl, cache, handed, okset, maxI>>

\* the parameters the server presents (after the script's edits, if any)
STP ==
  /\ Is("STP")
  /\ LET wantO == IF pend.viaRetry THEN pend.odcid ELSE pend.dcid
         wantR == IF pend.viaRetry THEN pend.dcid ELSE NoCid
         puid == lastAcc[2]
         old == At(tpOf, puid, NoTp)
     IN
       /\ bad' = bad \cup Flag(cfg.tpedit \/ (e.odcid = wantO /\ e.rscid = wantR), "ServerParamsWrongCids")
       /\ tpOf' = Set(tpOf, puid, [odcid |-> e.odcid, iscid |-> e.iscid, rscid |-> e.rscid, n |-> old.n + 1,
                                   scid |-> NoCid, suid |-> lastAcc[1]])
  /\ l' = l + 1
  /\ UNCHANGED <<deviations, cur, cfg, issued, used, lg, pend, lastAcc, cl, cache, handed, okset, maxI>>

\* source ID the server connection really uses on the wire
SScid ==
  /\ Is("SScid")
  /\ LET ks == {k \in DOMAIN tpOf : tpOf[k].suid = e.uid} IN
       /\ tpOf' = [k \in DOMAIN tpOf |-> IF k \in ks THEN [tpOf[k] EXCEPT !.scid = e.scid] ELSE tpOf[k]]
       /\ bad' = bad \cup Flag(cfg.tpedit \/ \A k \in ks : tpOf[k].iscid = e.scid, "ServerParamsWrongCids")
  /\ l' = l + 1
  /\ UNCHANGED <<deviations, cur, cfg, issued, used, lg, pend, lastAcc, cl, cache, handed, okset, maxI>>

\* ---------------------------------------------------------------------------------------------
\* client side

CConn ==
  /\ Is("CConn")
  /\ cl' = Set(cl, e.uid, [NoClient EXCEPT !.known = ~cfg.store])
  /\ l' = l + 1
  /\ UNCHANGED <<bad, deviations, cur, cfg, issued, used, lg, pend, lastAcc, tpOf, cache, handed, okset, maxI>>

\* TokenCache!Store
StoreIns ==
  /\ Is("StoreIns")
  /\ cache' = CacheStore(cache, cfg.S, cfg.P, "server", e.tok)
  /\ l' = l + 1
  /\ UNCHANGED <<bad, deviations, cur, cfg, issued, used, lg, pend, lastAcc, tpOf, cl, handed, okset, maxI>>

\* TokenCache!Take; scripted ("forced") tokens bypass the cache
StoreTake ==
  /\ Is("StoreTake")
  /\ LET r == CacheTakeN(cache, "server", "")
         want == r.r
     IN
       /\ cache' = IF e.forced THEN cache ELSE r.c
       /\ handed' = IF e.forced \/ e.tok = "" THEN handed ELSE handed \cup {e.tok}
       /\ bad' = bad \cup Flag(e.forced \/ e.tok = want, "StoreTakeMismatch")
                     \cup Flag(e.forced \/ e.tok = "" \/ e.tok \notin handed, "TokenHandedOutTwice")
       /\ cl' = IF e.uid \in DOMAIN cl THEN [cl EXCEPT ![e.uid].tok = e.tok, ![e.uid].known = TRUE] ELSE cl
  /\ l' = l + 1
  /\ UNCHANGED <<deviations, cur, cfg, issued, used, lg, pend, lastAcc, tpOf, okset, maxI>>

\* every Initial the client sends: token and (until the server answered) destination ID as expected
CInit ==
  /\ Is("CInit")
  /\ LET c == At(cl, e.uid, NoClient)
         first == c.ninit = 0
     IN
       /\ bad' = bad \cup Flag(~c.known \/ e.tok = c.tok, "ClientTokenWrong")
                     \cup Flag(first \/ c.sure > 0 \/ c.anyc > c.junk + (IF c.retried THEN 1 ELSE 0) \/ e.dcid = c.dcid,
                               "ClientDcidWrong")
       /\ cl' = Set(cl, e.uid, [c EXCEPT !.ninit = 1, !.odcid = IF first THEN e.dcid ELSE @,
                                         !.dcid = IF first THEN e.dcid ELSE @])
  /\ l' = l + 1
  /\ UNCHANGED <<deviations, cur, cfg, issued, used, lg, pend, lastAcc, tpOf, cache, handed, okset, maxI>>

\* a datagram without Retry delivered to a handshaking client connection
CRx ==
  /\ Is("CRx")
  /\ LET c == At(cl, e.uid, NoClient) IN
       cl' = Set(cl, e.uid, [c EXCEPT !.sure = IF @ + e.init > 2 THEN 2 ELSE @ + e.init,
                                      !.anyc = IF @ >= 1000 THEN @ ELSE @ + 1,
                                      !.junk = IF e.pk = 0 /\ @ < 1000 THEN @ + 1 ELSE @])
  /\ l' = l + 1
  /\ UNCHANGED <<bad, deviations, cur, cfg, issued, used, lg, pend, lastAcc, tpOf, cache, handed, okset, maxI>>

\* TokenClient!RecvRetry
CRetry ==
  /\ Is("CRetry")
  /\ LET c == At(cl, e.uid, NoClient)
         want == FollowRetry(e.hs, e.tagok, e.toklen, c.sure, c.retried)
         did == e.reinit
         \* everything delivered before was junk the client had to discard (no judgement otherwise)
         onlyJunk == c.anyc = c.junk
     IN
       /\ bad' = bad
            \cup Flag(~(did /\ ~e.tagok), "RetryFollowedWithBadTag")
            \cup Flag(~(did /\ e.toklen = 0), "RetryFollowedWithoutToken")
            \cup Flag(~(did /\ c.retried), "SecondRetryFollowed")
            \cup Flag(~(did /\ (c.sure > 0 \/ ~e.hs)), "RetryFollowedAfterServerPacket")
            \cup Flag(~(want /\ ~did /\ c.anyc = 0), "ValidRetryIgnored")
       /\ deviations' = IF want /\ ~did /\ c.anyc > 0 /\ onlyJunk
                          THEN deviations \cup {"InvalidRetryBlocksGenuineRetry"} ELSE deviations
       /\ IF deviations' \subseteq deviations THEN TRUE
          ELSE PrintT(<<"KNOWN", deviations' \ deviations, "line", l, "run", cur>>)
       /\ cl' = Set(cl, e.uid, [c EXCEPT !.retried = @ \/ did, !.rscid = IF did THEN e.scid ELSE @,
                                         !.tok = IF did THEN e.tok ELSE @, !.dcid = IF did THEN e.scid ELSE @,
                                         !.known = IF did THEN TRUE ELSE @,
                                         !.anyc = IF @ >= 1000 THEN @ ELSE @ + 1,
                                         !.junk = IF ~did /\ @ < 1000 THEN @ + 1 ELSE @])
  /\ l' = l + 1
  /\ UNCHANGED <<cur, cfg, issued, used, lg, pend, lastAcc, tpOf, cache, handed, okset, maxI>>

\* TokenClient!RecvParams: outcome of the attempt
CEnd ==
  /\ Is("CEnd")
  /\ LET c == At(cl, e.uid, NoClient)
         tp == At(tpOf, e.uid, NoTp)
         one == tp.n = 1 /\ tp.scid # NoCid      \* exactly one server connection answers this client
         echo == EchoOk(tp, c.odcid, tp.scid, c.rscid)
     IN bad' = bad
          \cup Flag(~(e.ok /\ one /\ ~echo), "CompletedDespiteCidMismatch")
          \cup Flag(~(~e.ok /\ e.k = "TransportError" /\ e.code = 8 /\ one /\ echo), "SpuriousCidAuthFailure")
  /\ l' = l + 1
  /\ UNCHANGED <<deviations, cur, cfg, issued, used, lg, pend, lastAcc, tpOf, cl, cache, handed, okset, maxI>>

Panic ==
  /\ Is("Panic")
  /\ bad' = bad \cup {"Panic"}
  /\ l' = l + 1
  /\ UNCHANGED <<deviations, cur, cfg, issued, used, lg, pend, lastAcc, tpOf, cl, cache, handed, okset, maxI>>

\* ---------------------------------------------------------------------------------------------
\* component histories

\* BloomTokenLog::check_and_insert(fingerprint e.fp, issued e.i, lifetime cfg.life)
LogCall ==
  /\ Is("LogCall")
  /\ LET r == IF cfg.logmode = "none" THEN [st |-> lg, ok |-> FALSE] ELSE LogStep(lg, e.fp, e.i + cfg.life, cfg.life)
         \* some monotone clock exists under which every call so far was made on an unexpired token
         mx == IF e.i > maxI THEN e.i ELSE maxI
         admissible == mx <= e.i + cfg.life
     IN
       /\ bad' = bad
            \cup Flag(~(admissible /\ maxI >= 0 /\ e.ok /\ <<e.n, e.i>> \in okset), "LogFalseNegative")
            \cup Flag(IF cfg.logmode = "set" THEN e.ok = r.ok ELSE (e.ok => r.ok), "LogResultMismatch")
       /\ lg' = r.st
       \* a token is its nonce and issue instant; the log only sees the nonce's low 64 bits (e.fp)
       /\ okset' = IF e.ok THEN okset \cup {<<e.n, e.i>>} ELSE okset
       \* once a call was inadmissible the reference clause is off for the rest of the history
       /\ maxI' = IF maxI < 0 \/ ~admissible THEN -1 ELSE mx
  /\ l' = l + 1
  /\ UNCHANGED <<deviations, cur, cfg, issued, used, pend, lastAcc, tpOf, cl, cache, handed>>

CacheStoreCall ==
  /\ Is("CacheStore")
  /\ cache' = CacheStore(cache, cfg.S, cfg.P, e.srv, e.tok)
  /\ l' = l + 1
  /\ UNCHANGED <<bad, deviations, cur, cfg, issued, used, lg, pend, lastAcc, tpOf, cl, handed, okset, maxI>>

CacheTakeCall ==
  /\ Is("CacheTake")
  /\ LET r == CacheTake(cache, e.srv) IN
       /\ cache' = r.c
       /\ handed' = IF e.r = None THEN handed ELSE handed \cup {e.r}
       /\ bad' = bad \cup Flag(e.r = r.r, "CacheTakeMismatch")
                     \cup Flag(e.r = None \/ e.r \notin handed, "TokenHandedOutTwice")
                     \cup Flag((cfg.S = 0 \/ cfg.P = 0) => e.r = None, "ZeroCapacityReturned")
  /\ l' = l + 1
  /\ UNCHANGED <<deviations, cur, cfg, issued, used, lg, pend, lastAcc, tpOf, cl, okset, maxI>>

TNext == Reset \/ Issue \/ Present \/ StrayLog \/ Accept \/ STP \/ SScid \/ CConn \/ StoreIns \/ StoreTake
         \/ CInit \/ CRx \/ CRetry \/ CEnd \/ Panic \/ LogCall \/ CacheStoreCall \/ CacheTakeCall
TraceSpec == TInit /\ [][TNext]_vars

Watch == TLCSet(1, <<l, bad, cur>>) /\ bad = {}

TraceAccepted ==
  LET r == TLCGet(1) d == TLCGet("stats").diameter IN
  IF r[2] # {} THEN Print(<<"VIOLATION", r[2], "line", r[1] - 1, "run", r[3]>>, FALSE)
  ELSE IF d - 1 # N THEN Print(<<"UNMATCHED", "line", d, "run", r[3]>>, FALSE)
  ELSE TRUE
=============================================================================
