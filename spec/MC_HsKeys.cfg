CONSTANT MaxLoss = 3
CONSTANT EagerServer = FALSE
SPECIFICATION HLive
INVARIANT DiscardedKeysNotNeeded
INVARIANT NoUseAfterDiscard
PROPERTY Completes
CHECK_DEADLOCK FALSE
