--------------------------- MODULE AsyncWakeTrace ---------------------------
(***************************************************************************)
(* Trace validation for C18 (async API: no lost wakeups, cancellation      *)
(* safety, clean teardown).  The trace is recorded by the deterministic    *)
(* executor of /verif/harness-async (qv-async) which implements quinn's    *)
(* public Runtime / AsyncTimer / AsyncUdpSocket / UdpSender traits; it logs *)
(* every poll, wake, waker clone/drop, every application-level operation    *)
(* with its inputs and outputs, every dropped future and handle, every     *)
(* point at which no task is runnable, and what is left at the end.        *)
(*                                                                         *)
(* The spec replays the log, keeps an abstract model of what the           *)
(* applications did (bytes written / read per stream direction, finishes,  *)
(* resets, stops, closes, handles) and flags:                              *)
(*                                                                         *)
(*  PendingHasWaker   a poll returned Pending while no clone of the task's *)
(*                    waker was alive and the task had not woken itself    *)
(*                    during that poll (AsyncWake!PendingHasWaker)         *)
(*  LostWakeup_<op>   the system is quiescent for good (no runnable task,  *)
(*                    no timer, no datagram in flight) while a pending      *)
(*                    operation's completion condition holds               *)
(*                    (AsyncWake!NoLostWakeup); the condition is computed  *)
(*                    from application-level facts only and is             *)
(*                    deliberately conservative, see Enabled below         *)
(*  ReadOrder / ReadContent / ReadBeyondWritten / FinWithoutFinish /       *)
(*  DataLostAtFin / ResetWithoutReset                                      *)
(*                    stream integrity as in C01: every chunk starts at    *)
(*                    the reader's cursor, carries the pattern of its      *)
(*                    offset, never exceeds what was written; also after    *)
(*                    cancelled and retried cancel-safe operations          *)
(*  WriteResult, OpenOrder, AcceptOrder, AcceptUnopened, StoppedWithout... *)
(*                    an operation completed without its condition          *)
(*  UnjustifiedError  an operation failed with an error nothing the        *)
(*                    applications or the configuration did explains        *)
(*  StaleRegistration a task that holds no stream handle and has no        *)
(*                    pending future still has live waker clones            *)
(*  LeftoverTasks / LeftoverWakerClones / LeftoverOpenConnections          *)
(*                    after every handle was dropped and the system went   *)
(*                    quiet, drivers still exist, waker clones are alive   *)
(*                    or Endpoint::open_connections is not zero            *)
(*  Livelock          the poll budget was exhausted                        *)
(*  Panic             code under test panicked                             *)
(*                                                                         *)
(* Deviations that are known findings are printed as KNOWN lines, not      *)
(* flagged: StoppedPendingAcrossResetAck, StoppedWriterBlockedBySendWindow, *)
(* StreamCreditNotQueuedByStop                                            *)
(* (see KnownStopped / KnownStoppedWriter).                                *)
(***************************************************************************)
EXTENDS Naturals, Integers, Sequences, FiniteSets, TLC, Json, IOUtils

Rec == ndJsonDeserialize(IOEnv.TRACE)
N == Len(Rec)

VARIABLES l, bad, cur, m
vars == <<l, bad, cur, m>>

e == Rec[l]
Is(k) == l <= N /\ e.ev = k
\* violations are accumulated over the whole file as <<run, clause, line>>
Flag(c, name) == IF c THEN {} ELSE {<<cur[1], name, l>>}
At(f, a, d) == IF a \in DOMAIN f THEN f[a] ELSE d
Set(f, a, v) == [x \in DOMAIN f \cup {a} |-> IF x = a THEN v ELSE f[x]]
Del(f, a) == [x \in DOMAIN f \ {a} |-> f[x]]
Max(a, b) == IF a >= b THEN a ELSE b

\* ---------------------------------------------------------------------------
\* stream ids (QUIC encoding); sides: 1 = client, 0 = server
Initiator(sid) == IF sid % 2 = 0 THEN 1 ELSE 0
Dir(sid) == (sid \div 2) % 2            \* 0 = bidirectional, 1 = unidirectional
Index(sid) == sid \div 4
SidOf(side, dir, i) == 4 * i + 2 * dir + (IF side = 1 THEN 0 ELSE 1)
Key(c, sid, w) == (7 + 31 * sid + 101 * c + 13 * w) % 251
EpOf(c, s) == IF s = 0 THEN 0 ELSE c + 1

\* 0-RTT: streams a client opened before its handshake completed are discarded when the server rejects early data
Rejected0(cs) == m.cfg.ticket /\ ~m.cfg.eaccept /\ cs \in m.early
\* a handle obtained before the rejection stays stale when its number is handed out again
WasRejected0(cs) == m.cfg.ticket /\ ~m.cfg.eaccept /\ cs \in m.wasEarly
\* forget everything about the directions of stream sid of connection c (its id is reused after a rejection)
Purge(f, c, sid) == [x \in {y \in DOMAIN f : ~(y[1] = c /\ y[2] = sid)} |-> f[x]]
PurgeSet(S, c, sid) == {y \in S : ~(y[1] = c /\ y[2] = sid)}

\* The writer of direction d ended it for good: an explicit reset(), a finish() that certainly took effect, or
\* the drop of its SendStream ("dropping the last handle to a stream implicitly finishes it", and resets it
\* when the peer has stopped it).  At a final quiescent point the FIN / RESET_STREAM has been delivered and
\* acknowledged.
WriterEnded(d) == d \in m.sgone \/ d \in m.rst \/ d \in m.finEff

ReadOps == {"read", "read_chunk", "read_chunks", "read_to_end"}
WriteOps == {"write", "write_all", "write_chunks"}
OpenOps == {"open_uni", "open_bi"}
AcceptOps == {"accept_uni", "accept_bi"}
OpDir(op) == IF op \in {"open_uni", "accept_uni"} THEN 1 ELSE 0

Empty == [cfg |-> [lossless |-> TRUE, ordered |-> TRUE, dup |-> FALSE, idle |-> FALSE, maxuni |-> 0, maxbi |-> 0, sendwin |-> 0,
                  ticket |-> FALSE, eaccept |-> FALSE],
          clones |-> <<>>, selfw |-> {}, kinds |-> <<>>, pend |-> <<>>, held |-> <<>>,
          wlo |-> <<>>, whi |-> <<>>, fin |-> {}, rst |-> {}, stp |-> <<>>, cursor |-> <<>>,
          rend |-> {}, rdirty |-> {}, opened |-> <<>>, accepted |-> <<>>, used |-> {},
          closedBy |-> <<>>, syncClosed |-> {}, lostSeen |-> {}, early |-> {}, sgone |-> {}, finEff |-> {}, lateStop |-> {}, conns |-> {}, epClosed |-> {}, refused |-> {}, wasEarly |-> {}, earlyT |-> {},
          dsent |-> <<>>, drecv |-> <<>>, phase |-> "run"]

TInit == l = 1 /\ bad = {} /\ cur = <<0>> /\ m = Empty

Reset == /\ Is("Reset")
         /\ m' = [Empty EXCEPT !.cfg = [lossless |-> e.lossless, ordered |-> e.ordered, dup |-> e.dup, idle |-> e.idle,
                                        maxuni |-> e.maxuni, maxbi |-> e.maxbi, sendwin |-> e.sendwin,
                                        ticket |-> e.ticket, eaccept |-> e.eaccept]]
         /\ cur' = <<e.run>> /\ bad' = bad /\ l' = l + 1

\* ---------------------------------------------------------------------------
\* executor level

Spawn == /\ Is("Spawn")
         /\ m' = [m EXCEPT !.clones = Set(@, e.task, 0), !.kinds = Set(@, e.task, e.kind),
                           !.held = Set(@, e.task, 0)]
         /\ UNCHANGED <<bad, cur>> /\ l' = l + 1

AppSpawn == Is("AppSpawn") /\ UNCHANGED <<bad, cur, m>> /\ l' = l + 1

WakerClone == /\ Is("WakerClone")
              /\ m' = [m EXCEPT !.clones = Set(@, e.task, At(@, e.task, 0) + 1)]
              /\ UNCHANGED <<bad, cur>> /\ l' = l + 1

WakerDrop == /\ Is("WakerDrop")
             /\ bad' = bad \cup Flag(At(m.clones, e.task, 0) > 0, "WakerDropUnderflow")
             /\ m' = [m EXCEPT !.clones = Set(@, e.task, At(@, e.task, 0) - 1)]
             /\ UNCHANGED cur /\ l' = l + 1

\* a wake whose author is the task itself can only happen during that task's poll
Wake == /\ Is("Wake")
        /\ m' = [m EXCEPT !.selfw = IF e.by = e.task THEN @ \cup {e.task} ELSE @]
        /\ UNCHANGED <<bad, cur>> /\ l' = l + 1

Poll == /\ Is("Poll")
        /\ bad' = bad \cup (IF e.res = "pending"
                              THEN Flag(At(m.clones, e.task, 0) > 0 \/ e.task \in m.selfw, "PendingHasWaker")
                              ELSE {})
        /\ m' = [m EXCEPT !.selfw = @ \ {e.task}]
        /\ UNCHANGED cur /\ l' = l + 1

\* ---------------------------------------------------------------------------
\* application level

\* closedBy maps (connection, side) to the set of error codes the peer may see.  close() and the implicit close
\* of the last handle act at once (the first one wins); Endpoint::close() reaches a connection through its
\* driver's channel, so a close() or last-handle drop that follows it may still win.
Closed(c, s) == <<c, s>> \in DOMAIN m.closedBy
CloseSync(mm, c, s, code) ==
  IF <<c, s>> \in mm.syncClosed THEN mm
  ELSE [mm EXCEPT !.closedBy = Set(@, <<c, s>>, At(@, <<c, s>>, {}) \cup {code}), !.syncClosed = @ \cup {<<c, s>>}]

\* is a connection-level error result explained by what the applications / the configuration did?
\* (err, code) = kind and numeric code of the ConnectionError as logged
Justified(c, s, err, code) ==
  \/ err = "LocallyClosed" /\ Closed(c, s)
  \/ err = "AppClosed" /\ Closed(c, 1 - s) /\ code \in m.closedBy[<<c, 1 - s>>]
  \* an application close during the handshake travels as a transport close (NO_ERROR 0 / APPLICATION_ERROR 12)
  \/ err = "ConnClosed" /\ code \in {0, 12} /\ Closed(c, 1 - s)
  \* CONNECTION_REFUSED (2): the server application refused or dropped the Incoming, or its endpoint is closed
  \/ err = "ConnClosed" /\ code = 2 /\ (c \in m.refused \/ 0 \in m.epClosed)
  \/ err = "TimedOut" /\ m.cfg.idle
  \* stateless reset: the peer closed (or timed out) and already forgot the connection
  \/ err = "ResetConn" /\ (Closed(c, 1 - s) \/ m.cfg.idle)

OpStart ==
  /\ Is("OpStart")
  /\ LET d == <<e.c, e.sid, e.side>> IN
     m' = [m EXCEPT !.pend = Set(@, e.task, [op |-> e.op, c |-> e.c, side |-> e.side, e |-> e.e,
                                                sid |-> e.sid, n |-> e.n, off |-> e.off]),
                    !.conns = IF e.op = "connect" THEN @ \cup {<<e.c, 1>>} ELSE @,
                    \* write_all moves bytes before it completes
                    !.whi = IF e.op = "write_all" THEN Set(@, d, Max(At(@, d, 0), e.off + e.n)) ELSE @]
  /\ UNCHANGED <<bad, cur>> /\ l' = l + 1

\* a dropped pending future: cancel-safe operations leave no trace; write_all / read_to_end do
FutureDropped ==
  /\ Is("FutureDropped")
  /\ m' = [m EXCEPT !.pend = Del(@, e.task),
                    !.rdirty = IF e.op = "read_to_end" THEN @ \cup {<<e.c, e.sid, 1 - e.side>>} ELSE @]
  /\ UNCHANGED <<bad, cur>> /\ l' = l + 1

\* chunks = << <<offset, len, first byte, number of +1 runs>>, ... >>
RECURSIVE ChunksOk(_, _, _, _)
ChunksOk(ch, i, at, k) ==
  IF i > Len(ch) THEN {}
  ELSE Flag(ch[i][1] = at /\ ch[i][2] >= 1, "ReadOrder")
       \cup Flag(ch[i][4] = 1 /\ ch[i][3] = (k + ch[i][1]) % 251, "ReadContent")
       \cup ChunksOk(ch, i + 1, ch[i][1] + ch[i][2], k)

OpDone ==
  /\ Is("OpDone")
  /\ LET p == At(m.pend, e.task, [op |-> "", n |-> 0, off |-> 0])
         c == e.c
         s == e.side
         dw == <<c, e.sid, s>>            \* direction written by this side
         dr == <<c, e.sid, 1 - s>>        \* direction read by this side
         lost == e.lost
         errflags == IF e.res = "err" /\ lost THEN Flag(Justified(c, s, e.err, e.ecode), "UnjustifiedError")
                     \* ZeroRttRejected: only on a stream opened early, only when the server refused early data
                     ELSE IF e.res = "err" /\ e.err = "ZeroRttRejected" THEN Flag(WasRejected0(<<c, e.sid>>), "UnjustifiedError")
                     ELSE {}
         zr == e.res = "err" /\ e.err = "ZeroRttRejected"
         m1 == [m EXCEPT !.pend = Del(@, e.task),
                         !.lostSeen = IF e.res = "err" /\ lost THEN @ \cup {<<c, s>>} ELSE @]
     IN
     CASE e.op \in {"connect", "handshake", "closed"} ->
            /\ bad' = bad \cup errflags \cup Flag(p.op = e.op, "OpMismatch")
            /\ m' = m1
       [] e.op = "send_dgram_wait" ->
            /\ bad' = bad
            /\ m' = IF e.res = "ok" THEN [m1 EXCEPT !.dsent = Set(@, <<c, s>>, At(@, <<c, s>>, {}) \cup {e.n})] ELSE m1
       [] e.op = "ep_accept" ->
            /\ bad' = bad \cup Flag(e.res = "ok" \/ e.e \in m.epClosed, "AcceptNoneWithoutClose")
            /\ m' = m1
       [] e.op = "wait_idle" ->
            /\ bad' = bad \cup Flag(m.cfg.idle \/ \A cs \in m.conns : EpOf(cs[1], cs[2]) = e.e =>
                                       (Closed(cs[1], cs[2]) \/ Closed(cs[1], 1 - cs[2]) \/ cs \in m.lostSeen),
                                    "WaitIdleEarly")
            /\ m' = m1
       [] e.op \in OpenOps ->
            LET k == <<c, s, OpDir(e.op)>>
                \* after a rejected 0-RTT attempt the stream ids handed out early are reused: e.n = 1 marks an
                \* early open (the harness probes Connection::authenticated() in the same poll)
                reuse == e.res = "ok" /\ e.n = 0 /\ Rejected0(<<c, e.sid>>) IN
            /\ bad' = bad \cup errflags \cup
                 (IF e.res = "ok" /\ ~reuse
                    THEN Flag(Initiator(e.sid) = s /\ Dir(e.sid) = OpDir(e.op)
                              /\ Index(e.sid) = At(m.opened, k, 0), "OpenOrder") ELSE {})
            /\ m' = IF reuse
                      THEN [m1 EXCEPT !.opened = Set(@, k, Index(e.sid) + 1),
                                      !.early = @ \ {<<c, e.sid>>},
                                      !.wlo = Purge(@, c, e.sid), !.whi = Purge(@, c, e.sid), !.cursor = Purge(@, c, e.sid),
                                      !.stp = Purge(@, c, e.sid), !.fin = PurgeSet(@, c, e.sid), !.rst = PurgeSet(@, c, e.sid),
                                      !.rend = PurgeSet(@, c, e.sid), !.rdirty = PurgeSet(@, c, e.sid),
                                      !.sgone = PurgeSet(@, c, e.sid), !.finEff = PurgeSet(@, c, e.sid),
                                      !.used = {x \in @ : x # <<c, e.sid>>},
                                      !.held = Set(@, e.task, At(@, e.task, 0) + (IF e.op = "open_bi" THEN 2 ELSE 1))]
                    ELSE IF e.res = "ok"
                      THEN [m1 EXCEPT !.opened = Set(@, k, At(@, k, 0) + 1),
                                      !.early = IF e.n = 1 THEN @ \cup {<<c, e.sid>>} ELSE @,
                                      !.wasEarly = IF e.n = 1 THEN @ \cup {<<c, e.sid>>} ELSE @,
                                      !.earlyT = IF e.n = 1 THEN @ \cup {e.task} ELSE @,
                                      !.held = Set(@, e.task, At(@, e.task, 0) + (IF e.op = "open_bi" THEN 2 ELSE 1))]
                      ELSE m1
       [] e.op \in AcceptOps ->
            LET k == <<c, s, OpDir(e.op)>> IN
            /\ bad' = bad \cup errflags \cup
                 (IF e.res = "ok" THEN Flag(Initiator(e.sid) = 1 - s /\ Dir(e.sid) = OpDir(e.op)
                                            /\ Index(e.sid) = At(m.accepted, k, 0), "AcceptOrder")
                                       \cup Flag(Index(e.sid) < At(m.opened, <<c, 1 - s, OpDir(e.op)>>, 0), "AcceptUnopened")
                  ELSE {})
            /\ m' = IF e.res = "ok"
                      THEN [m1 EXCEPT !.accepted = Set(@, k, At(@, k, 0) + 1),
                                      !.held = Set(@, e.task, At(@, e.task, 0) + (IF e.op = "accept_bi" THEN 2 ELSE 1))]
                      ELSE m1
       [] e.op \in WriteOps ->
            /\ bad' = bad \cup errflags \cup
                 (IF e.res = "ok"
                    THEN Flag(e.n >= 1 /\ e.n <= p.n /\ e.off = At(m.wlo, dw, 0), "WriteResult")
                  ELSE IF lost \/ zr THEN {}
                  ELSE IF e.err = "ClosedStream" THEN Flag(dw \in m.fin \cup m.rst, "UnjustifiedError")
                  ELSE Flag(e.err = "Stopped" /\ dw \in DOMAIN m.stp /\ m.stp[dw] = e.ecode, "StoppedWithoutStop"))
            /\ m' = IF e.res = "ok"
                      THEN [m1 EXCEPT !.wlo = Set(@, dw, e.off + e.n),
                                      !.whi = Set(@, dw, Max(At(@, dw, 0), e.off + e.n)),
                                      !.used = @ \cup {<<c, e.sid>>}]
                      ELSE m1
       [] e.op = "stopped" ->
            /\ bad' = bad \cup errflags \cup
                 (IF e.res = "none" THEN Flag(dw \in m.fin \cup m.rst, "StoppedNoneUnfinished")
                  ELSE IF e.res = "ok" THEN Flag(dw \in DOMAIN m.stp /\ m.stp[dw] = e.n, "StoppedWithoutStop")
                  ELSE {})
            /\ m' = m1
       [] e.op \in ReadOps ->
            LET at == At(m.cursor, dr, 0)
                end == IF e.res = "ok" /\ Len(e.chunks) > 0
                         THEN e.chunks[Len(e.chunks)][1] + e.chunks[Len(e.chunks)][2] ELSE at
                isEnd == e.res = "fin" \/ (e.op = "read_to_end" /\ e.res = "ok")
                \* reads after the end of the stream (or its reset) was reported are outside the API contract
                skip == dr \in m.rdirty \/ dr \in m.rend
            IN
            /\ bad' = bad \cup errflags \cup
                 (IF skip THEN {}
                  ELSE IF e.res = "ok"
                    THEN ChunksOk(e.chunks, 1, at, Key(c, e.sid, 1 - s))
                         \cup Flag(end <= At(m.whi, dr, 0), "ReadBeyondWritten")
                         \cup Flag(e.op # "read" \/ end - at <= p.n, "ReadTooMuch")
                  ELSE {})
                 \cup (IF isEnd /\ ~skip
                         THEN Flag(dr \in m.fin, "FinWithoutFinish")
                              \cup Flag(end >= At(m.wlo, dr, 0), "DataLostAtFin")
                       ELSE {})
                 \cup (IF e.res = "err" /\ ~lost /\ ~skip /\ ~zr
                         THEN (IF e.err = "ClosedStream" THEN Flag(dr \in DOMAIN m.stp, "UnjustifiedError")
                               ELSE IF e.err = "TooLong" THEN {}
                               ELSE Flag(e.err = "Reset" /\ dr \in m.rst, "ResetWithoutReset"))
                       ELSE {})
            /\ m' = [m1 EXCEPT !.cursor = IF skip THEN @ ELSE Set(@, dr, end),
                               !.rend = IF isEnd \/ (e.res = "err" /\ ~lost /\ ~zr /\ e.err # "ClosedStream" /\ e.err # "TooLong")
                                          THEN @ \cup {dr} ELSE @,
                               !.rdirty = IF e.res = "err" /\ e.op = "read_to_end" THEN @ \cup {dr} ELSE @]
       [] e.op = "read_dgram" ->
            LET ks == <<c, 1 - s>>
                kr == <<c, s>> IN
            /\ bad' = bad \cup errflags \cup
                 (IF e.res = "ok"
                    THEN Flag(e.n \in At(m.dsent, ks, {}), "DgramNeverSent")
                         \cup Flag(e.n \notin At(m.drecv, kr, {}), "DgramTwice")
                         \cup Flag(e.chunks[1][2] = 0 \/ (e.chunks[1][4] = 1 /\ e.chunks[1][3] = Key(c, 1000 + e.n, 1 - s)),
                                   "DgramContent")
                  ELSE {})
            /\ m' = IF e.res = "ok" THEN [m1 EXCEPT !.drecv = Set(@, kr, At(@, kr, {}) \cup {e.n})] ELSE m1
       [] OTHER -> /\ bad' = bad \cup Flag(FALSE, "UnknownOp") /\ m' = m1
  /\ UNCHANGED cur /\ l' = l + 1

\* synchronous API calls
Sync ==
  /\ Is("Sync")
  /\ LET c == e.c
         s == e.side
         dw == <<c, e.sid, s>>
         dr == <<c, e.sid, 1 - s>> IN
     CASE e.op = "connect_0rtt" ->
            /\ m' = IF e.res = "ok" THEN [m EXCEPT !.conns = @ \cup {<<c, 1>>}] ELSE m
            /\ bad' = bad \cup Flag(e.res # "ok" \/ m.cfg.ticket, "EarlyWithoutTicket")
       [] e.op = "finish" ->
            \* SendStream::finish() is a silent no-op once the peer's STOP_SENDING has arrived; it certainly took
            \* effect (finEff) when the peer had not even called stop() yet
            /\ m' = IF e.res = "ok" THEN [m EXCEPT !.fin = @ \cup {dw}, !.used = @ \cup {<<c, e.sid>>},
                                                   !.finEff = IF dw \in DOMAIN m.stp THEN @ ELSE @ \cup {dw}] ELSE m
            /\ bad' = bad
       [] e.op = "reset" ->
            /\ m' = IF e.res = "ok" THEN [m EXCEPT !.rst = @ \cup {dw}, !.used = @ \cup {<<c, e.sid>>}] ELSE m
            /\ bad' = bad
       [] e.op = "stop" ->
            \* lateStop: the writer had already ended the stream when it was stopped, see KnownOpen
            /\ m' = IF e.res = "ok" /\ dr \notin DOMAIN m.stp
                      THEN [m EXCEPT !.stp = Set(@, dr, e.n), !.lateStop = IF WriterEnded(dr) THEN @ \cup {dr} ELSE @]
                      ELSE m
            /\ bad' = bad
       [] e.op = "close" ->
            /\ m' = CloseSync(m, c, s, e.n)
            /\ bad' = bad
       [] e.op = "ep_close" ->
            \* (the code the endpoint was closed with is remembered under the key <<-1 - endpoint, 9>>)
            /\ m' = [m EXCEPT !.epClosed = @ \cup {e.e},
                              !.closedBy = [x \in DOMAIN @ \cup {cs \in m.conns : EpOf(cs[1], cs[2]) = e.e} \cup {<<-1 - e.e, 9>>} |->
                                              IF x = <<-1 - e.e, 9>> THEN At(@, x, {}) \cup {e.n}
                                              ELSE IF x \in m.syncClosed THEN @[x]
                                              ELSE IF EpOf(x[1], x[2]) = e.e THEN At(@, x, {}) \cup {e.n} ELSE @[x]]]
            /\ bad' = bad
       [] e.op = "inc_accept" ->
            \* a connection accepted on an endpoint that has been closed is closed from its first moment
            /\ m' = IF e.res = "ok"
                    THEN [m EXCEPT !.conns = @ \cup {<<c, 0>>},
                                   !.closedBy = IF 0 \in m.epClosed THEN Set(@, <<c, 0>>, At(@, <<-1, 9>>, {})) ELSE @]
                    ELSE [m EXCEPT !.refused = @ \cup {c}]
            /\ bad' = bad
       [] e.op \in {"inc_refuse", "inc_drop", "inc_ignore", "inc_retry"} ->
            /\ m' = [m EXCEPT !.refused = IF e.op \in {"inc_refuse", "inc_drop"} THEN @ \cup {c} ELSE @]
            /\ bad' = bad
       [] e.op = "send_dgram" ->
            /\ m' = IF e.res = "ok" THEN [m EXCEPT !.dsent = Set(@, <<c, s>>, At(@, <<c, s>>, {}) \cup {e.n})] ELSE m
            /\ bad' = bad
       [] e.op = "open_conns" ->
            \* read by the harness after every application handle is gone and the system went quiet
            /\ m' = m
            /\ bad' = bad \cup (IF e.task = -3 /\ m.phase = "aborted" THEN Flag(e.n = 0, "LeftoverOpenConnections") ELSE {})
       [] e.op = "conn_stats" ->
            \* (logged when a task lets go of its Connection) the in-memory network of this run neither
            \* lost, duplicated nor reordered anything - in whatever batches it handed datagrams over -
            \* so loss detection has found next to nothing lost.  Next to: a packet that reaches an endpoint
            \* which cannot use it yet or any more (an Incoming waiting for the application across a Retry,
            \* keys already dropped) is never acknowledged - seen: 1 packet in 7 of 9 787 connections.  The
            \* bound (two packets plus a twentieth of what was sent) is for a receive path that drops
            \* datagrams systematically, not for single ones.
            /\ m' = m
            /\ bad' = bad \cup Flag((m.cfg.lossless /\ m.cfg.ordered /\ ~m.cfg.dup) => e.n * 20 <= e.off + 40, "PacketLostOnCleanNetwork")
       [] OTHER -> m' = m /\ bad' = bad
  /\ UNCHANGED cur /\ l' = l + 1

HandleDropped ==
  /\ Is("HandleDropped")
  /\ LET c == e.c
         s == e.side
         dw == <<c, e.sid, s>>
         dr == <<c, e.sid, 1 - s>>
         isStream == e.kind \in {"send", "recv"}
         h == IF isStream /\ e.task >= 0 THEN At(m.held, e.task, 0) - 1 ELSE At(m.held, e.task, 0)
         \* implicit finish (SendStream::drop), implicit stop(0) unless the end was seen (RecvStream::drop),
         \* implicit close(0) when the last handle of a connection goes away (ConnectionRef::drop)
         \* (the handles of a rejected 0-RTT attempt are stale: letting go of them does nothing to the stream
         \* that may since have been opened under the same number)
         stale == isStream /\ m.cfg.ticket /\ ~m.cfg.eaccept /\ e.task \in m.earlyT
         m0 == IF stale THEN [m EXCEPT !.held = IF e.task >= 0 THEN Set(@, e.task, h) ELSE @] ELSE
               [m EXCEPT !.fin = IF e.kind = "send" /\ dw \notin @ \cup m.rst THEN @ \cup {dw} ELSE @,
                         !.used = IF e.kind = "send" THEN @ \cup {<<c, e.sid>>} ELSE @,
                         !.sgone = IF e.kind = "send" THEN @ \cup {dw} ELSE @,
                         !.stp = IF e.kind = "recv" /\ dr \notin m.rend /\ dr \notin DOMAIN @ THEN Set(@, dr, 0) ELSE @,
                         !.lateStop = IF e.kind = "recv" /\ dr \notin m.rend /\ dr \notin DOMAIN m.stp /\ WriterEnded(dr)
                                        THEN @ \cup {dr} ELSE @,
                         !.held = IF e.task >= 0 THEN Set(@, e.task, h) ELSE @]
         m1 == IF e.kind \in {"send", "recv", "conn", "connecting"} /\ e.left = 0 THEN CloseSync(m0, c, s, 0) ELSE m0
     IN
     /\ m' = m1
     /\ bad' = bad \cup (IF e.task >= 0 /\ h = 0 /\ e.task \notin DOMAIN m.pend
                           THEN Flag(At(m.clones, e.task, 0) = 0, "StaleRegistration") ELSE {})
  /\ UNCHANGED cur /\ l' = l + 1

\* the harness dropped every application task that was still alive: all futures and handles are gone
AbortAll ==
  /\ Is("AbortAll")
  /\ bad' = bad \cup (IF e.capped THEN {}
                      ELSE Flag(\A i \in 1..Len(e.tasks) : At(m.clones, e.tasks[i], 0) = 0, "StaleRegistration"))
  /\ m' = [m EXCEPT !.pend = <<>>, !.phase = IF e.capped THEN "capped" ELSE "aborted",
                    !.closedBy = [x \in DOMAIN @ \cup m.conns |-> IF x \in m.syncClosed THEN @[x] ELSE At(@, x, {}) \cup {0}],
                    !.syncClosed = @ \cup m.conns]
  /\ UNCHANGED cur /\ l' = l + 1

\* ---------------------------------------------------------------------------
\* NoLostWakeup at a final quiescent point.  p is a pending operation of side s on connection c.
\* Nothing can happen any more: every datagram was delivered, every retransmission and delayed
\* acknowledgement was sent (their timers would still be pending otherwise).

Alive(c) == ~Closed(c, 0) /\ ~Closed(c, 1) /\ <<c, 0>> \notin m.lostSeen /\ <<c, 1>> \notin m.lostSeen
PendRead(d) == \E t \in DOMAIN m.pend : m.pend[t].op \in ReadOps /\ <<m.pend[t].c, m.pend[t].sid, 1 - m.pend[t].side>> = d
PendWrite(d) == \E t \in DOMAIN m.pend : m.pend[t].op \in WriteOps /\ <<m.pend[t].c, m.pend[t].sid, m.pend[t].side>> = d

\* every stream this side opened in direction class dir has run its full course (so the peer issued new credit)
\* The reading side of direction d has disposed of the stream: its application saw the end (fin or reset), or
\* it stopped the stream (explicitly or by dropping the RecvStream) and the writer ended it
RecvRetired(d) == d \in m.rend \/ (d \in DOMAIN m.stp /\ WriterEnded(d))
AllClosed(c, s, dir) ==
  \A i \in 0..(At(m.opened, <<c, s, dir>>, 0) - 1) :
     LET sid == SidOf(s, dir, i) IN
     /\ ~Rejected0(<<c, sid>>)
     /\ RecvRetired(<<c, sid, s>>)
     \* bidirectional: the peer's sending half is freed once it has ended and everything is acknowledged
     /\ dir = 1 \/ <<c, sid, 1 - s>> \in m.rend \/ WriterEnded(<<c, sid, 1 - s>>)

\* one of the streams was stopped by its reader after its writer had ended it, see KnownOpen
LateStopped(c, s, dir) ==
  \E i \in 0..(At(m.opened, <<c, s, dir>>, 0) - 1) : <<c, SidOf(s, dir, i), s>> \in m.lateStop

\* bytes handed to write() by side s of connection c
RECURSIVE SumOver(_, _)
SumOver(f, D) == IF D = {} THEN 0 ELSE LET x == CHOOSE x \in D : TRUE IN f[x] + SumOver(f, D \ {x})
TotalWritten(c, s) == SumOver(m.whi, {d \in DOMAIN m.whi : d[1] = c /\ d[3] = s})
\* the configured send window is small enough to have blocked a write at some point
Tight(c, s) == m.cfg.sendwin > 0 /\ m.cfg.sendwin <= TotalWritten(c, s)

DataCond(p) ==
  LET c == p.c
      s == p.side
      dw == <<c, p.sid, s>>
      dr == <<c, p.sid, 1 - s>> IN
  CASE p.op \in {"read", "read_chunk", "read_chunks"} ->
         \* the peer's application handed over more bytes than were read, or ended the stream; or
         \* reader and writer of one direction wait for each other (the reader has consumed everything
         \* delivered, so at least 7/8 of the stream window is available to the writer)
         dr \notin m.rdirty /\ (At(m.wlo, dr, 0) > At(m.cursor, dr, 0) \/ dr \in m.fin \cup m.rst \/ PendWrite(dr))
    [] p.op = "read_to_end" -> dr \in m.fin \cup m.rst \/ PendWrite(dr)
    [] p.op \in WriteOps ->
         \* the peer stopped the stream, or read everything ever written (credit was returned), or waits to read
         \* (a stopped stream with a tight send window is excluded: see KnownStoppedWriter below)
         IF dw \in DOMAIN m.stp THEN ~Tight(c, s)
         ELSE PendRead(dw)
                \/ (dw \notin m.rdirty /\ At(m.cursor, dw, 0) = At(m.whi, dw, 0) /\ At(m.wlo, dw, 0) = At(m.whi, dw, 0))
    [] p.op \in AcceptOps ->
         \E u \in m.used : u[1] = c /\ Initiator(u[2]) = 1 - s /\ Dir(u[2]) = OpDir(p.op) /\ ~Rejected0(u)
                           /\ Index(u[2]) >= At(m.accepted, <<c, s, OpDir(p.op)>>, 0)
    [] p.op \in OpenOps ->
         (IF p.op = "open_uni" THEN m.cfg.maxuni ELSE m.cfg.maxbi) > 0 /\ AllClosed(c, s, OpDir(p.op))
           /\ ~LateStopped(c, s, OpDir(p.op))
    \* finished and (nothing being in flight) fully acknowledged, or stopped by the peer.  A stream that was
    \* reset locally is excluded: see KnownStopped below
    [] p.op = "stopped" -> dw \notin m.rst /\ (dw \in m.fin \/ dw \in DOMAIN m.stp)
    \* datagrams are unreliable: only on a network that neither loses nor reorders (a reordered packet that
    \* carries an already retired connection id is discarded by the endpoint)
    [] p.op = "read_dgram" ->
         m.cfg.lossless /\ m.cfg.ordered /\ At(m.dsent, <<c, 1 - s>>, {}) \ At(m.drecv, <<c, s>>, {}) # {}
    [] p.op \in {"connect", "handshake"} -> TRUE
    [] OTHER -> FALSE

Enabled(p) ==
  IF p.op = "ep_accept" THEN p.e \in m.epClosed
  ELSE IF p.op = "wait_idle"
    THEN m.cfg.idle \/ \A cs \in m.conns : EpOf(cs[1], cs[2]) = p.e =>
           (Closed(cs[1], cs[2]) \/ (Closed(cs[1], 1 - cs[2]) /\ m.cfg.lossless))
  ELSE \/ m.cfg.idle                                   \* every connection has timed out or closed by now
       \/ Closed(p.c, p.side) \/ <<p.c, p.side>> \in m.lostSeen
       \/ (Closed(p.c, 1 - p.side) /\ m.cfg.lossless)   \* the peer's CONNECTION_CLOSE was delivered
       \* the handshake is over by now: operations on streams of a rejected 0-RTT attempt fail with ZeroRttRejected
       \/ (p.op \in ReadOps \cup WriteOps \cup {"stopped"} /\ Rejected0(<<p.c, p.sid>>))
       \/ (Alive(p.c) /\ DataCond(p))

\* KNOWN FINDING (C18): a stopped() future that is pending when the peer acknowledges a local reset() is never
\* woken (StreamsState::reset_acked frees the stream without an event), although the same call made after the
\* acknowledgement returns Ok(None) at once.
KnownStopped(p) ==
  /\ p.op = "stopped" /\ ~m.cfg.idle /\ Alive(p.c)
  /\ <<p.c, p.sid, p.side>> \in m.rst

\* KNOWN FINDING (C18): a writer that is woken by the peer's STOP_SENDING while the connection's send window is
\* exhausted gets Blocked again (SendStream::write_source tests the window before the stop reason) and is
\* registered in connection_blocked; when the window reopens StreamsState::poll reports Writable only for
\* streams with stream-level credit, which a stopped stream at its limit never regains: the writer sleeps for ever.
KnownStoppedWriter(p) ==
  /\ p.op \in WriteOps /\ ~m.cfg.idle /\ Alive(p.c)
  /\ <<p.c, p.sid, p.side>> \in DOMAIN m.stp /\ Tight(p.c, p.side)

\* KNOWN FINDING (C18): RecvStream::stop() (also the implicit one of a dropped RecvStream) on a stream whose end
\* has already arrived (FIN or RESET_STREAM received, not yet read) frees the stream at once but does not queue
\* MAX_STREAMS (proto RecvStream::stop never calls queue_max_stream_id); the credit only leaves with the next
\* packet the connection happens to process.  With nothing else in flight a peer blocked in open_uni()/open_bi()
\* waits for ever.
KnownOpen(p) ==
  /\ p.op \in OpenOps /\ ~m.cfg.idle /\ Alive(p.c)
  /\ AllClosed(p.c, p.side, OpDir(p.op)) /\ LateStopped(p.c, p.side, OpDir(p.op))

LostName(op) ==
  CASE op \in ReadOps -> "LostWakeup_read" [] op \in WriteOps -> "LostWakeup_write"
    [] op \in AcceptOps -> "LostWakeup_accept" [] op \in OpenOps -> "LostWakeup_open"
    [] op = "stopped" -> "LostWakeup_stopped" [] op = "closed" -> "LostWakeup_closed"
    [] op = "read_dgram" -> "LostWakeup_datagram" [] op = "wait_idle" -> "LostWakeup_wait_idle"
    [] op = "ep_accept" -> "LostWakeup_ep_accept" [] OTHER -> "LostWakeup_connect"

Quiescent ==
  /\ Is("Quiescent")
  /\ bad' = bad \cup Flag(e.ready = 0 /\ Len(e.pending) = Cardinality(DOMAIN m.pend), "PendingConsistent")
                \cup (IF e.timers = 0 /\ e.net = 0
                        THEN UNION {Flag(~Enabled(m.pend[t]), LostName(m.pend[t].op)) : t \in DOMAIN m.pend}
                        ELSE {})
  /\ LET final == e.timers = 0 /\ e.net = 0
         known == (IF final /\ \E t \in DOMAIN m.pend : KnownStopped(m.pend[t])
                     THEN {"StoppedPendingAcrossResetAck"} ELSE {})
                  \cup (IF final /\ \E t \in DOMAIN m.pend : KnownStoppedWriter(m.pend[t]) /\ ~Enabled(m.pend[t])
                          THEN {"StoppedWriterBlockedBySendWindow"} ELSE {})
                  \cup (IF final /\ \E t \in DOMAIN m.pend : KnownOpen(m.pend[t]) /\ ~Enabled(m.pend[t])
                          THEN {"StreamCreditNotQueuedByStop"} ELSE {}) IN
     IF known = {} THEN TRUE ELSE PrintT(<<"KNOWN", known, "line", l, "run", cur>>)
  /\ UNCHANGED <<cur, m>> /\ l' = l + 1

Sum(f) == LET RECURSIVE S(_) S(D) == IF D = {} THEN 0 ELSE LET x == CHOOSE x \in D : TRUE IN f[x] + S(D \ {x}) IN S(DOMAIN f)

End ==
  /\ Is("End")
  /\ bad' = bad \cup (IF e.capped = "polls" THEN Flag(FALSE, "Livelock")
                      ELSE IF e.capped = "time" THEN {}
                      ELSE Flag(e.live_tasks = 0, "LeftoverTasks")
                           \cup Flag(e.live_clones = 0 /\ Sum(m.clones) = 0, "LeftoverWakerClones")
                           \cup Flag(e.open_conns <= 0, "LeftoverOpenConnections"))
  /\ UNCHANGED <<cur, m>> /\ l' = l + 1

Panic == Is("Panic") /\ bad' = bad \cup Flag(FALSE, "Panic") /\ UNCHANGED <<cur, m>> /\ l' = l + 1

TNext == \/ Reset \/ Spawn \/ AppSpawn \/ WakerClone \/ WakerDrop \/ Wake \/ Poll \/ OpStart \/ OpDone
         \/ FutureDropped \/ Sync \/ HandleDropped \/ AbortAll \/ Quiescent \/ End \/ Panic
TraceSpec == TInit /\ [][TNext]_vars

\* every run's violations are reported, not only the first one's
Watch == TLCSet(1, <<l, bad, cur>>)
Runs(b) == {x[1] : x \in b}
MinLine(b, r) == CHOOSE n \in {x[3] : x \in {y \in b : y[1] = r}} : \A k \in {x[3] : x \in {y \in b : y[1] = r}} : n <= k
TraceAccepted ==
  LET r == TLCGet(1) d == TLCGet("stats").diameter IN
  /\ \A run \in Runs(r[2]) :
        PrintT(<<"VIOLATION", {x[2] : x \in {y \in r[2] : y[1] = run}}, "line", MinLine(r[2], run), "run", <<run>>>>)
  /\ r[2] = {}
  /\ IF d - 1 # N THEN Print(<<"UNMATCHED", "line", d, "run", r[3]>>, FALSE) ELSE TRUE
=============================================================================
