------------------------------ MODULE Recovery ------------------------------
(***************************************************************************)
(* Loss accounting and the congestion gate (property C12).                 *)
(*   Track     PacketBuilder::finish_and_track -> PathData::sent           *)
(*   Ack       on_ack_received / on_packet_acked                           *)
(*   Lose      detect_lost_packets                                         *)
(*   Abandon   discard_space, Retry, 0-RTT rejection                       *)
(* Every packet has exactly one fate; bytes in flight is the sum over the  *)
(* outstanding packets; a non-exempt ack-eliciting packet is tracked only  *)
(* while it fits the congestion window.                                    *)
(***************************************************************************)
EXTENDS Naturals, FiniteSets

CONSTANTS MaxPn, Sizes, Window, MaxProbes

VARIABLES next,      \* next packet number
          fate,      \* pn -> "unsent" | "out" | "acked" | "lost" | "abandoned"
          size,      \* pn -> bytes counted in flight (0 for ack-only packets)
          inflight,  \* PathData.in_flight.bytes
          probes     \* probe packets still allowed by the last PTO

rvars == <<next, fate, size, inflight, probes>>
Pns == 0 .. MaxPn
Out == {p \in Pns : fate[p] = "out"}

RECURSIVE SumSize(_)
SumSize(S) == IF S = {} THEN 0 ELSE LET p == CHOOSE p \in S : TRUE IN size[p] + SumSize(S \ {p})

RInit == /\ next = 0 /\ fate = [p \in Pns |-> "unsent"] /\ size = [p \in Pns |-> 0]
         /\ inflight = 0 /\ probes = 0

\* exempt: loss probe, MTU probe, path validation, CONNECTION_CLOSE
Track(s, exempt) ==
  /\ next <= MaxPn
  /\ exempt \/ s = 0 \/ inflight + s <= Window
  /\ exempt => (probes > 0 \/ s > 0)
  /\ fate' = [fate EXCEPT ![next] = "out"]
  /\ size' = [size EXCEPT ![next] = s]
  /\ inflight' = inflight + s
  /\ probes' = IF exempt /\ probes > 0 THEN probes - 1 ELSE probes
  /\ next' = next + 1

Leave(S, how) ==
  /\ S # {} /\ S \subseteq Out
  /\ fate' = [p \in Pns |-> IF p \in S THEN how ELSE fate[p]]
  /\ inflight' = inflight - SumSize(S)
  /\ UNCHANGED <<next, size, probes>>

Pto == /\ Out # {} /\ probes' = MaxProbes /\ UNCHANGED <<next, fate, size, inflight>>

RNext ==
  \/ \E s \in Sizes, x \in BOOLEAN : Track(s, x)
  \/ \E S \in SUBSET Out : Leave(S, "acked") \/ Leave(S, "lost")
  \/ Leave(Out, "abandoned")
  \/ Pto

RSpec == RInit /\ [][RNext]_rvars

InFlightConsistent == inflight = SumSize(Out)
ZeroWhenAllAcked == Out = {} => inflight = 0
OnceOnly == [][\A p \in Pns : /\ (fate[p] = "unsent" => fate'[p] \in {"unsent", "out"})
                                /\ (fate[p] = "out" => fate'[p] # "unsent")
                                /\ (fate[p] \in {"acked", "lost", "abandoned"} => fate'[p] = fate[p])]_rvars
RecoveryInv == InFlightConsistent /\ ZeroWhenAllAcked
=============================================================================
