------------------------------ MODULE LossOps ------------------------------
(***************************************************************************)
(* Operators shared by the design model of loss detection (LossDetect.tla) *)
(* and the trace specification that binds quinn to it (LossTrace.tla).     *)
(***************************************************************************)
EXTENDS Naturals, Integers

Pow2(n) == IF n = 0 THEN 1 ELSE IF n = 1 THEN 2 ELSE IF n = 2 THEN 4 ELSE IF n = 3 THEN 8 ELSE IF n = 4 THEN 16
           ELSE IF n = 5 THEN 32 ELSE IF n = 6 THEN 64 ELSE IF n = 7 THEN 128 ELSE 256

\* RFC 9002 6.1: a packet below the largest acknowledged one (lg) is lost when it is k packets behind
\* it or was sent at least d ago
AtThreshold(lg, pn, k, age, d) == lg >= pn + k \/ age >= d

\* RFC 9002 6.2.1: the probe timeout runs from the last ack-eliciting transmission, doubling with
\* every expiry that no acknowledgement answers
PtoAt(lastAe, base, count) == lastAe + base * Pow2(count)
=============================================================================
