CONSTANT MaxLoss = 3
CONSTANT EagerServer = TRUE
SPECIFICATION HLive
INVARIANT DiscardedKeysNotNeeded
INVARIANT NoUseAfterDiscard
PROPERTY Completes
CHECK_DEADLOCK FALSE
