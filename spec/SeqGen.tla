------------------------------- MODULE SeqGen -------------------------------
(***************************************************************************)
(* Environment enumerator shared by the generators (GEN pipeline): every   *)
(* sequence of environment choices of length Len over Alphabet, printed as *)
(* JSON once complete.  Used for per-datagram fate vectors, operation      *)
(* orders and fault placements; TLC guarantees that the enumeration is     *)
(* exhaustive, the harness replays each one into the real code.            *)
(***************************************************************************)
EXTENDS Naturals, Sequences, TLC, Json
CONSTANTS Alphabet, N
VARIABLE hist
Init == hist = <<>>
Next == /\ Len(hist) < N /\ \E a \in Alphabet : hist' = Append(hist, a)
Emit == (Len(hist) = N) => PrintT(<<"GEN", ToJson(hist)>>)
=============================================================================
