---------------------------- MODULE RoutingTrace ----------------------------
(***************************************************************************)
(* Trace validation for C09.  The abstract state of Routing.tla is rebuilt *)
(* from what was seen on the wire: `owner` maps each connection ID (per    *)
(* endpoint) to the connection that issued it last (handshake source IDs,  *)
(* NEW_CONNECTION_ID frames, the client-chosen destination ID of the first *)
(* Initial), `act` is the connection's own view of its active sequence     *)
(* numbers, `linked` relates a server connection to the client connection  *)
(* whose datagram created it.  Every datagram handed to Endpoint::handle   *)
(* is a Routing!Route step: the connection it was given to must be the     *)
(* issuer (RoutedToIssuer), and an intact genuine datagram for an ID its   *)
(* issuer still considers active must reach it (ActiveIndexed).  At        *)
(* quiescent points the endpoint's table sizes must equal the connections' *)
(* own counts (TableConsistent) and be empty once all are drained.         *)
(* Isolation: connections no fault was aimed at complete their transfers.  *)
(***************************************************************************)
EXTENDS Naturals, Integers, Sequences, FiniteSets, TLC, Json, IOUtils

Rec == ndJsonDeserialize(IOEnv.TRACE)
N == Len(Rec)

VARIABLES l, bad, owner, seqOf, act, node, puid, ikeyOf, drained, lens, retry, excused, deviations, cur
vars == <<l, bad, owner, seqOf, act, node, puid, ikeyOf, drained, lens, retry, excused, deviations, cur>>

e == Rec[l]
Is(k) == l <= N /\ e.ev = k
Flag(c, name) == IF c THEN {} ELSE {name}
At(f, a, d) == IF a \in DOMAIN f THEN f[a] ELSE d
Set(f, a, v) == IF a \in DOMAIN f THEN [f EXCEPT ![a] = v] ELSE f @@ (a :> v)
ToSet(s) == {s[i] : i \in 1 .. Len(s)}

TInit == /\ l = 1 /\ bad = {} /\ owner = <<>> /\ seqOf = <<>> /\ act = <<>> /\ node = <<>> /\ puid = <<>> /\ ikeyOf = <<>>
         /\ drained = {} /\ lens = <<8, 8>> /\ retry = {} /\ excused = {} /\ deviations = {} /\ cur = <<0>>

Reset == /\ Is("Reset") /\ bad' = {} /\ owner' = <<>> /\ seqOf' = <<>> /\ act' = <<>> /\ node' = <<>>
         /\ puid' = <<>> /\ ikeyOf' = <<>> /\ drained' = {} /\ lens' = <<e.scl, e.ccl>> /\ retry' = {} /\ excused' = {} /\ deviations' = {} /\ cur' = <<e.run>> /\ l' = l + 1

\* Routing!NewConn
Conn == /\ Is("Conn")
        /\ node' = Set(node, e.uid, e.n) /\ puid' = Set(puid, e.uid, e.puid) /\ ikeyOf' = Set(ikeyOf, e.uid, e.ikey)
        /\ owner' = IF e.ikey # "" THEN Set(owner, e.ikey, e.uid) ELSE owner
        /\ seqOf' = IF e.ikey # "" THEN Set(seqOf, e.ikey, -1) ELSE seqOf
        /\ bad' = bad /\ l' = l + 1 /\ UNCHANGED <<act, drained, lens, retry, excused, deviations, cur>>

\* Routing!Issue (first sight of the ID on the wire); an ID in use by a live connection is never
\* given to another one
Issue == /\ Is("Issue")
         /\ LET o == At(owner, e.key, -1) IN
            bad' = bad \cup Flag(o = -1 \/ o = e.uid \/ o \in drained
                                 \/ At(seqOf, e.key, -1) \notin ToSet(At(act, o, <<>>)),
                                 "IdentifierSharedByLiveConnections")
         /\ owner' = Set(owner, e.key, e.uid) /\ seqOf' = Set(seqOf, e.key, e.seq)
         /\ l' = l + 1 /\ UNCHANGED <<act, node, puid, ikeyOf, drained, lens, retry, excused, deviations, cur>>

Act == /\ Is("Act") /\ act' = Set(act, e.uid, e.seqs) /\ bad' = bad /\ l' = l + 1
       /\ UNCHANGED <<owner, seqOf, node, puid, ikeyOf, drained, lens, retry, excused, deviations, cur>>

ShortIds(n) == (IF n = 0 THEN lens[1] ELSE lens[2]) <= 4
Linked(a, b) == At(puid, a, -1) = b \/ At(puid, b, -1) = a

\* KNOWN FINDING (C09): an accepting endpoint with zero-length local IDs indexes its connections by
\* address tuple only; a later Initial from the tuple of an established connection creates a second
\* connection that replaces the entry, and the established connection's datagrams go to the new one.
\* Recognised by: zero-length destination ID at the accepting node, handed to a connection whose
\* remote address is the datagram's source but which was not created by the sender's connection.
TakenOver == e.zl /\ e.n = 0 /\ e.uid # -1 /\ e.suid # -1 /\ e.rrem = e.src /\ ~Linked(e.suid, e.uid)

\* KNOWN FINDING (C09): Endpoint::retry draws the source ID of a Retry packet from the generator
\* without checking the index.  With short IDs it can equal an ID an established connection has
\* issued; the client's next Initial then carries it as destination ID and is handed to that
\* connection, and the new client never gets an answer.
\* (the ID it collides with may also be the destination ID of the connection's own first Initial,
\* which the accepting endpoint keeps indexed for Initial and 0-RTT packets as long as the connection lives)
RetryCollision == e.long /\ e.uid # -1 /\ e.suid # -1 /\ e.key \in retry
                  /\ (At(owner, e.key, -1) = e.uid \/ At(ikeyOf, e.uid, "") = e.key) /\ ~Linked(e.suid, e.uid)

OrphanToTupleOwner == e.zl /\ e.rrem = e.src /\ At(puid, e.suid, -1) \in drained \cup {-1}

\* Routing!Route
Rx == /\ Is("Rx")
      /\ deviations' = deviations
           \cup (IF TakenOver /\ e.cls = "gen" THEN {"ZeroLengthTupleTakenOverByNewConnection"} ELSE {})
           \cup (IF RetryCollision THEN {"RetrySourceIdCollidesWithActiveId"} ELSE {})
      /\ LET o == At(owner, e.key, -1)
             activeAtOwner == o # -1 /\ o \notin drained /\ At(seqOf, e.key, -1) # -1
                              /\ At(seqOf, e.key, -1) \in ToSet(At(act, o, <<>>))
         IN bad' = bad
              \* handed to a connection => that connection issued the destination ID
              \* (or its tail is the stateless reset token of an ID the connection's peer issued)
              \* (with IDs of at most 4 bytes an ID its last known issuer has given up may have been issued
              \* again, to a connection that has not put it on the wire yet)
              \cup Flag((e.uid # -1 /\ ~e.zl) => (o = e.uid \/ e.reset \/ (ShortIds(e.n) /\ o # -1 /\ ~activeAtOwner)),
                        "RoutedToNonIssuer")
              \* zero-length IDs: the connection owns the address tuple
              \cup Flag((e.uid # -1 /\ e.zl) => e.rrem = e.src, "RoutedToWrongTuple")
              \* nothing is ever handed to a connection that is gone
              \cup Flag(e.uid # -1 => e.uid \notin drained, "RoutedToDrainedConnection")
              \* a genuine datagram only ever reaches the connection it was meant for
              \* (an endpoint with zero-length IDs has one connection per remote address: what a stale
              \* connection of that remote - e.g. one created there by a late duplicate of an old first
              \* Initial - sends to a peer that no longer exists can only reach the tuple's present owner)
              \cup Flag((e.cls = "gen" /\ e.suid # -1 /\ e.uid # -1)
                          => (Linked(e.suid, e.uid) \/ TakenOver \/ RetryCollision \/ OrphanToTupleOwner),
                        "DeliveredToForeignConnection")
              \* an intact datagram for an ID its issuer considers active reaches the issuer
              \cup Flag((e.intact /\ ~e.zl /\ activeAtOwner) => e.uid = o, "ActiveIdNotRouted")
              \* a datagram that matches no ID but ends in the stateless reset token of the ID a live
              \* connection of this endpoint is sending to is that connection's (RFC 9000 10.3.1) -
              \* whatever became of the endpoint's other connections to the same peer
              \cup Flag((e.uid = -1 /\ e.kind \in {"none", "resp"} /\ e.tokuid # -1 /\ e.tokuid \notin drained) => FALSE,
                        "ResetTokenNotRouted")
      /\ excused' = IF RetryCollision THEN excused \cup {e.suid} ELSE excused
      /\ l' = l + 1 /\ UNCHANGED <<owner, seqOf, act, node, puid, ikeyOf, drained, lens, retry, cur>>

RetryCid == /\ Is("RetryCid") /\ retry' = retry \cup {e.key} /\ bad' = bad /\ l' = l + 1
            /\ UNCHANGED <<owner, seqOf, act, node, puid, ikeyOf, drained, lens, excused, deviations, cur>>

\* Routing!Drain
Drained == /\ Is("Drained") /\ drained' = drained \cup {e.uid} /\ bad' = bad /\ l' = l + 1
           /\ UNCHANGED <<owner, seqOf, act, node, puid, ikeyOf, lens, retry, excused, deviations, cur>>

RECURSIVE Sum(_, _, _)
Sum(cs, i, n) == IF i = 0 THEN 0
                 ELSE (IF cs[i].n = n /\ ~cs[i].drained THEN cs[i].lcids ELSE 0) + Sum(cs, i - 1, n)
RECURSIVE LiveOn(_, _, _)
LiveOn(cs, i, n) == IF i = 0 THEN 0 ELSE (IF cs[i].n = n /\ ~cs[i].drained THEN 1 ELSE 0) + LiveOn(cs, i - 1, n)

\* quiescent point: endpoint tables against the connections' own view
Quiet ==
  /\ Is("Quiet")
  /\ bad' = bad \cup UNION { LET ep == e.eps[k]
                                 n == k - 1
                                 len == IF n = 0 THEN lens[1] ELSE lens[2]
                                 live == LiveOn(e.conns, Len(e.conns), n)
                             IN Flag(len = 0 \/ ep.cids = Sum(e.conns, Len(e.conns), n), "IndexSizeDiffersFromConnections")
                                \cup Flag(live > 0 \/ (ep.cids = 0 /\ ep.icids = 0 /\ ep.inrem = 0 /\ ep.outrem = 0
                                                       /\ ep.rtok = 0 /\ ep.conns = 0),
                                          "DrainedConnectionLeftInTables")
                                \cup Flag(ep.conns = live, "ConnectionCountDiffers")
                                \cup Flag(ep.rtok <= live /\ ep.icids <= live /\ ep.inrem + ep.outrem <= live,
                                          "TableLargerThanConnections")
                             : k \in 1 .. Len(e.eps) }
  /\ l' = l + 1 /\ UNCHANGED <<owner, seqOf, act, node, puid, ikeyOf, drained, lens, retry, excused, deviations, cur>>

End == /\ Is("End")
       /\ bad' = bad \cup Flag(\A i \in 1 .. Len(e.disturbed) :
                                  e.disturbed[i] \in excused \/ At(puid, e.disturbed[i], -1) \in excused,
                               "BystanderDisturbed")
       /\ l' = l + 1
       /\ UNCHANGED <<owner, seqOf, act, node, puid, ikeyOf, drained, lens, retry, excused, deviations, cur>>

TNext == (Reset \/ Conn \/ Issue \/ Act \/ Rx \/ RetryCid \/ Drained \/ Quiet \/ End)
         /\ (deviations' \subseteq deviations
             \/ PrintT(<<"KNOWN", deviations' \ deviations, "line", l, "run", cur>>))
TraceSpec == TInit /\ [][TNext]_vars
Watch == TLCSet(1, <<l, bad, cur>>) /\ bad = {}
TraceAccepted ==
  LET r == TLCGet(1) d == TLCGet("stats").diameter IN
  IF r[2] # {} THEN Print(<<"VIOLATION", r[2], "line", r[1] - 1, "run", r[3]>>, FALSE)
  ELSE IF d - 1 # N THEN Print(<<"UNMATCHED", "line", d, "run", r[3]>>, FALSE)
  ELSE TRUE
=============================================================================
