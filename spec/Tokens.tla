-------------------------------- MODULE Tokens --------------------------------
(***************************************************************************)
(* Design model for C14, server side: address validation tokens.           *)
(*                                                                         *)
(* The server issues Retry tokens (bound to address, port, issue second)   *)
(* and NEW_TOKEN tokens (bound to IP and issue second, single use).  Other *)
(* parties produce tokens sealed under other keys.  Anyone may present any *)
(* token, or a damaged version of it, from any address at any later time.  *)
(* The outcome of a presentation is computed the way                       *)
(* IncomingToken::from_header does it (decode, kind, address, lifetime,    *)
(* reuse log) with BloomTokenLog's two period filters as the reuse log;    *)
(* the invariants state C14 independently of that order of checks.         *)
(* Unforgeability of the seal (a token decodes iff it is bit for bit one   *)
(* this server sealed) is the assumption; the clock is monotone.           *)
(***************************************************************************)
EXTENDS TokenOps, TLC

CONSTANTS Ips, Ports,  \* client addresses
          U,           \* clock units per second (tokens carry whole seconds)
          RLife, VLife,\* lifetimes of Retry / NEW_TOKEN tokens in clock units
          MaxTime, MaxTok,
          Classes,     \* how presented bytes relate to the token: "genuine", "altered", "truncated", "extended"
          ForeignIps   \* IPs other servers' tokens name

VARIABLES now, toks, log, acc, last

vars == <<now, toks, log, acc, last>>

NoLast == [id |-> 0]

Init == /\ now = 0 /\ toks = <<>> /\ log = LogInit(0) /\ acc = <<>> /\ last = NoLast

Tick == /\ now < MaxTime /\ now' = now + 1 /\ last' = NoLast /\ UNCHANGED <<toks, log, acc>>

Add(rec) == /\ Len(toks) < MaxTok
            /\ toks' = Append(toks, rec) /\ acc' = Append(acc, 0)
            /\ last' = NoLast /\ UNCHANGED <<now, log>>

\* Endpoint::retry
IssueRetry(ip, port) == Add([kind |-> "retry", ip |-> ip, port |-> port, t |-> Floor(now, U), own |-> TRUE])
\* NEW_TOKEN frame for the current path's IP
IssueNew(ip) == Add([kind |-> "new", ip |-> ip, port |-> 0, t |-> Floor(now, U), own |-> TRUE])
\* a token some other server (another key) produced, with whatever content
IssueForeign(kind, ip, port) == Add([kind |-> kind, ip |-> ip, port |-> port, t |-> Floor(now, U), own |-> FALSE])

\* an Initial carrying token `id` (possibly damaged) arrives from ip:port
Present(id, class, ip, port) ==
  LET rec == toks[id]
      decodes == class = "genuine" /\ rec.own
      consult == Consults(decodes, rec, ip, now, VLife)
      ls == IF consult THEN LogStep(log, id, rec.t + VLife, VLife) ELSE [st |-> log, ok |-> FALSE]
      out == Outcome(decodes, rec, ip, port, now, RLife, VLife, ls.ok)
  IN /\ log' = ls.st
     /\ acc' = [acc EXCEPT ![id] = IF out = "validated" /\ @ < 2 THEN @ + 1 ELSE @]   \* 2 = "more than once"
     /\ last' = [id |-> id, class |-> class, ip |-> ip, port |-> port, out |-> out, consulted |-> consult,
                 before |-> acc[id], branch |-> IF consult THEN LogBranch(log, rec.t + VLife, VLife) ELSE "-"]
     /\ UNCHANGED <<now, toks>>

Next ==
  \/ Tick
  \/ \E ip \in Ips, p \in Ports : IssueRetry(ip, p) \/ IssueNew(ip)
  \/ \E k \in {"retry", "new"}, ip \in ForeignIps : IssueForeign(k, ip, CHOOSE p \in Ports : TRUE)
  \/ \E id \in 1 .. Len(toks), c \in Classes, ip \in Ips, p \in Ports : Present(id, c, ip, p)

Spec == Init /\ [][Next]_vars

\* ---------------------------------------------------------------------------------------------
\* C14, clause by clause (about the most recent presentation)

P == last.id # 0
Rec == toks[last.id]
Authentic == last.class = "genuine" /\ Rec.own
Live == IF Rec.kind = "retry" THEN now <= Rec.t + RLife ELSE now <= Rec.t + VLife

\* validated only by an own, unmodified token from the address it was issued to, within its
\* lifetime and (NEW_TOKEN) not accepted before
ValidatedOnlyIf ==
  (P /\ last.out = "validated") =>
     /\ Authentic /\ Live /\ Rec.ip = last.ip
     /\ Rec.kind = "retry" => Rec.port = last.port
     /\ Rec.kind = "new" => last.before = 0

\* any altered or foreign token is treated as absent
ForgedIsAbsent == (P /\ ~Authentic) => last.out = "absent"

\* a stale or misplaced Retry token ends the attempt; nothing else does
InvalidIffBadRetry ==
  P => (last.out = "invalid" <=>
          (Authentic /\ Rec.kind = "retry" /\ (Rec.ip # last.ip \/ Rec.port # last.port \/ ~Live)))

\* a NEW_TOKEN token never counts twice; a Retry token is never refused for reuse
SingleUse == \A id \in 1 .. Len(toks) : toks[id].kind = "new" => acc[id] <= 1

\* reference set semantics of the reuse log: no false negative for an unexpired token
LogNoFalseNegative ==
  \A id \in 1 .. Len(toks) :
     (toks[id].kind = "new" /\ acc[id] > 0 /\ now <= toks[id].t + VLife)
        => ~LogStep(log, id, toks[id].t + VLife, VLife).ok

\* the log is consulted (a token is burned) only for presentations that pass every other check
NoBurning == (P /\ last.consulted) => (Authentic /\ Rec.kind = "new" /\ Rec.ip = last.ip /\ Live)

\* a first presentation in order of issue is not refused (the log's false positives are confined to
\* tokens older than one that was already used)
FirstUseInOrderAccepted ==
  (P /\ Authentic /\ Rec.kind = "new" /\ Rec.ip = last.ip /\ Live /\ last.before = 0
     /\ \A j \in 1 .. Len(toks) : (toks[j].kind = "new" /\ acc[j] > 0 /\ j # last.id) => toks[j].t <= Rec.t)
  => last.out = "validated"

TypeOK == now \in 0 .. MaxTime /\ Len(toks) <= MaxTok
=============================================================================
