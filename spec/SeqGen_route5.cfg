CONSTANT Alphabet = {"close_c", "close_s", "reconnect", "migrate", "err", "replay", "garbage", "wait"}
CONSTANT N = 5
INIT Init
NEXT Next
INVARIANT Emit
CHECK_DEADLOCK FALSE
