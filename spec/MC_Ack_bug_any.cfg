CONSTANT MaxData = 2
CONSTANT MarkForcesAck = "any"
SPECIFICATION ASpec
INVARIANT AckedWereReceived
INVARIANT Quiescence
PROPERTY OwedIsAcked
CHECK_DEADLOCK FALSE
