CONSTANT Alphabet = {"cw0", "cf0", "cr0", "cs0", "cd0", "cq0", "ce0", "cu0", "sw0", "sf0", "sr0", "ss0", "sd0", "sq0", "se0", "su0", "n", "x"}
CONSTANT N = 4
INIT Init
NEXT Next
INVARIANT Emit
CHECK_DEADLOCK FALSE
