CONSTANT Values = {1, 2, 3}
CONSTANT Default = 2
CONSTANT MaxReq = 3
CONSTANT Slots = "all"
SPECIFICATION FSpec
INVARIANT NewestWins
INVARIANT AllowanceCoversDelay
CHECK_DEADLOCK FALSE
