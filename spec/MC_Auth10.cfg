CONSTANT MaxPn = 10
CONSTANT W = 4
SPECIFICATION Spec
INVARIANT AuthInv
CHECK_DEADLOCK FALSE
