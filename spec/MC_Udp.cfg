CONSTANT MaxLen = 4
CONSTANT SegSizes = {0, 1, 2, 3}
CONSTANT Ecns = {0, 3}
CONSTANT Srcs = {"none", "alt"}
CONSTANT MaxGso = 3
CONSTANT GroMax = 4
CONSTANT Batch = 2
CONSTANT NTx = 2
SPECIFICATION Spec
INVARIANT UdpInv
PROPERTY Drained
CHECK_DEADLOCK FALSE
