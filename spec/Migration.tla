----------------------------- MODULE Migration -----------------------------
(***************************************************************************)
(* Path migration of one server-side connection (property C15).           *)
(*                                                                         *)
(* The client lives at one address at a time and may move.  An off-path    *)
(* attacker can replay any packet the client has sent from any address it  *)
(* likes, but sees nothing addressed elsewhere (it cannot answer a path    *)
(* challenge sent to an address it merely spoofed).  The server keeps a    *)
(* current path, at most one previous path, a validated flag, the          *)
(* outstanding challenge and a validation deadline.                        *)
(*   Recv     a packet with a new highest number from another address      *)
(*            moves the path there, unvalidated, challenge outstanding;    *)
(*            the previous path is remembered unless the path being left   *)
(*            was itself still unvalidated                                 *)
(*   Respond  a PATH_RESPONSE with the outstanding token from the current  *)
(*            address validates the path                                   *)
(*   Expire   the deadline passes: back to the previous path               *)
(***************************************************************************)
EXTENDS Naturals, FiniteSets

CONSTANTS Addrs,      \* addresses: the client uses some, the attacker spoofs any
          MaxPn,      \* packets the client sends
          MaxMoves,   \* client address changes
          MaxReplays  \* attacker budget

None == "none"
NoChal == <<0, "none">>

VARIABLES caddr,      \* where the client is now
          used,       \* addresses the client has really been at
          sent,       \* packets sent by the client: set of <<pn, from>>
          net,        \* packets in flight to the server: set of <<pn, src>>
          cur, prev, validated, chal,   \* server path state; chal = <<token, addr>> or NoChal
          nextTok, hi,                  \* challenge token counter, highest packet number seen
          chalNet,    \* challenges in flight: set of <<token, addr>>
          respNet,    \* responses in flight: set of <<token, src>>
          pn, moves, replays

mvars == <<caddr, used, sent, net, cur, prev, validated, chal, nextTok, hi, chalNet, respNet, pn, moves, replays>>

MInit ==
  /\ caddr \in Addrs /\ used = {caddr} /\ sent = {} /\ net = {}
  /\ cur = caddr /\ prev = None /\ validated = TRUE /\ chal = NoChal
  /\ nextTok = 1 /\ hi = 0 /\ chalNet = {} /\ respNet = {} /\ pn = 0 /\ moves = 0 /\ replays = 0

ClientMove(a) ==
  /\ moves < MaxMoves /\ a # caddr
  /\ caddr' = a /\ used' = used \cup {a} /\ moves' = moves + 1
  /\ UNCHANGED <<sent, net, cur, prev, validated, chal, nextTok, hi, chalNet, respNet, pn, replays>>

ClientSend ==
  /\ pn < MaxPn
  /\ pn' = pn + 1
  /\ sent' = sent \cup {<<pn + 1, caddr>>}
  /\ net' = net \cup {<<pn + 1, caddr>>}
  /\ UNCHANGED <<caddr, used, cur, prev, validated, chal, nextTok, hi, chalNet, respNet, moves, replays>>

\* the attacker re-sends a packet it has observed from an address of its choice
Replay(p, a) ==
  /\ replays < MaxReplays /\ p \in sent
  /\ net' = net \cup {<<p[1], a>>}
  /\ replays' = replays + 1
  /\ UNCHANGED <<caddr, used, sent, cur, prev, validated, chal, nextTok, hi, chalNet, respNet, pn, moves>>

Lose(p) == /\ p \in net /\ net' = net \ {p}
           /\ UNCHANGED <<caddr, used, sent, cur, prev, validated, chal, nextTok, hi, chalNet, respNet, pn, moves, replays>>

\* Connection::handle_packet: duplicates (number seen) are dropped before anything else
Recv(p) ==
  /\ p \in net
  /\ net' = net \ {p}
  /\ IF p[1] > hi
       THEN /\ hi' = p[1]
            /\ IF p[2] # cur
                 THEN \* migrate
                      /\ cur' = p[2] /\ validated' = FALSE
                      /\ chal' = <<nextTok, p[2]>> /\ nextTok' = nextTok + 1
                      /\ chalNet' = chalNet \cup {<<nextTok, p[2]>>}
                      /\ prev' = IF chal = NoChal THEN cur ELSE prev
                 ELSE UNCHANGED <<cur, validated, chal, nextTok, chalNet, prev>>
       ELSE UNCHANGED <<hi, cur, validated, chal, nextTok, chalNet, prev>>
  /\ UNCHANGED <<caddr, used, sent, respNet, pn, moves, replays>>

\* a challenge reaches its address; only the real client, if it is there, answers
ChallengeArrives(c) ==
  /\ c \in chalNet
  /\ chalNet' = chalNet \ {c}
  /\ respNet' = IF c[2] = caddr THEN respNet \cup {<<c[1], caddr>>} ELSE respNet
  /\ UNCHANGED <<caddr, used, sent, net, cur, prev, validated, chal, nextTok, hi, pn, moves, replays>>

Respond(r) ==
  /\ r \in respNet
  /\ respNet' = respNet \ {r}
  /\ IF chal # NoChal /\ chal[1] = r[1] /\ r[2] = cur
       THEN validated' = TRUE /\ chal' = NoChal /\ prev' = None
       ELSE UNCHANGED <<validated, chal, prev>>
  /\ UNCHANGED <<caddr, used, sent, net, cur, nextTok, hi, chalNet, pn, moves, replays>>

\* PathValidation timer
Expire ==
  /\ chal # NoChal
  /\ IF prev # None THEN cur' = prev /\ validated' = TRUE /\ prev' = None
                    ELSE UNCHANGED <<cur, validated, prev>>
  /\ chal' = NoChal
  /\ UNCHANGED <<caddr, used, sent, net, nextTok, hi, chalNet, respNet, pn, moves, replays>>

MNext ==
  \/ \E a \in Addrs : ClientMove(a)
  \/ ClientSend
  \/ \E p \in sent, a \in Addrs : Replay(p, a)
  \/ \E p \in net : Lose(p) \/ Recv(p)
  \/ \E c \in chalNet : ChallengeArrives(c)
  \/ \E r \in respNet : Respond(r)
  \/ Expire

MSpec == MInit /\ [][MNext]_mvars

\* ---- properties -----------------------------------------------------------------------------
\* the server never considers an address validated that the client has not really been at
NeverValidatesSpoofedAddress == validated => cur \in used
\* the remembered previous path is always one the client really used
PrevIsGenuine == prev # None => prev \in used
\* an unvalidated path always has a challenge outstanding (so Expire can undo it)
UnvalidatedHasChallenge == ~validated => chal # NoChal
\* while a challenge is outstanding there is a previous path to fall back to
ChallengeHasPrev == chal # NoChal => prev # None
\* a hijack attempt is undone: with the validation timer serviced, the path ends up, and stays, at
\* an address the client really used (the attacker's budget is finite)
MFair == MSpec /\ WF_mvars(Expire) /\ WF_mvars(\E p \in net : Recv(p) \/ Lose(p))
EventuallyGenuine == <>[](cur \in used)
=============================================================================
