----------------------------- MODULE TokenClient -----------------------------
(***************************************************************************)
(* Design model for C14, client side: Retry handling and authentication of *)
(* the connection IDs used during the handshake.                           *)
(*                                                                         *)
(* One connection attempt.  The network (honest server and attacker alike) *)
(* may deliver Retry packets with a verifying or a wrong integrity tag,    *)
(* with or without a token, at any time and any number of times, server    *)
(* Initial packets, and finally the server's transport parameters with     *)
(* arbitrary values for original_destination_connection_id,                *)
(* initial_source_connection_id and retry_source_connection_id.            *)
(* Strict = FALSE additionally models the implementation's habit of        *)
(* counting discarded Retry packets as "a packet was processed" (named     *)
(* deviation InvalidRetryBlocksGenuineRetry): safety is unaffected.        *)
(***************************************************************************)
EXTENDS TokenOps, TLC

CONSTANTS Cids,     \* connection IDs (strings); NoCid is not among them
          Strict,   \* TRUE: only authenticated packets count as processed
          MaxEvents

VARIABLES st,        \* "hs" handshaking, "done", "failed"
          odcid,     \* destination ID of the first Initial
          dcid,      \* destination ID used now
          tok,       \* "none" | "retry": token carried by Initials now
          retryScid, \* source ID of the Retry that was followed, NoCid if none
          srvScid,   \* source ID of the server's first Initial, NoCid before
          processed, \* packets of the server processed so far
          followed,  \* Retry packets followed
          params,    \* the server's parameters once known
          n, last

vars == <<st, odcid, dcid, tok, retryScid, srvScid, processed, followed, params, n, last>>

Init == /\ st = "hs" /\ odcid \in Cids /\ dcid = odcid /\ tok = "none" /\ retryScid = NoCid
        /\ srvScid = NoCid /\ processed = 0 /\ followed = 0 /\ n = 0 /\ last = [k |-> "init"]
        /\ params = [odcid |-> NoCid, iscid |-> NoCid, rscid |-> NoCid]

RecvRetry(tagok, toklen, scid) ==
  /\ n < MaxEvents /\ n' = n + 1
  /\ LET f == FollowRetry(st = "hs", tagok, toklen, processed, retryScid # NoCid) IN
     /\ last' = [k |-> "retry", f |-> f, tagok |-> tagok, toklen |-> toklen, before |-> processed,
                 srv |-> srvScid # NoCid, had |-> retryScid # NoCid, hs |-> st = "hs"]
     /\ IF f THEN /\ retryScid' = scid /\ dcid' = scid /\ tok' = "retry" /\ followed' = followed + 1
                  /\ processed' = processed + 1
             ELSE /\ UNCHANGED <<retryScid, dcid, tok, followed>>
                  /\ processed' = IF Strict \/ processed >= 2 THEN processed ELSE processed + 1
  /\ UNCHANGED <<st, odcid, srvScid, params>>

RecvServerInitial(scid) ==
  /\ n < MaxEvents /\ n' = n + 1 /\ st = "hs"
  /\ srvScid' = IF srvScid = NoCid THEN scid ELSE srvScid
  /\ dcid' = IF srvScid = NoCid THEN scid ELSE dcid
  /\ processed' = IF processed >= 2 THEN processed ELSE processed + 1
  /\ last' = [k |-> "initial"]
  /\ UNCHANGED <<st, odcid, tok, retryScid, followed, params>>

\* the handshake reaches the point where the server's parameters are known
RecvParams(o, i, r) ==
  /\ n < MaxEvents /\ n' = n + 1 /\ st = "hs" /\ srvScid # NoCid
  /\ LET p == [odcid |-> o, iscid |-> i, rscid |-> r] IN
     /\ st' = IF EchoOk(p, odcid, srvScid, retryScid) THEN "done" ELSE "failed"
     /\ last' = [k |-> "params"] /\ params' = p
  /\ UNCHANGED <<odcid, dcid, tok, retryScid, srvScid, processed, followed>>

Next ==
  \/ \E tagok \in BOOLEAN, toklen \in {0, 1}, scid \in Cids : RecvRetry(tagok, toklen, scid)
  \/ \E scid \in Cids : RecvServerInitial(scid)
  \/ \E o \in Cids \cup {NoCid}, i \in Cids \cup {NoCid}, r \in Cids \cup {NoCid} : RecvParams(o, i, r)

Spec == Init /\ [][Next]_vars

\* ---------------------------------------------------------------------------------------------
AtMostOneRetry == followed <= 1
FollowOnlyValid ==
  (last.k = "retry" /\ last.f) => (last.tagok /\ last.toklen > 0 /\ ~last.srv /\ ~last.had /\ last.hs
                                   /\ last.before = 0)
\* with Strict the converse holds too: a valid first Retry is followed
FollowIfValid ==
  (Strict /\ last.k = "retry" /\ last.tagok /\ last.toklen > 0 /\ ~last.srv /\ ~last.had /\ last.hs) => last.f
CompletesOnlyWithEcho ==
  st = "done" => (params.odcid = odcid /\ params.iscid = srvScid /\ params.rscid = retryScid)
\* a Retry the server does not vouch for cannot survive: parameters without (or with another)
\* retry_source_connection_id fail the attempt
ForgedRetryDetected ==
  (st # "hs" /\ params.rscid # retryScid) => st = "failed"
TokenOnlyFromRetry == tok = "retry" <=> retryScid # NoCid
=============================================================================
