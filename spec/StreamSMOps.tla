------------------------------ MODULE StreamSMOps -----------------------------
(***************************************************************************)
(* QUIC stream state machine as seen through quinn-proto's API (C11), for  *)
(* one direction of one stream: the sending half at one peer, the          *)
(* receiving half at the other, and the control signals between them       *)
(* (FIN, RESET_STREAM, STOP_SENDING, acknowledgement of FIN/RESET).        *)
(*                                                                         *)
(* The operation -> result table is given as operators over the abstract   *)
(* state so that the trace specification applies exactly the same table.   *)
(***************************************************************************)
EXTENDS Naturals, Integers, FiniteSets

\* ---------------------------------------------------------------------------------------------
\* Sending half: [fin, rst, stop (code or -1), freed]
SFresh == [fin |-> FALSE, rst |-> FALSE, stop |-> -1, freed |-> FALSE]

\* SendStream::write / write_chunks
WriteResults(s) ==
  IF s.freed \/ s.fin \/ s.rst THEN {"ClosedStream"}
  ELSE IF s.stop # -1 THEN {"Stopped"}
  ELSE {"Ok", "Blocked"}
\* SendStream::finish
FinishResults(s) ==
  IF s.freed THEN {"ClosedStream"}
  ELSE IF s.stop # -1 THEN {"Stopped"}
  ELSE IF s.fin \/ s.rst THEN {"ClosedStream"}
  ELSE {"Ok"}
\* SendStream::reset
ResetResults(s) == IF s.freed \/ s.rst THEN {"ClosedStream"} ELSE {"Ok"}
\* SendStream::stopped
StoppedResults(s) == IF s.freed THEN {"ClosedStream"} ELSE IF s.stop # -1 THEN {"Some"} ELSE {"None"}

\* ---------------------------------------------------------------------------------------------
\* Receiving half: [term ("none" | "eos" | "rst"), stopped, freed]
RFresh == [term |-> "none", stopped |-> FALSE]
RClosed(r) == r.term # "none" \/ r.stopped
\* RecvStream::read -> Chunks::next: data / Blocked / Finished / Reset, or ClosedStream
ReadResults(r) == IF RClosed(r) THEN {"ClosedStream"} ELSE {"Data", "Blocked", "Finished", "Reset"}
\* RecvStream::stop
StopResults(r) == IF RClosed(r) THEN {"ClosedStream"} ELSE {"Ok"}
\* RecvStream::received_reset: the reset code once (then the half is gone), nothing while no reset arrived
ReceivedResetResults(r) == IF RClosed(r) THEN {"ClosedStream"} ELSE {"None", "Some"}
=============================================================================
