CONSTANT Alphabet = {"ok", "x"}
CONSTANT N = 12
INIT Init
NEXT Next
INVARIANT Emit
CHECK_DEADLOCK FALSE
