-------------------------- MODULE StreamDataTrace --------------------------
(***************************************************************************)
(* Trace validation for C01: every Write / Finish / ResetCall accepted by  *)
(* the sending application and every chunk / terminal outcome obtained by  *)
(* the receiving application (real quinn-proto, any network behaviour in   *)
(* between) must be a behaviour of StreamData: each chunk has to be an     *)
(* enabled ReadOrdered / ReadUnordered of the model state reached so far.  *)
(* Streams are keyed by "<client>:<id>:<writer side>"; the state of every  *)
(* stream is the StreamData state with the offset sets kept as intervals.  *)
(***************************************************************************)
EXTENDS Naturals, Integers, Sequences, FiniteSets, TLC, Json, IOUtils

Rec == ndJsonDeserialize(IOEnv.TRACE)
N == Len(Rec)

VARIABLES l, bad, S, cur

vars == <<l, bad, S, cur>>

e == Rec[l]
Is(k) == l <= N /\ e.ev = k
Flag(c, name) == IF c THEN {} ELSE {name}

\* per-stream state (StreamData variables; `got` as a set of half-open intervals <<lo, hi>>)
Fresh == [w |-> 0, fin |-> -1, rst |-> -1, key |-> -1, mode |-> "ordered", cursor |-> 0,
          got |-> {}, nbytes |-> 0, eos |-> FALSE, rstRead |-> -1]
Get(k) == IF k \in DOMAIN S THEN S[k] ELSE Fresh
Put(k, r) == IF k \in DOMAIN S THEN [S EXCEPT ![k] = r] ELSE S @@ (k :> r)

Byte(key, off) == (key + off) % 251

TInit == l = 1 /\ bad = {} /\ S = <<>> /\ cur = <<0>>

Reset == /\ Is("Reset") /\ S' = <<>> /\ bad' = {} /\ cur' = <<e.run>> /\ l' = l + 1

\* StreamData!Write
Write ==
  /\ Is("Write")
  /\ LET s == Get(e.sk) IN
       /\ bad' = bad \cup Flag(s.w = e.off, "WriteOffsetMismatch")
                     \cup Flag(s.fin = -1 /\ s.rst = -1, "WriteAcceptedAfterFinishOrReset")
       /\ S' = Put(e.sk, [s EXCEPT !.w = e.off + e.n, !.key = e.key])
  /\ l' = l + 1 /\ UNCHANGED cur

\* StreamData!Finish
Finish ==
  /\ Is("Finish")
  /\ LET s == Get(e.sk) IN
       /\ bad' = bad \cup Flag(s.fin = -1 /\ s.rst = -1, "FinishAcceptedTwiceOrAfterReset")
       /\ S' = Put(e.sk, [s EXCEPT !.fin = s.w])
  /\ l' = l + 1 /\ UNCHANGED cur

\* StreamData!ResetStream
ResetCall ==
  /\ Is("ResetCall")
  /\ LET s == Get(e.sk) IN
       /\ bad' = bad \cup Flag(s.rst = -1, "ResetAcceptedTwice")
       /\ S' = Put(e.sk, [s EXCEPT !.rst = e.code])
  /\ l' = l + 1 /\ UNCHANGED cur

Overlaps(got, lo, hi) == \E g \in got : g[1] < hi /\ lo < g[2]

\* StreamData!ReadOrdered / ReadUnordered: the chunk must be an enabled read of the model
Chunk ==
  /\ Is("Chunk")
  /\ LET s == Get(e.sk)
         lo == e.off
         hi == e.off + e.len
     IN
       /\ bad' = bad
            \cup Flag(~s.eos /\ s.rstRead = -1, "DataAfterTerminalOutcome")
            \cup Flag(e.len > 0, "EmptyChunk")
            \cup Flag(hi <= s.w, "BytesNeverWritten")                       \* NoPhantom
            \cup Flag(e.nruns = 1 /\ e.first = Byte(s.key, lo), "ContentAltered")
            \cup Flag(e.ord => (s.mode = "ordered" /\ lo = s.cursor), "OrderedReadGapOrRepeat")
            \cup Flag(~Overlaps(s.got, lo, hi), "ByteDeliveredTwice")       \* ExactlyOnce
            \cup Flag(e.ord \/ lo >= s.cursor \/ s.mode = "unordered", "ByteDeliveredTwice")
       /\ S' = Put(e.sk, [s EXCEPT !.mode = IF e.ord THEN s.mode ELSE "unordered",
                                    !.cursor = IF e.ord THEN hi ELSE s.cursor,
                                    !.got = IF e.ord THEN s.got
                                            ELSE s.got \cup {<<lo, hi>>}
                                                 \cup (IF s.mode = "ordered" /\ s.cursor > 0
                                                       THEN {<<0, s.cursor>>} ELSE {}),
                                    !.nbytes = s.nbytes + e.len])
  /\ l' = l + 1 /\ UNCHANGED cur

\* StreamData!ReadEnd / ReadReset
ReadEnd ==
  /\ Is("ReadEnd")
  /\ LET s == Get(e.sk) IN
       /\ IF e.k = "Finished"
            THEN /\ bad' = bad \cup Flag(s.fin # -1, "EndOfStreamWithoutFinish")
                               \cup Flag(s.nbytes = s.fin, "EndOfStreamBeforeAllBytes")   \* EosAfterAll
                               \cup Flag(~s.eos /\ s.rstRead = -1, "SecondTerminalOutcome")
                 /\ S' = Put(e.sk, [s EXCEPT !.eos = TRUE])
            ELSE /\ bad' = bad \cup Flag(s.rst = e.code, "ResetCodeMismatch")             \* ResetCode
                               \cup Flag(~s.eos /\ s.rstRead = -1, "SecondTerminalOutcome")
                 /\ S' = Put(e.sk, [s EXCEPT !.rstRead = e.code])
  /\ l' = l + 1 /\ UNCHANGED cur

\* "no byte is ever lost": at the end of a run a sender that is established, on a validated path,
\* with nothing in flight and neither loss nor pacing timer armed has no stream bytes outstanding
\* (bytes that are neither acknowledged, nor in flight, nor waiting for a timer will never arrive)
End == /\ Is("End") /\ bad' = bad \cup Flag(Len(e.abandoned) = 0, "UnackedBytesAbandoned")
       /\ l' = l + 1 /\ UNCHANGED <<S, cur>>

TNext == Reset \/ Write \/ Finish \/ ResetCall \/ Chunk \/ ReadEnd \/ End
TraceSpec == TInit /\ [][TNext]_vars

Watch == TLCSet(1, <<l, bad, cur>>) /\ bad = {}

TraceAccepted ==
  LET r == TLCGet(1) d == TLCGet("stats").diameter IN
  IF r[2] # {} THEN Print(<<"VIOLATION", r[2], "line", r[1] - 1, "run", r[3]>>, FALSE)
  ELSE IF d - 1 # N THEN Print(<<"UNMATCHED", "line", d, "run", r[3]>>, FALSE)
  ELSE TRUE
=============================================================================
