SPECIFICATION Spec
CONSTANT NS = 2
CONSTANT MaxW = 1
CONSTANT Rem <- MCRem
CONSTANT News <- MCNews
CONSTANT MaxLoss = 1
CONSTANT MaxDup = 1
CONSTANT MaxSpur = 1
CONSTANT Bug = "no_compat_check"
INVARIANT ExactlyOnce
INVARIANT Complete
INVARIANT ReadsArePrefix
INVARIANT RejectedInvisible
INVARIANT AcceptedSingleEpoch
INVARIANT RejectedReported
INVARIANT NoEarlyAfterReject
INVARIANT FreshAfterReject
INVARIANT EarlyWithinRemembered
INVARIANT PostWithinNew
INVARIANT IncompatibleRefused
INVARIANT ZeroRttOnlyEarly
CHECK_DEADLOCK FALSE
