--------------------------- MODULE RecoveryTrace ---------------------------
(***************************************************************************)
(* Trace validation for C12.  Each line is one step of one connection      *)
(* (poll_transmit, datagram receipt, timeout, application call) with the   *)
(* outstanding-packet lists of the probe before and after:                 *)
(*   Recovery!InFlightConsistent  bytes / ack-eliciting packets in flight  *)
(*        equal the sums over the outstanding packets of that path         *)
(*   Recovery!OnceOnly  a packet that left never returns (a new packet has *)
(*        a number not below the next number before the step) and every    *)
(*        departure has a cause visible in the same step (covered by an    *)
(*        ACK the step delivered, counted as lost, space/0-RTT discarded)  *)
(*   Recovery!Track gate  non-exempt ack-eliciting packets fit the window  *)
(*   NoSpuriousLoss  nothing is declared lost on a clean path              *)
(*   AckElicitingPacketNotTracked  every packet the wire decoder finds     *)
(*        ack-eliciting is outstanding afterwards, as ack-eliciting and    *)
(*        with its size                                                    *)
(***************************************************************************)
EXTENDS Naturals, Integers, Sequences, FiniteSets, TLC, Json, IOUtils

Rec == ndJsonDeserialize(IOEnv.TRACE)
N == Len(Rec)

VARIABLES l, bad, clean, deviations, cur
vars == <<l, bad, clean, deviations, cur>>

e == Rec[l]
Is(k) == l <= N /\ e.ev = k
Flag(c, name) == IF c THEN {} ELSE {name}

TInit == l = 1 /\ bad = {} /\ clean = FALSE /\ deviations = {} /\ cur = <<0, 0, 0>>
Reset == /\ Is("Reset") /\ bad' = {} /\ deviations' = {} /\ clean' = e.clean /\ cur' = <<e.run, e.n, e.c>> /\ l' = l + 1

Covered(p) == \E i \in DOMAIN e.acked : e.acked[i].sp = p.sp /\ e.acked[i].lo <= p.pn /\ p.pn <= e.acked[i].hi
Discarded(p) == \E i \in DOMAIN e.disc : e.disc[i] = p.sp

\* walk the datagrams of this poll_transmit in order.  A datagram is outside the gate when it was
\* allocated under the loss-probe budget of the space of its first packet (whatever else is
\* coalesced into it), when it is an MTU probe / path validation / close datagram, or when it
\* adds no ack-eliciting bytes in flight.
\* KNOWN FINDING (C12): quinn applies the congestion check only when it allocates a new datagram.
\* A datagram started by a packet that is not ack-eliciting (an ACK-only Initial or Handshake
\* packet) is allocated unchecked, and ack-eliciting packets of later spaces coalesced into it
\* bypass the window.  Repairing it reorders events two of quinn's own tests assert on, so it is
\* recorded as the named deviation "CoalescedBehindAckOnlyBypassesCwnd" (result element 2).
RECURSIVE Gate(_, _, _, _)
Gate(dg, k, running, probesLeft) ==
  IF k > Len(dg) THEN <<TRUE, FALSE>>
  ELSE LET d == dg[k]
           isProbe == d.sp >= 0 /\ probesLeft[d.sp + 1] > 0
           free == d.exempt \/ isProbe \/ ~d.ae
           fits == running + d.infl <= e.cwnd
           rest == Gate(dg, k + 1, running + d.infl,
                        IF isProbe THEN [probesLeft EXCEPT ![d.sp + 1] = @ - 1] ELSE probesLeft)
       IN <<(free \/ fits \/ d.behind) /\ rest[1], (~free /\ ~fits /\ d.behind) \/ rest[2]>>

Step ==
  /\ Is("Step")
  /\ LET unexplained == {i \in DOMAIN e.left : ~Covered(e.left[i]) /\ ~Discarded(e.left[i])}
         zeroRttGone == e.zchg \/ e.retry
         gate == IF e.kind = "Tx" THEN Gate(e.dgl, 1, e.pre_ifb, e.lp) ELSE <<TRUE, FALSE>>
     IN
     /\ deviations' = IF gate[2] THEN deviations \cup {"CoalescedBehindAckOnlyBypassesCwnd"} ELSE deviations
     /\ bad' = bad
          \* bytes in flight / ack-eliciting in flight balance for the current and the previous path
          \cup Flag(e.ifb = e.sum /\ e.ifae = e.cnt, "InFlightNotSumOfOutstanding")
          \cup Flag(e.pifb = -1 \/ (e.pifb = e.psum /\ e.pifae = e.pcnt), "PrevPathInFlightNotSumOfOutstanding")
          \* a packet number that left never comes back
          \cup Flag(\A i \in DOMAIN e.new : e.new[i].pn >= e.next[e.new[i].sp + 1], "PacketNumberReused")
          \* every departure is an acknowledgement, a counted loss or an abandonment of this step
          \cup Flag(zeroRttGone \/ Cardinality(unexplained) <= e.dlost, "PacketVanishedWithoutFate")
          \cup Flag(e.kind \in {"Rx", "Timeout", "Tx"} \/ Len(e.left) = 0, "PacketLeftDuringApplicationCall")
          \cup Flag(gate[1], "SentBeyondCongestionWindow")
          \* what the independent decoder finds ack-eliciting on the wire is held as outstanding,
          \* ack-eliciting, with its size (the window check rests on these records)
          \* (a space discarded in the same step takes its last packet with it)
          \cup Flag(\A i \in DOMAIN e.untracked : \E j \in DOMAIN e.disc : e.disc[j] = e.untracked[i],
                    "AckElicitingPacketNotTracked")
          \cup Flag(clean => (e.lost = 0 /\ e.cev = 0), "LossDeclaredOnCleanPath")
  /\ l' = l + 1 /\ UNCHANGED <<clean, cur>>

TNext == (Reset \/ Step)
         /\ (deviations' \subseteq deviations
             \/ PrintT(<<"KNOWN", deviations' \ deviations, "line", l, "run", cur>>))
TraceSpec == TInit /\ [][TNext]_vars

Watch == TLCSet(1, <<l, bad, cur>>) /\ bad = {}
TraceAccepted ==
  LET r == TLCGet(1) d == TLCGet("stats").diameter IN
  IF r[2] # {} THEN Print(<<"VIOLATION", r[2], "line", r[1] - 1, "run", r[3]>>, FALSE)
  ELSE IF d - 1 # N THEN Print(<<"UNMATCHED", "line", d, "run", r[3]>>, FALSE)
  ELSE TRUE
=============================================================================
