--------------------------- MODULE RecoveryTrace ---------------------------
(***************************************************************************)
(* Trace validation for C12.  Each line is one step of one connection      *)
(* (poll_transmit, datagram receipt, timeout, application call) with the   *)
(* outstanding-packet lists of the probe before and after:                 *)
(*   Recovery!InFlightConsistent  bytes / ack-eliciting packets in flight  *)
(*        equal the sums over the outstanding packets of that path         *)
(*   Recovery!OnceOnly  a packet that left never returns (a new packet has *)
(*        a number not below the next number before the step) and every    *)
(*        departure has a cause visible in the same step (covered by an    *)
(*        ACK the step delivered, counted as lost, space/0-RTT discarded)  *)
(*   Recovery!Track gate  non-exempt ack-eliciting packets fit the window  *)
(*   NoSpuriousLoss  nothing is declared lost on a clean path              *)
(*   SentFasterThanConfiguredRate  with a configured maximum sending rate   *)
(*        the paced datagrams fit a token bucket of that rate               *)
(*   AckElicitingPacketNotTracked  every packet the wire decoder finds     *)
(*        ack-eliciting is outstanding afterwards, as ack-eliciting and    *)
(*        with its size                                                    *)
(***************************************************************************)
EXTENDS Naturals, Integers, Sequences, FiniteSets, TLC, Json, IOUtils

Rec == ndJsonDeserialize(IOEnv.TRACE)
N == Len(Rec)

VARIABLES l, bad, clean, builtin, deviations, tok, tokT, cur
vars == <<l, bad, clean, builtin, deviations, tok, tokT, cur>>

e == Rec[l]
Is(k) == l <= N /\ e.ev = k
Flag(c, name) == IF c THEN {} ELSE {name}

TInit == l = 1 /\ bad = {} /\ clean = FALSE /\ builtin = FALSE /\ deviations = {} /\ tok = -1 /\ tokT = 0 /\ cur = <<0, 0, 0>>
Reset == /\ Is("Reset") /\ bad' = {} /\ deviations' = {} /\ clean' = e.clean /\ builtin' = e.builtin /\ tok' = -1 /\ tokT' = 0
         /\ cur' = <<e.run, e.n, e.c>> /\ l' = l + 1

Covered(p) == \E i \in DOMAIN e.acked : e.acked[i].sp = p.sp /\ e.acked[i].lo <= p.pn /\ p.pn <= e.acked[i].hi
Discarded(p) == \E i \in DOMAIN e.disc : e.disc[i] = p.sp

\* walk the datagrams of this poll_transmit in order.  A datagram is outside the gate when it was
\* allocated under the loss-probe budget of the space of its first packet (whatever else is
\* coalesced into it), when it is an MTU probe / path validation / close datagram, or when it
\* adds no ack-eliciting bytes in flight.
\* KNOWN FINDING (C12): quinn applies the congestion check only when it allocates a new datagram.
\* A datagram started by a packet that is not ack-eliciting (an ACK-only Initial or Handshake
\* packet) is allocated unchecked, and ack-eliciting packets of later spaces coalesced into it
\* bypass the window.  Repairing it reorders events two of quinn's own tests assert on, so it is
\* recorded as the named deviation "CoalescedBehindAckOnlyBypassesCwnd" (result element 2).
RECURSIVE Gate(_, _, _, _)
Gate(dg, k, running, probesLeft) ==
  IF k > Len(dg) THEN <<TRUE, FALSE>>
  ELSE LET d == dg[k]
           isProbe == d.sp >= 0 /\ probesLeft[d.sp + 1] > 0
           free == d.exempt \/ isProbe \/ ~d.ae
           fits == running + d.infl <= e.cwnd
           rest == Gate(dg, k + 1, running + d.infl,
                        IF isProbe THEN [probesLeft EXCEPT ![d.sp + 1] = @ - 1] ELSE probesLeft)
       IN <<(free \/ fits \/ d.behind) /\ rest[1], (~free /\ ~fits /\ d.behind) \/ rest[2]>>

\* Pacing with a configured sending rate R (TransportConfig::max_bytes_per_second): the paced datagrams
\* of a connection - the ones the congestion gate applies to - fit a token bucket that refills at R
\* bytes per second and holds at most twice max(R * 8 ms, one datagram) (the pacer's capacity is at most 10 ms
\* of a window that is itself limited to R * rtt / 1.25, refilled at 1.25 windows per rtt), two datagrams
\* of slack.  The implementation's bucket is never larger and never refills faster, so it cannot
\* overdraw this one.  A new path starts with a full bucket.  tok = -1: full.
\* (the implementation tops its bucket up only when it runs dry, with credit for all the time since the
\* last top-up: in one instant it can spend what was left plus a full bucket - twice the capacity)
Cap(rate, mtu) == 2 * (IF (rate \div 1000) * 8 > mtu THEN (rate \div 1000) * 8 ELSE mtu) + 2 * mtu
Refill(t0, t1, rate, mtu, tk) ==
  LET c == Cap(rate, mtu) dt == t1 - t0 IN
  IF tk = -1 \/ dt >= 1000000 THEN c
  \* (32-bit arithmetic: the elapsed time in units of 100 us, rounded up)
  ELSE LET x == tk + ((rate \div 1000) * (dt \div 100 + 1)) \div 10 + 1 IN IF x > c THEN c ELSE x
RECURSIVE Rate(_, _, _, _)
Rate(dg, k, tk, probesLeft) ==
  IF k > Len(dg) THEN <<TRUE, tk>>
  ELSE LET d == dg[k]
           isProbe == d.sp >= 0 /\ probesLeft[d.sp + 1] > 0
           free == d.exempt \/ isProbe \/ ~d.ae
           rest == Rate(dg, k + 1, IF free THEN tk ELSE (IF tk >= d.size THEN tk - d.size ELSE 0),
                        IF isProbe THEN [probesLeft EXCEPT ![d.sp + 1] = @ - 1] ELSE probesLeft)
       IN <<(free \/ tk >= d.size) /\ rest[1], rest[2]>>

RECURSIVE SumLeft(_, _)
SumLeft(lf, i) == IF i = 0 THEN 0 ELSE lf[i].size + SumLeft(lf, i - 1)

Step ==
  /\ Is("Step")
  /\ LET unexplained == {i \in DOMAIN e.left : ~Covered(e.left[i]) /\ ~Discarded(e.left[i])}
         zeroRttGone == e.zchg \/ e.retry
         \* (packets that leave while the transmission is being built - a client drops its Initial space
         \* with its first Handshake packet - make room at a moment the trace does not show: from the start)
         leftBytes == SumLeft(e.left, Len(e.left))
         gate == IF e.kind = "Tx" THEN Gate(e.dgl, 1, IF e.pre_ifb > leftBytes THEN e.pre_ifb - leftBytes ELSE 0, e.lp)
                 ELSE <<TRUE, FALSE>>
         paced == e.kind = "Tx" /\ e.rate > 0
         full == Refill(tokT, e.t, e.rate, e.mtu, IF e.pathchg THEN -1 ELSE tok)
         rt == IF paced THEN Rate(e.dgl, 1, full, e.lp) ELSE <<TRUE, tok>>
     IN
     /\ tok' = (IF e.pathchg THEN -1 ELSE rt[2]) /\ tokT' = (IF paced THEN e.t ELSE tokT)
     /\ deviations' = IF gate[2] THEN deviations \cup {"CoalescedBehindAckOnlyBypassesCwnd"} ELSE deviations
     /\ bad' = bad
          \* bytes in flight / ack-eliciting in flight balance for the current and the previous path
          \cup Flag(e.ifb = e.sum /\ e.ifae = e.cnt, "InFlightNotSumOfOutstanding")
          \cup Flag(e.pifb = -1 \/ (e.pifb = e.psum /\ e.pifae = e.pcnt), "PrevPathInFlightNotSumOfOutstanding")
          \* a packet number that left never comes back
          \cup Flag(\A i \in DOMAIN e.new : e.new[i].pn >= e.next[e.new[i].sp + 1], "PacketNumberReused")
          \* every departure is an acknowledgement, a counted loss or an abandonment of this step
          \cup Flag(zeroRttGone \/ Cardinality(unexplained) <= e.dlost, "PacketVanishedWithoutFate")
          \cup Flag(e.kind \in {"Rx", "Timeout", "Tx"} \/ Len(e.left) = 0, "PacketLeftDuringApplicationCall")
          \cup Flag(gate[1], "SentBeyondCongestionWindow")
          \cup Flag(rt[1], "SentFasterThanConfiguredRate")
          \* what the independent decoder finds ack-eliciting on the wire is held as outstanding,
          \* ack-eliciting, with its size (the window check rests on these records)
          \* (a space discarded in the same step takes its last packet with it)
          \cup Flag(\A i \in DOMAIN e.untracked : \E j \in DOMAIN e.disc : e.disc[j] = e.untracked[i],
                    "AckElicitingPacketNotTracked")
          \cup Flag(clean => (e.lost = 0 /\ e.cev = 0), "LossDeclaredOnCleanPath")
          \* whatever acknowledgements, losses and MTU changes a connection has seen, its built-in
          \* controller reports a window of at least two datagrams (RFC 9002 7.2)
          \cup Flag(~builtin \/ e.st >= 2 \/ e.cwnd1 >= 2 * e.mtu1, "WindowBelowTwoDatagrams")
  /\ l' = l + 1 /\ UNCHANGED <<clean, builtin, cur>>

TNext == (Reset \/ Step)
         /\ (deviations' \subseteq deviations
             \/ PrintT(<<"KNOWN", deviations' \ deviations, "line", l, "run", cur>>))
TraceSpec == TInit /\ [][TNext]_vars

Watch == TLCSet(1, <<l, bad, cur>>) /\ bad = {}
TraceAccepted ==
  LET r == TLCGet(1) d == TLCGet("stats").diameter IN
  IF r[2] # {} THEN Print(<<"VIOLATION", r[2], "line", r[1] - 1, "run", r[3]>>, FALSE)
  ELSE IF d - 1 # N THEN Print(<<"UNMATCHED", "line", d, "run", r[3]>>, FALSE)
  ELSE TRUE
=============================================================================
