CONSTANT Addrs = {"a", "b", "x"}
CONSTANT MaxPn = 3
CONSTANT MaxMoves = 1
CONSTANT MaxReplays = 2
SPECIFICATION MFair
INVARIANT NeverValidatesSpoofedAddress
INVARIANT PrevIsGenuine
INVARIANT UnvalidatedHasChallenge
INVARIANT ChallengeHasPrev
PROPERTY EventuallyGenuine
CHECK_DEADLOCK FALSE
