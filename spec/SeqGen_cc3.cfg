CONSTANT Alphabet = {"s", "a", "A", "z", "e", "l", "L", "p", "c", "m", "M", "u", "x", "t", "T"}
CONSTANT N = 3
INIT Init
NEXT Next
INVARIANT Emit
CHECK_DEADLOCK FALSE
