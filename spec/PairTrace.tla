------------------------------ MODULE PairTrace ------------------------------
(***************************************************************************)
(* Relational part of C20 by self-composition: the outputs of two runs of  *)
(* the same input history, zipped position by position.                    *)
(*   variant "same"     the same inputs again in the same process          *)
(*   variant "fresh"    ... in a fresh process (new hash seeds)            *)
(*   variant "shift"    every instant handed to the library shifted by a   *)
(*                      constant; output instants are compared relative to *)
(*                      the run's base, so they must be equal              *)
(*   variant "spurious" extra handle_timeout / poll_transmit / poll calls  *)
(* Every position must agree in kind, content digest and (relative) time;  *)
(* both runs have the same number of outputs.  From the second run:        *)
(* Driver!BoundedCalls, no output after Drained, spurious polls change     *)
(* nothing.                                                                *)
(***************************************************************************)
EXTENDS Naturals, Integers, Sequences, FiniteSets, TLC, Json, IOUtils
Rec == ndJsonDeserialize(IOEnv.TRACE)
N == Len(Rec)
VARIABLES l, bad, cur
vars == <<l, bad, cur>>
e == Rec[l]
Is(k) == l <= N /\ e.ev = k
Flag(c, name) == IF c THEN {} ELSE {name}
TInit == l = 1 /\ bad = {} /\ cur = <<0, "none">>
Reset == /\ Is("Reset") /\ cur' = <<e.run, e.variant>> /\ l' = l + 1
         /\ bad' = Flag(e.burst <= 18, "TimeoutNotSettledInBoundedCalls")
                   \cup Flag(e.afterdrain = 0, "OutputAfterDrained")
                   \cup Flag(e.spurchg = 0, "SpuriousPollChangedState")
Out == /\ Is("Out")
       /\ bad' = bad \cup Flag(e.ka = e.kb, "OutputKindDiffers")
                     \cup Flag(e.ha = e.hb, "OutputContentDiffers")
                     \cup Flag(e.ta = e.tb, "OutputInstantDiffers")
       /\ l' = l + 1 /\ UNCHANGED cur
End == /\ Is("End") /\ bad' = bad \cup Flag(e.na = e.nb, "OutputCountDiffers")
       /\ l' = l + 1 /\ UNCHANGED cur
TNext == Reset \/ Out \/ End
TraceSpec == TInit /\ [][TNext]_vars
Watch == TLCSet(1, <<l, bad, cur>>) /\ bad = {}
TraceAccepted ==
  LET r == TLCGet(1) d == TLCGet("stats").diameter IN
  IF r[2] # {} THEN Print(<<"VIOLATION", r[2], "line", r[1] - 1, "run", r[3]>>, FALSE)
  ELSE IF d - 1 # N THEN Print(<<"UNMATCHED", "line", d, "run", r[3]>>, FALSE)
  ELSE TRUE
=============================================================================
