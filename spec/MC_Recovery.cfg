CONSTANT MaxPn = 5
CONSTANT Sizes = {0, 1, 2}
CONSTANT Window = 3
CONSTANT MaxProbes = 2
SPECIFICATION RSpec
INVARIANT RecoveryInv
PROPERTY OnceOnly
CHECK_DEADLOCK FALSE
