------------------------------ MODULE Progress ------------------------------
(***************************************************************************)
(* Progress of the handshake under fair loss (property C02), modelling the *)
(* rules that create wake-ups in quinn-proto:                              *)
(*  - set_loss_detection_timer: armed while ack-eliciting data is in       *)
(*    flight; the client additionally keeps it armed until the server has  *)
(*    validated its address (anti-amplification deadlock); stopped while   *)
(*    anti-amplification blocked; re-armed when a datagram lifts the block *)
(*  - on_loss_detection_timeout: probe (retransmission) is sent            *)
(*  - anti-amplification: the unvalidated server may send at most 3 units  *)
(*    per unit received                                                    *)
(* Environment: the network may drop at most MaxDrops datagrams, afterwards*)
(* every datagram in flight is eventually delivered (weak fairness), and   *)
(* armed timers eventually fire.  Property: both sides get connected.      *)
(***************************************************************************)
EXTENDS Naturals, Integers, FiniteSets

CONSTANTS MaxDrops,     \* loss budget of the network
          ServerFlight  \* datagrams in the server's first flight (certificate chain size)

VARIABLES cst, sst,        \* "idle" | "hs" | "est"
          net,             \* datagrams in flight: <<to, kind, n>>
          cTimer, sTimer,  \* loss detection timer armed
          credit,          \* 3 * received - sent towards the unvalidated client, saturating at Cap
          sValidated,
          sGot,            \* server flight datagrams the client has received (set of indices)
          cAcked,          \* server knows the client got the whole flight
          drops

pvars == <<cst, sst, net, cTimer, sTimer, credit, sValidated, sGot, cAcked, drops>>

Flight == 1 .. ServerFlight
Cap == 6
Min(a, b) == IF a <= b THEN a ELSE b
AmpBlocked == ~sValidated /\ credit <= 0

PInit == /\ cst = "hs" /\ sst = "idle" /\ net = {<<"s", "CH", 0>>} /\ cTimer = TRUE /\ sTimer = FALSE
         /\ credit = 0 /\ sValidated = FALSE /\ sGot = {} /\ cAcked = FALSE /\ drops = 0

\* ---- server ---------------------------------------------------------------------------------
\* send the part of the first flight that the anti-amplification budget allows
ServerSendFlight ==
  /\ sst = "hs" /\ ~AmpBlocked /\ ~cAcked
  /\ \E i \in Flight : <<"c", "SF", i>> \notin net /\ i \notin sGot
        /\ net' = net \cup {<<"c", "SF", i>>}
        /\ credit' = IF sValidated THEN credit ELSE credit - 1
  /\ sTimer' = TRUE
  /\ UNCHANGED <<cst, sst, cTimer, sValidated, sGot, cAcked, drops>>

ServerRecv(m) ==
  /\ m \in net /\ m[1] = "s" /\ net' = net \ {m}
  /\ credit' = Min(credit + 3, Cap)
  /\ CASE m[2] = "CH" -> /\ sst' = IF sst = "idle" THEN "hs" ELSE sst
                         /\ UNCHANGED <<sValidated, cAcked>>
       [] m[2] = "ACKH" -> \* Handshake-space packet: validates the address, acknowledges the flight
                         /\ sValidated' = TRUE /\ cAcked' = (cAcked \/ m[3] = ServerFlight)
                         /\ UNCHANGED sst
       [] m[2] = "CF" -> /\ sValidated' = TRUE /\ cAcked' = TRUE /\ sst' = "est"
  \* a datagram that lifts the amplification block re-arms the timer (handle_event)
  /\ sTimer' = (sTimer \/ (sst' = "hs" /\ ~cAcked'))
  /\ UNCHANGED <<cst, cTimer, sGot, drops>>

\* PTO: retransmit missing flight datagrams if the budget allows; otherwise the timer is stopped
ServerTimeout ==
  /\ sTimer /\ sst = "hs"
  /\ IF AmpBlocked THEN sTimer' = FALSE /\ UNCHANGED <<net, credit>>
     ELSE \E i \in Flight : /\ net' = net \cup {<<"c", "SF", i>>} /\ sTimer' = TRUE
                            /\ credit' = IF sValidated THEN credit ELSE credit - 1
  /\ UNCHANGED <<cst, sst, cTimer, sValidated, sGot, cAcked, drops>>

\* ---- client ---------------------------------------------------------------------------------
ClientRecv(m) ==
  /\ m \in net /\ m[1] = "c" /\ m[2] = "SF"
  /\ sGot' = sGot \cup {m[3]}
  /\ IF sGot' = Flight
       THEN /\ cst' = "est" /\ net' = (net \ {m}) \cup {<<"s", "CF", 0>>}
       ELSE /\ cst' = cst /\ net' = (net \ {m}) \cup {<<"s", "ACKH", Cardinality(sGot')>>}
  /\ cTimer' = TRUE
  /\ UNCHANGED <<sst, sTimer, credit, sValidated, cAcked, drops>>

\* the client's timer: retransmit CH while nothing arrived, otherwise a probe that the server
\* counts as received bytes (and, in the Handshake space, as validation)
ClientTimeout ==
  /\ cTimer
  /\ net' = net \cup {IF sGot = {} THEN <<"s", "CH", 0>>
                      ELSE IF cst = "est" THEN <<"s", "CF", 0>> ELSE <<"s", "ACKH", Cardinality(sGot)>>}
  /\ UNCHANGED <<cst, sst, cTimer, sTimer, credit, sValidated, sGot, cAcked, drops>>

\* once the server confirmed (est), the client may stop its timer
ClientDone == /\ cst = "est" /\ sst = "est" /\ cTimer /\ cTimer' = FALSE
              /\ UNCHANGED <<cst, sst, net, sTimer, credit, sValidated, sGot, cAcked, drops>>

\* ---- network --------------------------------------------------------------------------------
Drop(m) == /\ m \in net /\ drops < MaxDrops /\ net' = net \ {m} /\ drops' = drops + 1
           /\ UNCHANGED <<cst, sst, cTimer, sTimer, credit, sValidated, sGot, cAcked>>

Deliver == \E m \in net : ServerRecv(m) \/ ClientRecv(m)

PNext == ServerSendFlight \/ ServerTimeout \/ ClientTimeout \/ ClientDone \/ Deliver \/ \E m \in net : Drop(m)

Msgs == {<<"s", "CH", 0>>, <<"s", "CF", 0>>} \cup {<<"s", "ACKH", k>> : k \in 0 .. ServerFlight}
        \cup {<<"c", "SF", i>> : i \in Flight}

\* every datagram in flight is eventually delivered (or dropped, within the budget)
PSpec == PInit /\ [][PNext]_pvars
         /\ \A m \in Msgs : WF_pvars(ServerRecv(m) \/ ClientRecv(m))
         /\ WF_pvars(ServerSendFlight)
         /\ WF_pvars(ServerTimeout) /\ WF_pvars(ClientTimeout)

\* ---- properties ------------------------------------------------------------------------------
Connected == cst = "est" /\ sst = "est"
EventuallyConnected == <>Connected
\* C07 inside the handshake
AmpRespected == credit >= -1 /\ credit <= Cap
\* progress obligations (evaluated on the implementation's probe by ProgressTrace as well)
O1_ClientTimerWhileUnconfirmed == (cst = "hs" \/ sst # "est") => (cTimer \/ net # {})
O2_ServerBlockedImpliesClientArmed == (sst = "hs" /\ AmpBlocked) => cTimer
ProgressInv == AmpRespected /\ O1_ClientTimerWhileUnconfirmed /\ O2_ServerBlockedImpliesClientArmed
Bounded == TRUE
=============================================================================
