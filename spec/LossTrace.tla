------------------------------ MODULE LossTrace ------------------------------
(***************************************************************************)
(* Trace validation of loss detection (RFC 9002 sections 5 and 6; the      *)
(* design model is LossDetect.tla), one history per connection.  Every     *)
(* line shows the loss-detection state before and after one step of the    *)
(* connection (a datagram handled, a timeout, a transmission, an           *)
(* application call), the ACK frames the step digested with the packets    *)
(* each newly acknowledged, the packets that left the sent-packet tables   *)
(* unacknowledged (declared lost) and the packets still outstanding below  *)
(* the largest acknowledged one.  Times in microseconds.                   *)
(*                                                                         *)
(* RTT estimator (section 5; transcribed, judged to the microsecond):      *)
(*   RttEstimateWrong          after a step the estimator (latest,         *)
(*                             smoothed, variance, minimum) is what the    *)
(*                             samples of the step make of it: a sample is *)
(*                             taken when an ACK raises the largest        *)
(*                             acknowledged packet and newly acknowledges  *)
(*                             an ack-eliciting one; it is the time since  *)
(*                             the largest was sent; the peer's reported   *)
(*                             delay, capped by its max_ack_delay, counts  *)
(*                             only in the Data space and only if it       *)
(*                             leaves the sample above the minimum         *)
(*   RttChangedWithoutSample   no sample, no change                        *)
(* Declaring packets lost (section 6.1):                                   *)
(*   LostPacketNotOvertaken    a packet is declared lost only when a later *)
(*                             one has been acknowledged ...               *)
(*   LostBeforeThreshold       ... and it is packet_threshold behind it or *)
(*                             was sent 9/8 of max(smoothed, latest) RTT   *)
(*                             (at least 1 ms) ago                         *)
(*   LossOutsideDetection      only an ACK that newly acknowledges         *)
(*                             something, or the expired loss timer, does  *)
(*   LostPacketNotDeclared     detection leaves nothing that meets either  *)
(*                             threshold                                   *)
(*   LossTimeWrong             and remembers the earliest moment the rest  *)
(*                             meets the time threshold                    *)
(*   LossNotSignalled          a loss of packets that counted as in flight  *)
(*                             on this path is a congestion event          *)
(* Probe timeout (section 6.2):                                            *)
(*   LossTimerWrong            after every step the timer is the earliest  *)
(*                             loss time if there is one; is not armed     *)
(*                             when nothing ack-eliciting is in flight and *)
(*                             the peer is known to have validated the     *)
(*                             address; else is the earliest, over spaces  *)
(*                             with packets in flight (Data only after the *)
(*                             handshake), of last ack-eliciting send +    *)
(*                             (smoothed + max(4 var, 1 ms) [+ the peer's  *)
(*                             max_ack_delay in Data]) * 2^pto_count       *)
(*   LossTimerOnClosed         closed connections detect no loss           *)
(*   ProbeTimeoutMiscounted    the count rises by one exactly when the     *)
(*                             timer expires with no loss time pending,    *)
(*                             and then the space the timer was armed for  *)
(*                             is owed two probes (one if nothing          *)
(*                             ack-eliciting is in flight)                 *)
(*   ProbeTimeoutWithoutProbe  between two expiries for the same space an   *)
(*                             ack-eliciting packet was sent in it         *)
(*   ProbeCountNotReset        an ACK that newly acknowledges a packet     *)
(*                             resets it (client: once the server has      *)
(*                             validated the address); nothing else does   *)
(***************************************************************************)
EXTENDS Naturals, Integers, Sequences, FiniteSets, TLC, Json, IOUtils, LossOps
Rec == ndJsonDeserialize(IOEnv.TRACE)
N == Len(Rec)
VARIABLES l, bad, server, pth, owed, cur
vars == <<l, bad, server, pth, owed, cur>>
e == Rec[l]
Is(k) == l <= N /\ e.ev = k
Flag(c, name) == IF c THEN {} ELSE {name}
Max(a, b) == IF a > b THEN a ELSE b
Min(a, b) == IF a < b THEN a ELSE b
Abs(a) == IF a < 0 THEN 0 - a ELSE a
Near(a, b, tol) == Abs(a - b) <= tol

TInit == l = 1 /\ bad = {} /\ server = FALSE /\ pth = 3 /\ owed = {} /\ cur = <<0, 0, 0>>
Reset == /\ Is("Reset") /\ bad' = {} /\ server' = e.server /\ pth' = e.pth /\ owed' = {}
         /\ cur' = <<e.run, e.n, e.c>> /\ l' = l + 1

--------------------------------------------------------------------------------
\* the estimator: <<latest, smoothed (-1: no sample yet), variance, minimum>>
Update(r, delay, sample) ==
  IF r[2] = -1 THEN <<sample, sample, sample \div 2, sample>>
  ELSE LET mn == Min(r[4], sample)
           adj == IF mn + delay <= sample THEN sample - delay ELSE sample
       IN <<sample, (7 * r[2] + adj) \div 8, (3 * r[3] + Abs(r[2] - adj)) \div 4, mn>>

SendTime(a) == LET hit == {i \in DOMAIN a.newly : a.newly[i].pn = a.largest} IN
               IF hit = {} THEN -1 ELSE a.newly[CHOOSE i \in hit : TRUE].ts
Sampled(a) == a.newl /\ (\E i \in DOMAIN a.newly : a.newly[i].ae)

\* the estimator after each ACK frame of the step, in order
RECURSIVE Digest(_, _, _, _, _)
Digest(acks, i, r, t, pmad) ==
  IF i > Len(acks) THEN <<>>
  ELSE LET a == acks[i]
           r2 == IF Sampled(a) /\ SendTime(a) # -1
                 THEN Update(r, IF a.sp = 2 THEN Min(pmad, a.delay) ELSE 0, t - SendTime(a)) ELSE r
       IN <<r2>> \o Digest(acks, i + 1, r2, t, pmad)

Get(r) == IF r[2] = -1 THEN r[1] ELSE r[2]
LossDelay(r) == Max((9 * Max(Get(r), r[1])) \div 8, 1000)
PtoBase(r) == Get(r) + Max(4 * r[3], 1000)

--------------------------------------------------------------------------------
\* what the peer must have done for a client to stop guarding against its anti-amplification limit
Validated(s) == server \/ s.st >= 2 \/ s.lack[2] >= 0 \/ s.lack[3] >= 0 \/ (s.keys[3] /\ ~s.keys[2])
AmpBlocked(s) == ~s.val /\ s.recvb * 3 < s.sentb + 1
\* <<time, space>> of the probe timeout for state s (spaces 1..3), <<-1, 0>> if there is none;
\* mad: what the peer may wait before acknowledging
Pto(s, mad, now) ==
  LET b == Pow2(s.ptoc)
      d == s.ptob * b
      c1 == IF s.hif[1] /\ s.lae[1] # -1 THEN PtoAt(s.lae[1], s.ptob, s.ptoc) ELSE -1
      c2 == IF s.hif[2] /\ s.lae[2] # -1 THEN PtoAt(s.lae[2], s.ptob, s.ptoc) ELSE -1
      c3 == IF s.hif[3] /\ s.st # 0 /\ s.lae[3] # -1 THEN PtoAt(s.lae[3], s.ptob + mad, s.ptoc) ELSE -1
      r1 == IF c1 # -1 THEN <<c1, 1>> ELSE <<-1, 0>>
      r2 == IF c2 # -1 /\ (r1[1] = -1 \/ c2 < r1[1]) THEN <<c2, 2>> ELSE r1
      r3 == IF c3 # -1 /\ (r2[1] = -1 \/ c3 < r2[1]) THEN <<c3, 3>> ELSE r2
  IN IF s.ifae = 0 THEN <<now + d, IF s.hs = 1 THEN 2 ELSE 1>> ELSE r3

LossTimes(s) == {s.lt[i] : i \in 1 .. 3} \ {-1}
MinOf(S) == CHOOSE x \in S : \A y \in S : x <= y
LossSpace(s) == CHOOSE i \in 1 .. 3 : s.lt[i] # -1 /\ \A j \in 1 .. 3 : s.lt[j] # -1 => (s.lt[i] < s.lt[j] \/ (s.lt[i] = s.lt[j] /\ i <= j))

\* the timer the state calls for: <<kind, value>> with kind "is" (exactly, to the tolerance), "none", "armed", "any"
Timer(s, mad) ==
  IF s.st >= 2 THEN <<"none", -1>>
  ELSE IF LossTimes(s) # {} THEN <<"is", MinOf(LossTimes(s))>>
  ELSE IF AmpBlocked(s) THEN <<"any", -1>>
  ELSE IF s.ifae = 0 /\ Validated(s) THEN <<"none", -1>>
  ELSE IF s.ifae = 0 THEN <<"armed", -1>>
  ELSE IF s.ptoc > 8 THEN <<"any", -1>>
  ELSE LET p == Pto(s, mad, 0) IN IF p[1] = -1 THEN <<"none", -1>> ELSE <<"is", p[1]>>

--------------------------------------------------------------------------------
Step ==
  /\ Is("Step")
  /\ LET P == e.pre
         Q == e.post
         open == P.st < 2 /\ Q.st < 2
         samePath == P.gen = Q.gen
         rs == Digest(e.acks, 1, P.rtt, e.t, Q.pmad)
         nsamp == Cardinality({i \in DOMAIN e.acks : Sampled(e.acks[i]) /\ SendTime(e.acks[i]) # -1})
         rEnd == IF rs = <<>> THEN P.rtt ELSE rs[Len(rs)]
         tol == 2 * nsamp + 1
         \* every estimate the step's detections may have used
         ests == {P.rtt, Q.rtt} \cup {rs[i] : i \in DOMAIN rs}
         dMin == MinOf({LossDelay(r) : r \in ests})
         dMax == 0 - MinOf({0 - LossDelay(r) : r \in ests})
         \* spaces whose ACK newly acknowledged something: detection ran there
         ackSpaces == {e.acks[i].sp + 1 : i \in {j \in DOMAIN e.acks : DOMAIN e.acks[j].newly # {}}}
         timerDue == e.kind = "Timeout" /\ P.tm # -1 /\ P.tm <= e.t
         lossDue == timerDue /\ LossTimes(P) # {}
         \* (instants are logged in whole microseconds: a timer that reads the very instant of the
         \* call may still be a fraction of a microsecond ahead - then either outcome is right)
         ptoDue == timerDue /\ LossTimes(P) = {} /\ P.st < 2 /\ (P.tm < e.t \/ Q.ptoc = P.ptoc + 1)
         detSpaces == IF e.kind = "Rx" THEN ackSpaces ELSE IF lossDue THEN {LossSpace(P)} ELSE {}
         disc == {e.disc[i] + 1 : i \in DOMAIN e.disc}
         Rem(s) == {i \in DOMAIN e.rem : e.rem[i].sp + 1 = s}
         want == Timer(Q, e.mad)
         ptoSp == Pto(P, e.mad, e.t)[2]
     IN
     /\ bad' = bad
        \* ---- RTT estimator
        \cup Flag(~(e.sure /\ open /\ samePath /\ nsamp > 0)
                  \/ \A i \in 1 .. 4 : Near(Q.rtt[i], rEnd[i], tol), "RttEstimateWrong")
        \cup Flag(~(e.sure /\ samePath /\ nsamp = 0) \/ Q.rtt = P.rtt, "RttChangedWithoutSample")
        \* ---- declaring packets lost
        \cup Flag(~e.sure \/ \A i \in DOMAIN e.lost : e.lost[i].pn < Q.lack[e.lost[i].sp + 1], "LostPacketNotOvertaken")
        \cup Flag(~e.sure \/ \A i \in DOMAIN e.lost :
                    LET x == e.lost[i] IN
                    AtThreshold(Q.lack[x.sp + 1], x.pn, pth, e.t - x.ts, dMin - 2), "LostBeforeThreshold")
        \cup Flag(~e.sure \/ \A i \in DOMAIN e.lost : (e.lost[i].sp + 1) \in detSpaces, "LossOutsideDetection")
        \cup Flag(~(e.sure /\ open) \/ \A s \in detSpaces \ disc : \A i \in Rem(s) :
                    LET y == e.rem[i] IN
                    ~AtThreshold(Q.lack[s], y.pn, pth, e.t - y.ts, dMax + 2), "LostPacketNotDeclared")
        \cup Flag(~(e.sure /\ open) \/ \A s \in (1 .. 3) \ disc :
                    IF s \in detSpaces
                    THEN IF Rem(s) = {} THEN Q.lt[s] = -1
                         ELSE LET first == MinOf({e.rem[i].ts : i \in Rem(s)}) IN
                              Q.lt[s] >= first + dMin - 2 /\ Q.lt[s] <= first + dMax + 2
                    ELSE Q.lt[s] = P.lt[s], "LossTimeWrong")
        \* ---- a loss is a congestion signal: packets of this path that counted as in flight
        \* (not the MTU probe, whose loss says nothing about congestion) are lost => the controller is told
        \cup Flag(~(e.sure /\ open /\ samePath)
                  \/ ((\E i \in DOMAIN e.lost : e.lost[i].size > 0 /\ e.lost[i].size <= P.mtu /\ e.lost[i].onpath) => Q.cev > P.cev),
                  "LossNotSignalled")
        \* ---- the timer
        \cup Flag(Q.st < 2 \/ Q.tm = -1, "LossTimerOnClosed")
        \cup Flag(CASE want[1] = "is" -> Q.tm # -1 /\ Near(Q.tm, want[2], Pow2(Min(Q.ptoc, 8)) + 1)
                    [] want[1] = "none" -> Q.tm = -1
                    \* (before its first packet, and after a Retry until the new Initial packet - queued,
                    \* perhaps waiting for the pacer - is sent, a client has nothing in flight and the timer idle)
                    [] want[1] = "armed" -> \/ Q.pcr > 0 \/ Q.sentb = 0
                                            \* (armed by this very step - an expiry, a newly acknowledging
                                            \* ACK - it runs from now)
                                            \/ /\ Q.tm # -1
                                               /\ ((ptoDue \/ (e.kind = "Rx" /\ e.sure /\ ackSpaces # {})) /\ Q.ptoc <= 8)
                                                     => Near(Q.tm, PtoAt(e.t, Q.ptob, Q.ptoc), Pow2(Q.ptoc) + 1)
                    [] OTHER -> TRUE, "LossTimerWrong")
        \* ---- the probe timeout count
        \cup Flag(IF ptoDue /\ Q.st < 2 /\ samePath /\ P.ptoc <= 8
                  THEN /\ Q.ptoc = P.ptoc + 1
                       /\ ptoSp \in 1 .. 3
                       /\ \A s \in 1 .. 3 : Q.lp[s] = P.lp[s] + (IF s = ptoSp THEN (IF P.ifae = 0 THEN 1 ELSE 2) ELSE 0)
                  ELSE (P.ptoc > 8 \/ ~samePath \/ Q.ptoc <= P.ptoc), "ProbeTimeoutMiscounted")
        \cup Flag(~(e.sure /\ open) \/
                  /\ (Q.ptoc < P.ptoc => Q.ptoc = 0 /\ e.kind = "Rx" /\ ackSpaces # {} /\ Validated(Q))
                  /\ ((e.kind = "Rx" /\ ackSpaces # {}
                       /\ (Validated(P) \/ \E s \in ackSpaces : s >= 2)) => Q.ptoc = 0), "ProbeCountNotReset")
        \* ---- a probe timeout is followed by a probe: when the timer expires again for a space,
        \* an ack-eliciting packet has been sent in it since the last expiry (unless the
        \* anti-amplification limit stood in the way, the space was dropped or the path changed)
        \cup Flag(~(ptoDue /\ Q.st < 2 /\ samePath /\ P.ptoc <= 8) \/ ptoSp \notin owed, "ProbeTimeoutWithoutProbe")
     /\ owed' = IF Q.st >= 2 \/ ~samePath \/ AmpBlocked(P) \/ AmpBlocked(Q) THEN {}
                ELSE LET kept == {s \in owed : ~e.sentae[s] /\ s \notin disc /\ Q.keys[s]} IN
                     IF ptoDue /\ P.ptoc <= 8 /\ ptoSp \in 1 .. 3 /\ ~e.sentae[ptoSp] THEN kept \cup {ptoSp} ELSE kept
     /\ (bad' # bad => PrintT(<<"AT", l, e.kind, e.t, bad' \ bad, "want", want, "rEnd", rEnd, "dMin", dMin, "dMax", dMax>>))
  /\ l' = l + 1 /\ UNCHANGED <<server, pth, cur>>

TNext == Reset \/ Step
TraceSpec == TInit /\ [][TNext]_vars
Watch == TLCSet(1, <<l, bad, cur>>) /\ bad = {}
TraceAccepted ==
  LET r == TLCGet(1) d == TLCGet("stats").diameter IN
  IF r[2] # {} THEN Print(<<"VIOLATION", r[2], "line", r[1] - 1, "run", r[3]>>, FALSE)
  ELSE IF d - 1 # N THEN Print(<<"UNMATCHED", d, Rec[d]>>, FALSE) ELSE TRUE
=============================================================================
