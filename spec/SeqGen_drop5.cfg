CONSTANT Alphabet = {"ok", "x"}
CONSTANT N = 5
INIT Init
NEXT Next
INVARIANT Emit
CHECK_DEADLOCK FALSE
