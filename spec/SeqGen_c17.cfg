CONSTANT Alphabet = {"ok", "x", "dup", "delay"}
CONSTANT N = 6
INIT Init
NEXT Next
INVARIANT Emit
CHECK_DEADLOCK FALSE
