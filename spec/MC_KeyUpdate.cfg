CONSTANT MaxPhase = 3
CONSTANT MaxPkts = 4
CONSTANT Eager = FALSE
SPECIFICATION KSpec
INVARIANT PhasesWithinOne
INVARIANT Readable
CHECK_DEADLOCK FALSE
