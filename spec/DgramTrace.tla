----------------------------- MODULE DgramTrace -----------------------------
(***************************************************************************)
(* Trace validation for C16.  The queues of the design model Dgram are     *)
(* replayed per connection from what the real quinn-proto did:             *)
(*   sq  the send queue, fed by the answers the model computes for every   *)
(*       send() from the operators of DgramOps, emptied by the DATAGRAM    *)
(*       frames the independent decoder finds in poll_transmit output;     *)
(*   rq  the receive queue, fed by the DATAGRAM frames of the UDP          *)
(*       datagrams the harness network delivered and FrameStats reports    *)
(*       as processed, emptied by recv();                                  *)
(*   wire  what every UDP datagram carried when it left its sender;        *)
(*   done  UDP datagrams (by origin) whose DATAGRAM frames a connection    *)
(*       has processed: a copy must not be processed again.                *)
(* Every datagram has the payload id, length, pattern (harness convention, *)
(* see wire.rs dgram_ident), so identity, length and integrity are         *)
(* observable at send(), on the wire and at recv().  The probe's queue     *)
(* lengths, byte counters and blocked flag must equal the model's after    *)
(* every step; max_size() is compared with the rule computed from the      *)
(* probe's path MTU, the CID length, the tag length and the peer's tapped  *)
(* max_datagram_frame_size.                                                *)
(* Named deviations (reported as KNOWN, the model then follows the code):  *)
(*   TinyPeerLimitExceeded        peer limit 0 or 1: max_size() = 0 and a  *)
(*                                2-byte frame is sent anyway              *)
(*   MaxSizeReportedWhileDisabled max_size() is Some although send()       *)
(*                                answers Disabled                         *)
(*   FrameAboveAdvertisedLimitAccepted  received frame larger than the     *)
(*                                advertised max_datagram_frame_size but   *)
(*                                payload within the buffer: accepted      *)
(*   BlackHoleDropsExactFit       after a black hole a queued datagram of  *)
(*                                exactly the new maximum is discarded     *)
(*   SendQueueWedged              the path MTU fell without a black hole   *)
(*                                (the peer migrated): a queued datagram   *)
(*                                that no longer fits stays at the head of *)
(*                                the queue and blocks everything behind   *)
(***************************************************************************)
EXTENDS DgramOps, FiniteSets, TLC, Json, IOUtils

Rec == ndJsonDeserialize(IOEnv.TRACE)
N == Len(Rec)

VARIABLES l, bad, dev, cur, cf, sq, rq, blk, owedU, owedR, tpd, wire, done, lastq

vars == <<l, bad, dev, cur, cf, sq, rq, blk, owedU, owedR, tpd, wire, done, lastq>>

e == Rec[l]
Is(k) == l <= N /\ e.ev = k
Flag(c, name) == IF c THEN {} ELSE {name}

At(f, a, d) == IF a \in DOMAIN f THEN f[a] ELSE d
Set(f, a, v) == IF a \in DOMAIN f THEN [f EXCEPT ![a] = v] ELSE f @@ (a :> v)

K == <<e.n, e.c>>

\* identity recoverable from a payload of this length (two id bytes lead the payload)
Key(d, len) == IF len >= 2 THEN d ELSE 0
Entry(f) == [d |-> Key(f.d, f.l), l |-> f.l]
Entries(fr) == [i \in 1 .. Len(fr) |-> Entry(fr[i])]
RECURSIVE Flat(_)
Flat(dgs) == IF dgs = <<>> THEN <<>> ELSE Head(dgs).fr \o Flat(Tail(dgs))

\* configuration of the node
SB(n) == IF n = 0 THEN cf.ssb ELSE cf.csb
RB(n) == IF n = 0 THEN cf.srb ELSE cf.crb
\* length of the connection IDs the node puts on its 1-RTT packets = the peer's CID length
RemCid(n) == IF n = 0 THEN cf.ccid ELSE cf.scid
\* the peer's advertised max_datagram_frame_size: -1 absent, -2 not seen yet
Lim(pn) == At(tpd, pn, -2)

TInit ==
  /\ l = 1 /\ bad = {} /\ dev = {} /\ cur = <<0>> /\ cf = [ssb |-> 0, srb |-> 0, csb |-> 0, crb |-> 0, scid |-> 0, ccid |-> 0]
  /\ sq = <<>> /\ rq = <<>> /\ blk = <<>> /\ owedU = <<>> /\ owedR = <<>> /\ tpd = <<>>
  /\ wire = <<>> /\ done = {} /\ lastq = <<>>

Reset ==
  /\ Is("Reset")
  /\ bad' = {} /\ dev' = {} /\ cur' = <<e.run>>
  /\ cf' = [ssb |-> e.ssb, srb |-> e.srb, csb |-> e.csb, crb |-> e.crb, scid |-> e.scid, ccid |-> e.ccid]
  /\ sq' = <<>> /\ rq' = <<>> /\ blk' = <<>> /\ owedU' = <<>> /\ owedR' = <<>> /\ tpd' = <<>>
  /\ wire' = <<>> /\ done' = {} /\ lastq' = <<>>
  /\ l' = l + 1

Open ==
  /\ Is("Open")
  /\ sq' = Set(sq, K, <<>>) /\ rq' = Set(rq, K, <<>>) /\ blk' = Set(blk, K, FALSE)
  /\ owedU' = Set(owedU, K, 0) /\ owedR' = Set(owedR, K, FALSE)
  /\ done' = {x \in done : <<x[1], x[2]>> # K}
  /\ l' = l + 1 /\ UNCHANGED <<bad, dev, cur, cf, tpd, wire, lastq>>

TP ==
  /\ Is("TP")
  /\ tpd' = Set(tpd, e.n, e.dgram)
  /\ l' = l + 1 /\ UNCHANGED <<bad, dev, cur, cf, sq, rq, blk, owedU, owedR, wire, done, lastq>>

\* the probe agrees with the model's queues
Acct(q, s, r, b) ==
  Flag(q.o = Len(s) /\ q.ot = Bytes(s), "SendQueueAccounting")
  \cup Flag(q.i = Len(r) /\ q.rb = Bytes(r), "RecvQueueAccounting")
  \cup Flag(q.b = b, "BlockedFlag")

NoteDev(names) ==
  /\ dev' = dev \cup names
  /\ IF names \subseteq dev THEN TRUE ELSE PrintT(<<"KNOWN", names \ dev, "line", l, "run", cur>>)

\* judgement of a reported maximum; returns <<violations, deviations>>
MaxJudge(max, p, n, pn) ==
  LET lim == Lim(pn)
      known == p.st = 1 /\ lim # -2
      enabled == RB(n) >= 0
      tiny == known /\ lim \in {0, 1} /\ max = 0
      whileDisabled == ~enabled /\ max >= 0
  IN <<Flag(known => IF enabled THEN max = MaxSize(p.mtu, RemCid(n), lim) \/ tiny
                               ELSE max = -1 \/ whileDisabled, "MaxFormula")
        \cup Flag((known /\ max >= 0) => FitsPacket(max, p.mtu, RemCid(n)), "MaxFitsPacket")
        \cup Flag((known /\ max >= 0 /\ ~tiny) => FrameSize(max) <= lim, "MaxWithinPeerLimit"),
       (IF tiny THEN {"TinyPeerLimitExceeded"} ELSE {})
        \cup (IF whileDisabled THEN {"MaxSizeReportedWhileDisabled"} ELSE {})>>

\* Datagrams::send
Send ==
  /\ Is("Send")
  /\ LET s == At(sq, K, <<>>)
         b == At(blk, K, FALSE)
         d == [d |-> Key(e.did, e.len), l |-> e.len]
         exp == SendResult(s, e.len, e.drop, e.max, SB(e.n), RB(e.n) >= 0)
         s2 == IF exp = "Ok" THEN SendQueue(s, d, e.drop, SB(e.n)) ELSE s
         b2 == b \/ exp = "Blocked"
         mj == MaxJudge(e.max, e.pre, e.n, e.pn)
     IN
       /\ bad' = bad \cup Flag(e.res = exp, "Admission")
                     \cup Flag(e.space = Space(s, SB(e.n)) /\ e.space2 = Space(s2, SB(e.n)), "SpaceQuery")
                     \cup Flag(e.max2 = e.max, "MaxChangedBySend")
                     \cup mj[1]
                     \cup Acct(e.q, s2, At(rq, K, <<>>), b2)
       /\ NoteDev(mj[2])
       /\ sq' = Set(sq, K, s2) /\ blk' = Set(blk, K, b2)
       /\ lastq' = Set(lastq, K, e.q)
  /\ l' = l + 1 /\ UNCHANGED <<cur, cf, rq, owedU, owedR, tpd, wire, done>>

\* max_size() and send_buffer_space() alone
Query ==
  /\ Is("Query")
  /\ LET s == At(sq, K, <<>>)
         mj == MaxJudge(e.max, e.pre, e.n, e.pn)
     IN /\ bad' = bad \cup Flag(e.space = Space(s, SB(e.n)), "SpaceQuery") \cup mj[1]
                      \cup Acct(e.q, s, At(rq, K, <<>>), At(blk, K, FALSE))
        /\ NoteDev(mj[2])
        /\ lastq' = Set(lastq, K, e.q)
  /\ l' = l + 1 /\ UNCHANGED <<cur, cf, sq, rq, blk, owedU, owedR, tpd, wire, done>>

\* Datagrams::recv
Recv ==
  /\ Is("Recv")
  /\ LET r == At(rq, K, <<>>)
         r2 == IF e.some /\ r # <<>> THEN Tail(r) ELSE r
     IN
       /\ bad' = bad
            \cup Flag(e.some => r # <<>>, "ReceivedNeverArrived")
            \cup Flag((e.some /\ r # <<>>) => (Head(r).d = Key(e.did, e.len) /\ Head(r).l = e.len),
                      "ReceivedNotOldestBuffered")
            \cup Flag((e.some /\ r # <<>> /\ Head(r).g) => e.ok, "ReceivedCorrupted")
            \cup Flag(~e.some => r = <<>>, "BufferedNotReturned")
            \cup Acct(e.q, At(sq, K, <<>>), r2, At(blk, K, FALSE))
       /\ rq' = Set(rq, K, r2)
       /\ lastq' = Set(lastq, K, e.q)
  /\ l' = l + 1 /\ UNCHANGED <<dev, cur, cf, sq, blk, owedU, owedR, tpd, wire, done>>

RECURSIVE AddWire(_, _, _, _)
AddWire(w, dgs, n, c) ==
  IF dgs = <<>> THEN w
  ELSE AddWire(IF Head(dgs).fr = <<>> THEN w
               ELSE Set(w, Head(dgs).id, [n |-> n, c |-> c, fr |-> Entries(Head(dgs).fr)]),
               Tail(dgs), n, c)

\* poll_transmit: DATAGRAM frames leave the queue from its head, each whole in one packet
Tx ==
  /\ Is("Tx")
  /\ LET s == At(sq, K, <<>>)
         b == At(blk, K, FALSE)
         F == Flat(e.dgs)
         FE == Entries(F)
         lim == Lim(e.pn)
         isHead == IsPrefix(FE, s)
         s2 == IF isHead THEN SubSeq(s, Len(FE) + 1, Len(s)) ELSE s
         unb == b /\ Len(F) > 0
         tiny == \E i \in DOMAIN F : lim \in {0, 1} /\ F[i].l = 0
     IN
       /\ bad' = bad
            \cup Flag(isHead, "SentNotQueueHead")
            \cup Flag(\A i \in DOMAIN F : F[i].i, "SentCorrupted")
            \cup Flag(lim # -2 => \A i \in DOMAIN F : (F[i].z <= lim \/ (lim \in {0, 1} /\ F[i].l = 0)),
                      "FrameExceedsPeerLimit")
            \cup Flag(\A i \in DOMAIN e.dgs : e.dgs[i].fr # <<>> => e.dgs[i].size <= e.pre.mtu,
                      "PacketExceedsPathMtu")
            \cup Flag(\A i \in DOMAIN F : F[i].ty \in {"S", "Z"}, "DatagramOutside1Rtt")
            \cup Acct(e.q, s2, At(rq, K, <<>>), b /\ ~unb)
       /\ NoteDev(IF tiny THEN {"TinyPeerLimitExceeded"} ELSE {})
       /\ sq' = Set(sq, K, s2)
       /\ blk' = Set(blk, K, b /\ ~unb)
       /\ owedU' = Set(owedU, K, At(owedU, K, 0) + (IF unb THEN 1 ELSE 0))
       /\ wire' = AddWire(wire, e.dgs, e.n, e.c)
       /\ lastq' = Set(lastq, K, e.q)
  /\ l' = l + 1 /\ UNCHANGED <<cur, cf, rq, owedR, tpd, done>>

\* the path MTU estimate fell during this step (black hole detected, or the peer moved to a new
\* path): queued datagrams that no longer fit are discarded.  Returns <<queue, deviations, ok>>
MtuFell(s, pre, q, n, pn) ==
  IF q.mtu >= pre.mtu \/ pre.mtu = 0 \/ Lim(pn) < 2 THEN <<s, {}, TRUE>>
  ELSE LET max == MaxSize(q.mtu, RemCid(n), Lim(pn))
           a == DropOver(s, max)
           z == DropOverStrict(s, max)
           Seen(x) == q.o = Len(x) /\ q.ot = Bytes(x)
       IN IF Seen(a) THEN <<a, {}, TRUE>>
          ELSE IF Seen(z) THEN <<z, {"BlackHoleDropsExactFit"}, TRUE>>
          ELSE IF Seen(s) THEN <<s, {"SendQueueWedged"}, TRUE>>
          ELSE <<a, {}, FALSE>>

\* receiver rules for one frame: RFC 9221 (frame size against the advertised limit) and the
\* buffer rule (payload against the window)
RejectBuf(f, n) == RB(n) < 0 \/ f.l > RB(n)
RejectRfc(f, n) == RejectBuf(f, n) \/ (At(tpd, n, -2) >= 0 /\ f.z > At(tpd, n, -2))

\* process the first k frames; rule = TRUE: RFC rule; stops at the first rejected frame
RECURSIVE Process(_, _, _, _, _, _, _)
Process(r, F, i, k, n, rfc, gen) ==
  IF i > k THEN r
  ELSE IF (IF rfc THEN RejectRfc(F[i], n) ELSE RejectBuf(F[i], n)) THEN r
  ELSE Process(RecvQueue(r, [d |-> Key(F[i].d, F[i].l), l |-> F[i].l, g |-> gen], RB(n)),
               F, i + 1, k, n, rfc, gen)

\* one UDP datagram handed to the connection
Rx ==
  /\ Is("Rx")
  /\ LET r == At(rq, K, <<>>)
         s == At(sq, K, <<>>)
         b == At(blk, K, FALSE)
         \* a closed or draining connection still counts the frames it skips over: nothing is processed
         k == IF e.pre.st >= 2 THEN 0 ELSE e.k
         inject == e.cls = "inject"
         F == e.fr
         w == At(wire, e.orig, [n |-> -1, c |-> -1, fr |-> <<>>])
         kk == Min(k, Len(F))
         strict == Process(r, F, 1, kk, e.n, TRUE, ~inject)
         lenient == Process(r, F, 1, kk, e.n, FALSE, ~inject)
         fitsStrict == e.q.i = Len(strict) /\ e.q.rb = Bytes(strict)
         r2 == IF fitsStrict THEN strict ELSE lenient
         rejected == {i \in 1 .. kk : RejectBuf(F[i], e.n)}
         bh == MtuFell(s, e.pre, e.q, e.n, e.pn)
         s2 == bh[1]
         unb == b /\ s2 # s
     IN
       /\ bad' = bad
            \cup Flag(k <= Len(F), "ProcessedMoreThanCarried")
            \cup Flag((k > 0 /\ ~inject) =>
                        (e.orig \in DOMAIN wire /\ w.n = e.pn /\ Entries(e.fr) = w.fr
                         /\ \A i \in DOMAIN e.fr : e.fr[i].i),
                      "ProcessedNotWhatPeerSent")
            \cup Flag((k > 0 /\ e.orig >= 0) => <<e.n, e.c, e.orig>> \notin done, "DuplicateProcessed")
            \cup Flag(k = 0 \/ k >= Len(F) \/ k \in rejected, "PartialProcessing")
            \cup Flag(\A i \in rejected : i = k /\ e.q.st # 1, "OversizedNotRejected")
            \cup Flag(bh[3], "SendQueueAccounting")
            \cup Acct(e.q, s2, r2, b /\ ~unb)
       /\ NoteDev(bh[2] \cup IF ~fitsStrict /\ strict # lenient /\ e.q.i = Len(lenient) /\ e.q.rb = Bytes(lenient)
                                THEN {"FrameAboveAdvertisedLimitAccepted"} ELSE {})
       /\ rq' = Set(rq, K, r2)
       /\ sq' = Set(sq, K, s2)
       /\ blk' = Set(blk, K, b /\ ~unb)
       /\ owedU' = Set(owedU, K, At(owedU, K, 0) + (IF unb THEN 1 ELSE 0))
       /\ owedR' = Set(owedR, K, At(owedR, K, FALSE) \/ (r = <<>> /\ r2 # <<>>))
       /\ done' = IF k > 0 /\ e.orig >= 0 THEN done \cup {<<e.n, e.c, e.orig>>} ELSE done
       /\ lastq' = Set(lastq, K, e.q)
  /\ l' = l + 1 /\ UNCHANGED <<cur, cf, tpd, wire>>

\* handle_timeout (loss detection may detect a black hole)
Tick ==
  /\ Is("Tick")
  /\ LET s == At(sq, K, <<>>)
         b == At(blk, K, FALSE)
         bh == MtuFell(s, e.pre, e.q, e.n, e.pn)
         s2 == bh[1]
         unb == b /\ s2 # s
     IN
       /\ bad' = bad \cup Flag(bh[3], "SendQueueAccounting") \cup Acct(e.q, s2, At(rq, K, <<>>), b /\ ~unb)
       /\ NoteDev(bh[2])
       /\ sq' = Set(sq, K, s2)
       /\ blk' = Set(blk, K, b /\ ~unb)
       /\ owedU' = Set(owedU, K, At(owedU, K, 0) + (IF unb THEN 1 ELSE 0))
       /\ lastq' = Set(lastq, K, e.q)
  /\ l' = l + 1 /\ UNCHANGED <<cur, cf, rq, owedR, tpd, wire, done>>

\* Connection::poll reported a datagram event
Ev ==
  /\ Is("Ev")
  /\ IF e.k = "DatagramsUnblocked"
       THEN /\ bad' = bad \cup Flag(At(owedU, K, 0) > 0, "UnblockedWithoutCause")
            /\ owedU' = Set(owedU, K, SatSub(At(owedU, K, 0), 1))
            /\ UNCHANGED owedR
       ELSE /\ owedR' = Set(owedR, K, FALSE)
            /\ UNCHANGED <<bad, owedU>>
  /\ l' = l + 1 /\ UNCHANGED <<dev, cur, cf, sq, rq, blk, tpd, wire, done, lastq>>

\* end of the run: every event owed was reported; a queue stuck behind a datagram that cannot be
\* sent on the current path any more is the named deviation SendQueueWedged
Wedged(k) ==
  /\ sq[k] # <<>> /\ k \in DOMAIN lastq /\ lastq[k].st = 1
  /\ OverheadMin(RemCid(k[1])) + FrameSize(Head(sq[k]).l) > lastq[k].mtu

End ==
  /\ Is("End")
  /\ bad' = bad
       \cup Flag(e.panicked \/ \A k \in DOMAIN owedU : owedU[k] = 0 \/ Wedged(k), "UnblockedEventMissing")
       \cup Flag(e.panicked \/ \A k \in DOMAIN owedR : ~owedR[k], "ReceivedEventMissing")
  /\ NoteDev(IF \E k \in DOMAIN sq : Wedged(k) THEN {"SendQueueWedged"} ELSE {})
  /\ l' = l + 1 /\ UNCHANGED <<cur, cf, sq, rq, blk, owedU, owedR, tpd, wire, done, lastq>>

TNext == Reset \/ Open \/ TP \/ Send \/ Query \/ Recv \/ Tx \/ Rx \/ Tick \/ Ev \/ End
TraceSpec == TInit /\ [][TNext]_vars

Watch == TLCSet(1, <<l, bad, cur>>) /\ bad = {}

TraceAccepted ==
  LET r == TLCGet(1) d == TLCGet("stats").diameter IN
  IF r[2] # {} THEN Print(<<"VIOLATION", r[2], "line", r[1] - 1, "run", r[3]>>, FALSE)
  ELSE IF d - 1 # N THEN Print(<<"UNMATCHED", "line", d, "run", r[3]>>, FALSE)
  ELSE TRUE
=============================================================================
