------------------------------ MODULE MC_Codec ------------------------------
(* Theorems about the reference codecs (module Codec) on the vector domains *)
(* of CodecVec, see MC_Codec.cfg.                                           *)
EXTENDS CodecVec
=============================================================================
