CONSTANT Cids = {1, 2, 3, 4}
CONSTANT Handles = {0, 1}
CONSTANT MaxUid = 4
CONSTANT MaxActive = 2
SPECIFICATION RSpec
PROPERTY RoutedToIssuer
INVARIANT TableConsistent
INVARIANT ActiveIndexed
INVARIANT Disjoint
INVARIANT DrainedOwnsNothing
CHECK_DEADLOCK FALSE
