CONSTANT Alphabet = {"Mb", "Md", "Pb", "Nd", "Zb", "Sb", "Hd", "F", "R", "W"}
CONSTANT N = 3
INIT Init
NEXT Next
INVARIANT Emit
CHECK_DEADLOCK FALSE
