SPECIFICATION TraceSpec
CONSTRAINT Watch
POSTCONDITION TraceAccepted
CHECK_DEADLOCK FALSE
