------------------------------ MODULE TokensGen ------------------------------
(***************************************************************************)
(* Case tables for C14, enumerated by TLC and turned into harness scripts  *)
(* by lib/scen_c14.py.                                                     *)
(*                                                                         *)
(* Present: which token a fresh connection attempt carries (kind), how its *)
(* bytes were tampered with (mut), from which address relative to the one  *)
(* it was issued to (addr), when relative to its expiry instant (clock),   *)
(* and whether the same bytes are presented a second time (again).         *)
(* Retry: what happens to / around the Retry packet of an attempt (var),   *)
(* which connection ID parameter of the server is tampered with (echo),    *)
(* and whether the server demands a Retry at all (policy).                 *)
(***************************************************************************)
EXTENDS Integers, TLC, Json

CONSTANT Table

Kinds == {"retry", "new"}
\* regions of the sealed token: type byte, address, port / original destination ID (Retry only),
\* issue time, seal, nonce; length changes; splices; other keys
Muts == {"none", "flip_type", "flip_ip", "flip_port", "flip_odcid", "flip_time", "flip_seal", "flip_nonce",
         "trunc1", "trunc16", "trunc_most", "ext1", "ext16", "nonce_swap", "payload_swap", "rekey",
         "foreign_mint", "own_mint", "own_extra", "own_cut", "own_badtype"}
RetryOnly == {"flip_port", "flip_odcid"}
Addrs == {"same", "port", "ip"}
Clocks == {"early", "last_us", "expiry", "past_us"}

PresentCases ==
  {[kind |-> k, mut |-> m, addr |-> a, clock |-> c, again |-> g] :
     k \in Kinds, m \in Muts, a \in Addrs, c \in Clocks, g \in BOOLEAN}
Legal(c) == /\ c.mut \in RetryOnly => c.kind = "retry"
            \* tampered tokens: the clock only matters around the boundary for intact ones
            /\ (c.mut \notin {"none", "own_mint"}) => c.clock \in {"early", "past_us"}
            /\ c.again => c.clock \in {"early", "last_us"}

RetryVars == {"clean", "corrupt_tag", "corrupt_token", "corrupt_scid", "dup", "late_replay", "second_retry",
              "forged_ok", "forged_bad", "forged_empty", "forged_after_server", "forged_other_odcid",
              "forged_then_genuine", "forged_second", "forged_midhandshake",
              "vn_then_genuine"}
Echo == {"none", "odcid_flip", "odcid_absent", "iscid_flip", "iscid_absent", "rscid_flip", "rscid_absent",
         "rscid_added"}
Policies == {"accept", "validate"}
RetryCases == {[var |-> v, echo |-> x, policy |-> p] : v \in RetryVars, x \in Echo, p \in Policies}
RLegal(c) == /\ c.var \in {"clean", "corrupt_tag", "corrupt_token", "corrupt_scid", "dup", "late_replay",
                           "second_retry", "forged_then_genuine", "forged_second", "vn_then_genuine"}
                    => c.policy = "validate"
             /\ c.var = "forged_midhandshake" => c.policy = "accept"
             /\ c.echo \in {"rscid_flip", "rscid_absent"} => c.policy = "validate"

Cases == IF Table = "present" THEN {c \in PresentCases : Legal(c)} ELSE {c \in RetryCases : RLegal(c)}

ASSUME \A c \in Cases : PrintT(<<"GEN", ToJson(c)>>)
=============================================================================
