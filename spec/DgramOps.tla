------------------------------ MODULE DgramOps ------------------------------
(***************************************************************************)
(* Variable-free operators shared by the design model Dgram and the trace  *)
(* specification DgramTrace (C16): size arithmetic of RFC 9221 DATAGRAM    *)
(* frames in 1-RTT packets, the admission rule of send(), the two bounded  *)
(* FIFO queues with drop-oldest eviction.  A queued datagram is a record   *)
(* [d |-> identity, l |-> payload length].                                 *)
(***************************************************************************)
EXTENDS Naturals, Integers, Sequences

Min(a, b) == IF a < b THEN a ELSE b
Max(a, b) == IF a > b THEN a ELSE b
SatSub(a, b) == IF a > b THEN a - b ELSE 0

RECURSIVE Bytes(_)
Bytes(q) == IF q = <<>> THEN 0 ELSE Head(q).l + Bytes(Tail(q))

\* QUIC variable-length integer
VarLen(v) == IF v < 64 THEN 1 ELSE IF v < 16384 THEN 2 ELSE IF v < 1073741824 THEN 4 ELSE 8

\* a DATAGRAM frame with explicit length: type, length, payload
FrameSize(len) == 1 + VarLen(len) + len

\* what the sender reserves for type + length whatever the payload
FrameBound == 9
TagLen == 16
\* short header with the longest packet number encoding, plus the AEAD tag
Overhead(cid) == 1 + cid + 4 + TagLen
\* the least a short header can take (1-byte packet number)
OverheadMin(cid) == 1 + cid + 1 + TagLen

\* The rule for the reported maximum payload.  limit = the peer's max_datagram_frame_size, < 0 if
\* absent; a limit below 2 admits no frame with a length field at all (0 means unsupported,
\* RFC 9221 section 3): no maximum (-1), the peer cannot be sent datagrams.
MaxSize(mtu, cid, limit) ==
  IF limit < 2 THEN -1 ELSE Min(SatSub(limit, FrameBound), SatSub(mtu, Overhead(cid) + FrameBound))

\* a datagram of this length fits one packet on a path of this MTU, whatever the packet number
FitsPacket(len, mtu, cid) == Overhead(cid) + FrameSize(len) <= mtu

\* drop the oldest entries until `len` more bytes fit below `bound`
RECURSIVE MakeSpace(_, _, _)
MakeSpace(q, len, bound) ==
  IF q = <<>> \/ Bytes(q) + len <= bound THEN q ELSE MakeSpace(Tail(q), len, bound)

\* outcome of send(len, drop) with queue q; max < 0: no maximum
SendResult(q, len, drop, max, sbuf, enabled) ==
  IF ~enabled THEN "Disabled"
  ELSE IF max < 0 THEN "UnsupportedByPeer"
  ELSE IF len > Min(max, sbuf) THEN "TooLarge"
  ELSE IF drop \/ Bytes(q) + len <= sbuf THEN "Ok"
  ELSE "Blocked"

SendQueue(q, d, drop, sbuf) == Append(IF drop THEN MakeSpace(q, d.l, sbuf) ELSE q, d)

Space(q, sbuf) == SatSub(sbuf, Bytes(q))

\* the receiver's buffer: the oldest make room for the newest
RecvQueue(q, d, window) == Append(MakeSpace(q, d.l, window), d)

\* after the path MTU fell: whatever no longer fits is discarded
DropOver(q, max) == SelectSeq(q, LAMBDA d : d.l <= max)
\* the variant that also discards datagrams of exactly the maximum
DropOverStrict(q, max) == SelectSeq(q, LAMBDA d : d.l < max)

IsSuffix(s, t) == Len(s) <= Len(t) /\ s = SubSeq(t, Len(t) - Len(s) + 1, Len(t))
IsPrefix(s, t) == Len(s) <= Len(t) /\ s = SubSeq(t, 1, Len(s))
=============================================================================
