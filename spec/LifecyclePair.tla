--------------------------- MODULE LifecyclePair ---------------------------
(***************************************************************************)
(* Two Lifecycle instances (client c, server s) joined by a lossy,         *)
(* duplicating network that carries CONNECTION_CLOSE packets, stateless    *)
(* resets and ordinary packets.  Environment actions (application close,   *)
(* peer vanishing, reset by a peer endpoint that forgot the connection,    *)
(* packet loss) are enumerated exhaustively.  The same module is the       *)
(* scenario generator for the replay into quinn-proto: `hist` records the  *)
(* environment's choices and is printed for every behaviour of length      *)
(* MaxSteps (cfg MC_LifecyclePairGen).                                     *)
(***************************************************************************)
EXTENDS Naturals, Sequences, FiniteSets, TLC, Json

CONSTANTS MaxSteps,   \* bound on environment actions per behaviour
          Emit        \* TRUE: print behaviours (generator), FALSE: pure model checking

VARIABLES stC, errC, cfC, ctC, itC, lostC, drC, epC, lcC, causeC, devC,
          stS, errS, cfS, ctS, itS, lostS, drS, epS, lcS, causeS, devS,
          net,     \* set of packets in flight: <<to, kind>>, kind \in {"close","reset","data"}
          gone,    \* sides whose endpoint has forgotten the connection answer with resets
          hist     \* environment choices so far

C == INSTANCE Lifecycle WITH st <- stC, errSlot <- errC, closeFlag <- cfC, closeTimer <- ctC,
       idleTimer <- itC, lostReported <- lostC, drainedEv <- drC, epHas <- epC,
       localClosed <- lcC, cause <- causeC, deviations <- devC
S == INSTANCE Lifecycle WITH st <- stS, errSlot <- errS, closeFlag <- cfS, closeTimer <- ctS,
       idleTimer <- itS, lostReported <- lostS, drainedEv <- drS, epHas <- epS,
       localClosed <- lcS, cause <- causeS, deviations <- devS

cvars == <<stC, errC, cfC, ctC, itC, lostC, drC, epC, lcC, causeC, devC>>
svars == <<stS, errS, cfS, ctS, itS, lostS, drS, epS, lcS, causeS, devS>>
vars == <<cvars, svars, net, gone, hist>>

Init == C!LInit /\ S!LInit /\ net = {} /\ gone = {} /\ hist = <<>>

Step(a) == hist' = Append(hist, a)
Budget == Len(hist) < MaxSteps

\* ---- environment: applications ------------------------------------------------------------
CloseC == /\ Budget /\ C!DoLocalClose /\ UNCHANGED <<svars, net, gone>> /\ Step("closeC")
CloseS == /\ Budget /\ S!DoLocalClose /\ UNCHANGED <<cvars, net, gone>> /\ Step("closeS")

\* ---- the handshake completes (both sides), silently ---------------------------------------
Establish ==
  /\ stC = "hs" /\ stS = "hs" /\ Budget
  /\ stC' = "est" /\ stS' = "est"
  /\ UNCHANGED <<errC, cfC, ctC, itC, lostC, drC, epC, lcC, causeC, devC,
                 errS, cfS, ctS, itS, lostS, drS, epS, lcS, causeS, devS, net, gone>>
  /\ Step("establish")

\* ---- transmission of the queued CONNECTION_CLOSE ------------------------------------------
SendCloseC == /\ C!CanSendClose /\ C!DoSendClose /\ cfC' = FALSE
              /\ net' = net \cup {<<"s", "close">>} /\ UNCHANGED <<svars, gone, hist>>
SendCloseS == /\ S!CanSendClose /\ S!DoSendClose /\ cfS' = FALSE
              /\ net' = net \cup {<<"c", "close">>} /\ UNCHANGED <<cvars, gone, hist>>

\* ---- network ---------------------------------------------------------------------------------
Lose(m) == /\ Budget /\ m \in net /\ net' = net \ {m} /\ UNCHANGED <<cvars, svars, gone>>
           /\ Step("lose")

\* delivery to the client
DeliverC(m) ==
  /\ m \in net /\ m[1] = "c"
  /\ IF ~epC THEN
        \* endpoint forgot the connection: stateless reset back to the sender
        /\ UNCHANGED cvars /\ UNCHANGED svars /\ UNCHANGED gone
        /\ net' = (net \ {m}) \cup (IF m[2] # "reset" THEN {<<"s", "reset">>} ELSE {})
     ELSE /\ net' = net \ {m}
          /\ CASE m[2] = "close" ->
                    /\ IF C!CanRecvPeerClose THEN C!DoRecvPeerClose ELSE UNCHANGED cvars
                    /\ UNCHANGED <<svars, gone>>
               [] m[2] = "reset" -> C!DoRecvReset /\ UNCHANGED <<svars, gone>>
               [] OTHER -> C!DoRecvBenign /\ UNCHANGED <<svars, gone>>
  /\ UNCHANGED hist

DeliverS(m) ==
  /\ m \in net /\ m[1] = "s"
  /\ IF ~epS THEN
        /\ UNCHANGED cvars /\ UNCHANGED svars /\ UNCHANGED gone
        /\ net' = (net \ {m}) \cup (IF m[2] # "reset" THEN {<<"c", "reset">>} ELSE {})
     ELSE /\ net' = net \ {m}
          /\ CASE m[2] = "close" ->
                    /\ IF S!CanRecvPeerClose THEN S!DoRecvPeerClose ELSE UNCHANGED svars
                    /\ UNCHANGED <<cvars, gone>>
               [] m[2] = "reset" -> S!DoRecvReset /\ UNCHANGED <<cvars, gone>>
               [] OTHER -> S!DoRecvBenign /\ UNCHANGED <<cvars, gone>>
  /\ UNCHANGED hist

\* an ordinary packet is sent by an open side
DataC == /\ Budget /\ C!Open(stC) /\ net' = net \cup {<<"s", "data">>}
         /\ UNCHANGED <<cvars, svars, gone>> /\ Step("dataC")
DataS == /\ Budget /\ S!Open(stS) /\ net' = net \cup {<<"c", "data">>}
         /\ UNCHANGED <<cvars, svars, gone>> /\ Step("dataS")

\* a peer endpoint that lost all state (restart) answers the next packet with a reset:
\* modelled as the environment placing an exact reset in flight
ResetToC == /\ Budget /\ net' = net \cup {<<"c", "reset">>} /\ UNCHANGED <<cvars, svars, gone>>
            /\ Step("resetC")
ResetToS == /\ Budget /\ net' = net \cup {<<"s", "reset">>} /\ UNCHANGED <<cvars, svars, gone>>
            /\ Step("resetS")

\* ---- timers and polls (internal, fair) -----------------------------------------------------
TimersAndPolls ==
  \/ C!CanCloseTimer /\ C!DoCloseTimer /\ UNCHANGED <<svars, net, gone, hist>>
  \/ S!CanCloseTimer /\ S!DoCloseTimer /\ UNCHANGED <<cvars, net, gone, hist>>
  \/ C!CanAppPoll /\ C!DoAppPoll /\ UNCHANGED <<svars, net, gone, hist>>
  \/ S!CanAppPoll /\ S!DoAppPoll /\ UNCHANGED <<cvars, net, gone, hist>>
  \/ C!CanEmitDrained /\ C!DoEmitDrained /\ UNCHANGED <<svars, net, gone, hist>>
  \/ S!CanEmitDrained /\ S!DoEmitDrained /\ UNCHANGED <<cvars, net, gone, hist>>

\* the peer went silent for good and the idle timer fires
IdleC == /\ Budget /\ C!CanIdleTimer /\ C!DoIdleTimer /\ UNCHANGED <<svars, net, gone>> /\ Step("idleC")
IdleS == /\ Budget /\ S!CanIdleTimer /\ S!DoIdleTimer /\ UNCHANGED <<cvars, net, gone>> /\ Step("idleS")

Next ==
  \/ Establish \/ CloseC \/ CloseS \/ SendCloseC \/ SendCloseS
  \/ \E m \in net : Lose(m) \/ DeliverC(m) \/ DeliverS(m)
  \/ DataC \/ DataS \/ ResetToC \/ ResetToS \/ TimersAndPolls \/ IdleC \/ IdleS

Spec == Init /\ [][Next]_vars /\ WF_vars(TimersAndPolls) /\ WF_vars(SendCloseC) /\ WF_vars(SendCloseS)

-----------------------------------------------------------------------------
PairInv == C!LifecycleInv /\ S!LifecycleInv

\* A peer close is only ever reported if the peer really closed (by application or by error)
PeerReasonHasOrigin ==
  /\ (causeC = "peer") => (lcS \/ causeS \in {"error", "peer", "reset", "local"})
  /\ (causeS = "peer") => (lcC \/ causeC \in {"error", "peer", "reset", "local"})

BothForgotten == [](C!IsClosed(stC) => <>(~epC)) /\ [](S!IsClosed(stS) => <>(~epS))

\* model checking view: the environment's history matters only through its length
MCView == <<cvars, svars, net, gone, Len(hist)>>

\* generator: one JSON line per complete behaviour
Quiet == ~ENABLED TimersAndPolls /\ ~ENABLED SendCloseC /\ ~ENABLED SendCloseS
EmitInv == (Emit /\ Len(hist) = MaxSteps /\ Quiet) => PrintT(<<"GEN", ToJson(hist)>>)
=============================================================================
