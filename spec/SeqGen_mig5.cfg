CONSTANT Alphabet = {"port", "ip", "back", "spoof", "spoof_silent", "spoof_old", "s2c_spoof", "wait", "key"}
CONSTANT N = 5
INIT Init
NEXT Next
INVARIANT Emit
CHECK_DEADLOCK FALSE
