CONSTANT MaxSteps = 5
CONSTANT Emit = FALSE
SPECIFICATION Spec
VIEW MCView
INVARIANT PairInv
INVARIANT PeerReasonHasOrigin
PROPERTY BothForgotten
CHECK_DEADLOCK FALSE
