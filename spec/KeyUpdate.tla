------------------------------ MODULE KeyUpdate ------------------------------
(***************************************************************************)
(* Key update (RFC 9001 section 6) between two endpoints.  Each endpoint   *)
(* sends 1-RTT packets in its current key phase.  It may move to the next  *)
(* phase on its own once a packet it sent in the current phase has been    *)
(* acknowledged, and it must follow when it authenticates a packet of the  *)
(* next phase from its peer.  Packets are lost and reordered.              *)
(*   PhasesWithinOne  the two endpoints are never more than one phase      *)
(*                    apart, so every packet of the current or previous    *)
(*                    phase can be read                                    *)
(*   Readable         a packet is never more than one phase ahead of its   *)
(*                    receiver                                             *)
(* The variant Eager (initiating again without the acknowledgement) is     *)
(* refuted.                                                                *)
(***************************************************************************)
EXTENDS Naturals, FiniteSets

CONSTANTS MaxPhase, MaxPkts, Eager

Ends == {"a", "b"}
Other(x) == IF x = "a" THEN "b" ELSE "a"

VARIABLES phase,    \* phase[x]: number of updates x has performed or followed
          ackedCur, \* ackedCur[x]: a packet x sent in its current phase has been acknowledged
          net,      \* packets in flight: <<to, pn, phase>>
          acks,     \* acknowledgements in flight: <<to, phase of the acknowledged packet>>
          npk       \* packets sent so far per endpoint

kvars == <<phase, ackedCur, net, acks, npk>>

KInit == /\ phase = [x \in Ends |-> 0] /\ ackedCur = [x \in Ends |-> FALSE] /\ net = {} /\ acks = {}
         /\ npk = [x \in Ends |-> 0]

Send(x) == /\ npk[x] < MaxPkts
           /\ net' = net \cup {<<Other(x), npk[x], phase[x]>>}
           /\ npk' = [npk EXCEPT ![x] = npk[x] + 1]
           /\ UNCHANGED <<phase, ackedCur, acks>>

Initiate(x) == /\ phase[x] < MaxPhase
               /\ Eager \/ ackedCur[x]
               /\ phase' = [phase EXCEPT ![x] = phase[x] + 1]
               /\ ackedCur' = [ackedCur EXCEPT ![x] = FALSE]
               /\ UNCHANGED <<net, acks, npk>>

Lose == \/ \E p \in net : net' = net \ {p} /\ UNCHANGED <<phase, ackedCur, acks, npk>>
        \/ \E a \in acks : acks' = acks \ {a} /\ UNCHANGED <<phase, ackedCur, net, npk>>

\* the receiver can read phases phase-1, phase and phase+1 (previous, current and next keys)
Recv(p) ==
  /\ p \in net
  /\ net' = net \ {p}
  /\ LET y == p[1] IN
       IF p[3] = phase[y] + 1
         THEN /\ phase' = [phase EXCEPT ![y] = p[3]] /\ ackedCur' = [ackedCur EXCEPT ![y] = FALSE]
              /\ acks' = acks \cup {<<Other(y), p[3]>>}
         ELSE IF p[3] = phase[y] \/ p[3] + 1 = phase[y]
           THEN /\ acks' = acks \cup {<<Other(y), p[3]>>} /\ UNCHANGED <<phase, ackedCur>>
           ELSE UNCHANGED <<phase, ackedCur, acks>>        \* unreadable: dropped
  /\ UNCHANGED npk

GetAck(a) ==
  /\ a \in acks
  /\ acks' = acks \ {a}
  /\ ackedCur' = IF a[2] = phase[a[1]] THEN [ackedCur EXCEPT ![a[1]] = TRUE] ELSE ackedCur
  /\ UNCHANGED <<phase, net, npk>>

KNext == (\E x \in Ends : Send(x) \/ Initiate(x)) \/ Lose \/ (\E p \in net : Recv(p)) \/ (\E a \in acks : GetAck(a))
KSpec == KInit /\ [][KNext]_kvars

PhasesWithinOne == \A x \in Ends : phase[x] <= phase[Other(x)] + 1
Readable == \A p \in net : p[3] <= phase[p[1]] + 1
=============================================================================
