------------------------------ MODULE SchedOps ------------------------------
(***************************************************************************)
(* The queue of streams with unsent data, shared by the design model Sched *)
(* and the trace specification SchedTrace.  An entry is <<id, priority,    *)
(* ticket>>; tickets grow, so among equal priorities the entry with the    *)
(* smallest ticket was queued first.                                       *)
(***************************************************************************)
EXTENDS Integers, FiniteSets

\* the entry served next: highest priority, then longest in the queue
Top(q) == CHOOSE x \in q : \A y \in q : y[2] < x[2] \/ (y[2] = x[2] /\ y[3] >= x[3])
=============================================================================
