------------------------------ MODULE AckTrace ------------------------------
(***************************************************************************)
(* Trace validation of acknowledgement generation (Ack.tla) on executions  *)
(* of the real quinn-proto.  Per connection:                               *)
(*   AckedPacketNeverReceived     every range of every ACK frame lies in   *)
(*                                the set of packets that reached the      *)
(*                                connection intact (Ack!AckedWereReceived)*)
(*   AckOnlyAnsweredByAckOnly     a transmission made of ACK-only packets  *)
(*                                is sent only if an ack-eliciting packet  *)
(*                                arrived since the last ACK was sent      *)
(*                                (Ack!Quiescence)                         *)
(*   AckWithheld                  an ack-eliciting 1-RTT packet processed  *)
(*                                by an established connection is covered  *)
(*                                by an ACK within the max_ack_delay the   *)
(*                                connection itself advertised             *)
(*                                (Ack!OwedIsAcked, bounded)               *)
(*   SecondPacketNotAcknowledgedAtOnce   once two ack-eliciting 1-RTT      *)
(*                                packets are unacknowledged, or one has   *)
(*                                arrived out of order (13.2.1), the ACK   *)
(*                                goes out without waiting for the timer   *)
(*                                (RFC 9000 13.2.2); an ACK_FREQUENCY      *)
(*                                request of the peer moves the threshold, *)
(*                                the delay and the reordering rule, an    *)
(*                                IMMEDIATE_ACK frame asks for it at once  *)
(*   AckFrequencySequenceNotIncreasing   ACK_FREQUENCY frames are numbered  *)
(*                                consecutively, retransmissions included  *)
(***************************************************************************)
EXTENDS Naturals, Integers, Sequences, FiniteSets, TLC, Json, IOUtils

Rec == ndJsonDeserialize(IOEnv.TRACE)
N == Len(Rec)
VARIABLES l, bad, rcvd, fresh, due, cnt, imm, lae, um, afp, afs, mad, who, late, ackfreq, deviations, cur
vars == <<l, bad, rcvd, fresh, due, cnt, imm, lae, um, afp, afs, mad, who, late, ackfreq, deviations, cur>>
e == Rec[l]
Is(k) == l <= N /\ e.ev = k
Flag(c, name) == IF c THEN {} ELSE {name}
At(f, a, d) == IF a \in DOMAIN f THEN f[a] ELSE d
Set(f, a, v) == IF a \in DOMAIN f THEN [f EXCEPT ![a] = v] ELSE f @@ (a :> v)
Slack == 5000
\* what the peer has asked for with ACK_FREQUENCY frames (draft-ietf-quic-ack-frequency): the frame with
\* the highest sequence number counts; threshold 1, the advertised max_ack_delay (mad -1) and
\* reordering threshold 1 until the first one; unk: a frame sat in a datagram that was only partly
\* processed, so what is in force is not known any more
AfDefault == [seq |-> -1, th |-> 1, mad |-> -1, ro |-> 1, unk |-> FALSE]
RECURSIVE FoldAf(_, _, _)
FoldAf(a, fs, i) == IF i > Len(fs) THEN a
                    ELSE FoldAf(IF fs[i][1] > a.seq THEN [a EXCEPT !.seq = fs[i][1], !.th = fs[i][2], !.mad = fs[i][3], !.ro = fs[i][4]] ELSE a,
                                fs, i + 1)

TInit == /\ l = 1 /\ bad = {} /\ rcvd = <<>> /\ fresh = <<>> /\ due = <<>> /\ cnt = <<>> /\ imm = <<>> /\ lae = <<>> /\ um = <<>> /\ afp = <<>> /\ afs = <<>> /\ mad = <<>> /\ who = <<>>
         /\ late = 0 /\ ackfreq = FALSE /\ deviations = {} /\ cur = <<0>>
Reset == /\ Is("Reset") /\ bad' = {} /\ rcvd' = <<>> /\ fresh' = <<>> /\ due' = <<>> /\ cnt' = <<>> /\ imm' = <<>> /\ lae' = <<>> /\ um' = <<>> /\ afp' = <<>> /\ afs' = <<>> /\ mad' = <<>> /\ who' = <<>>
         /\ late' = e.late /\ ackfreq' = e.ackfreq /\ deviations' = {} /\ cur' = <<e.run>> /\ l' = l + 1

Mad == /\ Is("Mad") /\ mad' = Set(mad, <<e.n, e.c>>, e.mad) /\ bad' = bad /\ l' = l + 1
       /\ UNCHANGED <<rcvd, fresh, due, cnt, imm, lae, um, afp, afs, who, late, ackfreq, deviations, cur>>
Conn == /\ Is("Conn") /\ who' = Set(who, <<e.n, e.c>>, e.uid) /\ bad' = bad /\ l' = l + 1
        /\ due' = Set(due, e.uid, -1) /\ fresh' = Set(fresh, e.uid, {})
        /\ cnt' = Set(cnt, e.uid, 0) /\ imm' = Set(imm, e.uid, -1) /\ lae' = Set(lae, e.uid, -1) /\ um' = Set(um, e.uid, -1)
        /\ afp' = Set(afp, e.uid, AfDefault) /\ afs' = Set(afs, e.uid, -1)
        /\ UNCHANGED <<rcvd, mad, late, ackfreq, deviations, cur>>

\* an acknowledgement owed since `due` has not been sent although its time is up
Overdue(u, t, m) == At(due, u, -1) # -1 /\ t > At(due, u, -1) + m + late + Slack

RECURSIVE AddAll(_, _, _, _)
AddAll(f, u, pks, i) == IF i = 0 THEN f
                        ELSE AddAll(Set(f, <<u, pks[i].sp>>, At(f, <<u, pks[i].sp>>, {}) \cup {pks[i].pn}), u, pks, i - 1)

\* fold the ack-eliciting 1-RTT packets of one datagram: <<largest so far, one arrived out of order>>
RECURSIVE Ooo(_, _, _, _, _)
Ooo(pks, i, la, have, out) ==
  IF i > Len(pks) THEN <<la, out>>
  ELSE IF ~(pks[i].ae /\ pks[i].sp = 2) THEN Ooo(pks, i + 1, la, have, out)
  ELSE LET p == pks[i].pn
           \* (the implementation remembers the last 128 packet numbers; a gap further back is beyond it)
           lo == IF la + 1 > p - 100 THEN la + 1 ELSE p - 100
           o == la # -1 /\ (p < la \/ \E q \in lo .. (p - 1) : q \notin have)
       IN Ooo(pks, i + 1, IF p > la THEN p ELSE la, have, out \/ o)

Rcv ==
  /\ Is("Rcv")
  /\ LET u == e.uid
         anyAe == \E i \in 1 .. Len(e.pks) : e.pks[i].ae
         dataAe == \E i \in 1 .. Len(e.pks) : e.pks[i].ae /\ e.pks[i].sp = 2
     IN
       /\ rcvd' = AddAll(rcvd, u, e.pks, Len(e.pks))
       \* the spaces in which something ack-eliciting has arrived since the last ACK for that space
       /\ fresh' = Set(fresh, u, At(fresh, u, {}) \cup {e.pks[i].sp : i \in {j \in 1 .. Len(e.pks) : e.pks[j].ae}})
       \* the clock of the latency clause starts with an ack-eliciting 1-RTT packet that was certainly
       \* processed by an established connection
       \* (a request for a shorter delay that arrives while the clock runs does not bring the deadline
       \* forward: the timer is armed when the packet arrives, with the delay in force then)
       /\ due' = IF dataAe /\ e.all /\ e.est /\ e.keys /\ At(due, u, -1) = -1 THEN Set(due, u, e.t)
                 ELSE IF At(due, u, -1) # -1 /\ e.all /\ Len(e.af) > 0
                 THEN LET a0 == At(afp, u, AfDefault)
                          a1 == FoldAf(a0, e.af, 1)
                          ks == {k \in DOMAIN who : who[k] = u}
                          dflt == IF ks = {} THEN 25000 ELSE At(mad, CHOOSE k \in ks : TRUE, 25000)
                          m0 == IF a0.mad # -1 THEN a0.mad ELSE dflt
                          m1 == IF a1.mad # -1 THEN a1.mad ELSE dflt
                      IN IF m1 < m0 THEN Set(due, u, At(due, u, -1) + (m0 - m1)) ELSE due
                 ELSE due
       \* ack-eliciting 1-RTT packets certainly processed since the last 1-RTT ACK; the second one makes
       \* the acknowledgement due at once
       /\ LET k == IF e.all /\ e.est /\ e.keys
                      THEN At(cnt, u, 0) + Cardinality({i \in 1 .. Len(e.pks) : e.pks[i].ae /\ e.pks[i].sp = 2})
                      ELSE At(cnt, u, 0)
              \* ... and so does an ack-eliciting packet that arrives out of order: below the largest
              \* one so far, or above it with a gap in between (RFC 9000 13.2.1)
              have == At(rcvd', <<u, 2>>, {})
              o == Ooo(e.pks, 1, At(lae, u, -1), have, FALSE)
              judged == e.all /\ e.est /\ e.keys
              \* packets that may or may not have been processed: the largest one so far is only known
              \* again once a certainly processed packet is at least as large
              dpn == {e.pks[i].pn : i \in {j \in 1 .. Len(e.pks) : e.pks[j].ae /\ e.pks[j].sp = 2}}
              um1 == IF judged \/ dpn = {} THEN At(um, u, -1)
                     ELSE LET m == CHOOSE x \in dpn : \A y \in dpn : y <= x IN IF m > At(um, u, -1) THEN m ELSE At(um, u, -1)
              known == At(lae, u, -1) >= um1
              a0 == At(afp, u, AfDefault)
              a1 == IF e.all THEN FoldAf(a0, e.af, 1) ELSE IF Len(e.af) > 0 THEN [a0 EXCEPT !.unk = TRUE] ELSE a0
              \* more ack-eliciting packets than the threshold in force, one out of order (with the
              \* plain reordering rule in force), or an IMMEDIATE_ACK frame
              now == ~a1.unk /\ (k >= a1.th + 1 \/ (judged /\ known /\ o[2] /\ a1.ro = 1) \/ (judged /\ e.immf))
          IN /\ cnt' = Set(cnt, u, k)
             /\ lae' = IF judged THEN Set(lae, u, o[1]) ELSE lae
             /\ um' = Set(um, u, um1)
             /\ afp' = Set(afp, u, a1)
             /\ imm' = IF now /\ At(imm, u, -1) = -1 THEN Set(imm, u, e.t) ELSE imm
       /\ bad' = bad
  /\ l' = l + 1 /\ UNCHANGED <<afs, mad, who, late, ackfreq, deviations, cur>>

RangesReceived(u, a) == \A i \in 1 .. Len(a.ranges) :
                          (a.ranges[i][1] .. a.ranges[i][2]) \subseteq At(rcvd, <<u, a.sp>>, {})

Snd ==
  /\ Is("Snd")
  /\ LET u == e.uid
         hasAck == Len(e.acks) > 0
         dataAck == \E i \in 1 .. Len(e.acks) : e.acks[i].sp = 2
     IN
       /\ bad' = bad
            \cup Flag(\A i \in 1 .. Len(e.acks) : RangesReceived(u, e.acks[i]), "AckedPacketNeverReceived")
            \cup Flag(e.ackonly => \E i \in 1 .. Len(e.acks) : e.acks[i].sp \in At(fresh, u, {}), "AckOnlyAnsweredByAckOnly")
            \* every ACK_FREQUENCY frame (a retransmission too) carries the next sequence number
            \cup Flag(\A i \in 1 .. Len(e.afs) : e.afs[i] = At(afs, u, -1) + i, "AckFrequencySequenceNotIncreasing")
       /\ afs' = Set(afs, u, At(afs, u, -1) + Len(e.afs))
       /\ fresh' = IF hasAck THEN Set(fresh, u, At(fresh, u, {}) \ {e.acks[i].sp : i \in 1 .. Len(e.acks)}) ELSE fresh
       /\ due' = IF dataAck \/ ~e.est THEN Set(due, u, -1) ELSE due
       /\ cnt' = IF dataAck \/ ~e.est THEN Set(cnt, u, 0) ELSE cnt
       /\ imm' = IF dataAck \/ ~e.est THEN Set(imm, u, -1) ELSE imm
  /\ l' = l + 1 /\ UNCHANGED <<rcvd, lae, um, afp, mad, who, late, ackfreq, deviations, cur>>

\* KNOWN FINDING: poll_transmit decides per packet whether it will be ack-eliciting from what is
\* queued; with stream data queued and the congestion window full (or the pacer not ready) it sends
\* nothing at all, so an acknowledgement that is due (even one demanded by IMMEDIATE_ACK) waits until
\* the window opens, the pacing timer or a probe timeout fires.  Recognised by an overdue
\* acknowledgement on a connection whose congestion window has no room for another datagram or whose
\* pacing timer is armed.
Tick ==
  /\ Is("Tick")
  /\ LET u == At(who, <<e.n, e.c>>, -1)
         a == At(afp, u, AfDefault)
         m == IF a.mad # -1 THEN a.mad ELSE At(mad, <<e.n, e.c>>, 25000)
         overdue == u # -1 /\ e.est /\ ~a.unk /\ Overdue(u, e.t, m)
         atOnce == u # -1 /\ e.est /\ ~a.unk /\ At(imm, u, -1) # -1 /\ e.t > At(imm, u, -1) + late + Slack
     IN
       /\ bad' = bad \cup Flag(~overdue \/ e.cb, "AckWithheld")
                      \cup Flag(~atOnce \/ e.cb, "SecondPacketNotAcknowledgedAtOnce")
       /\ deviations' = IF (overdue \/ atOnce) /\ e.cb /\ e.val THEN deviations \cup {"AckHeldBackBehindBlockedData"} ELSE deviations
       /\ due' = IF u # -1 /\ (~e.est \/ overdue) THEN Set(due, u, -1) ELSE due
       /\ cnt' = IF u # -1 /\ (~e.est \/ atOnce) THEN Set(cnt, u, 0) ELSE cnt
       /\ imm' = IF u # -1 /\ (~e.est \/ atOnce) THEN Set(imm, u, -1) ELSE imm
  /\ l' = l + 1 /\ UNCHANGED <<rcvd, fresh, lae, um, afp, afs, mad, who, late, ackfreq, cur>>

TNext == (Reset \/ Mad \/ Conn \/ Rcv \/ Snd \/ Tick)
         /\ (deviations' \subseteq deviations
             \/ PrintT(<<"KNOWN", deviations' \ deviations, "line", l, "run", cur>>))
TraceSpec == TInit /\ [][TNext]_vars
Watch == TLCSet(1, <<l, bad, cur>>) /\ bad = {}
TraceAccepted ==
  LET r == TLCGet(1) d == TLCGet("stats").diameter IN
  IF r[2] # {} THEN Print(<<"VIOLATION", r[2], "line", r[1] - 1, "run", r[3]>>, FALSE)
  ELSE IF d - 1 # N THEN Print(<<"UNMATCHED", "line", d, "run", r[3]>>, FALSE)
  ELSE TRUE
=============================================================================
