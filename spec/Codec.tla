------------------------------- MODULE Codec -------------------------------
(***************************************************************************)
(* Reference wire codecs of QUIC (RFC 9000 sections 16, 17, 18, 19 and     *)
(* appendix A, RFC 9221 DATAGRAM, RFC 9287 grease bit, ack-frequency       *)
(* draft) written as total TLA+ functions over byte sequences.  Property   *)
(* C10: the implementation's encoders and decoders agree with these.       *)
(*                                                                         *)
(* Numbers.  TLC integers are 32 bit.  A QUIC integer (below 2^62) is the  *)
(* pair <<hi, lo>> = hi * 2^31 + lo with 0 <= hi, lo < 2^31.  JSON traces  *)
(* carry the same pairs.  A byte string is a sequence over 0..255.         *)
(*                                                                         *)
(* Decoders take the whole input `bs` and the index `p` of the next byte   *)
(* and return [ok |-> TRUE, ..., p |-> next index] or Fail.  They never    *)
(* index outside 1..Len(bs): totality is checked by MC_Codec.              *)
(***************************************************************************)
EXTENDS Naturals, Integers, Sequences, FiniteSets, TLC

M31 == 2147483647
T6 == 64
T14 == 16384
T24 == 16777216
T30 == 1073741824

Fail == [ok |-> FALSE]
Byte == 0..255
IsBytes(s) == \A i \in 1..Len(s) : s[i] \in Byte
Min(a, b) == IF a < b THEN a ELSE b

\* ------------------------------------------------------------ 62-bit numbers
N(k) == <<0, k>>
IsNum(a) == a[1] \in 0..M31 /\ a[2] \in 0..M31
NLt(a, b) == a[1] < b[1] \/ (a[1] = b[1] /\ a[2] < b[2])
NLe(a, b) == a = b \/ NLt(a, b)
\* a + b, defined while the sum stays below 2^62 (TLC reports an overflow otherwise)
NAdd(a, b) == IF a[2] > M31 - b[2] THEN <<a[1] + b[1] + 1, (a[2] - (M31 - b[2])) - 1>>
              ELSE <<a[1] + b[1], a[2] + b[2]>>
\* a - b for b <= a
NSub(a, b) == IF a[2] >= b[2] THEN <<a[1] - b[1], a[2] - b[2]>>
              ELSE <<a[1] - b[1] - 1, ((M31 - b[2]) + a[2]) + 1>>
NMax == <<M31, M31>>                      \* 2^62 - 1
Two32 == <<2, 0>>
Two31 == <<1, 0>>
Small(a) == a[1] = 0                      \* fits a TLC integer: the value is a[2]

\* big-endian 8 bytes of a number and back (the top byte is below 64)
B8(v) == LET hi == v[1] lo == v[2] IN
  << hi \div 33554432, (hi \div 131072) % 256, (hi \div 512) % 256, (hi \div 2) % 256,
     (hi % 2) * 128 + lo \div T24, (lo \div 65536) % 256, (lo \div 256) % 256, lo % 256 >>
FromB8(b) == << b[1] * 33554432 + b[2] * 131072 + b[3] * 512 + b[4] * 2 + b[5] \div 128,
                (b[5] % 128) * T24 + b[6] * 65536 + b[7] * 256 + b[8] >>
\* big-endian k bytes (k <= 4) of a small integer / a number below 2^32
BE(k, x) == CASE k = 1 -> <<x % 256>>
              [] k = 2 -> <<(x \div 256) % 256, x % 256>>
              [] k = 3 -> <<(x \div 65536) % 256, (x \div 256) % 256, x % 256>>
              [] k = 4 -> <<(x \div T24) % 256, (x \div 65536) % 256, (x \div 256) % 256, x % 256>>
U32Bytes(v) == SubSeq(B8(v), 5, 8)        \* v < 2^32
FromBytes(bs) ==                          \* Len(bs) <= 8, top bits beyond 62 must be clear
  FromB8([i \in 1..8 |-> IF i <= 8 - Len(bs) THEN 0 ELSE bs[i - (8 - Len(bs))]])

\* --------------------------------------------------- varint, RFC 9000 sec. 16
VSize(v) == IF Small(v) /\ v[2] < T6 THEN 1
            ELSE IF Small(v) /\ v[2] < T14 THEN 2
            ELSE IF Small(v) /\ v[2] < T30 THEN 4 ELSE 8
Tag(s) == CASE s = 1 -> 0 [] s = 2 -> 64 [] s = 4 -> 128 [] s = 8 -> 192
\* encoding on s bytes; defined when VSize(v) <= s
EncSized(v, s) == LET b == B8(v) IN <<b[9 - s] + Tag(s)>> \o SubSeq(b, 10 - s, 8)
Enc(v) == EncSized(v, VSize(v))
EncI(k) == Enc(N(k))
Size(v) == VSize(v)

DecVar(bs, p) ==
  IF p > Len(bs) THEN Fail
  ELSE LET t == bs[p] \div 64
           s == CASE t = 0 -> 1 [] t = 1 -> 2 [] t = 2 -> 4 [] t = 3 -> 8
       IN IF p + s - 1 > Len(bs) THEN Fail
          ELSE LET b == [i \in 1..8 |-> IF i <= 8 - s THEN 0
                                        ELSE IF i = 9 - s THEN bs[p] % 64
                                        ELSE bs[p + (i - (9 - s))]]
               IN [ok |-> TRUE, v |-> FromB8(b), p |-> p + s, s |-> s]
Dec(bs) == DecVar(bs, 1)

RECURSIVE DecVars(_, _, _)
DecVars(bs, p, k) ==
  IF k = 0 THEN [ok |-> TRUE, vs |-> <<>>, p |-> p]
  ELSE LET h == DecVar(bs, p) IN
       IF ~h.ok THEN Fail
       ELSE LET t == DecVars(bs, h.p, k - 1) IN
            IF ~t.ok THEN Fail ELSE [ok |-> TRUE, vs |-> <<h.v>> \o t.vs, p |-> t.p]

\* varint length followed by that many bytes
TakeLen(bs, p) ==
  LET h == DecVar(bs, p) IN
  IF ~h.ok THEN Fail
  ELSE IF ~Small(h.v) \/ h.v[2] > Len(bs) - h.p + 1 THEN Fail
  ELSE [ok |-> TRUE, d |-> SubSeq(bs, h.p, h.p + h.v[2] - 1), p |-> h.p + h.v[2]]
TakeFix(bs, p, k) ==
  IF k > Len(bs) - p + 1 THEN Fail
  ELSE [ok |-> TRUE, d |-> SubSeq(bs, p, p + k - 1), p |-> p + k]

RECURSIVE Cat(_)
Cat(ss) == IF ss = <<>> THEN <<>> ELSE Head(ss) \o Cat(Tail(ss))
RECURSIVE EncAll(_)
EncAll(vs) == IF vs = <<>> THEN <<>> ELSE Enc(Head(vs)) \o EncAll(Tail(vs))

\* ------------------------------------- packet numbers, RFC 9000 17.1, A.2, A.3
\* Sender: "MUST use a packet number size able to represent more than twice as large a range as
\* the difference between the largest acknowledged packet number and the packet number being
\* sent" (17.1): smallest k in 1..4 with 2^(8k) > 2 * (n - largestAcked).  Defined for
\* n - largestAcked < 2^31 (beyond, no encoding exists).
PnLen(n, la) == LET d == NSub(n, la) IN
  IF Small(d) /\ d[2] < 128 THEN 1
  ELSE IF Small(d) /\ d[2] < 32768 THEN 2
  ELSE IF Small(d) /\ d[2] < 8388608 THEN 3 ELSE 4
\* n mod 2^(8k) as a number
ModWin(n, k) == CASE k = 1 -> N(n[2] % 256) [] k = 2 -> N(n[2] % 65536) [] k = 3 -> N(n[2] % T24)
                  [] k = 4 -> <<n[1] % 2, n[2]>>
Win(k) == CASE k = 1 -> N(256) [] k = 2 -> N(65536) [] k = 3 -> N(T24) [] k = 4 -> Two32
HWin(k) == CASE k = 1 -> N(128) [] k = 2 -> N(32768) [] k = 3 -> N(8388608) [] k = 4 -> Two31
PnBytes(t, k) == SubSeq(B8(t), 9 - k, 8)      \* truncated value t on k bytes
Truncate(n, la) == PnBytes(ModWin(n, PnLen(n, la)), PnLen(n, la))
\* Receiver, A.3 (DecodePacketNumber): t = truncated value, k = its length in bytes,
\* expected = largest received + 1.  Defined for expected < 2^62 - 2^32.
Expand(t, k, expected) ==
  LET win == Win(k)
      hwin == HWin(k)
      cand == NAdd(NSub(expected, ModWin(expected, k)), t)
  IN IF NLe(hwin, expected) /\ NLe(cand, NSub(expected, hwin)) /\ NLe(cand, NSub(NMax, win))
       THEN NAdd(cand, win)
     ELSE IF NLt(NAdd(expected, hwin), cand) /\ NLe(win, cand) THEN NSub(cand, win)
     ELSE cand
ExpandBytes(bs, expected) == Expand(FromBytes(bs), Len(bs), expected)
\* the receiver states for which 17.1 guarantees correct decoding of n sent with largest
\* acknowledged la: every expected with la < expected and expected - hwin < n
InWindow(n, la, k, expected) == NLt(la, expected) /\ NLt(expected, NAdd(n, HWin(k)))

\* ------------------------------------------------- frames, RFC 9000 section 19
\* A frame is [ty |-> name, n |-> <<numbers>>, b |-> <<byte strings>>]:
\*   PADDING PING HANDSHAKE_DONE IMMEDIATE_ACK          n = <<>>
\*   ACK / ACK_ECN   n = <<largest, delay>> \o (ECN: <<ect0, ect1, ce>>) \o <<lo1, hi1, lo2, hi2, ..>>
\*                   acknowledged ranges lo_i..hi_i in descending order, hi1 = largest
\*   RESET_STREAM <<id, code, final>>   STOP_SENDING <<id, code>>   CRYPTO <<offset>>, <<data>>
\*   NEW_TOKEN <<>>, <<token>>          STREAM <<id, offset, fin>>, <<data>>
\*   MAX_DATA <<v>>  MAX_STREAM_DATA <<id, v>>  MAX_STREAMS_BIDI/UNI <<v>>  DATA_BLOCKED <<v>>
\*   STREAM_DATA_BLOCKED <<id, v>>  STREAMS_BLOCKED_BIDI/UNI <<v>>  RETIRE_CONNECTION_ID <<seq>>
\*   NEW_CONNECTION_ID <<seq, retire_prior_to>>, <<cid, reset token>>
\*   PATH_CHALLENGE / PATH_RESPONSE <<>>, <<8 bytes>>
\*   CONNECTION_CLOSE <<code, frame type>>, <<reason>>   APPLICATION_CLOSE <<code>>, <<reason>>
\*   DATAGRAM <<>>, <<data>>     ACK_FREQUENCY <<seq, threshold, max ack delay, reordering>>
F(ty, n, b) == [ty |-> ty, n |-> n, b |-> b]

Plain == [c \in {0, 1, 4, 5, 16, 17, 18, 19, 20, 21, 22, 23, 25, 30, 31, 175} |->
  CASE c = 0 -> <<"PADDING", 0>> [] c = 1 -> <<"PING", 0>> [] c = 4 -> <<"RESET_STREAM", 3>>
    [] c = 5 -> <<"STOP_SENDING", 2>> [] c = 16 -> <<"MAX_DATA", 1>> [] c = 17 -> <<"MAX_STREAM_DATA", 2>>
    [] c = 18 -> <<"MAX_STREAMS_BIDI", 1>> [] c = 19 -> <<"MAX_STREAMS_UNI", 1>>
    [] c = 20 -> <<"DATA_BLOCKED", 1>> [] c = 21 -> <<"STREAM_DATA_BLOCKED", 2>>
    [] c = 22 -> <<"STREAMS_BLOCKED_BIDI", 1>> [] c = 23 -> <<"STREAMS_BLOCKED_UNI", 1>>
    [] c = 25 -> <<"RETIRE_CONNECTION_ID", 1>> [] c = 30 -> <<"HANDSHAKE_DONE", 0>>
    [] c = 31 -> <<"IMMEDIATE_ACK", 0>> [] c = 175 -> <<"ACK_FREQUENCY", 4>>]
\* k varints, then a length-prefixed byte string
Blob == [c \in {6, 7, 28, 29, 49} |->
  CASE c = 6 -> <<"CRYPTO", 1>> [] c = 7 -> <<"NEW_TOKEN", 0>> [] c = 28 -> <<"CONNECTION_CLOSE", 2>>
    [] c = 29 -> <<"APPLICATION_CLOSE", 1>> [] c = 49 -> <<"DATAGRAM", 0>>]
TypeCode == [PADDING |-> 0, PING |-> 1, ACK |-> 2, ACK_ECN |-> 3, RESET_STREAM |-> 4, STOP_SENDING |-> 5,
  CRYPTO |-> 6, NEW_TOKEN |-> 7, STREAM |-> 8, MAX_DATA |-> 16, MAX_STREAM_DATA |-> 17, MAX_STREAMS_BIDI |-> 18,
  MAX_STREAMS_UNI |-> 19, DATA_BLOCKED |-> 20, STREAM_DATA_BLOCKED |-> 21, STREAMS_BLOCKED_BIDI |-> 22,
  STREAMS_BLOCKED_UNI |-> 23, NEW_CONNECTION_ID |-> 24, RETIRE_CONNECTION_ID |-> 25, PATH_CHALLENGE |-> 26,
  PATH_RESPONSE |-> 27, CONNECTION_CLOSE |-> 28, APPLICATION_CLOSE |-> 29, HANDSHAKE_DONE |-> 30,
  IMMEDIATE_ACK |-> 31, DATAGRAM |-> 48, ACK_FREQUENCY |-> 175]

\* ACK ranges: `cnt` further (gap, length) pairs below a range whose smallest number is `sm`
RECURSIVE AckRanges(_, _, _, _)
AckRanges(bs, p, cnt, sm) ==
  IF cnt = 0 THEN [ok |-> TRUE, rs |-> <<>>, p |-> p]
  ELSE LET g == DecVars(bs, p, 2) IN
       IF ~g.ok THEN Fail
       ELSE LET gap == g.vs[1] len == g.vs[2] IN
            \* next largest = sm - gap - 2 must exist, and reach down len more
            IF ~NLe(gap, sm) \/ ~NLe(N(2), NSub(sm, gap)) THEN Fail
            ELSE LET hi == NSub(NSub(sm, gap), N(2)) IN
                 IF ~NLe(len, hi) THEN Fail
                 ELSE LET lo == NSub(hi, len)
                          t == AckRanges(bs, g.p, cnt - 1, lo) IN
                      IF ~t.ok THEN Fail ELSE [ok |-> TRUE, rs |-> <<lo, hi>> \o t.rs, p |-> t.p]

DecAck(bs, q, ecn) ==
  LET h == DecVars(bs, q, 4) IN
  IF ~h.ok THEN Fail
  ELSE LET largest == h.vs[1] delay == h.vs[2] cnt == h.vs[3] first == h.vs[4] IN
       \* every further range takes at least two bytes
       IF ~Small(cnt) \/ cnt[2] > Len(bs) \/ ~NLe(first, largest) THEN Fail
       ELSE LET lo == NSub(largest, first)
                r == AckRanges(bs, h.p, cnt[2], lo) IN
            IF ~r.ok THEN Fail
            ELSE IF ~ecn THEN [ok |-> TRUE, f |-> F("ACK", <<largest, delay, lo, largest>> \o r.rs, <<>>), p |-> r.p]
            ELSE LET c == DecVars(bs, r.p, 3) IN
                 IF ~c.ok THEN Fail
                 ELSE [ok |-> TRUE, f |-> F("ACK_ECN", <<largest, delay>> \o c.vs \o <<lo, largest>> \o r.rs, <<>>), p |-> c.p]

DecNewCid(bs, q) ==
  LET h == DecVars(bs, q, 2) IN
  IF ~h.ok THEN Fail
  ELSE IF NLt(h.vs[1], h.vs[2]) THEN Fail                    \* retire_prior_to > sequence
  ELSE IF h.p > Len(bs) THEN Fail
  ELSE LET len == bs[h.p] IN
       IF len < 1 \/ len > 20 THEN Fail
       ELSE LET c == TakeFix(bs, h.p + 1, len) IN
            IF ~c.ok THEN Fail
            ELSE LET t == TakeFix(bs, c.p, 16) IN
                 IF ~t.ok THEN Fail
                 ELSE [ok |-> TRUE, f |-> F("NEW_CONNECTION_ID", h.vs, <<c.d, t.d>>), p |-> t.p]

DecStream(bs, q, c) ==
  LET off == (c \div 4) % 2 = 1
      len == (c \div 2) % 2 = 1
      fin == c % 2
      h == DecVars(bs, q, IF off THEN 2 ELSE 1) IN
  IF ~h.ok THEN Fail
  ELSE LET d == IF len THEN TakeLen(bs, h.p) ELSE TakeFix(bs, h.p, Len(bs) - h.p + 1) IN
       IF ~d.ok THEN Fail
       ELSE [ok |-> TRUE, f |-> F("STREAM", <<h.vs[1], IF off THEN h.vs[2] ELSE N(0), N(fin)>>, <<d.d>>), p |-> d.p]

\* one frame starting at p.  The frame type is read as a varint; a type encoded on more bytes than
\* necessary is accepted (19: an endpoint MAY treat it as PROTOCOL_VIOLATION).
DecFrame(bs, p) ==
  LET t == DecVar(bs, p) IN
  IF ~t.ok THEN Fail
  ELSE LET c == IF Small(t.v) /\ t.v[2] < 256 THEN t.v[2] ELSE 999
           q == t.p IN
    IF c \in DOMAIN Plain THEN
      LET r == DecVars(bs, q, Plain[c][2]) IN
      IF ~r.ok THEN Fail ELSE [ok |-> TRUE, f |-> F(Plain[c][1], r.vs, <<>>), p |-> r.p]
    ELSE IF c \in DOMAIN Blob THEN
      LET r == DecVars(bs, q, Blob[c][2]) IN
      IF ~r.ok THEN Fail
      ELSE LET d == TakeLen(bs, r.p) IN
           IF ~d.ok THEN Fail ELSE [ok |-> TRUE, f |-> F(Blob[c][1], r.vs, <<d.d>>), p |-> d.p]
    ELSE IF c \in 8..15 THEN DecStream(bs, q, c)
    ELSE IF c = 48 THEN [ok |-> TRUE, f |-> F("DATAGRAM", <<>>, <<SubSeq(bs, q, Len(bs))>>), p |-> Len(bs) + 1]
    ELSE IF c \in {26, 27} THEN
      LET d == TakeFix(bs, q, 8) IN
      IF ~d.ok THEN Fail
      ELSE [ok |-> TRUE, f |-> F(IF c = 26 THEN "PATH_CHALLENGE" ELSE "PATH_RESPONSE", <<>>, <<d.d>>), p |-> d.p]
    ELSE IF c \in {2, 3} THEN DecAck(bs, q, c = 3)
    ELSE IF c = 24 THEN DecNewCid(bs, q)
    ELSE Fail

\* a packet payload: [ok, frames]; on error `frames` holds the frames before the bad one.
\* An empty payload is an error (12.4).
RECURSIVE DecFramesFrom(_, _, _)
DecFramesFrom(bs, p, acc) ==
  IF p > Len(bs) THEN [ok |-> TRUE, frames |-> acc]
  ELSE LET r == DecFrame(bs, p) IN
       IF ~r.ok THEN [ok |-> FALSE, frames |-> acc] ELSE DecFramesFrom(bs, r.p, Append(acc, r.f))
DecFrames(bs) == IF bs = <<>> THEN [ok |-> FALSE, frames |-> <<>>] ELSE DecFramesFrom(bs, 1, <<>>)

\* ---- frame encoders (canonical: shortest varints).  `len` selects the explicit-length form of
\* STREAM and DATAGRAM; `off` forces the OFF bit of STREAM (it is always set for offset > 0).
RECURSIVE EncAckTail(_, _)
EncAckTail(rs, sm) ==      \* rs = <<lo2, hi2, lo3, hi3, ...>>, sm = smallest of the previous range
  IF rs = <<>> THEN <<>>
  ELSE Enc(NSub(NSub(sm, rs[2]), N(2))) \o Enc(NSub(rs[2], rs[1])) \o EncAckTail(SubSeq(rs, 3, Len(rs)), rs[1])
EncStream(id, offset, fin, data, off, len) ==
  LET o == off \/ offset # N(0) IN
  EncI(8 + (IF o THEN 4 ELSE 0) + (IF len THEN 2 ELSE 0) + fin[2]) \o Enc(id)
    \o (IF o THEN Enc(offset) ELSE <<>>) \o (IF len THEN EncI(Len(data)) ELSE <<>>) \o data
EncFrame(f, len) ==
  LET c == TypeCode[f.ty] IN
  IF c \in DOMAIN Plain THEN EncI(c) \o EncAll(f.n)
  ELSE IF c \in {6, 7, 28, 29} THEN EncI(c) \o EncAll(f.n) \o EncI(Len(f.b[1])) \o f.b[1]
  ELSE IF c = 48 THEN (IF len THEN EncI(49) \o EncI(Len(f.b[1])) ELSE EncI(48)) \o f.b[1]
  ELSE IF c = 8 THEN EncStream(f.n[1], f.n[2], f.n[3], f.b[1], FALSE, len)
  ELSE IF c \in {26, 27} THEN EncI(c) \o f.b[1]
  ELSE IF c = 24 THEN EncI(24) \o EncAll(f.n) \o <<Len(f.b[1])>> \o f.b[1] \o f.b[2]
  ELSE \* ACK / ACK_ECN
    LET k == IF c = 3 THEN 5 ELSE 2
        rs == SubSeq(f.n, k + 1, Len(f.n)) IN
    EncI(c) \o Enc(f.n[1]) \o Enc(f.n[2]) \o EncI(Len(rs) \div 2 - 1) \o Enc(NSub(rs[2], rs[1]))
      \o EncAckTail(SubSeq(rs, 3, Len(rs)), rs[1]) \o (IF c = 3 THEN EncAll(SubSeq(f.n, 3, 5)) ELSE <<>>)
\* the ACK frame for `largest`, first range length `first` and further (gap, length) pairs
RECURSIVE RangesOf(_, _)
RangesOf(gl, sm) == IF gl = <<>> THEN <<>>
  ELSE LET hi == NSub(NSub(sm, gl[1]), N(2)) lo == NSub(hi, gl[2]) IN <<lo, hi>> \o RangesOf(SubSeq(gl, 3, Len(gl)), lo)
AckFrame(largest, delay, first, gl, ecn) ==
  LET lo == NSub(largest, first) IN
  F(IF ecn = <<>> THEN "ACK" ELSE "ACK_ECN", <<largest, delay>> \o ecn \o <<lo, largest>> \o RangesOf(gl, lo), <<>>)

\* -------------------------------------- transport parameters, RFC 9000 section 18
\* Value: [ints |-> 11 numbers in the order of IntIds, dam, grease |-> BOOLEAN, and optional fields
\* as <<>> (absent) or <<x>>: mdfs, mad (numbers), iscid, odcid, rscid, srt (bytes),
\* pa = [v4 |-> <<>> or <<4 bytes, port>>, v6 |-> <<>> or <<16 bytes, port>>, cid, srt]]
IntIds == <<1, 3, 4, 5, 6, 7, 8, 9, 10, 11, 14>>
IntDefault == <<0, 65527, 0, 0, 0, 0, 0, 0, 3, 25, 2>>
IdGrease == 10930                                  \* 0x2ab2
IdMinAckDelay == <<1, 2131025435>>                 \* 0xff04de1b
TpDefault == [ints |-> [i \in 1..11 |-> N(IntDefault[i])], dam |-> FALSE, grease |-> FALSE, mdfs |-> <<>>,
              mad |-> <<>>, iscid |-> <<>>, odcid |-> <<>>, rscid |-> <<>>, srt |-> <<>>, pa |-> <<>>]
IntIndex(id) == CHOOSE i \in 1..11 : IntIds[i] = id
AllZero(s) == \A i \in 1..Len(s) : s[i] = 0

DecPrefAddr(v) ==      \* v = the parameter value
  IF Len(v) < 41 THEN Fail
  ELSE LET ip4 == SubSeq(v, 1, 4) p4 == v[5] * 256 + v[6]
           ip6 == SubSeq(v, 7, 22) p6 == v[23] * 256 + v[24]
           cl == v[25] IN
       IF cl > 20 \/ Len(v) # 25 + cl + 16 THEN Fail
       ELSE [ok |-> TRUE, zero |-> cl = 0,
             pa |-> [v4 |-> IF AllZero(ip4) /\ p4 = 0 THEN <<>> ELSE <<ip4, p4>>,
                     v6 |-> IF AllZero(ip6) /\ p6 = 0 THEN <<>> ELSE <<ip6, p6>>,
                     cid |-> SubSeq(v, 26, 25 + cl), srt |-> SubSeq(v, 26 + cl, Len(v))]]

\* One parameter (identifier id, declared length len, value starting at index vp) applied to the
\* accumulator: [ok, tp, p = index of the next parameter].
\*   q = FALSE  the RFC: the value is exactly the len bytes that follow (7.4, 18); an integer is one
\*              varint filling them, on any of its legal sizes (16)
\*   q = TRUE   the deviation of TransportParameters::read recorded as the known finding
\*              "TransportParameterLengthNotEnforced": integers are read from the rest of the whole
\*              buffer and len is compared with the canonical size of the value (not with the bytes
\*              read), max_datagram_frame_size and min_ack_delay ignore len, preferred_address
\*              leaves unread trailing bytes to be parsed as the next parameter
TpApply(tp, id, bs, vp, len, q) ==
  LET v == SubSeq(bs, vp, vp + len - 1)
      var == IF q THEN DecVar(bs, vp) ELSE DecVar(v, 1)
      whole == var.ok /\ (IF q THEN TRUE ELSE var.p = len + 1)      \* the value is exactly one varint
      np == IF q /\ var.ok THEN var.p ELSE vp + len
      Ok(t) == [ok |-> TRUE, tp |-> t, p |-> vp + len] IN
  IF Small(id) /\ id[2] \in {1, 3, 4, 5, 6, 7, 8, 9, 10, 11, 14} THEN
    IF ~whole \/ (q /\ len # VSize(var.v)) THEN Fail
    ELSE [ok |-> TRUE, tp |-> [tp EXCEPT !.ints[IntIndex(id[2])] = var.v], p |-> np]
  ELSE IF id = N(32) THEN
    IF ~whole \/ (q /\ len > 8) THEN Fail ELSE [ok |-> TRUE, tp |-> [tp EXCEPT !.mdfs = <<var.v>>], p |-> np]
  ELSE IF id = IdMinAckDelay THEN
    IF ~whole THEN Fail ELSE [ok |-> TRUE, tp |-> [tp EXCEPT !.mad = <<var.v>>], p |-> np]
  ELSE IF id = N(0) THEN IF len > 20 THEN Fail ELSE Ok([tp EXCEPT !.odcid = <<v>>])
  ELSE IF id = N(15) THEN IF len > 20 THEN Fail ELSE Ok([tp EXCEPT !.iscid = <<v>>])
  ELSE IF id = N(16) THEN IF len > 20 THEN Fail ELSE Ok([tp EXCEPT !.rscid = <<v>>])
  ELSE IF id = N(2) THEN IF len # 16 THEN Fail ELSE Ok([tp EXCEPT !.srt = <<v>>])
  ELSE IF id = N(12) THEN IF len # 0 THEN Fail ELSE Ok([tp EXCEPT !.dam = TRUE])
  ELSE IF id = N(IdGrease) THEN IF len # 0 THEN Fail ELSE Ok([tp EXCEPT !.grease = TRUE])
  ELSE IF id = N(13) THEN
    LET used == IF q /\ len >= 25 /\ v[25] <= 20 /\ len >= 41 + v[25] THEN 41 + v[25] ELSE len
        a == DecPrefAddr(SubSeq(v, 1, used)) IN
    IF ~a.ok THEN Fail ELSE [ok |-> TRUE, tp |-> [tp EXCEPT !.pa = <<a.pa>>], p |-> vp + used]
  ELSE Ok(tp)                                       \* unknown parameters are ignored (7.4.2)
TpKnown(id) == id \in {N(0), N(1), N(2), N(3), N(4), N(5), N(6), N(7), N(8), N(9), N(10), N(11), N(12), N(13),
                       N(14), N(15), N(16), N(32), N(IdGrease), IdMinAckDelay}

\* [ok, tp, lax].  `lax` marks inputs whose treatment the RFC leaves open (a repeated parameter
\* "SHOULD" be an error, 7.4): repetitions of the two parameters the implementation does not track.
RECURSIVE DecTpFrom(_, _, _, _, _, _)
DecTpFrom(bs, p, tp, seen, lax, q) ==
  IF p > Len(bs) THEN [ok |-> TRUE, tp |-> tp, lax |-> lax]
  ELSE LET h == DecVar(bs, p) IN
       IF ~h.ok THEN [ok |-> FALSE, lax |-> lax]
       ELSE LET d == DecVar(bs, h.p) IN
            IF ~d.ok THEN [ok |-> FALSE, lax |-> lax]
            ELSE IF ~Small(d.v) \/ d.v[2] > Len(bs) - d.p + 1 THEN [ok |-> FALSE, lax |-> lax]
            ELSE LET rep == TpKnown(h.v) /\ h.v \in seen
                     soft == rep /\ h.v \in {N(IdGrease), IdMinAckDelay} IN
              IF rep /\ ~soft THEN [ok |-> FALSE, lax |-> lax]
              ELSE LET a == TpApply(tp, h.v, bs, d.p, d.v[2], q) IN
                   IF ~a.ok THEN [ok |-> FALSE, lax |-> lax \/ soft]
                   ELSE DecTpFrom(bs, a.p, a.tp, seen \cup {h.v}, lax \/ soft, q)

\* semantic validation (18.2, 4.6, 7.4, ack-frequency draft); side = the reader: "server" reads
\* a client's parameters, which must not contain the server-only ones
TpLegal(tp, side) ==
  LET i == tp.ints IN
  /\ NLe(i[9], N(20))                                 \* ack_delay_exponent
  /\ NLt(i[10], N(T14))                               \* max_ack_delay
  /\ NLe(N(2), i[11])                                 \* active_connection_id_limit
  /\ NLe(N(1200), i[2])                               \* max_udp_payload_size
  /\ NLe(i[7], <<T30 \div 2, 0>>) /\ NLe(i[8], <<T30 \div 2, 0>>)      \* stream counts <= 2^60
  /\ (tp.mad = <<>> \/ NLe(tp.mad[1], N(i[10][2] * 1000)))
  /\ (side = "server" => tp.odcid = <<>> /\ tp.pa = <<>> /\ tp.rscid = <<>> /\ tp.srt = <<>>)
  /\ (tp.pa = <<>> \/ (tp.pa[1].cid # <<>> /\ (tp.pa[1].v4 # <<>> \/ tp.pa[1].v6 # <<>>)))
DecTpQ(bs, side, q) ==
  LET r == DecTpFrom(bs, 1, TpDefault, {}, FALSE, q) IN
  IF ~r.ok THEN r
  ELSE IF ~TpLegal(r.tp, side) THEN [ok |-> FALSE, lax |-> r.lax] ELSE r
DecTp(bs, side) == DecTpQ(bs, side, FALSE)
DecTpSyntax(bs) == DecTpFrom(bs, 1, TpDefault, {}, FALSE, FALSE)

\* canonical encoder: ascending order of the list below, integer parameters only when they differ
\* from the default.  Any order is legal on the wire; the trace spec compares decoded values.
TpParam(id, v) == Enc(id) \o EncI(Len(v)) \o v
RECURSIVE EncTpInts(_, _)
EncTpInts(tp, i) == IF i > 11 THEN <<>>
  ELSE (IF tp.ints[i] = N(IntDefault[i]) THEN <<>> ELSE TpParam(N(IntIds[i]), Enc(tp.ints[i]))) \o EncTpInts(tp, i + 1)
EncPrefAddr(a) ==
  (IF a.v4 = <<>> THEN <<0, 0, 0, 0, 0, 0>> ELSE a.v4[1] \o BE(2, a.v4[2]))
  \o (IF a.v6 = <<>> THEN [i \in 1..18 |-> 0] ELSE a.v6[1] \o BE(2, a.v6[2]))
  \o <<Len(a.cid)>> \o a.cid \o a.srt
Opt(o, id) == IF o = <<>> THEN <<>> ELSE TpParam(id, o[1])
EncTp(tp) ==
  EncTpInts(tp, 1) \o Opt(tp.srt, N(2)) \o (IF tp.dam THEN TpParam(N(12), <<>>) ELSE <<>>)
  \o (IF tp.mdfs = <<>> THEN <<>> ELSE TpParam(N(32), Enc(tp.mdfs[1])))
  \o (IF tp.pa = <<>> THEN <<>> ELSE TpParam(N(13), EncPrefAddr(tp.pa[1])))
  \o Opt(tp.odcid, N(0)) \o Opt(tp.iscid, N(15)) \o Opt(tp.rscid, N(16))
  \o (IF tp.grease THEN TpParam(N(IdGrease), <<>>) ELSE <<>>)
  \o (IF tp.mad = <<>> THEN <<>> ELSE TpParam(IdMinAckDelay, Enc(tp.mad[1])))

\* ------------------------------------------- packet headers, RFC 9000 section 17
\* Invariant part and the version 1 long header types.  DecHeader yields the header fields known
\* before header protection is removed and `total`, the number of bytes of the datagram that
\* belong to this packet (the coalescing boundary, 12.2), and `pnoff`, the index of the first byte
\* after the fields decoded here (the packet number, if the packet has one).
\*   cidLen = length of locally issued connection IDs (short headers), versions = supported
\*   versions (each 4 bytes), grease = the fixed bit may be clear (RFC 9287)
DecCidLong(bs, p) ==
  IF p > Len(bs) THEN Fail
  ELSE IF bs[p] > 20 THEN Fail ELSE TakeFix(bs, p + 1, bs[p])
\*   q = TRUE: the deviation recorded as the known finding "VersionNegotiationWithoutFixedBitDropped":
\*   the fixed bit is demanded of Version Negotiation packets too, whose low seven bits are unused
\*   and "MUST be ignored" by the client (17.2.1)
DecHeaderQ(bs, cidLen, versions, grease, q) ==
  IF bs = <<>> THEN Fail
  ELSE LET first == bs[1] IN
  IF first < 128 THEN
    \* short header: fixed bit (the receiver may ignore it only if it advertised grease)
    IF ~grease /\ (first \div 64) % 2 = 0 THEN Fail
    ELSE LET c == TakeFix(bs, 2, cidLen) IN
         IF ~c.ok THEN Fail
         ELSE [ok |-> TRUE, kind |-> "short", dcid |-> c.d, spin |-> (first \div 32) % 2, pnoff |-> c.p,
               total |-> Len(bs)]
  ELSE
    LET v == TakeFix(bs, 2, 4) IN
    IF ~v.ok THEN Fail
    ELSE LET d == DecCidLong(bs, v.p) IN
    IF ~d.ok THEN Fail
    ELSE LET s == DecCidLong(bs, d.p) IN
    IF ~s.ok THEN Fail
    ELSE IF q /\ ~grease /\ (first \div 64) % 2 = 0 THEN Fail
    ELSE IF v.d = <<0, 0, 0, 0>> THEN
      \* version negotiation: the remaining bits of the first byte are unused (17.2.1)
      [ok |-> TRUE, kind |-> "vn", dcid |-> d.d, scid |-> s.d, random |-> first % 128, pnoff |-> s.p, total |-> Len(bs)]
    ELSE IF v.d \notin versions THEN Fail
    ELSE IF ~grease /\ (first \div 64) % 2 = 0 THEN Fail
    ELSE LET ty == (first \div 16) % 4 IN
      IF ty = 3 THEN [ok |-> TRUE, kind |-> "retry", version |-> v.d, dcid |-> d.d, scid |-> s.d, pnoff |-> s.p, total |-> Len(bs)]
      ELSE LET tok == IF ty = 0 THEN TakeLen(bs, s.p) ELSE [ok |-> TRUE, d |-> <<>>, p |-> s.p] IN
        IF ~tok.ok THEN Fail
        ELSE LET ln == DecVar(bs, tok.p) IN
          IF ~ln.ok THEN Fail
          ELSE IF ~Small(ln.v) \/ ln.v[2] > Len(bs) - ln.p + 1 THEN Fail
          ELSE [ok |-> TRUE, kind |-> CASE ty = 0 -> "initial" [] ty = 1 -> "zerortt" [] ty = 2 -> "handshake",
                version |-> v.d, dcid |-> d.d, scid |-> s.d, token |-> tok.d, len |-> ln.v[2],
                pnoff |-> ln.p, total |-> ln.p - 1 + ln.v[2]]

DecHeader(bs, cidLen, versions, grease) == DecHeaderQ(bs, cidLen, versions, grease, FALSE)

\* the packets coalesced in one datagram: [ok, pkts]; on error pkts holds those before the bad one
RECURSIVE SplitFrom(_, _, _, _, _, _)
SplitFrom(bs, cidLen, versions, grease, acc, q) ==
  IF bs = <<>> THEN [ok |-> TRUE, pkts |-> acc]
  ELSE LET h == DecHeaderQ(bs, cidLen, versions, grease, q) IN
       IF ~h.ok THEN [ok |-> FALSE, pkts |-> acc]
       ELSE SplitFrom(SubSeq(bs, h.total + 1, Len(bs)), cidLen, versions, grease, Append(acc, h), q)
SplitQ(bs, cidLen, versions, grease, q) == SplitFrom(bs, cidLen, versions, grease, <<>>, q)
Split(bs, cidLen, versions, grease) == SplitQ(bs, cidLen, versions, grease, FALSE)

\* header encoders.  pn = truncated packet number bytes (1..4); the length field of long headers
\* is written on two bytes (legal: 16 "values do not need to be encoded on the minimum number of
\* bytes"), rest = bytes after the packet number
EncCidLong(c) == <<Len(c)>> \o c
Enc2(k) == <<64 + k \div 256, k % 256>>
EncLong(ty, version, dcid, scid, token, pn, rest) ==
  <<192 + ty * 16 + (Len(pn) - 1)>> \o version \o EncCidLong(dcid) \o EncCidLong(scid)
    \o (IF ty = 0 THEN EncI(Len(token)) \o token ELSE <<>>) \o Enc2(Len(pn) + Len(rest)) \o pn \o rest
EncShort(spin, keyPhase, dcid, pn, rest) ==
  <<64 + spin * 32 + keyPhase * 4 + (Len(pn) - 1)>> \o dcid \o pn \o rest
EncRetry(version, dcid, scid, rest) == <<240>> \o version \o EncCidLong(dcid) \o EncCidLong(scid) \o rest
EncVn(random, dcid, scid, rest) == <<128 + random>> \o <<0, 0, 0, 0>> \o EncCidLong(dcid) \o EncCidLong(scid) \o rest

\* a packet description [kind, version, dcid, scid, token, n, la, rest, spin, kp, random] on the wire
KindTy == [initial |-> 0, zerortt |-> 1, handshake |-> 2]
EncPkt(pk) ==
  IF pk.kind \in DOMAIN KindTy THEN EncLong(KindTy[pk.kind], pk.version, pk.dcid, pk.scid, pk.token, Truncate(pk.n, pk.la), pk.rest)
  ELSE IF pk.kind = "short" THEN EncShort(pk.spin, pk.kp, pk.dcid, Truncate(pk.n, pk.la), pk.rest)
  ELSE IF pk.kind = "retry" THEN EncRetry(pk.version, pk.dcid, pk.scid, pk.rest)
  ELSE EncVn(pk.random, pk.dcid, pk.scid, pk.rest)
RECURSIVE EncPkts(_)
EncPkts(ps) == IF ps = <<>> THEN <<>> ELSE EncPkt(Head(ps)) \o EncPkts(Tail(ps))
\* after header protection is removed: packet number length from the low two bits, the truncated
\* packet number, header length.  sample = 4 + sample size bytes must follow the pn offset (5.4.2)
DecPn(bs, pnoff, sample) ==
  IF Len(bs) < pnoff - 1 + sample THEN Fail
  ELSE LET k == 1 + (bs[1] % 4) IN
       [ok |-> TRUE, pn |-> SubSeq(bs, pnoff, pnoff + k - 1), hlen |-> pnoff + k - 1]

\* ------------------------------------------------ address validation token plaintext
\* (implementation format, not RFC): type, address, [cid], issued (8 bytes, seconds)
EncIp(ip) == <<IF Len(ip) = 4 THEN 0 ELSE 1>> \o ip
EncRetryToken(ip, port, cid, secs8) == <<0>> \o EncIp(ip) \o BE(2, port) \o EncCidLong(cid) \o secs8
EncValidationToken(ip, secs8) == <<1>> \o EncIp(ip) \o secs8
DecIp(bs, p) == IF p > Len(bs) THEN Fail
                ELSE IF bs[p] = 0 THEN TakeFix(bs, p + 1, 4) ELSE IF bs[p] = 1 THEN TakeFix(bs, p + 1, 16) ELSE Fail
\* [ok, retry, ip, port, cid, secs8]; trailing bytes are an error
DecTokenPlain(bs) ==
  IF bs = <<>> \/ bs[1] > 1 THEN Fail
  ELSE LET a == DecIp(bs, 2) IN
    IF ~a.ok THEN Fail
    ELSE IF bs[1] = 1 THEN
      LET s == TakeFix(bs, a.p, 8) IN
      IF ~s.ok \/ s.p # Len(bs) + 1 THEN Fail
      ELSE [ok |-> TRUE, retry |-> FALSE, ip |-> a.d, port |-> 0, cid |-> <<>>, secs8 |-> s.d]
    ELSE LET pt == TakeFix(bs, a.p, 2) IN
      IF ~pt.ok THEN Fail
      ELSE LET c == DecCidLong(bs, pt.p) IN
        IF ~c.ok THEN Fail
        ELSE LET s == TakeFix(bs, c.p, 8) IN
          IF ~s.ok \/ s.p # Len(bs) + 1 THEN Fail
          ELSE [ok |-> TRUE, retry |-> TRUE, ip |-> a.d, port |-> pt.d[1] * 256 + pt.d[2], cid |-> c.d, secs8 |-> s.d]
=============================================================================
