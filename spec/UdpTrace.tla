------------------------------ MODULE UdpTrace ------------------------------
(***************************************************************************)
(* Trace validation for C19.  qv-udp drives the real                       *)
(* quinn_udp::UdpSocketState::{send, try_send, recv} over real loopback    *)
(* sockets and logs, per run (one pair of fresh sockets):                  *)
(*   Reset  socket kinds, max_gso_segments(), gro_segments(), receive      *)
(*          buffer shape, sender port, loopback MTU                        *)
(*   Sent   the Transmit descriptor (len, segment_size or 0, ecn, src_ip,  *)
(*          destination), the call's result, max_gso_segments() before and *)
(*          after, and the digest [len, first, last, hash] of every        *)
(*          segment_size-sized slice of the contents                       *)
(*   Recvd  one RecvMeta (len, stride, ecn, addr, dst_ip) and the digests  *)
(*          of the slices of the buffer at multiples of stride             *)
(*   End    the harness drained the socket (retrying until everything it   *)
(*          waits for arrived or 2 s passed without progress)              *)
(* The spec keeps Udp.tla's `owed` multiset: Sent adds Segments(tx), every *)
(* slice of every Recvd must be exactly one owed and not yet received      *)
(* datagram (same boundaries and payload, same ECN, addresses as the       *)
(* receiving socket names them), End requires that nothing owed is left.   *)
(* Addresses are small ids: 1 = 127.0.0.1, 2 = ::1, 3 = ::ffff:127.0.0.1,  *)
(* 4 = 127.0.0.2, 5 = ::ffff:127.0.0.2, 0 = none, 9 = anything else.       *)
(* Panic / RecvErr / SetupError lines are matched by no action.            *)
(***************************************************************************)
EXTENDS Naturals, Integers, Sequences, FiniteSets, TLC, Json, IOUtils

Rec == ndJsonDeserialize(IOEnv.TRACE)
N == Len(Rec)

VARIABLES l, bad, deviations, pend, opt, done, cf, deg, stale, cur
vars == <<l, bad, deviations, pend, opt, done, cf, deg, stale, cur>>

e == Rec[l]
Is(k) == l <= N /\ e.ev = k
Flag(c, name) == IF c THEN {} ELSE {name}
Min(a, b) == IF a <= b THEN a ELSE b
CeilDiv(a, b) == (a + b - 1) \div b

\* --- addresses as the receiving socket reports them (Udp!Report) ----------
V4Base(a) == IF a \in {1, 3} THEN 1 ELSE IF a \in {4, 5} THEN 4 ELSE 0
V4Path(dst) == V4Base(dst) # 0
Canon(a, rk) == IF V4Base(a) = 0 THEN a
                ELSE IF rk \in {"v4", "v4any"} THEN V4Base(a)
                ELSE IF V4Base(a) = 1 THEN 3 ELSE 5
DefaultSrc(dst) == IF V4Path(dst) THEN 1 ELSE 2   \* loopback source the kernel picks

\* --- the contract (Udp!K, Udp!Split) -------------------------------------
K(len, seg) == IF seg = 0 \/ seg >= len THEN 1 ELSE CeilDiv(len, seg)
SegLen(len, seg, j) == LET k == K(len, seg) IN
                       IF k = 1 THEN len ELSE IF j < k THEN seg ELSE len - (k - 1) * seg
\* largest payload the kernel accepts on this loopback: header length fields and the interface MTU.
\* Anything longer is EMSGSIZE, which send() swallows on purpose (MTU probes): the only permitted loss.
MaxPayload(v4) == IF v4 THEN Min(65535, cf.mtu) - 28 ELSE Min(65575, cf.mtu) - 48

NoCfg == [rk |-> "v4", sport |-> 0, bufsz |-> 0, iov |-> 0, batch |-> 0, mtu |-> 65536]

TInit == /\ l = 1 /\ bad = {} /\ deviations = {} /\ pend = <<>> /\ opt = <<>> /\ done = {}
         /\ cf = NoCfg /\ deg = FALSE /\ stale = FALSE /\ cur = <<0>>

Reset == /\ Is("Reset")
         /\ cf' = [rk |-> e.rk, sport |-> e.sport, bufsz |-> e.bufsz, iov |-> e.iov, batch |-> e.batch,
                   mtu |-> e.mtu]
         /\ pend' = <<>> /\ opt' = <<>> /\ done' = {} /\ deg' = FALSE /\ stale' = FALSE /\ bad' = {} /\ deviations' = {}
         /\ cur' = <<e.run>> /\ l' = l + 1

\* Udp!Send / SendFallback / SendRefused, told apart by the observed result.
\* KNOWN FINDING (C19): UdpSocketState::new enables IP_RECVERR but nothing drains the error queue.  An
\* EMSGSIZE for a datagram above the interface MTU (what an MTU probe gets; send() swallows it on
\* purpose) leaves a pending socket error, the kernel reports it for the NEXT sendmsg and does not
\* transmit that datagram: try_send fails with EMSGSIZE for a perfectly legal transmit, send() drops it
\* silently.  Recorded as the named deviation "LegalSendFailsAfterEmsgsize"; `stale` says that the
\* previous transmit on this socket was oversize, so that only the very next transmit is excused.
Sent ==
  /\ Is("Sent")
  /\ LET k == K(e.len, e.seg)
         v4 == V4Path(e.dst)
         oversize == e.len > MaxPayload(v4)
         illegal == k > e.gso_before        \* the caller ignored max_gso_segments(): no promise made
         legal == ~oversize /\ ~illegal
         staleHit == stale /\ legal /\ e.res = "Err" /\ e.errno = 90
         staleMaybe == stale /\ legal /\ e.res = "Ok" /\ e.api = "send"   \* swallowed or really sent
         \* fallback mode (sendmsg_einval) is entered together with halting offload
         degNow == deg \/ e.gso_after < e.gso_before \/ (e.res = "Err" /\ e.errno \in {5, 22})
         segsOk == /\ Len(e.segs) = k
                   /\ \A j \in 1..Len(e.segs) : e.segs[j][1] = SegLen(e.len, e.seg, j)
         news == [j \in 1..Len(e.segs) |->
                    [id |-> e.segs[j], ecn |-> e.ecn, ecn0 |-> degNow /\ v4, st |-> staleMaybe,
                     src |-> Canon(IF e.src # 0 THEN e.src ELSE DefaultSrc(e.dst), cf.rk),
                     dst |-> Canon(e.dst, cf.rk)]]
     IN /\ bad' = bad
             \cup Flag(segsOk, "SegmentsNotCeilLenOverSegmentSize")
             \cup Flag(e.res = "Err" => ((oversize /\ e.errno = 90) \/ illegal \/ staleHit),
                       "SendFailedForLegalTransmit")
             \cup Flag(e.api = "send" => e.res \in {"Ok", "WouldBlock"}, "SendReturnedOtherThanWouldBlock")
             \cup Flag(e.gso_after >= 1 /\ e.gso_after <= e.gso_before, "MaxGsoSegmentsGrewOrZero")
        /\ pend' = IF e.res = "Ok" /\ legal /\ ~staleMaybe THEN pend \o news ELSE pend
        /\ opt' = IF e.res = "Ok" /\ (~legal \/ staleMaybe) THEN opt \o news ELSE opt
        /\ deviations' = IF staleHit THEN deviations \cup {"LegalSendFailsAfterEmsgsize"} ELSE deviations
        /\ deg' = degNow
        /\ stale' = (oversize /\ e.res # "WouldBlock")
  /\ l' = l + 1 /\ UNCHANGED <<done, cf, cur>>

\* --- receiving ------------------------------------------------------------
\* KNOWN FINDING (C19): the receive control buffer (cmsg::LEN = 96 bytes) is too small for
\* SCM_TIMESTAMPNS + UDP_GRO + IP_PKTINFO / IPV6_PKTINFO + IP_TOS / IPV6_TCLASS (112 / 120 bytes), so
\* the kernel truncates the control data (MSG_CTRUNC) of every GRO-coalesced buffer and the ECN
\* codepoint, which comes last, is reported as None.  Recorded as the named deviation
\* "EcnLostOnCoalescedReceive": exactly ecn = none on a buffer holding more than one datagram.
EcnOk(q) == e.ecn = q.ecn \/ (q.ecn0 /\ e.ecn = 0)       \* fallback mode omits IP_TOS for IPv4
EcnKnown(q) == ~EcnOk(q) /\ e.ecn = 0 /\ Len(e.dgs) > 1
MetaFlags(q) == Flag(EcnOk(q) \/ EcnKnown(q), "EcnCodepointMismatch")
                \cup Flag(e.addr = q.src, "SourceAddressMismatch")
                \cup Flag(e.dst_ip = q.dst, "DestinationIpMismatch")
Dev(q) == IF EcnKnown(q) THEN {"EcnLostOnCoalescedReceive"} ELSE {}
Remove(s, i) == SubSeq(s, 1, i - 1) \o SubSeq(s, i + 1, Len(s))
First(S) == CHOOSE i \in S : \A j \in S : i <= j

\* every slice must be one owed datagram that has not been received yet; prefer an exact match
RECURSIVE Match(_, _, _, _, _, _)
Match(j, p, o, d, fl, dv) ==
  IF j > Len(e.dgs) THEN <<p, o, d, fl, dv>>
  ELSE LET id == e.dgs[j]
           sp == {i \in 1..Len(p) : p[i].id = id}
           so == {i \in 1..Len(o) : o[i].id = id}
           fp == {i \in sp : MetaFlags(p[i]) = {}}
           fo == {i \in so : MetaFlags(o[i]) = {}}
       IN IF fp # {} THEN LET i == First(fp) IN Match(j + 1, Remove(p, i), o, d \cup {id}, fl, dv \cup Dev(p[i]))
          ELSE IF fo # {} THEN LET i == First(fo) IN Match(j + 1, p, Remove(o, i), d \cup {id}, fl, dv \cup Dev(o[i]))
          ELSE IF sp # {} THEN LET i == First(sp) IN Match(j + 1, Remove(p, i), o, d \cup {id}, fl \cup MetaFlags(p[i]), dv)
          ELSE IF so # {} THEN LET i == First(so) IN Match(j + 1, p, Remove(o, i), d \cup {id}, fl \cup MetaFlags(o[i]), dv)
          ELSE Match(j + 1, p, o, d,
                     fl \cup (IF id \in d THEN {"DatagramReceivedTwice"} ELSE {"ReceivedDatagramNeverSent"}), dv)

Recvd ==
  /\ Is("Recvd")
  /\ LET strideOk == e.stride >= 1 /\ e.stride <= e.len
         n == Len(e.dgs)
         splitOk == strideOk =>
                      /\ n = CeilDiv(e.len, e.stride)
                      /\ \A j \in 1..n : e.dgs[j][1] = IF j < n THEN e.stride ELSE e.len - (n - 1) * e.stride
         r == Match(1, pend, opt, done, {}, {})
     IN /\ bad' = bad
             \cup Flag(strideOk, "StrideOutOfRange")
             \cup Flag(splitOk, "StrideSplitInexact")
             \cup Flag(e.len <= cf.bufsz, "LengthExceedsBuffer")
             \cup Flag(e.port = cf.sport, "SourcePortMismatch")
             \cup Flag(e.i <= e.n /\ e.n <= Min(cf.iov, cf.batch), "MoreMessagesThanBuffers")
             \cup r[4]
        /\ pend' = r[1] /\ opt' = r[2] /\ done' = r[3]
        /\ deviations' = deviations \cup r[5]
  /\ l' = l + 1 /\ UNCHANGED <<cf, deg, stale, cur>>

\* the socket has been drained: loopback does not lose
End ==
  /\ Is("End")
  /\ bad' = bad \cup Flag(pend = <<>>, "DatagramLost")
  /\ deviations' = IF \E i \in 1..Len(opt) : opt[i].st
                    THEN deviations \cup {"LegalSendFailsAfterEmsgsize"} ELSE deviations
  /\ l' = l + 1 /\ UNCHANGED <<pend, opt, done, cf, deg, stale, cur>>

TNext == (Reset \/ Sent \/ Recvd \/ End)
         /\ (deviations' \subseteq deviations
             \/ PrintT(<<"KNOWN", deviations' \ deviations, "line", l, "run", cur>>))
TraceSpec == TInit /\ [][TNext]_vars

Watch == TLCSet(1, <<l, bad, cur>>) /\ bad = {}
TraceAccepted ==
  LET r == TLCGet(1) d == TLCGet("stats").diameter IN
  IF r[2] # {} THEN Print(<<"VIOLATION", r[2], "line", r[1] - 1, "run", r[3]>>, FALSE)
  ELSE IF d - 1 # N THEN Print(<<"UNMATCHED", "line", d, "run", r[3]>>, FALSE)
  ELSE TRUE
=============================================================================
