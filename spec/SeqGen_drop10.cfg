CONSTANT Alphabet = {"ok", "x"}
CONSTANT N = 10
INIT Init
NEXT Next
INVARIANT Emit
CHECK_DEADLOCK FALSE
