--------------------------- MODULE LifecycleTrace ---------------------------
(***************************************************************************)
(* Trace validation of recorded quinn-proto executions against Lifecycle.  *)
(* One record per line (projection "lifecycle" written by the harness);    *)
(* a Reset record starts the history of one connection.  Every line is     *)
(* consumed by exactly one step, the effect of the matching Lifecycle      *)
(* action is applied with the logged post-state, and every clause of C08   *)
(* is an invariant evaluated after every line.                             *)
(***************************************************************************)
EXTENDS Lifecycle, Integers, TLC, Json, IOUtils

Rec == ndJsonDeserialize(IOEnv.TRACE)
N == Len(Rec)

VARIABLES
  l,        \* next line
  bad,      \* names of violated clauses detected while applying a line
  t0,       \* time the connection was created
  idle,     \* negotiated idle timeout (us), -1 if none
  tEnter,   \* time the connection stopped being open, -1 before
  pto3,     \* three probe timeouts as of that moment
  lastRx,   \* time of the last authenticated receipt
  lastRestart, \* last event that legitimately restarts the idle timer
  pto3r,    \* three probe timeouts as of that event
  idleR,    \* idle timeout in force at that event (-1: none)
  aeSinceRx,\* an ack-eliciting packet was sent since the last authenticated receipt
  itm, ctm, \* logged timer deadlines (-1 unarmed)
  closes,   \* CONNECTION_CLOSE frames (as <<app, code, reason>>) the peer delivered
  mustAnnounce, \* local close not yet put on the wire
  started,  \* first packet sent or received
  hostile,  \* run contains injected / corrupted traffic
  late,     \* how late the driver may service timers (us)
  cur       \* <<run, node, conn>> for diagnostics

tvars == <<l, bad, t0, idle, tEnter, pto3, lastRx, lastRestart, pto3r, idleR, aeSinceRx, itm, ctm, closes,
           mustAnnounce, started, hostile, late, cur>>
vars == <<lvars, tvars>>

e == Rec[l]
Is(k) == l <= N /\ e.ev = k
Max(a, b) == IF a >= b THEN a ELSE b

Flag(c, name) == IF c THEN {} ELSE {name}

\* bookkeeping shared by all steps
Keep == UNCHANGED <<t0, idle, hostile, late, cur>>

TInit ==
  /\ LInit
  /\ l = 1 /\ bad = {} /\ t0 = 0 /\ idle = -1 /\ tEnter = -1 /\ pto3 = 0 /\ lastRx = 0
  /\ lastRestart = 0 /\ pto3r = 0 /\ idleR = -1 /\ aeSinceRx = FALSE /\ itm = -1 /\ ctm = -1 /\ closes = {} /\ mustAnnounce = FALSE
  /\ started = FALSE /\ hostile = FALSE /\ late = 0 /\ cur = <<0, 0, 0>>

Reset ==
  /\ Is("Reset")
  /\ st' = e.st /\ errSlot' = "none" /\ closeFlag' = FALSE /\ closeTimer' = FALSE
  /\ idleTimer' = TRUE /\ lostReported' = 0 /\ drainedEv' = 0 /\ epHas' = TRUE
  /\ localClosed' = FALSE /\ cause' = "none" /\ deviations' = {}
  /\ l' = l + 1 /\ bad' = {} /\ t0' = e.t /\ idle' = e.idle /\ tEnter' = -1 /\ pto3' = 0
  /\ lastRx' = e.t /\ lastRestart' = e.t /\ pto3r' = e.pto3 /\ idleR' = e.idle
  /\ aeSinceRx' = FALSE /\ itm' = -1 /\ ctm' = -1
  /\ closes' = {} /\ mustAnnounce' = FALSE /\ started' = FALSE /\ hostile' = e.hostile
  /\ late' = e.late /\ cur' = <<e.run, e.n, e.c>>

\* leaving the open states: remember when, and the probe timeout of that moment
Enter(s2) ==
  IF Open(st) /\ ~Open(s2) THEN tEnter' = e.t /\ pto3' = e.pto3
                            ELSE UNCHANGED <<tEnter, pto3>>

Timers == itm' = e.itm /\ ctm' = e.ctm

\* the idle timeout may have been renegotiated once the peer's parameters arrive
IdleNow == idle' = e.idle

Close ==
  /\ Is("Close")
  /\ DoLocalClose
  /\ bad' = bad \cup Flag(st' = e.st, "CloseState") \cup Flag(closeFlag' = e.close, "CloseFlag")
  /\ mustAnnounce' = (Open(st) /\ ~e.ampb)
  /\ Enter(e.st) /\ Timers /\ l' = l + 1
  /\ UNCHANGED <<t0, idle, hostile, late, cur, lastRx, lastRestart, pto3r, idleR, aeSinceRx, closes,
                 started>>

\* choose the action by the observed transition; its guard and the harness' knowledge of what
\* the datagram was (genuine peer close / exact reset token / anything else) must allow it
Rx ==
  /\ Is("Rx")
  /\ LET s2 == e.st IN
     \/ /\ st # "drained" /\ s2 = "drained"
        /\ DoRecvReset
        /\ bad' = bad \cup Flag(e.kind \in {"reset", "reset?"}, "ResetWithoutToken")
        /\ UNCHANGED closes
     \/ /\ st # "draining" /\ s2 = "draining"
        /\ DoRecvPeerClose
        /\ closeFlag' = e.close
        /\ bad' = bad \cup Flag(CanRecvPeerClose, "PeerCloseState")
                      \cup Flag(e.kind = "peerclose", "DrainingWithoutPeerClose")
        /\ closes' = closes \cup {<<x.app, x.code, x.reason>> : x \in {e.closes[i] : i \in DOMAIN e.closes}}
     \/ /\ Open(st) /\ s2 = "closed"
        /\ DoRecvError
        /\ bad' = bad \cup Flag(hostile, "ProtocolErrorOnHonestTraffic")
        /\ UNCHANGED closes
     \/ /\ (s2 = st \/ (st = "hs" /\ s2 = "est"))
        /\ DoRecvBenign /\ st' = s2 /\ closeFlag' = e.close
        \* an exact stateless reset must not be ignored by a connection that is not yet drained
        /\ bad' = bad \cup Flag(~(e.kind = "reset" /\ st # "drained"), "ResetIgnored")
                      \* a closed connection answers every packet of its peer with the close again (the
                      \* first one may have been lost): the flag that makes the next transmission a
                      \* close is up after the packet
                      \cup Flag((st = "closed" /\ e.gen1 /\ e.onpath /\ e.kind = "other") => e.close,
                                "CloseNotRepeated")
        /\ UNCHANGED closes
     \/ /\ ~(s2 = st \/ (st = "hs" /\ s2 = "est"))
        /\ ~(st # "drained" /\ s2 = "drained") /\ ~(st # "draining" /\ s2 = "draining")
        /\ ~(Open(st) /\ s2 = "closed")
        /\ bad' = bad \cup {"IllegalTransitionOnRx"}
        /\ st' = s2 /\ UNCHANGED <<errSlot, closeFlag, closeTimer, idleTimer, lostReported,
                                   drainedEv, epHas, localClosed, cause, deviations, closes>>
  /\ Enter(e.st) /\ Timers /\ IdleNow /\ l' = l + 1
  /\ LET restart == e.authed > 0 /\ Open(e.st) IN
       /\ lastRx' = IF restart THEN e.t ELSE lastRx
       /\ lastRestart' = IF restart THEN e.t ELSE lastRestart
       /\ pto3r' = IF restart THEN e.pto3 ELSE pto3r
       \* the negotiated timeout may change while the packets of this datagram are processed
       \* (peer parameters arrive): then nothing is demanded until the next restart
       /\ idleR' = IF restart THEN (IF e.pidle = e.idle THEN e.idle ELSE -1) ELSE idleR
       /\ aeSinceRx' = IF e.authed > 0 THEN FALSE ELSE aeSinceRx
  /\ started' = TRUE
  /\ UNCHANGED <<t0, hostile, late, cur, mustAnnounce>>

Timeout ==
  /\ Is("Timeout")
  /\ LET s2 == e.st IN
     \/ /\ Open(st) /\ s2 = "drained"
        /\ DoIdleTimer
        /\ bad' = bad \cup Flag(itm # -1 /\ e.t >= itm, "IdleFiredEarly")
                      \cup Flag(idle # -1 /\ e.t >= lastRx + idle, "TimedOutBeforeIdleTimeout")
     \/ /\ st \in {"closed", "draining"} /\ s2 = "drained"
        /\ DoCloseTimer
        /\ bad' = bad \cup Flag(ctm # -1 /\ e.t >= ctm, "CloseTimerFiredEarly")
     \/ /\ s2 = st
        /\ UNCHANGED lvars /\ UNCHANGED bad
     \/ /\ s2 # st /\ s2 # "drained"
        /\ bad' = bad \cup {"IllegalTransitionOnTimeout"}
        /\ st' = s2 /\ UNCHANGED <<errSlot, closeFlag, closeTimer, idleTimer, lostReported,
                                   drainedEv, epHas, localClosed, cause, deviations>>
  /\ Enter(e.st) /\ Timers /\ l' = l + 1
  /\ UNCHANGED <<t0, idle, hostile, late, cur, lastRx, lastRestart, pto3r, idleR, aeSinceRx, closes,
                 mustAnnounce, started>>

ReasonOk ==
  CASE errSlot = "peer"  -> /\ e.k \in {"ApplicationClosed", "ConnectionClosed"}
                            /\ <<e.k = "ApplicationClosed", e.code, e.reason>> \in closes
    [] errSlot = "error" -> e.k \in {"TransportError", "VersionMismatch"}
    [] errSlot = "reset" -> e.k = "Reset"
    [] errSlot = "idle"  -> e.k = "TimedOut"
    [] OTHER -> FALSE

Lost ==
  /\ Is("Lost")
  /\ DoAppPoll
  /\ bad' = bad \cup Flag(CanAppPoll, "LostWithoutPendingReason") \cup Flag(ReasonOk, "WrongReason")
  /\ l' = l + 1
  /\ UNCHANGED <<t0, idle, tEnter, pto3, lastRx, lastRestart, pto3r, idleR, aeSinceRx, itm, ctm,
                 closes, mustAnnounce, started, hostile, late, cur>>

Drained ==
  /\ Is("Drained")
  /\ DoEmitDrained
  /\ bad' = bad \cup Flag(CanEmitDrained, "DrainedTwiceOrEarly")
                \cup Flag(~e.dup, "DrainedTwiceOrEarly")
                \cup Flag(e.epc_post = e.epc_pre - 1 /\ e.left = 0, "EndpointDidNotForget")
  /\ l' = l + 1
  /\ UNCHANGED <<t0, idle, tEnter, pto3, lastRx, lastRestart, pto3r, idleR, aeSinceRx, itm, ctm,
                 closes, mustAnnounce, started, hostile, late, cur>>

Tx ==
  /\ Is("Tx")
  /\ \/ /\ Open(st)
        /\ UNCHANGED lvars
        /\ bad' = bad
     \/ /\ st \in {"closed", "draining"} /\ e.kind = "close"
        /\ DoSendClose /\ closeFlag' = e.close
        /\ bad' = bad \cup Flag(CanSendClose, "CloseSentWithoutFlag")
                      \* RFC 9000 10.2.3: what the application said goes out under 1-RTT (0-RTT) protection only;
                      \* Initial and Handshake packets carry the transport-level APPLICATION_ERROR instead
                      \cup Flag(~e.appearly, "ApplicationCloseBelowOneRtt")
     \/ /\ st \in {"closed", "draining"} /\ e.kind = "pathchal"
        /\ UNCHANGED lvars
        /\ bad' = bad
     \/ /\ st \in {"closed", "draining"} /\ e.kind = "data"
        /\ UNCHANGED lvars
        /\ bad' = bad \cup {"DataAfterClose"}
     \/ /\ st = "drained"
        /\ UNCHANGED lvars
        /\ bad' = bad \cup {"OutputAfterDrained"}
  /\ mustAnnounce' = (mustAnnounce /\ e.kind # "close")
  /\ Timers /\ l' = l + 1
  /\ LET restart == e.ae /\ ~aeSinceRx /\ Open(st) IN
       /\ lastRestart' = IF restart THEN e.t ELSE lastRestart
       /\ pto3r' = IF restart THEN e.pto3 ELSE pto3r
       /\ idleR' = IF restart THEN e.pidle ELSE idleR
  /\ aeSinceRx' = (aeSinceRx \/ e.ae)
  /\ started' = TRUE
  /\ IdleNow
  /\ UNCHANGED <<t0, hostile, late, cur, tEnter, pto3, lastRx, closes>>

\* any other application event: nothing may be delivered once the connection is drained
Other ==
  /\ Is("AppEvent")
  /\ bad' = bad \cup Flag(st # "drained", "EventAfterDrained")
  /\ l' = l + 1
  /\ UNCHANGED lvars
  /\ UNCHANGED <<t0, idle, tEnter, pto3, lastRx, lastRestart, pto3r, idleR, aeSinceRx, itm, ctm,
                 closes, mustAnnounce, started, hostile, late, cur>>

End ==
  /\ Is("End")
  /\ bad' = bad \cup Flag(~(st \in {"closed", "draining"} /\ e.t > tEnter + pto3 + late + 1000),
                          "NotDrainedWithinThreePTO")
                \cup Flag(st = "drained" => drainedEv = 1, "DrainedNeverEmitted")
                \cup Flag(~(Open(st) /\ idleR # -1 /\ started
                            /\ e.t > lastRestart + Max(idleR, pto3r) + late + 1000),
                          "SilentPeerNotTimedOut")
  /\ l' = l + 1
  /\ UNCHANGED lvars
  /\ UNCHANGED <<t0, idle, tEnter, pto3, lastRx, lastRestart, pto3r, idleR, aeSinceRx, itm, ctm,
                 closes, mustAnnounce, started, hostile, late, cur>>

TStep == Reset \/ Close \/ Rx \/ Timeout \/ Lost \/ Drained \/ Tx \/ Other \/ End

\* an exercised known finding is printed once, when it happens, and does not fail the check
TNext == TStep /\ (deviations' \subseteq deviations
                   \/ PrintT(<<"KNOWN", deviations' \ deviations, "line", l, "run", cur>>))

TraceSpec == TInit /\ [][TNext]_vars

-----------------------------------------------------------------------------
NoViolation == bad = {}

\* a local close is announced at once: the step right after Close is the Tx carrying it
AnnouncedAtOnce == (mustAnnounce /\ l <= N) => Rec[l].ev = "Tx"

\* Timer::Close is armed while closed/draining and not later than three probe timeouts
CloseTimerBound ==
  st \in {"closed", "draining"} => (ctm # -1 /\ ctm <= tEnter + pto3 + 5)

\* Timer::Idle: never earlier than idle timeout after the last authenticated receipt, never
\* later than max(idle, 3 PTO) after the last event that restarts it, armed while open
IdleTimerBound ==
  (Open(st) /\ idleR # -1 /\ started) =>
     /\ itm # -1
     /\ itm >= lastRx + idleR
     /\ itm <= lastRestart + Max(idleR, pto3r) + 5

DrainedEmittedAtOnce == (st = "drained" /\ drainedEv = 0 /\ l <= N) => Rec[l].ev \in {"Drained"}

\* names of the clauses of C08 that do not hold in the current state
Violations ==
  bad \cup Flag(AnnouncedAtOnce, "NotAnnouncedAtOnce") \cup Flag(CloseTimerBound, "CloseTimerBound")
      \cup Flag(IdleTimerBound, "IdleTimerBound") \cup Flag(DrainedEmittedAtOnce, "DrainedNotEmittedAtOnce")
      \cup Flag(ReportedAtMostOnce, "ReportedMoreThanOnce")
      \cup Flag(NothingAfterLocalClose, "ReportAfterLocalClose")
      \cup Flag(DrainedAtMostOnce, "DrainedTwice") \cup Flag(DrainedOnlyWhenDrained, "DrainedEarly")

\* Evaluated on every state (as a state constraint, -workers 1): remember where we are; stop
\* exploring behind the first violating line so that the report is short.
Watch == TLCSet(1, <<l, Violations, cur>>) /\ Violations = {}

TraceAccepted ==
  LET r == TLCGet(1) d == TLCGet("stats").diameter IN
  IF r[2] # {} THEN Print(<<"VIOLATION", r[2], "line", r[1] - 1, "run", r[3]>>, FALSE)
  ELSE IF d - 1 # N THEN Print(<<"UNMATCHED", "line", d, "run", r[3]>>, FALSE)
  ELSE TRUE
=============================================================================
