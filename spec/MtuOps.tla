------------------------------- MODULE MtuOps -------------------------------
(***************************************************************************)
(* Variable-free operators of path-MTU discovery as quinn implements it    *)
(* (quinn-proto/src/connection/mtud.rs), shared by the design model        *)
(* (Mtu.tla) and the trace specification (MtuTrace.tla).                   *)
(*                                                                         *)
(* A search is the record [lo, hi, last, lost]:                            *)
(*   lo, hi  bounds of the binary search (SearchState::lower_bound /       *)
(*           upper_bound), last = last_probed_mtu, lost = lost_probe_count *)
(* A probe size of 0 stands for "no probe" (Option::None).                 *)
(***************************************************************************)
EXTENDS Naturals, Integers, Sequences

Min(a, b) == IF a <= b THEN a ELSE b
Max(a, b) == IF a >= b THEN a ELSE b
Abs(x) == IF x < 0 THEN 0 - x ELSE x
\* u16::clamp(lo, hi) with lo <= hi
Clamp(v, lo, hi) == Max(lo, Min(v, hi))

MaxProbeRetransmits == 3      \* MAX_PROBE_RETRANSMITS
BlackHoleThreshold == 3       \* BLACK_HOLE_THRESHOLD

\* SearchState::new(current_mtu, peer_max_udp_payload_size, config)
StartSearch(mtu, peer, upper) ==
  LET lo == Min(mtu, peer) IN
  [lo |-> lo, hi |-> Clamp(upper, lo, peer), last |-> lo, lost |-> 0]

\* the bookkeeping EnabledMtuDiscovery::poll_transmit + next_mtu_to_probe do before choosing a
\* new size: a success moves the lower bound up, MAX_PROBE_RETRANSMITS losses move the upper
\* bound below the size that failed
Adjust(s) == IF s.lost = 0 THEN [s EXCEPT !.lo = s.last]
             ELSE [s EXCEPT !.hi = s.last - 1, !.lost = 0]

\* a lost probe is retransmitted with the same size until MAX_PROBE_RETRANSMITS losses
Retransmits(s) == 0 < s.lost /\ s.lost < MaxProbeRetransmits

\* SearchState::next_mtu_to_probe on an adjusted search, exactly as quinn computes it; 0 = search
\* finished
NextSizeQuinn(a, minchg) ==
  LET m == (a.lo + a.hi) \div 2 IN
  IF Abs(m - a.last) < minchg
    THEN (IF Max(a.hi - a.last, 0) >= minchg THEN a.hi ELSE 0)
    ELSE m
\* The design: a probe only makes sense above the lower bound (the size already known to work).
\* TLC found that quinn's formula does not guarantee this for minimum_change <= 2: with lo = 1200,
\* hi = 1201, minimum_change = 1 three lost probes of 1201 give hi = 1200 and a probe of 1200 (the
\* estimate itself), three more losses give hi = 1199 and a probe of 1199, whose acknowledgement
\* lowers the estimate below min_mtu.  The trace specification reports such probes as the named
\* deviation ProbeNotAboveEstimate.
NextSize(a, minchg) == LET x == NextSizeQuinn(a, minchg) IN IF x <= a.lo THEN 0 ELSE x

\* the size of the next probe of search s (0 = none: the search is complete)
ProbeSize(s, minchg) == IF Retransmits(s) THEN s.last ELSE NextSize(Adjust(s), minchg)
ProbeSizeQuinn(s, minchg) == IF Retransmits(s) THEN s.last ELSE NextSizeQuinn(Adjust(s), minchg)
\* the search after a probe of size x > 0 was sent
AfterProbe(s, x) == IF Retransmits(s) THEN s ELSE [Adjust(s) EXCEPT !.last = x]

(***************************************************************************)
(* Black hole detector.  det = [susp, lp, acked]: sizes of the smallest    *)
(* packet of each suspicious loss burst, packet number of                  *)
(* largest_post_loss_packet, acked_mtu.  A burst is [latest, smallest].    *)
(***************************************************************************)
NewDetector(minmtu) == [susp |-> <<>>, lp |-> 0, acked |-> minmtu]

RECURSIVE Keep(_, _)
Keep(q, len) == IF q = <<>> THEN <<>>
                ELSE IF Head(q) > len THEN <<Head(q)>> \o Keep(Tail(q), len) ELSE Keep(Tail(q), len)

OnProbeAcked(d, pn, len) == [susp |-> <<>>, lp |-> pn, acked |-> len]
OnNonProbeAcked(d, pn, len) ==
  IF len <= d.acked THEN d ELSE [susp |-> Keep(d.susp, len), lp |-> pn, acked |-> len]

RECURSIVE MinIdx(_, _, _)
MinIdx(q, i, best) == IF i > Len(q) THEN best
                      ELSE MinIdx(q, i + 1, IF q[i] < q[best] THEN i ELSE best)

\* BlackHoleDetector::finish_loss_burst
FinishBurst(d, b, minmtu) ==
  IF b.smallest <= minmtu \/ (b.latest < d.lp /\ b.smallest <= d.acked) THEN d
  ELSE LET d1 == IF b.latest > d.lp THEN [d EXCEPT !.acked = minmtu] ELSE d IN
       IF Len(d1.susp) <= BlackHoleThreshold
         THEN [d1 EXCEPT !.susp = Append(d1.susp, b.smallest)]
         ELSE LET k == MinIdx(d1.susp, 1, 1) IN
              IF d1.susp[k] < b.smallest THEN [d1 EXCEPT !.susp[k] = b.smallest] ELSE d1
=============================================================================
