CONSTANT Alphabet = {"j0", "j1", "s8", "s21", "s22", "s23", "s40", "s100", "s1200", "sx100", "lb7", "lb13", "lb14", "lb47", "lb100", "lb1200", "lbx100", "lbc100", "lz50", "li100", "li1199", "li1200", "li1300", "lis1200", "lh100", "lq100", "lr100", "lt20"}
CONSTANT N = 2
INIT Init
NEXT Next
INVARIANT Emit
CHECK_DEADLOCK FALSE
