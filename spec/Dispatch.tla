------------------------------- MODULE Dispatch -------------------------------
(***************************************************************************)
(* Two endpoints that share no connection and answer each other's          *)
(* datagrams by DispatchOps!Outcome.  Whatever the first datagram is, the  *)
(* exchange has to die out: a version negotiation packet is never          *)
(* answered, a close in an Initial packet is too short to be admitted, a   *)
(* stateless reset looks like a short-header packet for an unknown ID and  *)
(* is answered by a smaller one.                                           *)
(*   Dies       the exchange ends (no loop between two endpoints); resets  *)
(*              shrink, so its length is bounded by the first size         *)
(*   NoGrowth   an answer is never larger than three times its cause, a    *)
(*              reset is smaller than its cause                            *)
(* Variant ResetSameSize (a reset as large as what provoked it) is refuted *)
(* by Dies and NoGrowth.                                                           *)
(***************************************************************************)
EXTENDS Integers, FiniteSets, DispatchOps

CONSTANTS Sizes,          \* sizes of the first datagram
          CloseSize,
          ResetSameSize   \* defect variant

Forms == [form : {"junk"}, ver : {"ok"}, ty : {"I"}, cidok : {TRUE}, cids : {0}, size : Sizes]
         \cup [form : {"short"}, ver : {"ok"}, ty : {"I"}, cidok : BOOLEAN, cids : {0}, size : Sizes \ {0}]
         \cup {d \in [form : {"long"}, ver : {"ok", "bad", "zero"}, ty : {"I", "Z", "H", "R"}, cidok : {TRUE},
                       cids : {0, 8, 16, 40}, size : Sizes] : d.size >= 7 + d.cids}

VARIABLES dg,     \* the datagram in flight, or <<>>
          to      \* who receives it: each endpoint is a server or not

dvars == <<dg, to>>
\* server/server, server/client, client/client
RolesUsed == {[a |-> TRUE, b |-> TRUE], [a |-> TRUE, b |-> FALSE], [a |-> FALSE, b |-> FALSE]}
DInit == dg \in Forms /\ to \in {"a", "b"}

Other(x) == IF x = "a" THEN "b" ELSE "a"
\* the sizes explored for a reset: the extremes and the sizes of interest in between
ResetChoices(n) == {r \in ResetSizes(n) : r \in Sizes \/ r = n - 1 \/ r = MinReset}

Answer(role) ==
  /\ dg # <<>>
  /\ LET o == Outcome(dg, role[to], FALSE) IN
     CASE o = "vn" -> dg' = [form |-> "long", ver |-> "zero", ty |-> "I", cidok |-> TRUE, cids |-> dg.cids, size |-> VnSize(dg)]
       [] o = "reset" -> \E r \in (IF ResetSameSize THEN {dg.size} ELSE ResetChoices(dg.size)) :
                           dg' = [form |-> "short", ver |-> "ok", ty |-> "I", cidok |-> TRUE, cids |-> 0, size |-> r]
       [] o = "admit" -> \* the worst admission can do without a connection: a close in an Initial packet, or nothing
                         \/ dg' = [form |-> "long", ver |-> "ok", ty |-> "I", cidok |-> TRUE, cids |-> 16, size |-> CloseSize]
                         \/ dg' = <<>>
       [] OTHER -> dg' = <<>>
  /\ to' = Other(to)

DNext == \E role \in RolesUsed : Answer(role)
DSpec == DInit /\ [][DNext]_dvars /\ WF_dvars(DNext)

Dies == <>(dg = <<>>)
NoGrowth == [][dg' # <<>> => (dg'.size <= 3 * dg.size /\ (dg'.form = "short" => dg'.size < dg.size))]_dvars
=============================================================================
