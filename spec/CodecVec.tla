------------------------------ MODULE CodecVec ------------------------------
(***************************************************************************)
(* Enumeration of codec test vectors (property C10) and the theorems about *)
(* the reference codecs of module Codec that TLC checks on them.           *)
(* One state machine serves both: the initial states are (family, chunk)   *)
(* pairs, every successor is one vector of that chunk.                     *)
(*   MC_Codec.cfg    INVARIANT Thm   round trips, window theorem, totality *)
(*   CodecGen_*.cfg  INVARIANT Emit  prints each vector as a GEN line for  *)
(*                                   the differential replay               *)
(***************************************************************************)
EXTENDS Codec, Json

CONSTANTS Fams,    \* families to enumerate: subset of FamAll
          W,       \* half width of the packet number neighbourhoods
          Scale    \* "mc" (theorems, small domains), "quick" (vectors, small domains) or "gen" (vectors, full)
VARIABLE x

FamAll == {"var", "pn", "frame", "ackraw", "close", "tp", "pkt", "token", "tokenraw", "cidgen", "b2", "b4"}

B9s == <<N(0), N(1), N(63), N(64), N(16383), N(16384), N(T30 - 1), N(T30), NMax>>
B9 == {B9s[i] : i \in 1..9}
B5 == {N(0), N(1), N(63), N(64), N(T30), NMax}
B3 == {N(0), N(16384), NMax}
SmallDom == Scale \in {"mc", "quick"}
BV == IF SmallDom THEN B5 ELSE B9          \* per-field values of frames with <= 3 fields
Iota(k) == [i \in 1..k |-> i % 256]
Datas == {<<>>, <<7>>, <<1, 2, 3, 4, 5>>, Iota(64)}
Cid8 == <<161, 162, 163, 164, 165, 166, 167, 168>>
Cid20 == [i \in 1..20 |-> 200 + i]
Tok16 == [i \in 1..16 |-> 16 + i]
V1 == <<0, 0, 0, 1>>

\* ------------------------------------------------------------------ varints
VarBoundary ==
  {N(k) : k \in (T14 - 4)..(T14 + 64)} \cup {N(k) : k \in (T30 - 64)..(T30 + 64)} \cup {N(M31 - k) : k \in 0..8}
  \cup {<<1, k>> : k \in 0..8} \cup {<<1, M31 - k>> : k \in 0..4} \cup {<<2, k>> : k \in 0..4}
  \cup {<<h, l>> : h \in {3, 255, 256, 65535, 65536, T24, T30 - 1, T30, M31 - 1, M31}, l \in {0, 1, 255, 256, T30, M31 - 1, M31}}
VarChunk(c) == IF c < 16 THEN {N(k) : k \in (c * 1024)..(c * 1024 + 1023)} ELSE VarBoundary
VarItems(c) == {[k |-> "Var", v |-> v, bytes |-> Enc(v)] : v \in VarChunk(c)}
VarThm(it) ==
  LET v == it.v s == VSize(v) IN
  /\ Len(it.bytes) = s /\ IsBytes(it.bytes)
  /\ Dec(it.bytes) = [ok |-> TRUE, v |-> v, p |-> s + 1, s |-> s]
  /\ \A z \in {1, 2, 4, 8} : z >= s => Dec(EncSized(v, z)) = [ok |-> TRUE, v |-> v, p |-> z + 1, s |-> z]
  /\ \A z \in 0..(s - 1) : ~Dec(SubSeq(it.bytes, 1, z)).ok          \* every strict prefix is an error

\* ----------------------------------------------------------- packet numbers
\* distances n - la next to the size boundaries 2^7, 2^15, 2^23 and below the limit 2^31
DBase == <<1, 128, 32768, 8388608, M31 - 2 * W + 2>>
Dist(b) == IF b = 1 THEN 1..(2 * W) ELSE IF b = 5 THEN DBase[5]..M31 ELSE (DBase[b] - W)..(DBase[b] + W - 1)
Las == <<N(0), N(1000), N(M31 - 5), <<1, 0>>, <<5, 77>>, <<T30, 123>>>>
\* expected packet numbers at both ends of and inside the window in which decoding must be exact
Expecteds(n, la, k) ==
  LET top == NSub(NAdd(n, HWin(k)), N(1)) IN
  {NAdd(la, N(j)) : j \in 1..W}
  \cup {e \in {NSub(NAdd(n, N(W)), N(j)) : j \in 0..(2 * W)} : NLt(la, e)}
  \cup {e \in {NSub(top, N(j)) : j \in 0..(W - 1)} : NLt(la, e)}
PnItems(b, a) ==
  UNION {{[k |-> "PnPoint", n |-> n, la |-> Las[a], e |-> e] : e \in Expecteds(n, Las[a], PnLen(n, Las[a]))} :
           n \in {NAdd(Las[a], N(d)) : d \in Dist(b)}}
PnThm(it) ==
  LET k == PnLen(it.n, it.la) t == ModWin(it.n, k) IN
  /\ Truncate(it.n, it.la) = PnBytes(t, k) /\ Len(Truncate(it.n, it.la)) = k
  /\ FromBytes(Truncate(it.n, it.la)) = t
  /\ InWindow(it.n, it.la, k, it.e) => Expand(t, k, it.e) = it.n
  \* the window is tight: one past its upper end the number decodes to something else
  /\ Expand(t, k, NAdd(it.n, HWin(k))) # it.n
\* generator: windows of `cnt` consecutive expected values for the replay
PnWindows(n, la) ==
  LET k == PnLen(n, la)
      cnt == IF k = 1 THEN 1024 ELSE 131072
      top == NAdd(n, HWin(k))
      lo == NAdd(la, N(1))
      mid == IF NLe(NAdd(lo, N(cnt \div 2)), n) THEN NSub(n, N(cnt \div 2)) ELSE lo
      hi == IF NLe(NAdd(lo, N(cnt)), top) THEN NSub(top, N(cnt - 64)) ELSE lo
  IN {[k |-> "Pn", n |-> n, la |-> la, e0 |-> e0, cnt |-> cnt] : e0 \in {lo, mid, hi}}
PnGenItems(b, a) == UNION {PnWindows(NAdd(Las[a], N(d)), Las[a]) : d \in Dist(b)}

\* -------------------------------------------------------------------- frames
PlainNames == {"PADDING", "PING", "RESET_STREAM", "STOP_SENDING", "MAX_DATA", "MAX_STREAM_DATA", "MAX_STREAMS_BIDI",
  "MAX_STREAMS_UNI", "DATA_BLOCKED", "STREAM_DATA_BLOCKED", "STREAMS_BLOCKED_BIDI", "STREAMS_BLOCKED_UNI",
  "RETIRE_CONNECTION_ID", "HANDSHAKE_DONE", "IMMEDIATE_ACK", "ACK_FREQUENCY"}
FrameNames == PlainNames \cup {"CRYPTO", "NEW_TOKEN", "CONNECTION_CLOSE", "APPLICATION_CLOSE", "DATAGRAM", "STREAM",
  "PATH_CHALLENGE", "PATH_RESPONSE", "NEW_CONNECTION_ID", "ACK"}
Tuples(S, k) == CASE k = 0 -> {<<>>} [] k = 1 -> {<<a>> : a \in S} [] k = 2 -> S \X S [] k = 3 -> S \X S \X S
                  [] k = 4 -> S \X S \X S \X S
Vals(k) == IF k = 4 THEN (IF SmallDom THEN B3 ELSE B9) ELSE BV
Paths == {Iota(8), <<0, 0, 0, 0, 0, 0, 0, 0>>, <<255, 255, 255, 255, 255, 255, 255, 255>>, <<128, 0, 0, 0, 0, 0, 0, 1>>}
AckGl == {<<>>} \cup {<<g, l>> : g \in {N(0), N(1), N(63), N(64)}, l \in {N(0), N(1), N(64)}}
          \cup {<<N(0), N(0), N(0), N(0)>>, <<N(64), N(63), N(0), N(1)>>, <<N(1), N(0), N(T14), N(2)>>}
AckFrames ==
  {AckFrame(lg, dl, fi, gl, ecn) :
     lg \in {N(T30), <<1, 5>>, NMax}, dl \in B3, fi \in {N(0), N(1), N(63), N(64), N(16384)}, gl \in AckGl,
     ecn \in {<<>>, <<N(0), N(0), N(0)>>, <<N(64), NMax, N(T30)>>}}
  \cup UNION {{AckFrame(N(lg), N(0), N(fi), <<>>, <<>>) : fi \in 0..lg} : lg \in 0..3}
  \cup {AckFrame(N(5), N(1), N(1), <<N(0), N(2)>>, <<>>), AckFrame(N(4), N(1), N(1), <<N(0), N(1)>>, <<>>),
        AckFrame(N(2), N(1), N(0), <<N(0), N(0)>>, <<>>)}
FramesOf(name) ==
  IF name \in PlainNames THEN {F(name, n, <<>>) : n \in Tuples(Vals(Plain[TypeCode[name]][2]), Plain[TypeCode[name]][2])}
  ELSE IF name \in {"CRYPTO", "NEW_TOKEN", "CONNECTION_CLOSE", "APPLICATION_CLOSE"} THEN
    {F(name, n, <<d>>) : n \in Tuples(BV, Blob[TypeCode[name]][2]), d \in Datas}
  ELSE IF name = "DATAGRAM" THEN {F(name, <<>>, <<d>>) : d \in Datas}
  ELSE IF name = "STREAM" THEN {F(name, <<id, off, N(fin)>>, <<d>>) : id \in BV, off \in BV, fin \in 0..1, d \in Datas}
  ELSE IF name \in {"PATH_CHALLENGE", "PATH_RESPONSE"} THEN {F(name, <<>>, <<d>>) : d \in Paths}
  ELSE IF name = "NEW_CONNECTION_ID" THEN
    {F(name, sr, <<c, Tok16>>) : sr \in {q \in BV \X BV : NLe(q[2], q[1])}, c \in {<<9>>, Cid8, Cid20}}
  ELSE AckFrames
FrameItems(name) ==
  {[k |-> "Frame", f |-> f, len |-> len, bytes |-> EncFrame(f, len)] :
     f \in FramesOf(name), len \in IF name \in {"STREAM", "DATAGRAM"} THEN BOOLEAN ELSE {TRUE}}
  \cup (IF name # "STREAM" THEN {} ELSE
        \* OFF bit set although the offset is zero: legal, decodes to the same frame
        {[k |-> "Bytes", d |-> <<"frames">>, bs |-> EncStream(id, N(0), N(fin), d, TRUE, len)] :
           id \in B3, fin \in {0, 1}, d \in Datas, len \in BOOLEAN})
FrameThm(it) ==
  IF it.k = "Bytes" THEN DecFrames(it.bs).ok
  ELSE /\ IsBytes(it.bytes)
       /\ DecFrames(it.bytes) = [ok |-> TRUE, frames |-> <<it.f>>]
       \* followed by another frame when the length is explicit
       /\ it.len => DecFrames(it.bytes \o <<1>>) = [ok |-> TRUE, frames |-> <<it.f, F("PING", <<>>, <<>>)>>]
       \* every strict prefix is an error or, for frames that run to the end of the packet, shorter data
       /\ \A z \in 1..(Len(it.bytes) - 1) :
            LET r == DecFrames(SubSeq(it.bytes, 1, z)) IN
            r.ok => /\ ~it.len /\ it.f.ty \in {"STREAM", "DATAGRAM"}
                    /\ r.frames = <<[it.f EXCEPT !.b = <<SubSeq(it.f.b[1], 1, Len(r.frames[1].b[1]))>>]>>

\* raw ACK frames, valid and not (range arithmetic running below zero)
EncAckRaw(c, lg, dl, fi, gl, ecn) ==
  EncI(c) \o Enc(lg) \o Enc(dl) \o EncI(Len(gl) \div 2) \o Enc(fi) \o EncAll(gl) \o EncAll(ecn)
AckRawItems ==
  {[k |-> "Bytes", d |-> <<"frames">>, bs |-> EncAckRaw(2, lg, N(0), fi, gl, <<>>)] :
     lg \in {N(0), N(1), N(2), N(3), N(5), N(64), NMax}, fi \in {N(0), N(1), N(2), N(3), N(4), N(65), NMax},
     gl \in {<<>>} \cup {<<g, l>> : g \in {N(0), N(1), N(2), NMax}, l \in {N(0), N(1), N(2), N(3), NMax}}
             \cup {<<N(0), N(0), g, l>> : g \in {N(0), N(1)}, l \in {N(0), N(1), N(2)}}}
  \cup {[k |-> "Bytes", d |-> <<"frames">>, bs |-> EncAckRaw(3, N(9), N(0), N(1), <<N(1), N(1)>>, ecn)] :
     ecn \in {<<>>, <<N(1)>>, <<N(1), N(2)>>, <<N(1), N(2), NMax>>}}
  \* a range count that promises more ranges than are present
  \cup {[k |-> "Bytes", d |-> <<"frames">>, bs |-> EncI(2) \o Enc(N(100)) \o Enc(N(0)) \o Enc(c) \o Enc(N(0)) \o EncAll(gl)] :
     c \in {N(1), N(2), N(63), N(T30), NMax}, gl \in {<<>>, <<N(0), N(0)>>, <<N(0), N(0), N(1), N(1)>>}}
  \* NEW_CONNECTION_ID: every length byte class, retire_prior_to above the sequence number
  \cup {[k |-> "Bytes", d |-> <<"frames">>, bs |-> EncI(24) \o Enc(s) \o Enc(r) \o <<cl>> \o Iota(cl + extra)] :
     s \in {N(0), N(5)}, r \in {N(0), N(5), N(6)}, cl \in {0, 1, 8, 20, 21, 255}, extra \in {0, 15, 16, 17}}
  \* CONNECTION_CLOSE naming small frame types
  \cup {[k |-> "Bytes", d |-> <<"frames">>, bs |-> EncFrame(F("CONNECTION_CLOSE", <<N(10), N(t)>>, <<<<33>>>>), TRUE)] : t \in 0..32}
AckRawThm(it) == DecFrames(it.bs).ok \in BOOLEAN

\* close frames with a reason that may not fit the space `max` offered to the encoder
CloseItems ==
  {[k |-> "Close", f |-> F("CONNECTION_CLOSE", <<c, t>>, <<Iota(r)>>), max |-> m] :
     c \in {N(0), N(10), N(300), N(T14), NMax}, t \in {N(0), N(6), N(175), NMax}, r \in {0, 20, 63, 64, 150, 300}, m \in {32, 64, 200, 1200}}
  \cup {[k |-> "Close", f |-> F("APPLICATION_CLOSE", <<c>>, <<Iota(r)>>), max |-> m] :
     c \in {N(0), N(63), N(64), N(T14 - 1), N(T14), N(T30), NMax}, r \in {0, 20, 63, 64, 150, 300}, m \in {32, 64, 200, 1200}}
CloseThm(it) == DecFrames(EncFrame(it.f, TRUE)) = [ok |-> TRUE, frames |-> <<it.f>>]

\* address validation tokens
TokenItems ==
  {[k |-> "Token", retry |-> r, ip |-> ip, port |-> port, cid |-> cid, dst |-> dst, secs |-> secs] :
     r \in BOOLEAN, ip \in {<<192, 0, 2, 7>>, Tok16}, port \in {0, 4433, 65535}, cid \in {<<>>, Cid8, Cid20},
     dst \in {<<>>, <<1, 2, 3, 4>>}, secs \in {N(0), N(42), N(1700000000), <<2, 5>>}}
TokenThm(it) == Len(EncRetryToken(it.ip, it.port, it.cid, B8(it.secs))) = 1 + 1 + Len(it.ip) + 2 + 1 + Len(it.cid) + 8
                /\ Len(EncValidationToken(it.ip, B8(it.secs))) = 1 + 1 + Len(it.ip) + 8
\* token plaintexts as a server holding the token key could find them: well formed, for another
\* address, malformed, and with issue times up to 2^64 - 1 seconds
Secs8 == {<<0, 0, 0, 0, 0, 0, 0, 0>>, <<0, 0, 0, 0, 0, 0, 1, 244>>, <<63, 255, 255, 255, 255, 255, 255, 255>>,
          <<128, 0, 0, 0, 0, 0, 0, 0>>, <<255, 255, 255, 255, 255, 255, 255, 255>>}
TokenRawItems ==
  {[k |-> "TokenRaw", dst |-> <<1, 2>>, plain |-> p] :
     p \in {EncRetryToken(ip, port, cid, s) : ip \in {<<192, 0, 2, 7>>, <<192, 0, 2, 8>>, Tok16}, port \in {4433, 4434},
                                             cid \in {<<>>, Cid8, Cid20}, s \in Secs8}
          \cup {EncValidationToken(ip, s) : ip \in {<<192, 0, 2, 7>>, <<192, 0, 2, 8>>, Tok16}, s \in Secs8}
          \cup {<<>>, <<0>>, <<1>>, <<2>>, <<2, 0, 192, 0, 2, 7, 0, 0, 0, 0, 0, 0, 0, 0>>, <<1, 2, 192, 0, 2, 7, 0, 0, 0, 0, 0, 0, 0, 0>>,
                <<1, 0, 192, 0, 2, 7, 0, 0, 0, 0, 0, 0, 0>>, <<1, 0, 192, 0, 2, 7, 0, 0, 0, 0, 0, 0, 0, 0, 0>>,
                <<0, 0, 192, 0, 2, 7, 17, 81, 21>> \o Iota(21) \o <<0, 0, 0, 0, 0, 0, 0, 0>>,
                <<0, 0, 192, 0, 2, 7, 17, 81, 20>> \o Iota(20) \o <<0, 0, 0, 0, 0, 0, 0, 0, 0>>,
                <<0, 0, 192, 0, 2, 7, 17, 81, 3, 1, 2>>}}
TokenRawThm(it) ==
  LET t == DecTokenPlain(it.plain) IN
  /\ t.ok \in BOOLEAN
  /\ t.ok => it.plain = IF t.retry THEN EncRetryToken(t.ip, t.port, t.cid, t.secs8) ELSE EncValidationToken(t.ip, t.secs8)
CidGenItems == {[k |-> "CidGen", key |-> key] : key \in {0, 1, 2, 3, 255, 65536, 12345678, M31}}

\* ------------------------------------------------------- transport parameters
Pa(v4, v6, cid) == [v4 |-> v4, v6 |-> v6, cid |-> cid, srt |-> Tok16]
Ip4 == <<<<127, 0, 0, 1>>, 42>>
Ip6 == <<[i \in 1..16 |-> IF i = 16 THEN 1 ELSE 0], 24>>
Pas == {<<>>, <<Pa(Ip4, <<>>, <<66>>)>>, <<Pa(<<>>, Ip6, Cid8)>>, <<Pa(Ip4, Ip6, Cid20)>>, <<Pa(Ip4, Ip6, <<>>)>>,
        <<Pa(<<>>, <<>>, Cid8)>>, <<Pa(<<<<0, 0, 0, 0>>, 1>>, <<>>, <<1>>)>>}
\* chunk 0..(2^11 - 1): the subset of integer parameters present; all present ones take B9s[j]
TpIntItems(c) ==
  {[k |-> "Tp", tp |-> [TpDefault EXCEPT !.ints = [i \in 1..11 |-> IF (c \div (2 ^ (i - 1))) % 2 = 1 THEN B9s[j] ELSE N(IntDefault[i])]]] :
     j \in IF SmallDom THEN {1, 4, 6, 9} ELSE 1..9}
\* chunk 2048..: the other parameters, legal integer parameters
TpOptItems(c) ==
  LET dam == c % 2 = 1
      grease == (c \div 2) % 2 = 1
      srt == IF (c \div 4) % 2 = 1 THEN <<Tok16>> ELSE <<>>
      ints == IF (c \div 8) % 2 = 1 THEN [i \in 1..11 |-> N(IntDefault[i])]
              ELSE [i \in 1..11 |-> N(<<30000, 1200, 1048576, 65536, 65537, 0, 100, 3, 20, 16383, 8>>[i])] IN
  {[k |-> "Tp", tp |-> [ints |-> ints, dam |-> dam, grease |-> grease, srt |-> srt, mdfs |-> mdfs, mad |-> mad,
                        iscid |-> iscid, odcid |-> odcid, rscid |-> rscid, pa |-> pa]] :
     mdfs \in {<<>>, <<N(0)>>, <<N(65535)>>, <<NMax>>},
     mad \in IF SmallDom THEN {<<>>, <<N(25000)>>} ELSE {<<>>, <<N(1000)>>, <<N(25000)>>, <<N(25001)>>, <<N(16383000)>>, <<N(16383001)>>},
     iscid \in {<<>>, <<<<>>>>, <<Cid8>>}, odcid \in {<<>>, <<Cid20>>}, rscid \in {<<>>, <<<<5>>>>}, pa \in Pas}
TpItems(c) == {[k |-> "Tp", tp |-> it.tp, bytes |-> EncTp(it.tp)] : it \in IF c < 2048 THEN TpIntItems(c) ELSE TpOptItems(c - 2048)}
TpThm(it) ==
  LET r == DecTpSyntax(it.bytes) IN
  /\ IsBytes(it.bytes)
  /\ r = [ok |-> TRUE, tp |-> it.tp, lax |-> FALSE]
  /\ \A side \in {"client", "server"} : DecTp(it.bytes, side).ok = TpLegal(it.tp, side)
  \* an unknown and a reserved parameter anywhere are skipped
  /\ DecTpSyntax(TpParam(N(27), <<1, 2, 3>>) \o it.bytes \o TpParam(<<M31, M31 - 3>>, <<>>)) = r

\* ------------------------------------------------------------ packet headers
\* one packet description: [kind, dcid, scid, token, n, la, rest, spin, kp, random]
Pk(kind, dcid, scid, token, n, la, rest) ==
  [kind |-> kind, dcid |-> dcid, scid |-> scid, token |-> token, n |-> n, la |-> la, rest |-> rest, spin |-> 0, kp |-> 0,
   random |-> 74, version |-> V1]
Rests == <<Iota(20), Iota(21), Iota(45)>>
PnCases == <<<<N(0), N(0)>>, <<N(200), N(100)>>, <<N(70000), N(100)>>, <<<<3, 9>>, <<3, 5>>>>, <<<<0, M31>>, <<0, 5>>>>>>
Shapes == <<<<"initial">>, <<"handshake">>, <<"zerortt">>, <<"short">>, <<"retry">>, <<"vn">>,
            <<"initial", "handshake">>, <<"initial", "zerortt">>, <<"initial", "handshake", "short">>,
            <<"handshake", "short">>, <<"zerortt", "short">>, <<"initial", "initial">>, <<"handshake", "retry">>,
            <<"initial", "vn">>>>
PktItems(c) ==
  LET shape == Shapes[c] IN
  {[k |-> "Pkt", cidlen |-> Len(dcid),
    pkts |-> [i \in 1..Len(shape) |->
                [Pk(shape[i], dcid, scid, IF i = 1 THEN token ELSE <<>>, PnCases[((pc + i) % 5) + 1][1], PnCases[((pc + i) % 5) + 1][2],
                    Rests[((r + i) % 3) + 1]) EXCEPT !.spin = pc % 2, !.kp = (pc \div 2) % 2]]] :
     dcid \in {<<>>, Cid8, Cid20}, scid \in {<<>>, <<1>>, Cid20}, token \in {<<>>, <<9>>, Iota(70)}, pc \in 0..4, r \in 0..2}
PktThm(it) ==
  LET bs == EncPkts(it.pkts)
      s == Split(bs, it.cidlen, {V1}, FALSE)
      np == Len(it.pkts) IN
  /\ IsBytes(bs) /\ s.ok
  \* packets that carry no length run to the end of the datagram, so they end the sequence
  /\ Len(s.pkts) = np
  /\ \A i \in 1..np :
       LET pk == it.pkts[i] h == s.pkts[i] IN
       /\ h.kind = pk.kind /\ h.dcid = pk.dcid /\ h.total = Len(EncPkt(pk))
       /\ pk.kind # "short" => h.scid = pk.scid
       /\ pk.kind = "initial" => h.token = pk.token
       /\ pk.kind \in {"initial", "zerortt", "handshake", "short"} =>
            LET d == DecPn(EncPkt(pk), h.pnoff, 20) IN
            /\ d.ok /\ d.pn = Truncate(pk.n, pk.la)
            /\ SubSeq(EncPkt(pk), d.hlen + 1, h.total) = pk.rest

\* ------------------------------------------------------- short byte strings
Alpha16 == <<0, 1, 2, 3, 4, 6, 8, 14, 24, 28, 48, 63, 64, 128, 192, 255>>
AllDecoders == <<"var", "frames", "tpc", "tps", "dg0", "dg2">>
B2Items(c) ==     \* c = first byte, or 256 for the empty string
  IF c = 256 THEN {[k |-> "Bytes", d |-> AllDecoders, bs |-> <<>>]}
  ELSE {[k |-> "Bytes", d |-> AllDecoders, bs |-> <<c>>]} \cup {[k |-> "Bytes", d |-> AllDecoders, bs |-> <<c, b>>] : b \in 0..255}
B4Items(c) ==     \* c = index of the first two symbols
  LET a == Alpha16[(c \div 16) + 1] b == Alpha16[(c % 16) + 1] IN
  {[k |-> "Bytes", d |-> AllDecoders, bs |-> <<a, b, Alpha16[i]>>] : i \in 1..16}
  \cup {[k |-> "Bytes", d |-> AllDecoders, bs |-> <<a, b, Alpha16[i], Alpha16[j]>>] : i \in 1..16, j \in 1..16}
\* totality: each decoder yields a verdict on every input; and whatever decodes re-encodes
\* (canonically, explicit lengths) to something that decodes to the same value
RECURSIVE EncFrames(_)
EncFrames(fs) == IF fs = <<>> THEN <<>> ELSE EncFrame(Head(fs), TRUE) \o EncFrames(Tail(fs))
BytesThm(it) ==
  LET bs == it.bs
      v == Dec(bs)
      fr == DecFrames(bs)
      tc == DecTp(bs, "client")
      ts == DecTp(bs, "server")
      d0 == Split(bs, 0, {V1}, FALSE)
      d2 == Split(bs, 2, {V1}, TRUE) IN
  /\ v.ok \in BOOLEAN /\ fr.ok \in BOOLEAN /\ tc.ok \in BOOLEAN /\ ts.ok \in BOOLEAN /\ d0.ok \in BOOLEAN /\ d2.ok \in BOOLEAN
  /\ v.ok => Dec(Enc(v.v)).v = v.v /\ v.p <= Len(bs) + 1
  /\ fr.ok => DecFrames(EncFrames(fr.frames)) = fr
  /\ tc.ok => DecTpSyntax(EncTp(tc.tp)).tp = tc.tp
  /\ ts.ok => tc.ok
  /\ \A i \in 1..Len(d0.pkts) : d0.pkts[i].total \in 1..Len(bs)

\* ------------------------------------------------------------ the enumeration
Chunks(f) == CASE f = "var" -> 0..16
  [] f = "pn" -> {<<b, a>> : b \in 1..5, a \in 1..6}
  [] f = "frame" -> FrameNames
  [] f \in {"ackraw", "close", "token", "tokenraw", "cidgen"} -> {0}
  [] f = "tp" -> 0..(2048 + 15)
  [] f = "pkt" -> 1..Len(Shapes)
  [] f = "b2" -> 0..256
  [] f = "b4" -> 0..255
Items(f, c) == CASE f = "var" -> VarItems(c)
  [] f = "pn" -> IF Scale = "mc" THEN PnItems(c[1], c[2]) ELSE PnGenItems(c[1], c[2])
  [] f = "frame" -> FrameItems(c)
  [] f = "ackraw" -> AckRawItems
  [] f = "close" -> CloseItems
  [] f = "token" -> TokenItems
  [] f = "tokenraw" -> TokenRawItems
  [] f = "cidgen" -> CidGenItems
  [] f = "tp" -> TpItems(c)
  [] f = "pkt" -> PktItems(c)
  [] f = "b2" -> B2Items(c)
  [] f = "b4" -> B4Items(c)
Holds(f, it) == CASE f = "var" -> VarThm(it) [] f = "pn" -> PnThm(it) [] f = "frame" -> FrameThm(it)
  [] f = "ackraw" -> AckRawThm(it) [] f = "close" -> CloseThm(it) [] f = "token" -> TokenThm(it) [] f = "tokenraw" -> TokenRawThm(it)
  [] f = "cidgen" -> TRUE [] f = "tp" -> TpThm(it) [] f = "pkt" -> PktThm(it)
  [] f \in {"b2", "b4"} -> BytesThm(it)

Init == x \in {<<"chunk", f, c>> : f \in Fams, c \in UNION {{<<g, d>> : d \in Chunks(g)} : g \in Fams}} /\ x[2] = x[3][1]
Next == x[1] = "chunk" /\ \E it \in Items(x[2], x[3][2]) : x' = <<"item", x[2], it>>
Spec == Init /\ [][Next]_x
Thm == x[1] = "item" => Holds(x[2], x[3])
Emit == x[1] = "item" => PrintT(<<"GEN", ToJson(x[3])>>)
=============================================================================
