CONSTANT Alphabet = {"ok", "x", "dup", "delay"}
CONSTANT N = 8
INIT Init
NEXT Next
INVARIANT Emit
CHECK_DEADLOCK FALSE
