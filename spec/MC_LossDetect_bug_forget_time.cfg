SPECIFICATION Spec
CONSTANTS N = 4
          T = 8
          K = 2
          D = 2
          P = 2
          W = 3
          MaxPto = 2
          Bug = "forget_time"
CONSTRAINT Bounded
INVARIANTS TypeOK LostWasOvertaken NothingOverdue TimerArmed CountReset
PROPERTIES LostOnlyAtThreshold AckedStaysAcked
CHECK_DEADLOCK FALSE
