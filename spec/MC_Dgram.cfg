SPECIFICATION Spec
CONSTANT Lens = {0, 2, 3, 4}
CONSTANT SendBuf = 4
CONSTANT RecvBuf = 4
CONSTANT PeerLimit = 12
CONSTANT Mtus = {32, 34}
CONSTANT Cid = 0
CONSTANT MaxDg = 3
CONSTANT MaxPkts = 3
CONSTANT Bug = "none"
INVARIANT Accounting
INVARIANT Bounded
INVARIANT Intact
INVARIANT AtMostOnce
INVARIANT Whole
INVARIANT SendFifo
INVARIANT OldestFirst
INVARIANT Admission
INVARIANT MaxSafe
INVARIANT WireSafe
INVARIANT NoWedge
INVARIANT Unblocking
PROPERTY Released
CHECK_DEADLOCK FALSE
