SPECIFICATION Spec
CONSTANT Lens = {2, 3, 4}
CONSTANT SendBuf = 4
CONSTANT RecvBuf = 4
CONSTANT PeerLimit = 12
CONSTANT Mtus = {32, 34}
CONSTANT Cid = 0
CONSTANT MaxDg = 4
CONSTANT MaxPkts = 4
CONSTANT Bug = "none"
INVARIANT Accounting
INVARIANT Bounded
INVARIANT Intact
INVARIANT AtMostOnce
INVARIANT Whole
INVARIANT SendFifo
INVARIANT OldestFirst
INVARIANT Admission
INVARIANT MaxSafe
INVARIANT WireSafe
INVARIANT NoWedge
INVARIANT Unblocking
CHECK_DEADLOCK FALSE
