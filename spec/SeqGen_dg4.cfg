CONSTANT Alphabet = {"Mb", "Md", "Pb", "Nd", "Zb", "Sb", "Hd", "F", "R", "W"}
CONSTANT N = 4
INIT Init
NEXT Next
INVARIANT Emit
CHECK_DEADLOCK FALSE
