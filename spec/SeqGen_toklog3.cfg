CONSTANT Alphabet = {"1:0", "1:1", "1:2", "1:3", "1:4", "1:5", "1:7", "2:0", "2:1", "2:2", "2:3", "2:4", "2:5", "2:7", "101:1", "101:4"}
CONSTANT N = 3
INIT Init
NEXT Next
INVARIANT Emit
CHECK_DEADLOCK FALSE
