CONSTANT Window = 3
CONSTANT Total = 7
SPECIFICATION CSpec
INVARIANT CreditInv
PROPERTY Monotone
CHECK_DEADLOCK FALSE
