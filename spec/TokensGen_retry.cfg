CONSTANT Table = "retry"
