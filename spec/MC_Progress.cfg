CONSTANT MaxDrops = 2
CONSTANT ServerFlight = 3
SPECIFICATION PSpec
INVARIANT ProgressInv
PROPERTY EventuallyConnected
CHECK_DEADLOCK FALSE
