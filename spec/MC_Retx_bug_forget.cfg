CONSTANT Subjects = {"md", "msd", "rst"}
CONSTANT MaxVal = 2
CONSTANT MaxLoss = 2
CONSTANT Forget = {"msd"}
SPECIFICATION RSpec
INVARIANT Learned
PROPERTY Monotone
CHECK_DEADLOCK FALSE
