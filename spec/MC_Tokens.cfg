CONSTANT Ips = {1, 2}
CONSTANT Ports = {1, 2}
CONSTANT U = 2
CONSTANT RLife = 2
CONSTANT VLife = 3
CONSTANT MaxTime = 6
CONSTANT Classes = {"genuine", "altered"}
CONSTANT ForeignIps = {1}
CONSTANT MaxTok = 2
SPECIFICATION Spec
INVARIANT TypeOK
INVARIANT ValidatedOnlyIf
INVARIANT ForgedIsAbsent
INVARIANT InvalidIffBadRetry
INVARIANT SingleUse
INVARIANT LogNoFalseNegative
INVARIANT NoBurning
INVARIANT FirstUseInOrderAccepted
CHECK_DEADLOCK FALSE
