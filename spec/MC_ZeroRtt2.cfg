SPECIFICATION Spec
CONSTANT NS = 1
CONSTANT MaxW = 2
CONSTANT Rem <- MCRem2
CONSTANT News <- MCNews2
CONSTANT MaxLoss = 2
CONSTANT MaxDup = 1
CONSTANT MaxSpur = 1
CONSTANT Bug = "none"
INVARIANT ExactlyOnce
INVARIANT Complete
INVARIANT ReadsArePrefix
INVARIANT RejectedInvisible
INVARIANT AcceptedSingleEpoch
INVARIANT RejectedReported
INVARIANT NoEarlyAfterReject
INVARIANT FreshAfterReject
INVARIANT EarlyWithinRemembered
INVARIANT PostWithinNew
INVARIANT IncompatibleRefused
INVARIANT ZeroRttOnlyEarly
CHECK_DEADLOCK FALSE
