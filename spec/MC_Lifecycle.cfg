SPECIFICATION LSpec
INVARIANT LifecycleInv
PROPERTY EventuallyForgotten
PROPERTY EventuallyReported
CHECK_DEADLOCK FALSE
