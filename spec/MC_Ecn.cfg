CONSTANT MaxPkts = 4
CONSTANT Bleach = FALSE
CONSTANT Rewrite = FALSE
CONSTANT AllBleached = FALSE
CONSTANT CountDuplicates = FALSE
SPECIFICATION ESpec
INVARIANT NoFalseDisable
INVARIANT SignalsAreReal
INVARIANT CeSeenOnce
INVARIANT ReportsAreExact
CHECK_DEADLOCK FALSE
