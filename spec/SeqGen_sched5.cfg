CONSTANT Alphabet = {"w0", "w1", "w2", "p0", "q1", "f0", "r1", "t"}
CONSTANT N = 5
INIT Init
NEXT Next
INVARIANT Emit
CHECK_DEADLOCK FALSE
