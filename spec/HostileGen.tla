----------------------------- MODULE HostileGen -----------------------------
(***************************************************************************)
(* Generator of hostile cases for C03 / C06: every combination of victim   *)
(* side, frame kind, stream identity class and boundary position relative  *)
(* to the victim's advertised limit.  The harness turns each abstract case  *)
(* into concrete frame bytes for the limits configured in that run.        *)
(***************************************************************************)
EXTENDS Integers, TLC, Json

Victims == {"s", "c"}
\* stream identity classes, from the victim's point of view
IdClass == {"peer_bidi_first", "peer_bidi_last_allowed", "peer_bidi_beyond", "peer_uni_first",
            "peer_uni_beyond", "own_uni", "own_bidi_unopened"}
Rel == {-1, 0, 1}          \* end offset = limit + Rel
Which == {"stream", "conn"} \* which limit the offset is aimed at

StreamCases == {[k |-> kind, v |-> v, idc |-> c, rel |-> r, lim |-> w] :
                  kind \in {"stream", "reset"}, v \in Victims, c \in IdClass, r \in Rel, w \in Which}
FinCases == {[k |-> kind, v |-> v, idc |-> c, rel |-> r, lim |-> "stream"] :
               kind \in {"finthenmore", "morethenfin"},
               v \in Victims, c \in {"peer_bidi_first", "peer_uni_first"}, r \in {0, 1}}
IdOnly == {[k |-> kind, v |-> v, idc |-> c, rel |-> 0, lim |-> "stream"] :
             kind \in {"stop", "maxsd", "sdblocked"}, v \in Victims, c \in IdClass}
Flagged == {[k |-> kind, v |-> v, idc |-> "none", rel |-> r, lim |-> "none"] :
              kind \in {"maxstreams", "streamsblocked", "newcid", "retirecid", "newtoken", "datagram",
                        "crypto", "ackfreq"}, v \in Victims, r \in Rel}
Plain == {[k |-> kind, v |-> v, idc |-> "none", rel |-> 0, lim |-> "none"] :
            kind \in {"hsdone", "ackunsent", "ackrange", "unknown", "truncated", "ping", "padding", "pathresp",
                      "pathchal", "datablocked", "maxdata"}, v \in Victims}
Cases == StreamCases \cup FinCases \cup IdOnly \cup Flagged \cup Plain

ASSUME \A c \in Cases : PrintT(<<"GEN", ToJson(c)>>)
=============================================================================
