CONSTANT Alphabet = {"s1", "s2", "s3", "t1", "t2", "t3"}
CONSTANT N = 7
INIT Init
NEXT Next
INVARIANT Emit
CHECK_DEADLOCK FALSE
