CONSTANT LpCap = 4
CONSTANT MaxUdp = 9
CONSTANT MinMtus = {4, 5}
CONSTANT IMtus = {4, 6}
CONSTANT Uppers = {5, 8}
CONSTANT MinChgs = {1, 2}
CONSTANT Mtuds = {TRUE, FALSE}
CONSTANT Peers = {4, 6, 9}
CONSTANT Links = {4, 6, 9}
CONSTANT W = 1
CONSTANT D = 1
CONSTANT Changes = 1
CONSTANT Paths = 1
CONSTANT Restarts = 1
CONSTANT Quinn = FALSE
SPECIFICATION Spec
INVARIANT Safety
PROPERTY RiseOnlyByAck
PROPERTY FallOnlyExplained
PROPERTY SearchEnds
CHECK_DEADLOCK FALSE
