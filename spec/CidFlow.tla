------------------------------- MODULE CidFlow -------------------------------
(***************************************************************************)
(* Connection-ID management between the issuer of IDs (I) and the peer     *)
(* that uses them as destination IDs (U), RFC 9000 section 5.1 as quinn    *)
(* implements it (CidState on the issuing side, CidQueue on the using      *)
(* side).  Frames may be lost, reordered and retransmitted.                *)
(*   Issue      next sequence number, while fewer than Limit IDs at or     *)
(*              above retire_prior_to are unretired                        *)
(*   Rotate     the lifetime of the oldest IDs ends: retire_prior_to moves *)
(*   Resend     a lost NEW_CONNECTION_ID goes out again; its field is the  *)
(*              current retire_prior_to capped by its own sequence number  *)
(*   GetNew     U stores the ID, applies retire_prior_to: everything below *)
(*              is retired (RETIRE_CONNECTION_ID queued), the ID in use is *)
(*              replaced if it fell below                                  *)
(*   GetRetire  I forgets the ID (routing entry removed)                   *)
(***************************************************************************)
EXTENDS Naturals, FiniteSets

CONSTANTS Limit,     \* U's active_connection_id_limit
          MaxSeq,    \* sequence numbers used in the model
          Capped     \* TRUE: a resent frame caps retire_prior_to by its own sequence number (FALSE: what
                     \* quinn did before the repair; refuted by WellFormedFrames)

Seqs == 0 .. MaxSeq
Max(S) == CHOOSE x \in S : \A y \in S : y <= x
Min2(a, b) == IF a <= b THEN a ELSE b

VARIABLES issued, rpt, forgotten,       \* issuer: issued sequence numbers, retire_prior_to, retired by the peer
          newNet, retNet,               \* frames in flight: <<seq, rpt>> and seq
          known, urpt, retiredU, using  \* user: stored IDs, largest retire_prior_to seen, retired, in use

cvars == <<issued, rpt, forgotten, newNet, retNet, known, urpt, retiredU, using>>

CInit == /\ issued = {0} /\ rpt = 0 /\ forgotten = {} /\ newNet = {} /\ retNet = {}
         /\ known = {0} /\ urpt = 0 /\ retiredU = {} /\ using = 0

Unretired == {s \in issued : s >= rpt /\ s \notin forgotten}

Issue ==
  /\ Cardinality(Unretired) < Limit
  /\ Max(issued) < MaxSeq
  /\ LET s == Max(issued) + 1 IN
       /\ issued' = issued \cup {s}
       /\ newNet' = newNet \cup {<<s, rpt>>}
  /\ UNCHANGED <<rpt, forgotten, retNet, known, urpt, retiredU, using>>

Rotate ==
  /\ \E r \in Seqs : r > rpt /\ r <= Max(issued) /\ rpt' = r
  /\ UNCHANGED <<issued, forgotten, newNet, retNet, known, urpt, retiredU, using>>

Resend(s) ==
  /\ s \in issued /\ s > 0
  /\ newNet' = newNet \cup {<<s, IF Capped THEN Min2(rpt, s) ELSE rpt>>}
  /\ UNCHANGED <<issued, rpt, forgotten, retNet, known, urpt, retiredU, using>>

Lose == \/ \E f \in newNet : newNet' = newNet \ {f} /\ UNCHANGED <<issued, rpt, forgotten, retNet, known, urpt, retiredU, using>>
        \/ \E s \in retNet : retNet' = retNet \ {s} /\ UNCHANGED <<issued, rpt, forgotten, newNet, known, urpt, retiredU, using>>

GetNew(f) ==
  /\ f \in newNet
  /\ LET u2 == IF f[2] > urpt THEN f[2] ELSE urpt
         k2 == IF f[1] >= u2 THEN known \cup {f[1]} ELSE known       \* an ID already below the bar is retired at once
         gone == {s \in Seqs : s < u2 /\ s \notin retiredU} \cup (IF f[1] < u2 /\ f[1] \notin retiredU THEN {f[1]} ELSE {})
         live == {s \in k2 : s >= u2}
     IN
       /\ urpt' = u2
       /\ known' = live
       /\ retiredU' = retiredU \cup gone
       /\ retNet' = retNet \cup gone
       /\ using' = IF using >= u2 THEN using ELSE (IF live # {} THEN CHOOSE s \in live : \A t \in live : s <= t ELSE using)
  /\ UNCHANGED <<issued, rpt, forgotten, newNet>>

GetRetire(s) ==
  /\ s \in retNet
  /\ forgotten' = forgotten \cup {s}
  /\ UNCHANGED <<issued, rpt, newNet, retNet, known, urpt, retiredU, using>>

CNext == Issue \/ Rotate \/ Lose \/ (\E s \in Seqs : Resend(s) \/ GetRetire(s)) \/ (\E f \in newNet : GetNew(f))
CSpec == CInit /\ [][CNext]_cvars

\* ---- properties ----------------------------------------------------------------------------
WellFormedFrames == \A f \in newNet : f[2] <= f[1]
UserWithinLimit == Cardinality(known) <= Limit
UserUsesLiveId == using \in known \/ (known = {} /\ using \in retiredU)
RetiresOnlyIssued == retiredU \subseteq 0 .. Max(issued)
IssuerNeverForgetsUnissued == forgotten \subseteq issued \cup {s \in Seqs : s < rpt}
=============================================================================
