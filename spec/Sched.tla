-------------------------------- MODULE Sched --------------------------------
(***************************************************************************)
(* Scheduling of stream data.  The application writes to streams, finishes *)
(* and resets them and changes their priorities; every STREAM frame the    *)
(* connection builds takes the stream at the head of a priority queue.     *)
(* A stream enters the queue when it gets unsent data while it had none    *)
(* (with the priority it has at that moment); a stream that still has      *)
(* unsent data after a frame is queued again behind its equals (Fair) or   *)
(* kept as the stream to continue with (~Fair).  A reset stream stays in   *)
(* the queue until it is met there.                                        *)
(*   NoStreamForgotten   every stream with unsent data that is not reset   *)
(*                       is in the queue (or is the one to continue with)  *)
(*   OneEntryPerStream   and only once                                     *)
(*   PriorityRespected   a frame never takes a stream while another one    *)
(*                       that was queued with a higher priority waits,     *)
(*                       except to continue an unfinished stream (~Fair)   *)
(*   RoundRobin          Fair: between two frames of a stream every stream *)
(*                       queued with the same priority that waited all     *)
(*                       the time got a frame                              *)
(* Variant ForgetRequeue (a stream that keeps data after a frame is not    *)
(* queued again) is refuted by NoStreamForgotten.                          *)
(***************************************************************************)
EXTENDS Integers, FiniteSets, SchedOps

CONSTANTS Streams, Prios, MaxChunks, MaxOps, Fair, ForgetRequeue

VARIABLES unsent,   \* chunks written and not yet sent, per stream
          prio,     \* priority as set by the application
          reset,    \* streams the application has reset
          queue,    \* entries <<id, priority, ticket>>
          next,     \* ~Fair: the entry to continue with, or <<>>
          ticket,   \* next ticket
          ops,      \* application calls so far
          last,     \* the stream the last frame took, and the priority it was queued with
          waited,   \* per stream: who took a frame while it waited in the queue (since it was queued)
          nfr       \* frames built so far

svars == <<unsent, prio, reset, queue, next, ticket, ops, last, waited, nfr>>

SInit == /\ unsent = [s \in Streams |-> 0] /\ prio = [s \in Streams |-> 0] /\ reset = {} /\ queue = {} /\ next = <<>>
         /\ ticket = 0 /\ ops = 0 /\ last = <<>> /\ waited = [s \in Streams |-> {}] /\ nfr = 0

Queued == {x[1] : x \in queue} \cup (IF next = <<>> THEN {} ELSE {next[1]})
Push(s) == queue' = queue \cup {<<s, prio[s], ticket>>} /\ ticket' = ticket + 1

Write(s) == /\ ops < MaxOps /\ s \notin reset /\ unsent[s] < MaxChunks
            /\ unsent' = [unsent EXCEPT ![s] = @ + 1] /\ ops' = ops + 1
            /\ IF unsent[s] = 0 THEN Push(s) /\ waited' = [waited EXCEPT ![s] = {}]
                               ELSE UNCHANGED <<queue, ticket, waited>>
            /\ UNCHANGED <<prio, reset, next, last, nfr>>

SetPrio(s, p) == /\ ops < MaxOps /\ p # prio[s] /\ prio' = [prio EXCEPT ![s] = p] /\ ops' = ops + 1
                 /\ UNCHANGED <<unsent, reset, queue, next, ticket, last, waited, nfr>>

ResetStream(s) == /\ ops < MaxOps /\ s \notin reset /\ reset' = reset \cup {s} /\ ops' = ops + 1
                  /\ UNCHANGED <<unsent, prio, queue, next, ticket, last, waited, nfr>>

\* one round of the frame builder: take the head; a reset stream is dropped from the queue without a frame
Pop == /\ Queued # {}
       /\ LET x == IF next # <<>> THEN next ELSE Top(queue)
              q1 == IF next # <<>> THEN queue ELSE queue \ {x}
              s == x[1]
          IN IF s \in reset
               THEN /\ queue' = q1 /\ next' = <<>> /\ UNCHANGED <<unsent, ticket, last, waited, nfr>>
               ELSE \E k \in 1 .. unsent[s] :
                      /\ unsent' = [unsent EXCEPT ![s] = @ - k]
                      /\ last' = <<s, x[2], next # <<>> >> /\ nfr' = nfr + 1
                      /\ waited' = [t \in Streams |->
                            IF t = s THEN {}
                            ELSE IF \E y \in q1 : y[1] = t /\ y[2] = x[2] THEN waited[t] \cup {s} ELSE waited[t]]
                      /\ IF unsent[s] - k > 0 /\ ~ForgetRequeue
                           THEN IF Fair THEN /\ queue' = q1 \cup {<<s, prio[s], ticket>>} /\ ticket' = ticket + 1 /\ next' = <<>>
                                        ELSE /\ queue' = q1 /\ next' = <<s, prio[s], ticket>> /\ UNCHANGED ticket
                           ELSE /\ queue' = q1 /\ next' = <<>> /\ UNCHANGED ticket
       /\ UNCHANGED <<prio, reset, ops>>

SNext == \/ \E s \in Streams : Write(s) \/ ResetStream(s) \/ (\E p \in Prios : SetPrio(s, p))
         \/ Pop
SSpec == SInit /\ [][SNext]_svars

NoStreamForgotten == \A s \in Streams : (unsent[s] > 0 /\ s \notin reset) => s \in Queued
OneEntryPerStream == /\ \A x, y \in queue : x[1] = y[1] => x = y
                     /\ (next # <<>> => \A x \in queue : x[1] # next[1])
\* both are statements about the step that builds a frame (nfr grows), in terms of the state before it
Served == IF next # <<>> THEN next ELSE Top(queue)
Others == {y \in queue : y # Served /\ y[1] \notin reset}
PriorityRespected == [][(nfr' # nfr /\ next = <<>>) => \A y \in Others : y[2] <= Served[2]]_svars
RoundRobin == [][(nfr' # nfr /\ Fair) => \A y \in Others : y[2] = Served[2] => Served[1] \notin waited[y[1]]]_svars
=============================================================================
