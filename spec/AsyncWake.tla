------------------------------ MODULE AsyncWake ------------------------------
(***************************************************************************)
(* Design model for C18: the wake-up protocol between a connection driver   *)
(* task and application tasks that share the connection state under the     *)
(* connection lock (quinn/src/connection.rs, recv_stream.rs,                *)
(* send_stream.rs).  Tasks run on a multi-threaded runtime, so the unit of  *)
(* atomicity is one critical section (or one lock-free step), not one poll. *)
(*                                                                         *)
(*   driver      ConnectionDriver::poll — one critical section: drain the   *)
(*               conn_events channel (process_conn_events; poll_recv also   *)
(*               registers the driver with the channel), drive_transmit,    *)
(*               drive_timer, forward_app_events (wake_stream /             *)
(*               Notify::notify_waiters / terminate), then either self-wake *)
(*               or store the waker in State::driver                        *)
(*   wake()      State::wake: take State::driver and wake it                *)
(*   readers     RecvStream::poll_read_generic: lock; data -> Ready (and    *)
(*               wake() when flow-control credit must be sent); error ->    *)
(*               Ready; else blocked_readers[s] := waker, Pending           *)
(*   writer      SendStream::execute_poll: lock; credit -> write, wake();   *)
(*               else blocked_writers[s] := waker, Pending                  *)
(*   waiter      Connection::closed(): lock; error -> Ready; else create    *)
(*               the Notified future WHILE HOLDING THE LOCK; unlock; poll   *)
(*               it.  tokio semantics: notify_waiters() completes exactly   *)
(*               the Notified futures that already exist (a future          *)
(*               remembers the notify_waiters call count of its creation).  *)
(*   handles     every reader / writer / waiter owns one ConnectionRef;     *)
(*               dropping the last one closes implicitly and wakes the      *)
(*               driver, which drains and terminates.  Dropping a stream    *)
(*               handle removes its registration.  A task may give up       *)
(*               (drop its pending future and handle) at any poll;          *)
(*               spurious wakes model select!/timeout companions.           *)
(*                                                                         *)
(* Bug flags switch on deliberately broken variants (not part of the        *)
(* registered check) that TLC refutes:                                      *)
(*   "late_register"  reader registers its waker in a second critical       *)
(*                    section after the one that found no data              *)
(*   "late_notified"  waiter creates the Notified future after unlocking    *)
(*   "no_wake"        writer forgets wake() after queueing data             *)
(*   "no_close_wake"  the last handle drop does not wake the driver         *)
(***************************************************************************)
EXTENDS Naturals, FiniteSets, TLC

CONSTANTS Readers,      \* reader tasks; reader r reads the stream named r
          MaxBytes,     \* bytes the peer sends on each stream
          WBytes,       \* bytes the writer wants to write (0 = no writer)
          InitCredit,   \* initial write credit
          Spurious,     \* budget of spurious wakes (select!/timeout companions)
          Bug           \* "" or one of the flags above

W == "w"
C == "c"
D == "drv"
Apps == Readers \cup {W, C}
Tasks == Apps \cup {D}
None == "none"

VARIABLES
  pc,          \* app -> "idle" (pending or not yet started), mid-poll states, "fin" (op finished), "gone"
  runnable,    \* task -> woken and not yet polled
  \* ---- state under the connection lock
  readable,    \* stream -> bytes buffered for the application
  credit,      \* write credit
  needTx,      \* frames queued for transmission (data, close)
  error,       \* connection closed / lost
  driverSlot,  \* State::driver is Some
  blockedR,    \* stream -> registered reader or None
  blockedW,    \* writer registered
  refs,        \* live handles
  closing,     \* close frame queued or sent, waiting for the drain timer
  drvDone,     \* driver future completed
  \* ---- Notify `closed`
  epoch,       \* number of notify_waiters calls
  nf,          \* waiter's Notified future: 0 = none, else 1 + the epoch it was created in
  waiters,     \* registered waiters (subset of {C})
  \* ---- channel endpoint driver -> connection driver
  chan,        \* stream -> bytes delivered, not yet processed
  chanCredit,  \* credit returns delivered, not yet processed
  chanClose,   \* peer close delivered, not yet processed
  chanWaker,   \* driver registered with the channel
  \* ---- environment
  peerLeft,    \* stream -> bytes the peer still has to send
  toPeer,      \* data frames sent to the peer whose credit has not come back
  peerClosed,  \* the peer closed (at most once)
  timerArmed,  \* drain timer running
  spur,        \* spurious wakes left
  got, written

vars == <<pc, runnable, readable, credit, needTx, error, driverSlot, blockedR, blockedW, refs, closing, drvDone,
          epoch, nf, waiters, chan, chanCredit, chanClose, chanWaker, peerLeft, toPeer, peerClosed, timerArmed,
          spur, got, written>>

Init ==
  /\ pc = [a \in Apps |-> IF a = W /\ WBytes = 0 THEN "gone" ELSE "idle"]
  /\ runnable = [t \in Tasks |-> t = D \/ (t \in Apps /\ ~(t = W /\ WBytes = 0))]
  /\ readable = [s \in Readers |-> 0] /\ credit = InitCredit /\ needTx = 0 /\ error = FALSE
  /\ driverSlot = FALSE /\ blockedR = [s \in Readers |-> None] /\ blockedW = FALSE
  /\ refs = Cardinality({a \in Apps : ~(a = W /\ WBytes = 0)})
  /\ closing = FALSE /\ drvDone = FALSE
  /\ epoch = 0 /\ nf = 0 /\ waiters = {}
  /\ chan = [s \in Readers |-> 0] /\ chanCredit = 0 /\ chanClose = FALSE /\ chanWaker = FALSE
  /\ peerLeft = [s \in Readers |-> MaxBytes] /\ toPeer = 0 /\ peerClosed = FALSE /\ timerArmed = FALSE
  /\ spur = Spurious /\ got = [r \in Readers |-> 0] /\ written = 0

\* ---------------------------------------------------------------------------
\* helpers: they yield the new value of `runnable`

WakeSet(S) == [t \in Tasks |-> runnable[t] \/ t \in S]
\* State::wake() under the lock: the set of tasks it makes runnable
DriverWake == IF driverSlot /\ ~drvDone THEN {D} ELSE {}
\* terminate(): everybody who is registered
AllBlocked == ({blockedR[s] : s \in Readers} \ {None}) \cup (IF blockedW THEN {W} ELSE {}) \cup waiters

\* ---------------------------------------------------------------------------
\* environment

PeerSend(s) ==
  /\ peerLeft[s] > 0 /\ ~peerClosed
  /\ peerLeft' = [peerLeft EXCEPT ![s] = @ - 1]
  /\ chan' = [chan EXCEPT ![s] = @ + 1]
  /\ runnable' = IF chanWaker /\ ~drvDone THEN WakeSet({D}) ELSE runnable
  /\ chanWaker' = FALSE
  /\ UNCHANGED <<pc, readable, credit, needTx, error, driverSlot, blockedR, blockedW, refs, closing, drvDone, epoch, nf,
                 waiters, chanCredit, chanClose, toPeer, peerClosed, timerArmed, spur, got, written>>

PeerCredit ==
  /\ toPeer > 0
  /\ toPeer' = toPeer - 1 /\ chanCredit' = chanCredit + 1
  /\ runnable' = IF chanWaker /\ ~drvDone THEN WakeSet({D}) ELSE runnable
  /\ chanWaker' = FALSE
  /\ UNCHANGED <<pc, readable, credit, needTx, error, driverSlot, blockedR, blockedW, refs, closing, drvDone, epoch, nf,
                 waiters, chan, chanClose, peerLeft, peerClosed, timerArmed, spur, got, written>>

\* the peer closes once it has sent everything
PeerClose ==
  /\ ~peerClosed /\ \A s \in Readers : peerLeft[s] = 0
  /\ peerClosed' = TRUE /\ chanClose' = TRUE
  /\ runnable' = IF chanWaker /\ ~drvDone THEN WakeSet({D}) ELSE runnable
  /\ chanWaker' = FALSE
  /\ UNCHANGED <<pc, readable, credit, needTx, error, driverSlot, blockedR, blockedW, refs, closing, drvDone, epoch, nf,
                 waiters, chan, chanCredit, peerLeft, toPeer, timerArmed, spur, got, written>>

TimerFire ==
  /\ timerArmed /\ timerArmed' = FALSE
  /\ runnable' = IF ~drvDone THEN WakeSet({D}) ELSE runnable
  /\ UNCHANGED <<pc, readable, credit, needTx, error, driverSlot, blockedR, blockedW, refs, closing, drvDone, epoch, nf,
                 waiters, chan, chanCredit, chanClose, chanWaker, peerLeft, toPeer, peerClosed, spur, got, written>>

\* a companion future (timeout, select! branch) wakes an application task for no reason
SpuriousWake(a) ==
  /\ spur > 0 /\ pc[a] \in {"idle", "waiting"} /\ ~runnable[a]
  /\ spur' = spur - 1 /\ runnable' = WakeSet({a})
  /\ UNCHANGED <<pc, readable, credit, needTx, error, driverSlot, blockedR, blockedW, refs, closing, drvDone, epoch, nf,
                 waiters, chan, chanCredit, chanClose, chanWaker, peerLeft, toPeer, peerClosed, timerArmed, got, written>>

\* ---------------------------------------------------------------------------
\* ConnectionDriver::poll — one critical section

DriverPoll ==
  /\ runnable[D] /\ ~drvDone
  /\ LET gotData == {s \in Readers : chan[s] > 0}
         newErr == error \/ chanClose
         term == chanClose /\ ~error            \* ConnectionLost -> terminate()
         newCredit == credit + chanCredit
         \* forward_app_events
         wokenR == ({blockedR[s] : s \in gotData} \ {None})
         wokenW == IF blockedW /\ chanCredit > 0 THEN {W} ELSE {}
         woken == IF term THEN AllBlocked ELSE wokenR \cup wokenW
         \* drive_transmit flushes everything queued; a flushed close (or a peer close) starts the drain timer
         flushedClose == closing /\ needTx > 0
         startDrain == (flushedClose \/ term) /\ ~timerArmed
         drained == newErr /\ closing /\ needTx = 0 /\ ~timerArmed
     IN
     /\ readable' = [s \in Readers |-> readable[s] + chan[s]]
     /\ chan' = [s \in Readers |-> 0] /\ chanCredit' = 0 /\ chanClose' = FALSE
     /\ credit' = newCredit /\ error' = newErr
     /\ toPeer' = IF error THEN toPeer ELSE toPeer + (IF closing THEN 0 ELSE needTx)
     /\ needTx' = 0
     /\ closing' = (closing \/ term)
     /\ timerArmed' = (timerArmed \/ startDrain)
     /\ blockedR' = [s \in Readers |-> IF term \/ s \in gotData THEN None ELSE blockedR[s]]
     /\ blockedW' = IF term \/ chanCredit > 0 THEN FALSE ELSE blockedW
     /\ waiters' = IF term THEN {} ELSE waiters
     /\ epoch' = IF term THEN epoch + 1 ELSE epoch
     /\ drvDone' = drained
     /\ chanWaker' = ~drained
     /\ driverSlot' = ~drained
     /\ runnable' = [t \in Tasks |-> IF t = D THEN FALSE ELSE runnable[t] \/ t \in woken]
  /\ UNCHANGED <<pc, refs, nf, peerLeft, peerClosed, spur, got, written>>

\* ---------------------------------------------------------------------------
\* implicit close when the last handle goes away (ConnectionRef::drop -> State::close -> terminate + wake)

\* (new error, new closing, new needTx, set of tasks woken, terminated?) after dropping one handle
LastHandle == refs = 1

DropHandleEffects(extraWake) ==
  /\ refs' = refs - 1
  /\ IF LastHandle /\ ~error
       THEN /\ error' = TRUE /\ closing' = TRUE /\ needTx' = needTx + 1
            /\ epoch' = epoch + 1 /\ waiters' = {}
            /\ runnable' = WakeSet(AllBlocked \cup extraWake \cup (IF Bug = "no_close_wake" THEN {} ELSE DriverWake))
            /\ driverSlot' = IF Bug = "no_close_wake" THEN driverSlot ELSE FALSE
       ELSE /\ UNCHANGED <<error, closing, needTx, epoch, waiters>>
            /\ runnable' = WakeSet(extraWake)
            /\ driverSlot' = driverSlot

\* ---------------------------------------------------------------------------
\* reader r on stream r

ReaderPoll(r) ==
  /\ runnable[r] /\ pc[r] = "idle"
  /\ IF readable[r] > 0
       THEN \* data: the operation completes; the task goes on with the next read in the same poll
            /\ readable' = [readable EXCEPT ![r] = @ - 1]
            /\ got' = [got EXCEPT ![r] = @ + 1]
            /\ pc' = [pc EXCEPT ![r] = IF got[r] + 1 = MaxBytes THEN "fin" ELSE "idle"]
            /\ UNCHANGED <<runnable, blockedR>>
       ELSE IF error
       THEN /\ pc' = [pc EXCEPT ![r] = "fin"] /\ UNCHANGED <<runnable, blockedR, readable, got>>
       ELSE IF Bug = "late_register"
       THEN \* BROKEN: the lock is released before the waker is registered
            /\ pc' = [pc EXCEPT ![r] = "chk"]
            /\ runnable' = [runnable EXCEPT ![r] = FALSE]
            /\ UNCHANGED <<blockedR, readable, got>>
       ELSE /\ blockedR' = [blockedR EXCEPT ![r] = r]
            /\ runnable' = [runnable EXCEPT ![r] = FALSE]
            /\ UNCHANGED <<pc, readable, got>>
  /\ UNCHANGED <<credit, needTx, error, driverSlot, blockedW, refs, closing, drvDone, epoch, nf, waiters, chan,
                 chanCredit, chanClose, chanWaker, peerLeft, toPeer, peerClosed, timerArmed, spur, written>>

ReaderRegisterLate(r) ==
  /\ pc[r] = "chk"
  /\ blockedR' = [blockedR EXCEPT ![r] = r] /\ pc' = [pc EXCEPT ![r] = "idle"]
  /\ UNCHANGED <<runnable, readable, credit, needTx, error, driverSlot, blockedW, refs, closing, drvDone, epoch, nf,
                 waiters, chan, chanCredit, chanClose, chanWaker, peerLeft, toPeer, peerClosed, timerArmed, spur, got, written>>

\* RecvStream::drop + ConnectionRef::drop: when finished, or giving up at any poll (cancellation)
ReaderDrop(r) ==
  /\ runnable[r] /\ pc[r] \in {"fin", "idle"}
  /\ pc' = [pc EXCEPT ![r] = "gone"]
  /\ blockedR' = [blockedR EXCEPT ![r] = None]
  /\ DropHandleEffects({})
  /\ UNCHANGED <<readable, credit, blockedW, drvDone, nf, chan, chanCredit, chanClose, chanWaker, peerLeft, toPeer,
                 peerClosed, timerArmed, spur, got, written>>
\* (runnable[r] stays as it is: a gone task is never polled again, see Quiescent)

\* ---------------------------------------------------------------------------
\* writer

WriterPoll ==
  /\ runnable[W] /\ pc[W] = "idle"
  /\ IF error
       THEN /\ pc' = [pc EXCEPT ![W] = "fin"]
            /\ UNCHANGED <<runnable, credit, needTx, written, blockedW, driverSlot>>
       ELSE IF credit > 0
       THEN /\ credit' = credit - 1 /\ needTx' = needTx + 1 /\ written' = written + 1
            /\ pc' = [pc EXCEPT ![W] = IF written + 1 = WBytes THEN "fin" ELSE "idle"]
            /\ runnable' = IF Bug = "no_wake" THEN runnable ELSE WakeSet(DriverWake)
            /\ driverSlot' = IF Bug = "no_wake" THEN driverSlot ELSE FALSE
            /\ UNCHANGED blockedW
       ELSE /\ blockedW' = TRUE
            /\ runnable' = [runnable EXCEPT ![W] = FALSE]
            /\ UNCHANGED <<pc, credit, needTx, written, driverSlot>>
  /\ UNCHANGED <<readable, error, blockedR, refs, closing, drvDone, epoch, nf, waiters, chan, chanCredit, chanClose,
                 chanWaker, peerLeft, toPeer, peerClosed, timerArmed, spur, got>>

WriterDrop ==
  /\ runnable[W] /\ pc[W] \in {"fin", "idle"}
  /\ pc' = [pc EXCEPT ![W] = "gone"]
  /\ blockedW' = FALSE
  /\ DropHandleEffects({})
  /\ UNCHANGED <<readable, credit, blockedR, drvDone, nf, chan, chanCredit, chanClose, chanWaker, peerLeft, toPeer,
                 peerClosed, timerArmed, spur, got, written>>

\* ---------------------------------------------------------------------------
\* waiter: Connection::closed()

\* first critical section: check, and (correct variant) create the Notified future before unlocking
WaiterStart ==
  /\ runnable[C] /\ pc[C] = "idle"
  /\ IF error
       THEN pc' = [pc EXCEPT ![C] = "fin"] /\ nf' = nf
       ELSE IF Bug = "late_notified"
       THEN pc' = [pc EXCEPT ![C] = "unlocked"] /\ nf' = nf
       ELSE pc' = [pc EXCEPT ![C] = "created"] /\ nf' = epoch + 1
  /\ UNCHANGED <<runnable, readable, credit, needTx, error, driverSlot, blockedR, blockedW, refs, closing, drvDone, epoch,
                 waiters, chan, chanCredit, chanClose, chanWaker, peerLeft, toPeer, peerClosed, timerArmed, spur, got, written>>

\* BROKEN: the future is created after the lock was released
WaiterCreateLate ==
  /\ pc[C] = "unlocked"
  /\ nf' = epoch + 1 /\ pc' = [pc EXCEPT ![C] = "created"]
  /\ UNCHANGED <<runnable, readable, credit, needTx, error, driverSlot, blockedR, blockedW, refs, closing, drvDone, epoch,
                 waiters, chan, chanCredit, chanClose, chanWaker, peerLeft, toPeer, peerClosed, timerArmed, spur, got, written>>

\* Notified::poll (no connection lock): completes iff notify_waiters ran since its creation
WaiterPollNotified ==
  /\ pc[C] = "created" \/ (pc[C] = "waiting" /\ runnable[C])
  /\ IF nf # epoch + 1
       THEN /\ pc' = [pc EXCEPT ![C] = "fin"] /\ nf' = 0 /\ waiters' = waiters \ {C}
            /\ UNCHANGED runnable
       ELSE /\ pc' = [pc EXCEPT ![C] = "waiting"] /\ waiters' = waiters \cup {C}
            /\ runnable' = [runnable EXCEPT ![C] = FALSE] /\ nf' = nf
  /\ UNCHANGED <<readable, credit, needTx, error, driverSlot, blockedR, blockedW, refs, closing, drvDone, epoch, chan,
                 chanCredit, chanClose, chanWaker, peerLeft, toPeer, peerClosed, timerArmed, spur, got, written>>

\* the waiter finished, or gives up while waiting (drops the Notified future and its handle)
WaiterDrop ==
  /\ runnable[C] /\ pc[C] \in {"fin", "waiting"}
  /\ pc' = [pc EXCEPT ![C] = "gone"] /\ nf' = 0
  /\ LET w2 == waiters \ {C} IN
     /\ refs' = refs - 1
     /\ IF LastHandle /\ ~error
          THEN /\ error' = TRUE /\ closing' = TRUE /\ needTx' = needTx + 1 /\ epoch' = epoch + 1 /\ waiters' = {}
               /\ runnable' = WakeSet((AllBlocked \ {C}) \cup (IF Bug = "no_close_wake" THEN {} ELSE DriverWake))
               /\ driverSlot' = IF Bug = "no_close_wake" THEN driverSlot ELSE FALSE
          ELSE /\ UNCHANGED <<error, closing, needTx, epoch, runnable, driverSlot>> /\ waiters' = w2
  /\ UNCHANGED <<readable, credit, blockedR, blockedW, drvDone, chan, chanCredit, chanClose, chanWaker, peerLeft, toPeer,
                 peerClosed, timerArmed, spur, got, written>>

\* ---------------------------------------------------------------------------

Next ==
  \/ \E s \in Readers : PeerSend(s)
  \/ PeerCredit \/ PeerClose \/ TimerFire
  \/ \E a \in Apps : SpuriousWake(a)
  \/ DriverPoll
  \/ \E r \in Readers : ReaderPoll(r) \/ ReaderRegisterLate(r) \/ ReaderDrop(r)
  \/ WriterPoll \/ WriterDrop
  \/ WaiterStart \/ WaiterCreateLate \/ WaiterPollNotified \/ WaiterDrop

\* finished applications eventually drop their handles; giving up early is possible but not forced
Fairness ==
  /\ WF_vars(DriverPoll) /\ WF_vars(PeerCredit) /\ WF_vars(PeerClose) /\ WF_vars(TimerFire)
  /\ \A s \in Readers : WF_vars(PeerSend(s))
  /\ \A r \in Readers : WF_vars(ReaderPoll(r)) /\ WF_vars(ReaderRegisterLate(r)) /\ WF_vars(pc[r] = "fin" /\ ReaderDrop(r))
  /\ WF_vars(WriterPoll) /\ WF_vars(pc[W] = "fin" /\ WriterDrop)
  /\ WF_vars(WaiterStart) /\ WF_vars(WaiterCreateLate) /\ WF_vars(WaiterPollNotified)
  /\ WF_vars(pc[C] = "fin" /\ WaiterDrop)

Spec == Init /\ [][Next]_vars /\ Fairness

\* ---------------------------------------------------------------------------
\* properties

TypeOK ==
  /\ pc \in [Apps -> {"idle", "chk", "unlocked", "created", "waiting", "fin", "gone"}]
  /\ runnable \in [Tasks -> BOOLEAN]
  /\ refs \in 0..Cardinality(Apps)
  /\ blockedR \in [Readers -> Readers \cup {None}]

MidPoll(a) == pc[a] \in {"chk", "unlocked", "created"}
Live(a) == pc[a] # "gone"
\* nothing happens unless the peer sends something new: no runnable task, nothing in a channel or in flight
Quiescent ==
  /\ \A a \in Apps : Live(a) => ~runnable[a] /\ ~MidPoll(a) /\ pc[a] # "fin"
  /\ ~runnable[D] \/ drvDone
  /\ \A s \in Readers : chan[s] = 0
  /\ chanCredit = 0 /\ ~chanClose /\ toPeer = 0 /\ ~timerArmed

\* at a quiescent point no pending operation's condition holds, nothing queued stays unsent, and a
\* connection without handles has no driver left
NoLostWakeup ==
  Quiescent =>
    /\ \A r \in Readers : pc[r] = "idle" => readable[r] = 0 /\ ~error
    /\ pc[W] = "idle" => credit = 0 /\ ~error
    /\ pc[C] = "waiting" => ~error
    /\ needTx = 0
    /\ refs = 0 => drvDone

\* a task that returned Pending and was not woken since has a live registration
PendingHasWaker ==
  /\ \A r \in Readers : pc[r] = "idle" /\ ~runnable[r] => blockedR[r] = r
  /\ pc[W] = "idle" /\ ~runnable[W] => blockedW
  /\ pc[C] = "waiting" /\ ~runnable[C] => C \in waiters

\* no registration outlives its handle
NoStaleRegistration ==
  /\ \A r \in Readers : pc[r] = "gone" => blockedR[r] # r
  /\ pc[W] = "gone" => ~blockedW
  /\ pc[C] = "gone" => C \notin waiters

\* the driver only terminates once every handle is gone or the connection is lost and drained
DriverOutlivesHandles == drvDone => error

\* liveness under task fairness: every operation eventually completes (with data or with the connection
\* error once the peer has closed), every handle is released and the driver terminates
AllDone == (\A a \in Apps : pc[a] = "gone") /\ drvDone
Termination == <>[]AllDone
=============================================================================
