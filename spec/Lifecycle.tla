------------------------------ MODULE Lifecycle ------------------------------
(***************************************************************************)
(* Termination of one QUIC connection (property C08).                      *)
(*                                                                         *)
(* One action per critical section of quinn-proto's connection/mod.rs:     *)
(*   LocalClose      Connection::close -> close_inner/close_common         *)
(*   RecvPeerClose   process_payload / process_early_payload, Frame::Close *)
(*   RecvError       handle_packet: Err(TransportError) -> State::closed   *)
(*   RecvReset       handle_packet: `_ if stateless_reset`                 *)
(*   RecvInClosed    process_decrypted_packet, State::Closed arm           *)
(*   RecvBenign      any other authenticated or ignored datagram           *)
(*   IdleTimer       handle_timeout(Timer::Idle) -> kill(TimedOut)         *)
(*   CloseTimer      handle_timeout(Timer::Close)                          *)
(*   AppPoll         Connection::poll -> error.take()                      *)
(*   EmitDrained     poll_endpoint_events -> Endpoint::handle_event        *)
(*   SendClose       poll_transmit close branch (clears `close`)           *)
(* Guards (CanX) and effects (DoX) are separate so that the trace          *)
(* specification can apply the effect of what the implementation did and   *)
(* report a disabled guard as a named violation.                           *)
(***************************************************************************)
EXTENDS Naturals, Sequences, FiniteSets

States == {"hs", "est", "closed", "draining", "drained"}
Open(s) == s \in {"hs", "est"}
IsClosed(s) == s \in {"closed", "draining", "drained"}

VARIABLES
  st,          \* lifecycle state
  errSlot,     \* pending, not yet reported reason ("none" when empty)
  closeFlag,   \* a CONNECTION_CLOSE must still be transmitted
  closeTimer,  \* Timer::Close armed
  idleTimer,   \* Timer::Idle armed
  lostReported,\* number of ConnectionLost events handed to the application
  drainedEv,   \* number of Drained endpoint events emitted
  epHas,       \* the endpoint still routes to this connection
  localClosed, \* the local application called close() while the connection was open
  cause,       \* the first reason the connection ended: "none","local","peer","error","reset","idle"
  deviations   \* named deviations of the implementation from C08 that were exercised (known findings)

lvars == <<st, errSlot, closeFlag, closeTimer, idleTimer, lostReported, drainedEv, epHas,
           localClosed, cause, deviations>>

LInit ==
  /\ st = "hs" /\ errSlot = "none" /\ closeFlag = FALSE /\ closeTimer = FALSE
  /\ idleTimer = TRUE /\ lostReported = 0 /\ drainedEv = 0 /\ epHas = TRUE
  /\ localClosed = FALSE /\ cause = "none" /\ deviations = {}

(* Connection::close ------------------------------------------------------ *)
CanLocalClose == TRUE
DoLocalClose ==
  /\ IF Open(st)
       THEN /\ st' = "closed" /\ closeFlag' = TRUE /\ closeTimer' = TRUE /\ idleTimer' = FALSE
            /\ localClosed' = TRUE /\ cause' = "local"
       ELSE UNCHANGED <<st, closeFlag, closeTimer, idleTimer, localClosed, cause>>
  /\ UNCHANGED <<errSlot, lostReported, drainedEv, epHas, deviations>>

(* A CONNECTION_CLOSE from the peer is processed ------------------------- *)
CanRecvPeerClose == st \in {"hs", "est", "closed"}
DoRecvPeerClose ==
  /\ IF Open(st)
       THEN /\ st' = "draining" /\ errSlot' = "peer" /\ closeTimer' = TRUE /\ idleTimer' = FALSE
            /\ cause' = "peer"
            \* quinn answers a 1-RTT close with one CONNECTION_CLOSE of its own
            /\ closeFlag' \in BOOLEAN
       ELSE /\ st' = "draining" /\ closeFlag' \in BOOLEAN
            /\ UNCHANGED <<errSlot, closeTimer, idleTimer, cause>>
  /\ UNCHANGED <<lostReported, drainedEv, epHas, localClosed, deviations>>

(* A protocol violation by the peer is detected --------------------------- *)
CanRecvError == Open(st)
DoRecvError ==
  /\ st' = "closed" /\ errSlot' = "error" /\ closeFlag' = TRUE /\ closeTimer' = TRUE
  /\ idleTimer' = FALSE /\ cause' = "error"
  /\ UNCHANGED <<lostReported, drainedEv, epHas, localClosed, deviations>>

(* A stateless reset carrying the right token arrives --------------------- *)
(* While the connection is still open it is the reason reported.  Once     *)
(* the connection has ended for another reason the reset only speeds up    *)
(* draining: it must not produce a second report, nor any report after a   *)
(* local close.                                                            *)
CanRecvReset == TRUE
\* KNOWN FINDING (C08): quinn reports ConnectionLost{Reset} when the reset arrives after a purely
\* local close() (state Closed with an application reason); its own test-suite
\* (tests::client_stateless_reset) demands this, so it is modelled as a named deviation.
ResetAfterLocalClose == localClosed /\ st = "closed"
DoRecvReset ==
  /\ IF st = "drained"
       THEN UNCHANGED <<st, errSlot, closeTimer, idleTimer, cause, closeFlag, deviations>>
       ELSE /\ st' = "drained" /\ closeTimer' = FALSE /\ idleTimer' = FALSE /\ closeFlag' = FALSE
            /\ IF Open(st) THEN errSlot' = "reset" /\ cause' = "reset" /\ UNCHANGED deviations
               ELSE IF ResetAfterLocalClose
                 THEN /\ errSlot' = "reset" /\ UNCHANGED cause
                      /\ deviations' = deviations \cup {"ResetReportedAfterLocalClose"}
                 ELSE UNCHANGED <<errSlot, cause, deviations>>
  /\ UNCHANGED <<lostReported, drainedEv, epHas, localClosed>>

(* Any other datagram ------------------------------------------------------ *)
DoRecvBenign ==
  /\ st' \in (IF st = "hs" THEN {"hs", "est"} ELSE {st})
  /\ closeFlag' \in (IF st = "closed" THEN BOOLEAN ELSE {closeFlag})
  /\ UNCHANGED <<errSlot, closeTimer, idleTimer, lostReported, drainedEv, epHas, localClosed, cause,
                 deviations>>

(* Timer::Idle ------------------------------------------------------------- *)
CanIdleTimer == idleTimer /\ Open(st)
DoIdleTimer ==
  /\ st' = "drained" /\ errSlot' = "idle" /\ cause' = "idle"
  /\ closeTimer' = FALSE /\ idleTimer' = FALSE /\ closeFlag' = FALSE
  /\ UNCHANGED <<lostReported, drainedEv, epHas, localClosed, deviations>>

(* Timer::Close ------------------------------------------------------------ *)
CanCloseTimer == closeTimer /\ st \in {"closed", "draining"}
DoCloseTimer ==
  /\ st' = "drained" /\ closeTimer' = FALSE /\ closeFlag' = FALSE
  /\ UNCHANGED <<errSlot, idleTimer, lostReported, drainedEv, epHas, localClosed, cause, deviations>>

(* Connection::poll hands the reason to the application -------------------- *)
CanAppPoll == errSlot # "none"
DoAppPoll ==
  /\ lostReported' = lostReported + 1 /\ errSlot' = "none"
  /\ UNCHANGED <<st, closeFlag, closeTimer, idleTimer, drainedEv, epHas, localClosed, cause, deviations>>

(* The Drained endpoint event is forwarded and the endpoint forgets us ----- *)
CanEmitDrained == st = "drained" /\ drainedEv = 0
DoEmitDrained ==
  /\ drainedEv' = drainedEv + 1 /\ epHas' = FALSE
  /\ UNCHANGED <<st, errSlot, closeFlag, closeTimer, idleTimer, lostReported, localClosed, cause,
                 deviations>>

(* poll_transmit sends the queued CONNECTION_CLOSE -------------------------- *)
CanSendClose == closeFlag /\ st \in {"closed", "draining"}
DoSendClose ==
  /\ closeFlag' \in BOOLEAN   \* cleared once the packet of the highest space went out
  /\ UNCHANGED <<st, errSlot, closeTimer, idleTimer, lostReported, drainedEv, epHas, localClosed, cause,
                 deviations>>

LNext ==
  \/ CanLocalClose /\ DoLocalClose
  \/ CanRecvPeerClose /\ DoRecvPeerClose
  \/ CanRecvError /\ DoRecvError
  \/ CanRecvReset /\ DoRecvReset
  \/ DoRecvBenign
  \/ CanIdleTimer /\ DoIdleTimer
  \/ CanCloseTimer /\ DoCloseTimer
  \/ CanAppPoll /\ DoAppPoll
  \/ CanEmitDrained /\ DoEmitDrained
  \/ CanSendClose /\ DoSendClose

LSpec == LInit /\ [][LNext]_lvars
         /\ WF_lvars(CanCloseTimer /\ DoCloseTimer)
         /\ WF_lvars(CanEmitDrained /\ DoEmitDrained)
         /\ WF_lvars(CanAppPoll /\ DoAppPoll)

-----------------------------------------------------------------------------
(* Property C08, clause by clause                                          *)

TypeOK ==
  /\ st \in States /\ errSlot \in {"none", "peer", "error", "reset", "idle"}
  /\ closeFlag \in BOOLEAN /\ closeTimer \in BOOLEAN /\ idleTimer \in BOOLEAN
  /\ lostReported \in Nat /\ drainedEv \in Nat /\ epHas \in BOOLEAN /\ localClosed \in BOOLEAN

\* the reason is reported exactly once: never twice ...
ReportedAtMostOnce == lostReported + (IF errSlot # "none" THEN 1 ELSE 0) <= 1
\* ... and nothing at the protocol layer for a local close
NothingAfterLocalClose ==
  localClosed => \/ (lostReported = 0 /\ errSlot = "none")
                 \/ "ResetReportedAfterLocalClose" \in deviations
\* a connection that ended for a non-local reason has that reason queued or reported
ReasonNotLost == (cause \notin {"none", "local"}) => (lostReported = 1 \/ errSlot # "none")
\* the final endpoint notification is emitted exactly once
DrainedAtMostOnce == drainedEv <= 1
DrainedOnlyWhenDrained == drainedEv = 1 => st = "drained"
ForgottenIffDrained == epHas = (drainedEv = 0)
\* a closed connection is always on its way to drained
ClosedHasTimer == st \in {"closed", "draining"} => closeTimer
OpenHasNoCloseTimer == Open(st) => ~closeTimer
NoCloseFlagWhenDone == st \in {"hs", "est", "drained"} => ~closeFlag

LifecycleInv ==
  /\ TypeOK /\ ReportedAtMostOnce /\ NothingAfterLocalClose /\ ReasonNotLost
  /\ DrainedAtMostOnce /\ DrainedOnlyWhenDrained /\ ForgottenIffDrained
  /\ ClosedHasTimer /\ OpenHasNoCloseTimer /\ NoCloseFlagWhenDone

\* liveness: once closed, the connection drains and is forgotten; a non-local reason is reported
EventuallyForgotten == [](IsClosed(st) => <>(~epHas))
EventuallyReported == [](errSlot # "none" => <>(lostReported = 1))
=============================================================================
