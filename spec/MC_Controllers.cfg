CONSTANT Depth = 5
SPECIFICATION CSpec
INVARIANT WindowAtLeastTwoDatagrams
CHECK_DEADLOCK FALSE
