------------------------------ MODULE FlowTrace ------------------------------
(***************************************************************************)
(* Trace validation for C05 (sender side of Credit).  For each direction   *)
(* of a client <-> server pair the spec keeps Credit's `known` for every   *)
(* credit loop (per stream, per connection, per stream-count direction):   *)
(* initialised from the peer's transport parameters as tapped at the       *)
(* crypto provider and decoded independently, raised only by MAX_* frames  *)
(* that were delivered to and processed by the sender.  Every STREAM /     *)
(* RESET_STREAM frame the independent decoder sees on the wire must be an  *)
(* enabled Credit!Send.  write() / open() results are checked against the  *)
(* credit visible in the probe taken right before the call.                *)
(***************************************************************************)
EXTENDS Naturals, Integers, Sequences, FiniteSets, TLC, Json, IOUtils

Rec == ndJsonDeserialize(IOEnv.TRACE)
N == Len(Rec)

VARIABLES l, bad, tp, limC, limS, limN, hi, cur
vars == <<l, bad, tp, limC, limS, limN, hi, cur>>

e == Rec[l]
Is(k) == l <= N /\ e.ev = k
Flag(c, name) == IF c THEN {} ELSE {name}
Max(a, b) == IF a >= b THEN a ELSE b
Min(a, b) == IF a <= b THEN a ELSE b
Other(s) == IF s = "c" THEN "s" ELSE "c"
At(f, a, d) == IF a \in DOMAIN f THEN f[a] ELSE d
Set(f, a, v) == IF a \in DOMAIN f THEN [f EXCEPT ![a] = v] ELSE f @@ (a :> v)

NoTp == [md |-> 0, sdbl |-> 0, sdbr |-> 0, sduni |-> 0, msb |-> 0, msu |-> 0, set |-> FALSE]
Sides == {"c", "s"}

TInit == /\ l = 1 /\ bad = {} /\ tp = [s \in Sides |-> NoTp]
         /\ limC = [s \in Sides |-> 0] /\ limS = <<>> /\ limN = [s \in Sides |-> <<0, 0>>]
         /\ hi = <<>> /\ cur = <<0>>

Reset == /\ Is("Reset") /\ tp' = [s \in Sides |-> NoTp] /\ limC' = [s \in Sides |-> 0]
         /\ limS' = <<>> /\ limN' = [s \in Sides |-> <<0, 0>>] /\ hi' = <<>> /\ bad' = {}
         /\ cur' = <<e.run>> /\ l' = l + 1

\* the transport parameters of side e.side are the initial `known` of the *other* side's sends
TP ==
  /\ Is("TP")
  /\ LET o == Other(e.side) IN
       /\ tp' = [tp EXCEPT ![e.side] = [md |-> e.md, sdbl |-> e.sdbl, sdbr |-> e.sdbr,
                                         sduni |-> e.sduni, msb |-> e.msb, msu |-> e.msu, set |-> TRUE]]
       /\ limC' = [limC EXCEPT ![o] = Max(@, e.md)]
       /\ limN' = [limN EXCEPT ![o] = <<Max(@[1], e.msb), Max(@[2], e.msu)>>]
  /\ l' = l + 1 /\ UNCHANGED <<bad, limS, hi, cur>>

Initiator(id) == IF id % 2 = 0 THEN "c" ELSE "s"
IsUni(id) == (id \div 2) % 2 = 1
\* initial stream limit for sender s on stream id, from the peer's parameters
InitLimit(s, id) ==
  LET p == tp[Other(s)] IN
  IF IsUni(id) THEN p.sduni ELSE IF Initiator(id) = s THEN p.sdbr ELSE p.sdbl
StreamLimit(s, id) == Max(InitLimit(s, id), At(limS, <<s, id>>, 0))

\* Credit!DeliverMax for every MAX_* frame that arrived at side e.side
RECURSIVE ApplyMax(_, _, _, _, _)
ApplyMax(fr, k, c, sset, nn) ==
  IF k = 0 THEN <<c, sset, nn>>
  ELSE LET f == fr[k]
           c2 == IF f.k = "md" THEN Max(c, f.v) ELSE c
           s2 == IF f.k = "msd" THEN Set(sset, <<e.side, f.id>>, Max(At(sset, <<e.side, f.id>>, 0), f.v)) ELSE sset
           n2 == IF f.k = "msb" THEN <<Max(nn[1], f.v), nn[2]>>
                 ELSE IF f.k = "msu" THEN <<nn[1], Max(nn[2], f.v)>> ELSE nn
       IN ApplyMax(fr, k - 1, c2, s2, n2)

MaxArr ==
  /\ Is("MaxArr")
  /\ LET r == ApplyMax(e.fr, Len(e.fr), limC[e.side], limS, limN[e.side]) IN
       /\ limC' = [limC EXCEPT ![e.side] = r[1]]
       /\ limS' = r[2]
       /\ limN' = [limN EXCEPT ![e.side] = r[3]]
  /\ l' = l + 1 /\ UNCHANGED <<bad, tp, hi, cur>>

SumHi(h, s) ==
  LET ks == {k \in DOMAIN h : k[1] = s} IN
  LET RECURSIVE Sum(_)
      Sum(S) == IF S = {} THEN 0 ELSE LET x == CHOOSE x \in S : TRUE IN h[x] + Sum(S \ {x})
  IN Sum(ks)

\* Credit!Send for every STREAM / RESET_STREAM frame on the wire
RECURSIVE ApplySent(_, _, _, _)
ApplySent(fr, k, h, flags) ==
  IF k = 0 THEN <<h, flags>>
  ELSE LET f == fr[k]
           s == e.side
           key == <<s, f.id>>
           h2 == Set(h, key, Max(At(h, key, 0), f.end))
           idx == f.id \div 4
           dirI == IF IsUni(f.id) THEN 2 ELSE 1
           fl == Flag(f.end <= StreamLimit(s, f.id), "StreamDataLimitExceeded")
                 \cup Flag(Initiator(f.id) # s \/ idx < limN[s][dirI], "StreamCountLimitExceeded")
       IN ApplySent(fr, k - 1, h2, flags \cup fl)

Sent ==
  /\ Is("Sent")
  /\ LET r == ApplySent(e.fr, Len(e.fr), hi, {}) IN
       /\ hi' = r[1]
       /\ bad' = bad \cup r[2] \cup Flag(SumHi(r[1], e.side) <= limC[e.side], "ConnectionDataLimitExceeded")
                     \cup Flag(tp[Other(e.side)].set, "StreamDataBeforePeerParameters")
  /\ l' = l + 1 /\ UNCHANGED <<tp, limC, limS, limN, cur>>

\* write() accepts exactly the available credit
Write ==
  /\ Is("Write")
  /\ LET budget0 == Min(e.ccredit, e.wcredit)
         \* a send stream is materialised lazily: before that its credit is the initial limit
         budget == Min(budget0, IF e.scredit >= 0 THEN e.scredit ELSE InitLimit(e.side, e.id))
     IN bad' = bad
          \cup Flag(e.res = "Ok" => (e.n = Min(e.len, budget) /\ e.n <= e.len), "WriteAcceptedMoreOrLessThanCredit")
          \cup Flag((e.res = "Ok" /\ e.len > 0) => budget > 0, "WriteAcceptedWithoutCredit")
          \cup Flag((e.res = "Blocked" /\ ~e.closed) => budget = 0, "BlockedAlthoughCreditAvailable")
          \* the connection's count of unacknowledged bytes equals what its send buffers hold
          \cup Flag(e.closed \/ e.ua = e.uasum, "SendWindowAccountingDrift")
  /\ l' = l + 1 /\ UNCHANGED <<tp, limC, limS, limN, hi, cur>>

Open ==
  /\ Is("Open")
  /\ bad' = bad \cup Flag(e.some = (e.next < e.max /\ ~e.closed), "OpenDisagreesWithStreamCredit")
                \cup Flag(e.some => (e.id \div 4) < limN[e.side][e.dir + 1], "OpenedBeyondPeerLimit")
  /\ l' = l + 1 /\ UNCHANGED <<tp, limC, limS, limN, hi, cur>>

TNext == Reset \/ TP \/ MaxArr \/ Sent \/ Write \/ Open
TraceSpec == TInit /\ [][TNext]_vars

Watch == TLCSet(1, <<l, bad, cur>>) /\ bad = {}
TraceAccepted ==
  LET r == TLCGet(1) d == TLCGet("stats").diameter IN
  IF r[2] # {} THEN Print(<<"VIOLATION", r[2], "line", r[1] - 1, "run", r[3]>>, FALSE)
  ELSE IF d - 1 # N THEN Print(<<"UNMATCHED", "line", d, "run", r[3]>>, FALSE)
  ELSE TRUE
=============================================================================
