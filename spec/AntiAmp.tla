------------------------------- MODULE AntiAmp -------------------------------
(***************************************************************************)
(* Anti-amplification (property C07).                                      *)
(*                                                                         *)
(* A server-side connection keeps, per peer address, the bytes received    *)
(* from it and the bytes sent to it.  While the address is not validated   *)
(* a datagram may be started only if some budget remains                   *)
(*      (PathData::anti_amplification_blocked: recvd*3 < sent + 1)         *)
(* which allows completing one datagram once any budget remains.           *)
(* Validation: a Handshake packet from the address, a validated token at   *)
(* accept time, or a matching PATH_RESPONSE from the address.              *)
(* The design model lets an adversarial client send datagrams of any size  *)
(* and lets the server try to send whenever timers or data want to.        *)
(***************************************************************************)
EXTENDS Naturals, Integers

\* (the @type comments are for Apalache, which proves AntiAmpInd!IndInv inductive for every constant)
CONSTANTS
  \* @type: Int;
  MaxDg,     \* largest datagram the server emits (abstract units)
  \* @type: Int;
  MaxRx,     \* bound on bytes an unvalidated client sends in the model
  \* @type: Set(Int);
  Sizes      \* datagram sizes the client may send

VARIABLES
  \* @type: Int;
  rx,
  \* @type: Int;
  tx,
  \* @type: Bool;
  validated

avars == <<rx, tx, validated>>

AInit == rx = 0 /\ tx = 0 /\ validated = FALSE

\* guard used by the implementation before *starting* a datagram
MayStart == validated \/ tx < 3 * rx

\* the client sends a datagram of size s that reaches the connection
ClientDatagram(s, proves) ==
  /\ rx + s <= MaxRx
  /\ rx' = rx + s
  /\ validated' = (validated \/ proves)     \* carries a Handshake packet / PATH_RESPONSE
  /\ UNCHANGED tx

\* the server emits one datagram of size s (data, PTO probe, anything)
ServerDatagram(s) ==
  /\ MayStart
  /\ tx' = tx + s
  /\ UNCHANGED <<rx, validated>>

ANext ==
  \/ \E s \in Sizes, p \in BOOLEAN : ClientDatagram(s, p)
  \/ \E s \in 1 .. MaxDg : ServerDatagram(s)

ASpec == AInit /\ [][ANext]_avars

\* model bound: after validation sending is unconstrained, stop exploring there
Bounded == tx <= 3 * MaxRx + 2 * MaxDg

\* C07: three times what was received, plus at most the completion of one datagram
AmpBound == ~validated => tx <= 3 * rx + MaxDg - 1
\* a datagram is never started with an exhausted budget
NeverStartedWithoutBudget == [][(tx' > tx /\ ~validated) => tx < 3 * rx]_avars
=============================================================================
