----------------------------- MODULE CodecTrace -----------------------------
(***************************************************************************)
(* Property C10.  Validates what quinn-proto's encoders and decoders       *)
(* returned on the test vectors (file IOEnv.TRACE, one JSON object per     *)
(* line, written by harness-codec) against the reference codecs of module  *)
(* Codec: a value for a value, an error for an error (error kinds are not  *)
(* compared), a panic is a violation.  Every line is one vector; `run` is  *)
(* the index of the vector it came from.                                   *)
(*                                                                         *)
(* Lines (k):                                                              *)
(*   Var      varint encoder: size, bytes, decode of the bytes             *)
(*   Dec      a decoder (d) applied to a byte string (bs): var, frames,    *)
(*            tpc / tps (transport parameters as read by a client /        *)
(*            server), cid, dg (datagram split into coalesced packets),    *)
(*            pk (first packet through header-protection removal)          *)
(*   EncFrame a frame encoder; EncClose the close encoders with a budget   *)
(*   Pn       packet number truncation, and expansion over a whole window  *)
(*            of receiver states, run-length encoded                       *)
(*   Tp       transport parameter writer; Pkt header encoders and the      *)
(*            split of the coalesced result; Token; CidGen; Panic          *)
(***************************************************************************)
EXTENDS Codec, Json, IOUtils

Rec == ndJsonDeserialize(IOEnv.TRACE)
NLines == Len(Rec)

VARIABLES l, bad, deviations, cur
tvars == <<l, bad, deviations, cur>>
e == Rec[l]
Flag(c, name) == IF c THEN {} ELSE {name}
V1 == <<0, 0, 0, 1>>

\* ---------------------------------------------------------------- reference results as logged
RefVar(bs) == LET r == Dec(bs) IN IF r.ok THEN [ok |-> TRUE, v |-> r.v, p |-> r.p] ELSE Fail
RefCid(bs) == LET r == DecCidLong(bs, 1) IN IF r.ok THEN [ok |-> TRUE, d |-> r.d, p |-> r.p] ELSE Fail
RefTp(bs, side, q) == LET r == DecTpQ(bs, side, q) IN
  IF r.ok THEN [ok |-> TRUE, tp |-> r.tp, lax |-> r.lax] ELSE [ok |-> FALSE, lax |-> r.lax]
\* first packet of a datagram after header protection is removed (sample of 4 + 16 bytes)
RefPk(bs, cl, g, q) ==
  LET h == DecHeaderQ(bs, cl, {V1}, g, q) IN
  IF ~h.ok THEN Fail
  ELSE LET pkt == SubSeq(bs, 1, h.total)
           base == [ok |-> TRUE, kind |-> h.kind, dcid |-> h.dcid, scid |-> <<>>, token |-> <<>>, pn |-> <<>>, spin |-> 0,
                    kp |-> 0, random |-> 0, version |-> <<0, 0, 0, 0>>, hlen |-> h.pnoff - 1, plen |-> h.total - (h.pnoff - 1)] IN
    IF h.kind = "vn" THEN [base EXCEPT !.scid = h.scid, !.random = h.random]
    ELSE IF h.kind = "retry" THEN [base EXCEPT !.scid = h.scid, !.version = h.version]
    ELSE LET d == DecPn(pkt, h.pnoff, 20) IN
      IF ~d.ok THEN Fail
      ELSE LET b2 == [base EXCEPT !.pn = d.pn, !.hlen = d.hlen, !.plen = h.total - d.hlen] IN
        IF h.kind = "short" THEN [b2 EXCEPT !.spin = h.spin, !.kp = (bs[1] \div 4) % 2]
        ELSE [b2 EXCEPT !.scid = h.scid, !.token = h.token, !.version = h.version]

\* ------------------------------------------------------------------------------ line checks
VarCk ==
  Flag(e.has /\ e.out = Enc(e.v) /\ e.wv = e.out, "VarintEncodeDiffers")
  \cup Flag(e.size = VSize(e.v), "VarintSizeDiffers")
  \cup Flag(e.back = [ok |-> TRUE, v |-> e.v, p |-> VSize(e.v) + 1] /\ e.rt = <<e.v>>, "VarintRoundTrip")

\* Named deviations from the reference that are recorded as known findings (known_findings.json),
\* not violations.  Each is modelled exactly (see the q parameter of Codec!TpApply): a result that
\* matches neither the reference nor the modelled deviation is a violation.
KnownNames == {"TransportParameterLengthNotEnforced", "CloseFrameExceedsBudget", "VersionNegotiationWithoutFixedBitDropped",
               "TokenIssuedTimeOverflowPanics"}
TpSame(res, ref) == res.ok = ref.ok /\ (res.ok => res.tp = ref.tp)
TpCk(res, bs, side) ==
  LET ref == RefTp(bs, side, FALSE) IN
  IF ref.lax \/ TpSame(res, ref) THEN {}
  ELSE IF TpSame(res, RefTp(bs, side, TRUE)) THEN {"TransportParameterLengthNotEnforced"}
  ELSE Flag(res.ok = ref.ok, "TransportParametersVerdictDiffers")
       \cup Flag(~(res.ok /\ ref.ok) \/ res.tp = ref.tp, "TransportParametersValueDiffers")

DecCk ==
  CASE e.d = "var" -> Flag(e.res = RefVar(e.bs), "VarintDecodeDiffers")
    [] e.d = "cid" -> Flag(e.res = RefCid(e.bs), "CidDecodeDiffers")
    [] e.d = "frames" ->
         LET r == DecFrames(e.bs) IN
         Flag(e.res.ok = r.ok, "FrameDecodeVerdictDiffers") \cup Flag(e.res.frames = r.frames, "FrameDecodeValueDiffers")
    [] e.d = "tpc" -> TpCk(e.res, e.bs, "client")
    [] e.d = "tps" -> TpCk(e.res, e.bs, "server")
    [] e.d = "dg" ->
         LET r == Split(e.bs, e.cl, {V1}, e.g)
             rq == SplitQ(e.bs, e.cl, {V1}, e.g, TRUE) IN
         (IF e.res.ok = r.ok /\ e.res.pkts = r.pkts THEN {}
          ELSE IF e.res.ok = rq.ok /\ e.res.pkts = rq.pkts THEN {"VersionNegotiationWithoutFixedBitDropped"}
          ELSE Flag(e.res.ok = r.ok, "DatagramSplitVerdictDiffers") \cup Flag(e.res.pkts = r.pkts, "DatagramSplitDiffers"))
         \cup Flag(\A i \in 1..Len(e.res.pkts) : e.res.pd[i] = e.res.pkts[i].dcid, "PartialDecodeDstCidDiffers")
    [] e.d = "pk" ->
         IF e.res = RefPk(e.bs, e.cl, e.g, FALSE) THEN {}
         ELSE IF e.res = RefPk(e.bs, e.cl, e.g, TRUE) THEN {"VersionNegotiationWithoutFixedBitDropped"}
         ELSE {"PacketDecodeDiffers"}
    [] OTHER -> {"UnknownDecoder"}

EncFrameCk ==
  Flag(e.has /\ e.out = EncFrame(e.f, e.len), "FrameEncodeDiffers")
  \cup Flag(e.back = [ok |-> TRUE, frames |-> <<e.f>>], "FrameRoundTrip")

IsPrefix(a, b) == Len(a) <= Len(b) /\ a = SubSeq(b, 1, Len(a))
\* KNOWN FINDING (C10) "CloseFrameExceedsBudget": ConnectionClose::encode / ApplicationClose::encode
\* reserve 3 bytes for the frame type and the error code together, so with an error code of 2^14 or
\* more (4 or 8 byte varint) and a reason that has to be cut, the frame is 2 or 6 bytes longer than
\* the space it was given.  Modelled exactly: reason cut to max - 3 - [size of frame type field]
\* - size of the uncut reason length.
QuinnCloseLen(f, max) ==
  LET full == Len(f.b[1])
      room == max - 3 - (IF f.ty = "CONNECTION_CLOSE" THEN VSize(f.n[2]) ELSE 0) - VSize(N(full)) IN
  IF full < room THEN full ELSE room
EncCloseCk ==
  LET r == DecFrames(e.out)
      q == [e.f EXCEPT !.b = <<SubSeq(e.f.b[1], 1, QuinnCloseLen(e.f, e.max))>>] IN
  Flag(/\ r.ok /\ Len(r.frames) = 1 /\ r.frames[1].ty = e.f.ty /\ r.frames[1].n = e.f.n
       /\ IsPrefix(r.frames[1].b[1], e.f.b[1]) /\ e.out = EncFrame(r.frames[1], TRUE), "CloseEncodeDiffers")
  \cup Flag(e.back = r, "FrameRoundTrip")
  \cup (IF Len(e.out) <= e.max THEN {}
        ELSE IF e.out = EncFrame(q, TRUE) THEN {"CloseFrameExceedsBudget"} ELSE {"CloseExceedsBudget"})
  \* nothing is cut off while there is room
  \cup Flag(~r.ok \/ r.frames[1].b = e.f.b \/ Len(e.out) >= e.max - 8, "CloseTruncatedEarly")

\* runs = <<<<value, count>>, ...>> over the expected values e0, e0 + 1, ...; the reference expansion
\* is monotone in `expected`, so agreeing at both ends of a run is agreeing on all of it
RECURSIVE RunsCk(_, _, _, _)
RunsCk(runs, i, off, t) ==
  IF i > Len(runs) THEN Flag(off = e.cnt, "PnWindowIncomplete")
  ELSE LET v == runs[i][1] c == runs[i][2]
           k == Len(e.out)
           a == NAdd(e.e0, N(off)) b == NAdd(e.e0, N(off + c - 1)) IN
       Flag(Expand(t, k, a) = v /\ Expand(t, k, b) = v, "PnExpandDiffers")
       \cup Flag((InWindow(e.n, e.la, k, a) => v = e.n) /\ (InWindow(e.n, e.la, k, b) => v = e.n), "PnRoundTripInWindow")
       \cup RunsCk(runs, i + 1, off + c, t)
PnCk ==
  Flag(e.out = Truncate(e.n, e.la) /\ e.len = Len(e.out), "PnTruncateDiffers")
  \cup (IF Len(e.out) \notin 1..4 \/ ~e.ok \/ e.over \/ e.runs = <<>> THEN {"PnExpandDiffers"}
        ELSE RunsCk(e.runs, 1, 0, FromBytes(e.out)) \cup Flag(e.single = <<e.runs[1][1]>>, "PnExpandDiffers"))

TpEncCk ==
  LET r == DecTpSyntax(e.out) IN
  Flag(r.ok /\ r.tp = e.tp, "TransportParametersEncodeLosesValue")
  \cup TpCk(e.rc, e.out, "client") \cup TpCk(e.rs, e.out, "server")

\* header encoders and the split of the coalesced datagram
PktCk ==
  LET np == Len(e.pkts)
      dg == Cat(e.outs)
      r == Split(dg, e.cidlen, {V1}, FALSE) IN
  Flag(Len(e.outs) = np /\ \A i \in 1..np : e.outs[i] = EncPkt(e.pkts[i]), "HeaderEncodeDiffers")
  \cup Flag(e.split.ok /\ Len(e.split.pkts) = np /\ \A i \in 1..Min(np, Len(e.split.pkts)) : e.split.pkts[i].total = Len(e.outs[i]),
            "CoalescedSplitNotAtEncodedBoundary")
  \cup Flag(e.split.ok = r.ok /\ Len(e.split.pkts) = Len(r.pkts)
            /\ e.split.pkts = r.pkts, "DatagramSplitDiffers")
  \cup Flag(Len(e.full) = np /\ \A i \in 1..Min(np, Len(e.full)) :
              LET pk == e.pkts[i] fu == e.full[i] IN
              /\ fu = RefPk(e.outs[i], e.cidlen, FALSE, FALSE)
              /\ fu.ok /\ fu.kind = pk.kind /\ fu.dcid = pk.dcid
              /\ (pk.kind # "short" => fu.scid = pk.scid)
              /\ (pk.kind = "initial" => fu.token = pk.token)
              /\ (pk.kind \in {"initial", "zerortt", "handshake", "short"} => fu.pn = Truncate(pk.n, pk.la) /\ fu.plen = Len(pk.rest))
              /\ (pk.kind = "short" => fu.spin = pk.spin /\ fu.kp = pk.kp),
            "HeaderRoundTrip")

TokenCk ==
  LET plain == IF e.retry THEN EncRetryToken(e.ip, e.port, e.cid, B8(e.secs)) ELSE EncValidationToken(e.ip, B8(e.secs))
      unval == [err |-> FALSE, rscid |-> <<>>, odcid |-> e.dst, validated |-> FALSE] IN
  Flag(e.plain = plain /\ Len(e.out) = Len(plain) + 32, "TokenLayoutDiffers")
  \cup Flag(e.same = IF e.retry THEN [err |-> FALSE, rscid |-> <<e.dst>>, odcid |-> e.cid, validated |-> TRUE]
                     ELSE [err |-> FALSE, rscid |-> <<>>, odcid |-> e.dst, validated |-> TRUE], "TokenRoundTrip")
  \* a validation token is accepted once (token log), a retry token is not logged
  \cup Flag(e.again = IF e.retry THEN e.same ELSE unval, "TokenReuse")
  \* a retry token is bound to address and port, a validation token to the address only
  \cup Flag(e.port2 = IF e.retry THEN [err |-> TRUE] ELSE e.same, "TokenAddressBinding")
  \cup Flag(e.ip2 = IF e.retry THEN [err |-> TRUE] ELSE unval, "TokenAddressBinding")
  \cup Flag(e.rejected = e.muts, "CorruptTokenNotIgnored")

\* A token whose plaintext is arbitrary (sealed with the right key), presented from 192.0.2.7:4433
\* to destination CID e.dst; tokens never expire in this setup.
\* KNOWN FINDING (C10) "TokenIssuedTimeOverflowPanics": decode_unix_secs / the expiry computation add
\* the 64-bit issue time to a SystemTime without a check; 2^63 seconds or more panic ("overflow when
\* adding duration to instant").  Only a holder of the token key can produce such a token.
Here == <<192, 0, 2, 7>>
TokenRawExpected(plain, dst) ==
  LET t == DecTokenPlain(plain)
      unval == [err |-> FALSE, rscid |-> <<>>, odcid |-> dst, validated |-> FALSE] IN
  IF ~t.ok THEN unval
  ELSE IF t.retry THEN (IF t.ip = Here /\ t.port = 4433 THEN [err |-> FALSE, rscid |-> <<dst>>, odcid |-> t.cid, validated |-> TRUE]
                        ELSE [err |-> TRUE])
  ELSE IF t.ip = Here THEN [err |-> FALSE, rscid |-> <<>>, odcid |-> dst, validated |-> TRUE] ELSE unval
\* an issue time of 2^63 seconds or more is beyond the system clock's range: any verdict but a panic
TokenRawCk ==
  LET t == DecTokenPlain(e.plain) IN
  IF t.ok /\ t.secs8[1] >= 128 THEN Flag(e.res.err \in BOOLEAN, "TokenPlaintextDecodeDiffers")
  ELSE Flag(e.res = TokenRawExpected(e.plain, e.dst), "TokenPlaintextDecodeDiffers")
PanicCk ==
  IF e.of = "TokenRaw" THEN
    LET t == DecTokenPlain(e.input.plain) IN
    IF t.ok /\ t.secs8[1] >= 128 THEN {"TokenIssuedTimeOverflowPanics"} ELSE {"Panicked"}
  ELSE {"Panicked"}

CidGenCk ==
  Flag(e.valid /\ e.len = 8 /\ Len(e.cid) = 8, "GeneratedCidNotValidated")
  \cup Flag(e.long = EncCidLong(e.cid) /\ e.back = [ok |-> TRUE, d |-> e.cid, p |-> Len(e.cid) + 2], "CidRoundTrip")

Check ==
  CASE e.k = "Var" -> VarCk [] e.k = "Dec" -> DecCk [] e.k = "EncFrame" -> EncFrameCk [] e.k = "EncClose" -> EncCloseCk
    [] e.k = "Pn" -> PnCk [] e.k = "Tp" -> TpEncCk [] e.k = "Pkt" -> PktCk [] e.k = "Token" -> TokenCk
    [] e.k = "TokenRaw" -> TokenRawCk [] e.k = "CidGen" -> CidGenCk [] e.k = "Panic" -> PanicCk [] OTHER -> {"UnknownRecord"}

\* ------------------------------------------------------------------------------- machine
TInit == l = 1 /\ bad = {} /\ deviations = {} /\ cur = <<0, "none">>
Step == /\ l <= NLines
        /\ LET c == Check IN /\ bad' = bad \cup (c \ KnownNames)
                             /\ deviations' = deviations \cup (c \cap KnownNames)
        /\ cur' = <<e.run, e.k>>
        /\ l' = l + 1
TNext == Step /\ (deviations' \subseteq deviations \/ PrintT(<<"KNOWN", deviations' \ deviations, "line", l, "run", cur'>>))
TraceSpec == TInit /\ [][TNext]_tvars
Watch == TLCSet(1, <<l, bad, cur>>) /\ bad = {}
TraceAccepted ==
  LET r == TLCGet(1) d == TLCGet("stats").diameter IN
  IF r[2] # {} THEN Print(<<"VIOLATION", r[2], "line", r[1] - 1, "run", r[3]>>, FALSE)
  ELSE IF d - 1 # NLines THEN Print(<<"UNMATCHED", "line", d, "run", r[3]>>, FALSE)
  ELSE TRUE
=============================================================================
