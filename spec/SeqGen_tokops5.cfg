CONSTANT Alphabet = {"conn1", "conn2", "close1", "close2", "wait", "expire", "moveport", "moveip", "spoof", "force", "ping"}
CONSTANT N = 5
INIT Init
NEXT Next
INVARIANT Emit
CHECK_DEADLOCK FALSE
