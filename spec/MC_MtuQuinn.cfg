\* quinn's search formula verbatim: TLC reports a violation of Safety (probe not above the
\* estimate, then the estimate below min_mtu).  Not part of the check; documents the finding.
CONSTANT LpCap = 4
CONSTANT MaxUdp = 9
CONSTANT MinMtus = {4, 5}
CONSTANT IMtus = {4, 6}
CONSTANT Uppers = {5, 8}
CONSTANT MinChgs = {1, 2}
CONSTANT Mtuds = {TRUE, FALSE}
CONSTANT Peers = {4, 6, 9}
CONSTANT Links = {4, 6, 9}
CONSTANT W = 1
CONSTANT D = 1
CONSTANT Changes = 1
CONSTANT Paths = 1
CONSTANT Restarts = 1
CONSTANT Quinn = TRUE
SPECIFICATION Spec
INVARIANT Safety
PROPERTY RiseOnlyByAck
PROPERTY FallOnlyExplained
PROPERTY SearchEnds
CHECK_DEADLOCK FALSE
