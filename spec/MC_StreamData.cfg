CONSTANT MaxLen = 3
CONSTANT MaxSeg = 2
CONSTANT MaxLoss = 2
SPECIFICATION Spec
INVARIANT StreamDataInv
CONSTRAINT Bounded
CHECK_DEADLOCK FALSE
