CONSTANT Alphabet = {"st", "rs", "wr", "fi", "rd", "t"}
CONSTANT N = 4
INIT Init
NEXT Next
INVARIANT Emit
CHECK_DEADLOCK FALSE
