------------------------------- MODULE Credit -------------------------------
(***************************************************************************)
(* One flow-control credit loop (properties C05 and C06): the same shape   *)
(* serves a stream's MAX_STREAM_DATA, the connection's MAX_DATA and, with  *)
(* "bytes" read as "streams", MAX_STREAMS.                                 *)
(*   receiver: advertises `adv`; consumes (application read / stop /       *)
(*             accepted reset) and, once enough was consumed, advertises   *)
(*             read + Window again (Recv::max_stream_data, add_read_credits)*)
(*   sender:   may send up to the largest limit that has *arrived*         *)
(*   network:  data and MAX updates are lost, duplicated and reordered     *)
(***************************************************************************)
EXTENDS Naturals, Integers, FiniteSets

CONSTANTS
  \* @type: Int;
  Window,   \* receive window
  \* @type: Int;
  Total     \* amount the sending application wants to send

\* (the @type comments are for Apalache, which proves CreditInd!IndInv inductive for every Window and Total)
VARIABLES
  \* @type: Int;
  adv,    \* highest limit the receiver has put on the wire
  \* @type: Int;
  known,  \* highest limit that has arrived at the sender
  \* @type: Int;
  sent,   \* highest offset sent
  \* @type: Int;
  rcvd,   \* highest offset received
  \* @type: Int;
  read,   \* consumed by the receiving application
  \* @type: Set(<<Str, Int>>);
  net     \* in flight: <<"data", off>> (all bytes below off) or <<"max", v>>

cvars == <<adv, known, sent, rcvd, read, net>>

CInit == adv = Window /\ known = Window /\ sent = 0 /\ rcvd = 0 /\ read = 0 /\ net = {}

\* sender: only within the limit that has arrived (SendStream::write budget, Streams::open)
Send(n) == /\ n > 0 /\ sent + n <= Total
           /\ sent + n <= known
           /\ sent' = sent + n /\ net' = net \cup {<<"data", sent + n>>}
           /\ UNCHANGED <<adv, known, rcvd, read>>

\* receiver enforces its own advertisement (C06): anything beyond is a protocol error
DeliverData(m, keep) ==
  /\ m \in net /\ m[1] = "data"
  /\ m[2] <= adv                       \* enforced: StreamsState::received -> FLOW_CONTROL_ERROR
  /\ rcvd' = IF m[2] > rcvd THEN m[2] ELSE rcvd
  /\ net' = IF keep THEN net ELSE net \ {m}
  /\ UNCHANGED <<adv, known, sent, read>>

Read(n) == /\ n > 0 /\ read + n <= rcvd /\ read' = read + n
           /\ UNCHANGED <<adv, known, sent, rcvd, net>>

\* credit is issued only for what was consumed
Advertise == /\ read + Window > adv
             /\ adv' = read + Window
             /\ net' = net \cup {<<"max", read + Window>>}
             /\ UNCHANGED <<known, sent, rcvd, read>>

DeliverMax(m, keep) ==
  /\ m \in net /\ m[1] = "max"
  /\ known' = IF m[2] > known THEN m[2] ELSE known
  /\ net' = IF keep THEN net ELSE net \ {m}
  /\ UNCHANGED <<adv, sent, rcvd, read>>

Lose(m) == m \in net /\ net' = net \ {m} /\ UNCHANGED <<adv, known, sent, rcvd, read>>

CNext ==
  \/ \E n \in 1 .. Total : Send(n) \/ Read(n)
  \/ Advertise
  \/ \E m \in net, k \in BOOLEAN : DeliverData(m, k) \/ DeliverMax(m, k)
  \/ \E m \in net : Lose(m)

CSpec == CInit /\ [][CNext]_cvars

\* C05: the sender stays within what arrived, which never exceeds what was advertised
SenderWithinLimit == sent <= known /\ known <= adv
\* C06: bounded buffering, credit only for consumed data
BufferedBounded == rcvd - read <= Window
CreditOnlyForConsumed == adv <= read + Window
Monotone == [][adv' >= adv /\ known' >= known]_cvars
CreditInv == SenderWithinLimit /\ BufferedBounded /\ CreditOnlyForConsumed /\ rcvd <= sent
=============================================================================
