CONSTANT Limit = 2
CONSTANT MaxSeq = 4
CONSTANT Capped = FALSE
SPECIFICATION CSpec
INVARIANT WellFormedFrames
INVARIANT UserWithinLimit
INVARIANT UserUsesLiveId
INVARIANT RetiresOnlyIssued
INVARIANT IssuerNeverForgetsUnissued
CHECK_DEADLOCK FALSE
