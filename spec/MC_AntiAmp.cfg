CONSTANT MaxDg = 4
CONSTANT MaxRx = 9
CONSTANT Sizes = {1, 2, 4}
SPECIFICATION ASpec
INVARIANT AmpBound
PROPERTY NeverStartedWithoutBudget
CHECK_DEADLOCK FALSE
CONSTRAINT Bounded
