------------------------------ MODULE SchedTrace ------------------------------
(***************************************************************************)
(* Trace validation of stream scheduling (Sched.tla) on runs with one      *)
(* client/server pair.  The queue of Sched is replayed per side from the   *)
(* application's calls (write, finish, reset, set_priority - each with its *)
(* result) and compared with the order of the STREAM frames on the wire:   *)
(*   StreamFrameOutOfTurn     every frame takes the stream Sched!Pop       *)
(*                            serves next (highest queued priority, then   *)
(*                            longest waiting; ~Fair: the unfinished one   *)
(*                            first), reset streams skipped                *)
(*   FrameFromUnqueuedStream  a frame appears although no stream has       *)
(*                            unsent data                                  *)
(*   FrameBeyondWrittenData   a frame carries more than was written        *)
(* A side is judged until something re-queues data behind the              *)
(* application's back (loss, probe timeout, close): event Dirty.           *)
(***************************************************************************)
EXTENDS Naturals, Integers, Sequences, FiniteSets, TLC, Json, IOUtils, SchedOps
Rec == ndJsonDeserialize(IOEnv.TRACE)
N == Len(Rec)
VARIABLES l, bad, unsent, finp, prio, rst, queue, next, ticket, sentEnd, dirty, fair, cur
vars == <<l, bad, unsent, finp, prio, rst, queue, next, ticket, sentEnd, dirty, fair, cur>>
e == Rec[l]
Is(k) == l <= N /\ e.ev = k
Flag(c, name) == IF c THEN {} ELSE {name}
Sides == {"c", "s"}
At(f, a, d) == IF a \in DOMAIN f THEN f[a] ELSE d
Set(f, a, v) == IF a \in DOMAIN f THEN [f EXCEPT ![a] = v] ELSE f @@ (a :> v)
Blank(v) == [x \in Sides |-> v]

TInit == /\ l = 1 /\ bad = {} /\ unsent = Blank(<<>>) /\ finp = Blank({}) /\ prio = Blank(<<>>) /\ rst = Blank({})
         /\ queue = Blank({}) /\ next = Blank(<<>>) /\ ticket = 0 /\ sentEnd = Blank(<<>>) /\ dirty = Blank(FALSE)
         /\ fair = Blank(TRUE) /\ cur = <<0>>
Reset == /\ Is("Reset") /\ bad' = {} /\ unsent' = Blank(<<>>) /\ finp' = Blank({}) /\ prio' = Blank(<<>>) /\ rst' = Blank({})
         /\ queue' = Blank({}) /\ next' = Blank(<<>>) /\ ticket' = 0 /\ sentEnd' = Blank(<<>>) /\ dirty' = Blank(FALSE)
         /\ fair' = [c |-> e.fair.c, s |-> e.fair.s] /\ cur' = <<e.run>> /\ l' = l + 1

Pending(x, id) == At(unsent[x], id, 0) > 0 \/ id \in finp[x]

\* an application call (Sched!Write, SetPrio, ResetStream; finish queues the end-of-stream mark)
Op ==
  /\ Is("Op")
  /\ LET x == e.side id == e.id was == Pending(x, id) p == At(prio[x], id, 0) IN
     /\ unsent' = IF e.op = "write" THEN [unsent EXCEPT ![x] = Set(@, id, At(@, id, 0) + e.n)] ELSE unsent
     /\ finp' = IF e.op = "finish" THEN [finp EXCEPT ![x] = @ \cup {id}] ELSE finp
     /\ prio' = IF e.op = "prio" THEN [prio EXCEPT ![x] = Set(@, id, e.p)] ELSE prio
     /\ rst' = IF e.op = "reset" THEN [rst EXCEPT ![x] = @ \cup {id}] ELSE rst
     /\ IF e.op \in {"write", "finish"} /\ ~was
          THEN /\ queue' = [queue EXCEPT ![x] = @ \cup {<<id, p, ticket>>}] /\ ticket' = ticket + 1
          ELSE UNCHANGED <<queue, ticket>>
  /\ bad' = bad /\ l' = l + 1 /\ UNCHANGED <<next, sentEnd, dirty, fair, cur>>

Dirty == /\ Is("Dirty") /\ dirty' = [dirty EXCEPT ![e.side] = TRUE] /\ bad' = bad /\ l' = l + 1
         /\ UNCHANGED <<unsent, finp, prio, rst, queue, next, ticket, sentEnd, fair, cur>>

\* drop reset streams from the front: <<queue, next>> once the head is a stream that may send
RECURSIVE Skip(_, _, _)
Skip(q, nx, rs) ==
  IF nx # <<>> THEN (IF nx[1] \in rs THEN Skip(q, <<>>, rs) ELSE <<q, nx>>)
  ELSE IF q = {} THEN <<q, nx>>
  ELSE IF Top(q)[1] \in rs THEN Skip(q \ {Top(q)}, <<>>, rs) ELSE <<q, nx>>

\* replay the frames of one transmission of side x:
\* <<unsent, finp, queue, next, ticket, sentEnd, flags>>
RECURSIVE Frames(_, _, _, _, _, _, _, _, _)
Frames(fr, i, x, u, fp, q, nx, tk, se) ==
  IF i > Len(fr) THEN <<u, fp, q, nx, tk, se, {}>>
  ELSE
    LET f == fr[i]
        k == Skip(q, nx, rst[x])
        q0 == k[1] nx0 == k[2]
    IN IF f.off < At(se, f.id, 0) THEN <<u, fp, q, nx, tk, se, {"Retransmission"}>>
       ELSE IF q0 = {} /\ nx0 = <<>> THEN <<u, fp, q, nx, tk, se, {"FrameFromUnqueuedStream"}>>
       ELSE
         LET h == IF nx0 # <<>> THEN nx0 ELSE Top(q0)
             q1 == IF nx0 # <<>> THEN q0 ELSE q0 \ {h}
             left == At(u, f.id, 0) - f.len
             u1 == Set(u, f.id, left)
             fp1 == IF f.fin THEN fp \ {f.id} ELSE fp
             still == left > 0 \/ f.id \in fp1
             ent == <<f.id, At(prio[x], f.id, 0), tk>>
             fl == Flag(h[1] = f.id, "StreamFrameOutOfTurn") \cup Flag(left >= 0, "FrameBeyondWrittenData")
             se1 == Set(se, f.id, f.off + f.len)
         IN IF fl # {} THEN <<u, fp, q, nx, tk, se, fl>>
            ELSE LET r == IF still /\ fair[x] THEN Frames(fr, i + 1, x, u1, fp1, q1 \cup {ent}, <<>>, tk + 1, se1)
                          ELSE IF still THEN Frames(fr, i + 1, x, u1, fp1, q1, ent, tk, se1)
                          ELSE Frames(fr, i + 1, x, u1, fp1, q1, <<>>, tk, se1)
                 IN r

Fr ==
  /\ Is("Fr")
  /\ LET x == e.side IN
     IF dirty[x] THEN /\ bad' = bad /\ UNCHANGED <<unsent, finp, queue, next, ticket, sentEnd, dirty>>
     ELSE LET r == Frames(e.fr, 1, x, unsent[x], finp[x], queue[x], next[x], ticket, sentEnd[x]) IN
          /\ unsent' = [unsent EXCEPT ![x] = r[1]] /\ finp' = [finp EXCEPT ![x] = r[2]]
          /\ queue' = [queue EXCEPT ![x] = r[3]] /\ next' = [next EXCEPT ![x] = r[4]] /\ ticket' = r[5]
          /\ sentEnd' = [sentEnd EXCEPT ![x] = r[6]]
          \* a retransmission means data was re-queued unseen: stop judging this side, no alarm
          /\ dirty' = [dirty EXCEPT ![x] = r[7] # {}]
          /\ bad' = bad \cup (r[7] \ {"Retransmission"})
  /\ l' = l + 1 /\ UNCHANGED <<prio, rst, fair, cur>>

TNext == Reset \/ Op \/ Dirty \/ Fr
TraceSpec == TInit /\ [][TNext]_vars
Watch == TLCSet(1, <<l, bad, cur>>) /\ bad = {}
TraceAccepted ==
  LET r == TLCGet(1) d == TLCGet("stats").diameter IN
  IF r[2] # {} THEN Print(<<"VIOLATION", r[2], "line", r[1] - 1, "run", r[3]>>, FALSE)
  ELSE IF d - 1 # N THEN Print(<<"UNMATCHED", "line", d, "run", r[3]>>, FALSE)
  ELSE TRUE
=============================================================================
