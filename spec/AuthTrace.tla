------------------------------ MODULE AuthTrace ------------------------------
(***************************************************************************)
(* Trace validation for C04.  Per connection the harness records, for      *)
(* every datagram the endpoint routed to it: the genuine packets it        *)
(* contained that arrived intact (`ipk`: space, number, frame counts taken *)
(* from the independent decoder on the sender side), how many frames of    *)
(* each type the connection says it processed (FrameStats delta), how many *)
(* packets it authenticated, and whether the state digest changed.         *)
(* Auth!AtMostOnce / OnlyAuthentic become accounting invariants:           *)
(*   - frames processed so far never exceed the frames of the distinct     *)
(*     genuine packets delivered so far (a replay adds nothing to the      *)
(*     budget, corrupt / forged / foreign packets never do)                *)
(*   - a datagram cannot cause more frames than its intact packets carry   *)
(*   - nothing authenticated => nothing changed                            *)
(*   - Retry / Version Negotiation only before any packet was accepted     *)
(***************************************************************************)
EXTENDS Naturals, Integers, Sequences, FiniteSets, TLC, Json, IOUtils

Rec == ndJsonDeserialize(IOEnv.TRACE)
N == Len(Rec)

VARIABLES l, bad, seen, settled, budget, used, cur
vars == <<l, bad, seen, settled, budget, used, cur>>

e == Rec[l]
Is(k) == l <= N /\ e.ev = k
Flag(c, name) == IF c THEN {} ELSE {name}

Idx == 1 .. 24
Zero == [i \in Idx |-> 0]

\* sparse [[index, count], ...] -> dense vector
RECURSIVE Dense(_, _)
Dense(s, k) == IF k = 0 THEN Zero
               ELSE [Dense(s, k - 1) EXCEPT ![s[k][1]] = @ + s[k][2]]
Vec(s) == Dense(s, Len(s))

RECURSIVE SumPk(_, _, _)
\* frames of the packets of `pks` (sequence) selected by predicate set `sel` of indices
SumPk(pks, k, sel) ==
  IF k = 0 THEN Zero
  ELSE LET rest == SumPk(pks, k - 1, sel) IN
       IF k \in sel THEN [i \in Idx |-> rest[i] + Vec(pks[k].fr)[i]] ELSE rest

TInit == l = 1 /\ bad = {} /\ seen = {} /\ settled = {} /\ budget = Zero /\ used = Zero /\ cur = <<0, 0, 0>>

Reset == /\ Is("Reset") /\ seen' = {} /\ settled' = {} /\ budget' = Zero /\ used' = Zero /\ bad' = {}
         /\ cur' = <<e.run, e.n, e.c>> /\ l' = l + 1

Rx ==
  /\ Is("Rx")
  /\ LET pks == e.ipk
         all == 1 .. Len(pks)
         numbered == {k \in all : pks[k].ty = "P"}
         fresh == {k \in numbered : <<pks[k].sp, pks[k].pn>> \notin seen}
         inDgram == SumPk(pks, Len(pks), numbered)
         newBudget == [i \in Idx |-> budget[i] + SumPk(pks, Len(pks), fresh)[i]]
         d == Vec(e.dfr)
         newUsed == [i \in Idx |-> used[i] + d[i]]
         ids == {<<pks[k].sp, pks[k].pn>> : k \in numbered}
         \* every genuine packet of this datagram is known to have been authenticated before
         \* (or there is none): whatever this datagram is, it carries nothing new
         stale == ids \subseteq settled
         nothing == (\A i \in Idx : d[i] = 0) /\ (e.authed = 0 \/ (stale /\ numbered # {}))
     IN
       /\ seen' = seen \cup ids
       \* packets are settled once the connection authenticated every packet of their datagram
       /\ settled' = IF e.authed >= Cardinality(ids) /\ e.authed > 0 THEN settled \cup ids ELSE settled
       /\ budget' = newBudget
       /\ used' = newUsed
       /\ bad' = bad
            \cup Flag(\A i \in Idx : d[i] <= inDgram[i], "MoreFramesProcessedThanDelivered")
            \cup Flag(\A i \in Idx : newUsed[i] <= newBudget[i], "PacketProcessedTwiceOrUnauthenticated")
            \* ... and not fewer: when the connection authenticated every packet of a datagram for the
            \* first time and stays open, every frame in it was taken in (nothing after some frame is skipped)
            \cup Flag(~(e.open /\ ~e.stchange /\ e.kind = "data" /\ numbered = all /\ fresh = all
                        /\ e.authed = Len(pks) /\ Len(pks) > 0
                        \* (a CONNECTION_CLOSE frame ends the processing of its packet; index 4 of the frame statistics)
                        /\ inDgram[4] = 0)
                      \/ \A i \in Idx : d[i] = inDgram[i], "FrameOfProcessedPacketSkipped")
            \* (quinn counts an accepted Version Negotiation packet as "authenticated")
            \cup Flag(e.authed <= Len(pks) + (IF e.kind \in {"vn", "retry"} THEN 1 ELSE 0),
                       "AuthenticatedMoreThanDelivered")
            \* a packet the connection has taken in before is not taken in again: it is not even counted
            \* as authenticated (nor does it keep the connection alive - the state digest below)
            \cup Flag((stale /\ numbered # {} /\ numbered = all /\ e.kind = "data") => e.authed = 0, "SettledPacketAuthenticatedAgain")
            \* nothing authenticated => nothing but counters changed (a stateless reset excepted)
            \cup Flag((nothing /\ stale /\ e.kind \notin {"reset", "retry", "vn"}) => e.same,
                       "StateChangedWithoutAuthenticPacket")
            \* only an exact reset token may end a connection without an authenticated packet
            \cup Flag((nothing /\ stale /\ e.stchange) => e.kind \in {"reset", "retry", "vn"},
                       "EndedWithoutAuthenticPacketOrToken")
            \* Retry / Version Negotiation: only a client that has accepted nothing yet, and
            \* only the genuine, untampered packet
            \cup Flag((e.kind \in {"retry", "vn"} /\ (e.preauthed > 0 \/ e.cls \notin {"gen", "dup", "vn"}))
                         => e.same, "LateOrForgedRetryOrVersionNegotiationActedOn")
  /\ l' = l + 1 /\ UNCHANGED cur

TNext == Reset \/ Rx
TraceSpec == TInit /\ [][TNext]_vars

Watch == TLCSet(1, <<l, bad, cur>>) /\ bad = {}

TraceAccepted ==
  LET r == TLCGet(1) d == TLCGet("stats").diameter IN
  IF r[2] # {} THEN Print(<<"VIOLATION", r[2], "line", r[1] - 1, "run", r[3]>>, FALSE)
  ELSE IF d - 1 # N THEN Print(<<"UNMATCHED", "line", d, "run", r[3]>>, FALSE)
  ELSE TRUE
=============================================================================
