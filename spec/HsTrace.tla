------------------------------- MODULE HsTrace -------------------------------
(***************************************************************************)
(* Trace validation of the handshake key life cycle (HsKeys.tla) on runs   *)
(* with one client/server pair.  The projection gives, for every step of   *)
(* either side, the packet types sent or processed, which packet number    *)
(* spaces hold keys before and after, the connection state (0 handshake,   *)
(* 1 established, >= 2 closed), HANDSHAKE_DONE frames and the handshake    *)
(* events reported to the application.                                     *)
(*   ClientInitialKeys      the client holds Initial keys exactly until it *)
(*                          sends its first Handshake packet (HsKeys!Emit) *)
(*   ServerInitialKeys      the server holds Initial keys exactly until it *)
(*                          processes its first Handshake packet           *)
(*   ServerHandshakeKeys    the server holds Handshake keys exactly while  *)
(*                          the handshake is incomplete                    *)
(*   ClientHandshakeKeys    the client gives up Handshake keys exactly     *)
(*                          when HANDSHAKE_DONE is processed               *)
(*   KeysChangedElsewhere   no other step installs or discards keys of     *)
(*                          the Initial or Handshake space                 *)
(*   PacketWithoutKeys      nothing is sent in a space without keys        *)
(*   HandshakeDoneMisplaced HANDSHAKE_DONE is sent by an established       *)
(*                          server only                                    *)
(*   ZeroRttAfterOneRttKeys no 0-RTT packet once 1-RTT keys exist          *)
(*   ShortPacketDuringHandshake   a server in the handshake processes no   *)
(*                          1-RTT packet                                   *)
(*   HandshakeEventRepeated / HandshakeEventOutOfOrder / ConfirmedWithoutDone *)
(*                          HandshakeDataReady, Connected and              *)
(*                          HandshakeConfirmed once each and in this       *)
(*                          order (a server reports the last two in one    *)
(*                          step, confirmation first); a client confirms   *)
(*                          only on HANDSHAKE_DONE                         *)
(***************************************************************************)
EXTENDS Naturals, Integers, Sequences, FiniteSets, TLC, Json, IOUtils
Rec == ndJsonDeserialize(IOEnv.TRACE)
N == Len(Rec)
\* sentH: the client has sent a Handshake packet; gotH: the server has (0 no, 1 maybe, 2 certainly)
\* processed one; done: the client has (0/1/2) processed HANDSHAKE_DONE; evs: events seen per side
VARIABLES l, bad, sentH, gotH, done, evs, cur
vars == <<l, bad, sentH, gotH, done, evs, cur>>
e == Rec[l]
Is(k) == l <= N /\ e.ev = k
Flag(c, name) == IF c THEN {} ELSE {name}
Sides == {"c", "s"}
Has(seq, x) == \E i \in 1 .. Len(seq) : seq[i] = x
Max(a, b) == IF a > b THEN a ELSE b
SpaceOf(t) == CASE t = "I" -> 1 [] t = "H" -> 2 [] OTHER -> 3

TInit == /\ l = 1 /\ bad = {} /\ sentH = FALSE /\ gotH = 0 /\ done = 0 /\ evs = [x \in Sides |-> {}] /\ cur = <<0>>
Reset == /\ Is("Reset") /\ bad' = {} /\ sentH' = FALSE /\ gotH' = 0 /\ done' = 0 /\ evs' = [x \in Sides |-> {}]
         /\ cur' = <<e.run>> /\ l' = l + 1

Open == e.st0 <= 1 /\ e.st1 <= 1

\* what holds after every step of an open connection
After(sH, gH, dn) ==
  IF ~Open THEN {}
  ELSE IF e.side = "c"
    THEN Flag(e.kb[1] = ~sH, "ClientInitialKeys")
         \cup Flag((e.ka[2] /\ ~e.kb[2]) => dn >= 1, "ClientHandshakeKeys")
         \cup Flag(dn = 2 => ~e.kb[2], "ClientHandshakeKeys")
    ELSE Flag((gH = 2 => ~e.kb[1]) /\ (gH = 0 => e.kb[1] = e.ka[1]), "ServerInitialKeys")
         \cup Flag((e.st1 = 1 => ~e.kb[2]) /\ ((e.st1 = 0 /\ e.ka[2]) => e.kb[2]), "ServerHandshakeKeys")

Tx ==
  /\ Is("Tx")
  /\ LET sH == sentH \/ (e.side = "c" /\ Has(e.tys, "H")) IN
     /\ sentH' = sH
     /\ bad' = bad \cup After(sH, gotH, done)
          \cup Flag(\A i \in 1 .. Len(e.tys) : e.tys[i] \in {"I", "H", "S"} => (e.ka[SpaceOf(e.tys[i])] \/ e.kb[SpaceOf(e.tys[i])]), "PacketWithoutKeys")
          \cup Flag(e.hd => (e.side = "s" /\ e.st0 >= 1), "HandshakeDoneMisplaced")
          \cup Flag(Has(e.tys, "Z") => (e.side = "c" /\ ~e.ka[3]), "ZeroRttAfterOneRttKeys")
  /\ l' = l + 1 /\ UNCHANGED <<gotH, done, evs, cur>>

Rx ==
  /\ Is("Rx")
  /\ LET gH == IF e.side = "s" /\ Has(e.proc, "H") THEN Max(gotH, IF e.sure THEN 2 ELSE 1) ELSE gotH
         dn == IF e.side = "c" /\ e.hd THEN Max(done, IF e.hdsure THEN 2 ELSE 1) ELSE done
     IN
     /\ gotH' = gH /\ done' = dn
     /\ bad' = bad \cup After(sentH, gH, dn)
          \cup Flag((e.side = "s" /\ e.st1 = 0) => e.authed <= e.nonshort, "ShortPacketDuringHandshake")
  /\ l' = l + 1 /\ UNCHANGED <<sentH, evs, cur>>

\* keys of the Initial and Handshake space change only while sending or receiving
Oth ==
  /\ Is("Oth")
  /\ bad' = bad \cup Flag(~Open \/ (e.ka[1] = e.kb[1] /\ e.ka[2] = e.kb[2]), "KeysChangedElsewhere")
  /\ l' = l + 1 /\ UNCHANGED <<sentH, gotH, done, evs, cur>>

Ev ==
  /\ Is("Ev")
  /\ LET x == e.side seen == evs[x] IN
     /\ evs' = [evs EXCEPT ![x] = seen \cup {e.k}]
     /\ bad' = bad \cup Flag(e.k \notin seen, "HandshakeEventRepeated")
          \cup Flag((e.k = "Connected" => "HandshakeDataReady" \in seen)
                    /\ ((e.k = "HandshakeConfirmed" /\ x = "c") => "Connected" \in seen), "HandshakeEventOutOfOrder")
          \cup Flag((e.k = "HandshakeConfirmed" /\ x = "c") => done >= 1, "ConfirmedWithoutDone")
  /\ l' = l + 1 /\ UNCHANGED <<sentH, gotH, done, cur>>

TNext == Reset \/ Tx \/ Rx \/ Oth \/ Ev
TraceSpec == TInit /\ [][TNext]_vars
Watch == TLCSet(1, <<l, bad, cur>>) /\ bad = {}
TraceAccepted ==
  LET r == TLCGet(1) d == TLCGet("stats").diameter IN
  IF r[2] # {} THEN Print(<<"VIOLATION", r[2], "line", r[1] - 1, "run", r[3]>>, FALSE)
  ELSE IF d - 1 # N THEN Print(<<"UNMATCHED", "line", d, "run", r[3]>>, FALSE)
  ELSE TRUE
=============================================================================
