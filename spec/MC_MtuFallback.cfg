CONSTANT LpCap = 4
CONSTANT MaxUdp = 9
CONSTANT MinMtus = {4}
CONSTANT IMtus = {6}
CONSTANT Uppers = {7}
CONSTANT MinChgs = {2}
CONSTANT Mtuds = {TRUE, FALSE}
CONSTANT Peers = {9}
CONSTANT Links = {4, 6}
CONSTANT W = 2
CONSTANT D = 5
CONSTANT Changes = 1
CONSTANT Paths = 1
CONSTANT Restarts = 1
CONSTANT Quinn = FALSE
SPECIFICATION Spec
INVARIANT Safety
PROPERTY RiseOnlyByAck
PROPERTY FallOnlyExplained
PROPERTY Delivery
PROPERTY Fallback
CHECK_DEADLOCK FALSE
