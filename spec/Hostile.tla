------------------------------- MODULE Hostile -------------------------------
(***************************************************************************)
(* Receive-side legality table (properties C03 and C06): the outcome QUIC  *)
(* prescribes when an authenticated peer sends frame `d` to a victim that  *)
(* has just completed the handshake with the limits `L` it advertised.     *)
(* Outcome: "ok" (ignored or processed) or the transport error code with   *)
(* which only the affected connection is closed.                           *)
(*   0x03 FLOW_CONTROL_ERROR   0x04 STREAM_LIMIT_ERROR  0x05 STREAM_STATE  *)
(*   0x06 FINAL_SIZE_ERROR     0x07 FRAME_ENCODING_ERROR                   *)
(*   0x09 CONNECTION_ID_LIMIT  0x0a PROTOCOL_VIOLATION  0x0d CRYPTO_BUFFER *)
(* d.k names the frame, the other fields are its parameters; victim is     *)
(* "s" or "c".  Transcribed from RFC 9000 / 9221 / ack-frequency as        *)
(* implemented in process_payload, StreamsState::received*,                *)
(* validate_receive_id, CidQueue::insert, on_cid_retirement,               *)
(* DatagramState::received, read_crypto, ack_frequency_received.           *)
(***************************************************************************)
EXTENDS Naturals, Integers

Initiator(id) == IF id % 2 = 0 THEN "c" ELSE "s"
IsUni(id) == (id \div 2) % 2 = 1
Index(id) == id \div 4

\* limit on data the peer may send on stream id towards the victim
RecvStreamLimit(v, L, id) ==
  IF IsUni(id) THEN L.sduni ELSE IF Initiator(id) = v THEN L.sdbl ELSE L.sdbr

\* may the peer send on / refer to the receiving half of stream id at the victim?
RecvIdError(v, L, id, opened) ==
  IF Initiator(id) = v
    THEN IF IsUni(id) THEN 5 ELSE IF Index(id) >= opened THEN 5 ELSE 0
    ELSE IF Index(id) >= (IF IsUni(id) THEN L.msu ELSE L.msb) THEN 4 ELSE 0

\* expected outcome code (0 = no error)
Expected(v, L, d) ==
  LET opened == 0 IN          \* the victim has opened no stream of its own in these runs
  CASE d.k = "stream" ->
         LET ie == RecvIdError(v, L, d.id, opened) IN
         IF ie # 0 THEN ie
         ELSE IF d.end > RecvStreamLimit(v, L, d.id) \/ d.end > L.md THEN 3 ELSE 0
    [] d.k = "reset" ->
         LET ie == RecvIdError(v, L, d.id, opened) IN
         IF ie # 0 THEN ie
         ELSE IF d.end > RecvStreamLimit(v, L, d.id) \/ d.end > L.md THEN 3 ELSE 0
    [] d.k = "finthenmore" -> \* FIN at d.fin, then data up to d.end > d.fin in the same packet
         LET ie == RecvIdError(v, L, d.id, opened) IN
         IF ie # 0 THEN ie ELSE IF d.end > d.fin THEN 6 ELSE 0
    [] d.k = "morethenfin" -> \* data up to d.end, then a FIN that puts the final size at d.fin < d.end (RFC 9000 4.5)
         LET ie == RecvIdError(v, L, d.id, opened) IN
         IF ie # 0 THEN ie ELSE IF d.end > d.fin THEN 6 ELSE 0
    [] d.k = "stop" ->       \* STOP_SENDING: refers to the victim's sending half
         IF Initiator(d.id) # v THEN (IF IsUni(d.id) THEN 5 ELSE 0)
         ELSE IF Index(d.id) >= opened THEN 5 ELSE 0
    [] d.k = "maxsd" ->
         IF Initiator(d.id) # v THEN (IF IsUni(d.id) THEN 5 ELSE 0)
         ELSE IF Index(d.id) >= opened THEN 5 ELSE 0
    [] d.k = "sdblocked" -> IF Initiator(d.id) = v /\ IsUni(d.id) THEN 5 ELSE 0
    [] d.k = "maxstreams" -> IF d.huge THEN 7 ELSE 0
    [] d.k = "streamsblocked" -> IF d.huge THEN 7 ELSE 0
    \* RFC 9000 19.15: retire_prior_to > sequence is a FRAME_ENCODING_ERROR
    [] d.k = "newcid" -> IF d.rpt > d.seq THEN 7 ELSE IF d.seq >= 100 THEN 9 ELSE 0
    [] d.k = "retirecid" -> IF d.seq >= 100 THEN 10 ELSE 0
    [] d.k = "newtoken" -> IF v = "s" THEN 10 ELSE IF d.len = 0 THEN 7 ELSE 0
    [] d.k = "hsdone" -> IF v = "s" THEN 10 ELSE 0
    [] d.k = "datagram" -> IF L.dgram < 0 \/ d.len > L.dgram THEN 10 ELSE 0
    [] d.k = "crypto" -> IF d.off >= 16384 + 1 THEN 13 ELSE 0
    [] d.k = "ackunsent" -> 10
    \* an ACK frame whose last additional range runs below packet number zero cannot be decoded
    [] d.k = "ackrange" -> 7
    [] d.k = "ackfreq" -> IF d.mad < 1000 THEN 10 ELSE 0
    [] d.k = "unknown" -> 7
    [] d.k = "truncated" -> 7
    [] d.k \in {"ping", "padding", "pathresp", "pathchal", "datablocked", "maxdata"} -> 0
    [] OTHER -> 0

\* generous caps on what a victim may queue however many hostile frames arrive
\* (pending RETIRE_CONNECTION_ID frames: quinn refuses to queue more than 50)
\* (last: bytes a stream's reassembly buffer holds beyond the span of its unread data; quinn
\* compacts once that exceeds 32 KiB)
QueueCaps == <<52, 70, 600, 600, 20000, 2000, 70000>>
=============================================================================
