CONSTANT Paths = {"v4>v4:v4", "v6>v6:v6", "v4>ds:v4", "v6>ds:v6", "ds>v4:map", "ds>v6:v6", "ds>ds:map", "ds>ds:v6", "v4any>v4any:v4b", "ds>ds:mapb"}
CONSTANT AltPaths = {"ds>v4:map", "ds>ds:map", "v4any>v4any:v4b", "ds>ds:mapb"}
CONSTANT Segs = {}
CONSTANT Counts = {}
CONSTANT Tails = {}
CONSTANT Ecns = {0, 1, 2, 3}
CONSTANT Srcs = {"none", "own"}
CONSTANT Lens = {1,2,3,4,5,6,7,8,9,10,11,12,13,14,15,16,17,18,19,20,21,22,23,24,25,26,27,28,29,30,31,32,33,34,35,36,37,38,39,40,41,42,43,44,45,46,47,48,49,50,51,52,53,54,55,56,57,58,59,60,61,62,63,64, 1199, 1200, 1452, 1472, 8192, 65487, 65488, 65489, 65507, 65508, 65527}
CONSTANT Forms = {"none", "eq", "gt"}
INIT InitLens
NEXT Next
INVARIANT Emit
CHECK_DEADLOCK FALSE
