CONSTANT MaxLate = 40
CONSTANT MaxExp = 6
SPECIFICATION DSpec
INVARIANT BoundedCalls
PROPERTY EventuallyFuture
CHECK_DEADLOCK FALSE
