--------------------------------- MODULE Retx ---------------------------------
(***************************************************************************)
(* Reliable delivery of control information.  A sender holds facts its     *)
(* peer has to learn: for every subject (the connection's data limit, a    *)
(* stream's data limit, the stream count of a direction, the reset of a    *)
(* stream, a connection ID sequence number ...) a value that only grows.   *)
(* A packet carries the current values of some subjects.  Packets are      *)
(* lost; a packet that is acknowledged settles what it carried; when a     *)
(* packet is declared lost the subjects it carried are queued again,       *)
(* unless a newer value has been sent since (it supersedes the old one).   *)
(*   Learned      when the sender is quiet (nothing queued, nothing in     *)
(*                flight) the peer knows the current value of every        *)
(*                subject                                                  *)
(*   Monotone     what the peer knows never goes back                      *)

(* Variant Forget (a lost packet's subjects are not queued again for one   *)
(* kind of subject) is refuted by Learned.                                 *)
(***************************************************************************)
EXTENDS Naturals, FiniteSets

CONSTANTS Subjects, MaxVal, MaxLoss, Forget   \* Forget: the subjects that are not queued again (defect variant)

VARIABLES val,      \* current value per subject at the sender (0: nothing to tell yet)
          queued,   \* subjects waiting to be sent
          flight,   \* packets in flight: <<pn, carried>> with carried a function subject -> value
          net,      \* packets on the wire (same records)
          known,    \* what the peer has learned
          pn, lost

rvars == <<val, queued, flight, net, known, pn, lost>>

RInit == /\ val = [s \in Subjects |-> 0] /\ queued = {} /\ flight = {} /\ net = {} /\ known = [s \in Subjects |-> 0]
         /\ pn = 0 /\ lost = 0

\* the application (or the protocol) raises a value: it has to be told
Raise(s) == /\ val[s] < MaxVal /\ val' = [val EXCEPT ![s] = @ + 1] /\ queued' = queued \cup {s}
            /\ UNCHANGED <<flight, net, known, pn, lost>>

\* one packet with the current values of some queued subjects
Send == \E S \in SUBSET queued : S # {} /\
           LET p == <<pn, [s \in S |-> val[s]]>> IN
           /\ flight' = flight \cup {p} /\ net' = net \cup {p} /\ queued' = queued \ S /\ pn' = pn + 1
           /\ UNCHANGED <<val, known, lost>>

Max(a, b) == IF a > b THEN a ELSE b
Deliver(p) == /\ p \in net /\ net' = net \ {p}
              /\ known' = [s \in Subjects |-> IF s \in DOMAIN p[2] THEN Max(known[s], p[2][s]) ELSE known[s]]
              /\ UNCHANGED <<val, queued, flight, pn, lost>>

Drop(p) == /\ p \in net /\ lost < MaxLoss /\ net' = net \ {p} /\ lost' = lost + 1
           /\ UNCHANGED <<val, queued, flight, known, pn>>

\* the acknowledgement of a delivered packet
Ack(p) == /\ p \in flight /\ p \notin net /\ \A s \in DOMAIN p[2] : known[s] >= p[2][s]
          /\ flight' = flight \ {p} /\ UNCHANGED <<val, queued, net, known, pn, lost>>

\* loss detection: a packet that left the wire without being delivered; what it carried is queued
\* again unless a later packet already carries something newer
DeclareLost(p) ==
  /\ p \in flight /\ p \notin net /\ \E s \in DOMAIN p[2] : known[s] < p[2][s]
  /\ flight' = flight \ {p}
  /\ queued' = queued \cup {s \in DOMAIN p[2] :
                   /\ s \notin Forget
                   /\ ~\E q \in flight \ {p} : s \in DOMAIN q[2] /\ q[2][s] >= val[s] /\ q[1] > p[1]
                   /\ known[s] < val[s]}
  /\ UNCHANGED <<val, net, known, pn, lost>>

RNext == \/ \E s \in Subjects : Raise(s)
         \/ Send
         \/ \E p \in net : Deliver(p) \/ Drop(p)
         \/ \E p \in flight : Ack(p) \/ DeclareLost(p)
RSpec == RInit /\ [][RNext]_rvars
Quiet == queued = {} /\ flight = {} /\ net = {}
Learned == Quiet => \A s \in Subjects : known[s] = val[s]
Monotone == [][\A s \in Subjects : known'[s] >= known[s]]_rvars
=============================================================================
