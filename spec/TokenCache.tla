------------------------------ MODULE TokenCache ------------------------------
(***************************************************************************)
(* Design model for C14, client token store (TokenMemoryCache): up to S    *)
(* server names, least recently used evicted, up to P tokens per server in *)
(* FIFO order, oldest dropped on overflow.  Every token is distinct (the   *)
(* server draws a fresh nonce).  Invariants: a stored token is handed out  *)
(* at most once, only under the server name it was stored for, oldest      *)
(* first; capacities are respected; capacity 0 never returns anything.     *)
(***************************************************************************)
EXTENDS TokenOps, TLC

CONSTANTS Servers, MaxTok, S, P

VARIABLES c, next, owner, handed, last

vars == <<c, next, owner, handed, last>>

Init == c = <<>> /\ next = 1 /\ owner = <<>> /\ handed = {} /\ last = [k |-> "init"]

Store(srv) ==
  /\ next <= MaxTok
  /\ c' = CacheStore(c, S, P, srv, next)
  /\ owner' = Append(owner, srv) /\ next' = next + 1
  /\ last' = [k |-> "store", srv |-> srv, tok |-> next]
  /\ UNCHANGED handed

Take(srv) ==
  LET r == CacheTake(c, srv) IN
  /\ c' = r.c
  /\ handed' = IF r.r = None THEN handed ELSE handed \cup {r.r}
  /\ last' = [k |-> "take", srv |-> srv, r |-> r.r, again |-> r.r \in handed,
              older |-> {t \in Held(c) : owner[t] = srv /\ t < r.r}]
  /\ UNCHANGED <<next, owner>>

Next == \E srv \in Servers : Store(srv) \/ Take(srv)
Spec == Init /\ [][Next]_vars

AtMostOnce == last.k = "take" => ~last.again
OwnServerOnly == (last.k = "take" /\ last.r # None) => owner[last.r] = last.srv
OldestFirst == (last.k = "take" /\ last.r # None) => last.older = {}
Capacity == /\ Len(c) <= S
            /\ \A i \in 1 .. Len(c) : Len(c[i].q) >= 1 /\ Len(c[i].q) <= P
            /\ \A i, j \in 1 .. Len(c) : i # j => c[i].srv # c[j].srv
ZeroNeverReturns == (S = 0 \/ P = 0) => (c = <<>> /\ handed = {})
\* nothing handed out is still held; nothing held twice
Disjoint == /\ Held(c) \cap handed = {}
            /\ \A i, j \in 1 .. Len(c) : \A a \in 1 .. Len(c[i].q), b \in 1 .. Len(c[j].q) :
                  (c[i].q[a] = c[j].q[b]) => (i = j /\ a = b)
\* the newest token of a server is available until taken or its server evicted
NewestKept == (last.k = "store" /\ S > 0 /\ P > 0) => last.tok \in Held(c)
=============================================================================
