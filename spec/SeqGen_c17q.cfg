CONSTANT Alphabet = {"ok", "x", "dup", "delay"}
CONSTANT N = 4
INIT Init
NEXT Next
INVARIANT Emit
CHECK_DEADLOCK FALSE
