-------------------------- MODULE ControllersTrace --------------------------
(***************************************************************************)
(* Validates recorded call histories of the real NewReno / Cubic / BBR     *)
(* controllers: the window reported after every call is at least two       *)
(* datagrams (all controllers), and equals the Controllers!NrApply model   *)
(* (NewReno).                                                              *)
(***************************************************************************)
EXTENDS NewReno, Sequences, FiniteSets, TLC, Json, IOUtils

Rec == ndJsonDeserialize(IOEnv.TRACE)
N == Len(Rec)

VARIABLES l, bad, ctl, mtu, nr, cur
tvars == <<l, bad, ctl, mtu, nr, cur>>
e == Rec[l]
Is(k) == l <= N /\ e.ev = k
Flag(c, name) == IF c THEN {} ELSE {name}

TInit == l = 1 /\ bad = {} /\ ctl = "none" /\ mtu = 1200 /\ nr = NrInit(1000) /\ cur = <<0, "none">>
TReset == /\ Is("Reset") /\ ctl' = e.ctl /\ mtu' = e.mtu /\ nr' = NrInit(e.t) /\ cur' = <<e.run, e.ctl>>
          /\ bad' = Flag(e.w >= 2 * e.mtu, "InitialWindowBelowTwoDatagrams") /\ l' = l + 1
TCall ==
  /\ Is("Call")
  /\ LET m == IF e.mtu > 0 THEN e.mtu ELSE mtu
         nr2 == NrApply(nr, e.op, e.t)
     IN /\ mtu' = m /\ nr' = nr2
        /\ bad' = bad \cup Flag(e.w >= 2 * m, "WindowBelowTwoDatagrams")
                      \cup Flag(ctl # "newreno" \/ e.w = nr2.window, "NewRenoDiffersFromModel")
  /\ l' = l + 1 /\ UNCHANGED <<ctl, cur>>
TNext == TReset \/ TCall
TraceSpec == TInit /\ [][TNext]_tvars
Watch == TLCSet(1, <<l, bad, cur>>) /\ bad = {}
TraceAccepted ==
  LET r == TLCGet(1) d == TLCGet("stats").diameter IN
  IF r[2] # {} THEN Print(<<"VIOLATION", r[2], "line", r[1] - 1, "run", r[3]>>, FALSE)
  ELSE IF d - 1 # N THEN Print(<<"UNMATCHED", "line", d, "run", r[3]>>, FALSE)
  ELSE TRUE
=============================================================================
