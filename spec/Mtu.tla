--------------------------------- MODULE Mtu ---------------------------------
(***************************************************************************)
(* Design model for property C13: datagram sizes, DPLPMTUD and black hole  *)
(* recovery of one connection as quinn implements them                     *)
(* (connection/mtud.rs, the size rules of Connection::poll_transmit).      *)
(*                                                                         *)
(* The sender emits data datagrams (full size = the current estimate, or   *)
(* small), loss probes after a PTO (clamped to LpCap = 1200) and MTU       *)
(* probes chosen by the binary search of MtuOps.  The network carries a    *)
(* datagram iff its size is at most `link` at the moment it is sent; link  *)
(* changes at any moment.  `flight` is the list of packets sent since the  *)
(* oldest unresolved one in packet number order; an acknowledgement        *)
(* resolves a prefix: delivered packets are acknowledged, the others are   *)
(* declared lost and fed to the black hole detector in loss bursts.        *)
(* Sizes are scaled (LpCap stands for 1200 bytes).                         *)
(***************************************************************************)
EXTENDS Naturals, Integers, Sequences, FiniteSets, TLC, MtuOps

CONSTANTS LpCap,      \* INITIAL_MTU: cap of loss probes and smallest legal maximum datagram size
          MaxUdp,     \* largest UDP payload (peer limit before the parameters are known)
          MinMtus, IMtus, Uppers, MinChgs, Mtuds,   \* configuration menus
          Peers,      \* values of the peer's max_udp_payload_size
          Links,      \* path MTU values
          W,          \* data packets in flight (congestion window)
          D,          \* data units to deliver
          Changes, Paths, Restarts,  \* budgets: link changes, new paths, search restarts
          Quinn       \* TRUE: quinn's next_mtu_to_probe verbatim (MC_MtuQuinn.cfg shows the flaw)

ASSUME \A v \in Links \cup Peers \cup MinMtus : v >= LpCap

VARIABLES cfg, mtu, phase, s, peer, known, link, flight, det, todo, done, bud, last, why

vars == <<cfg, mtu, phase, s, peer, known, link, flight, det, todo, done, bud, last, why>>

NoSearch == [lo |-> 0, hi |-> 0, last |-> 0, lost |-> 0]
NoEmit == [k |-> "none", sz |-> 0, mtu |-> 0, cap |-> 0]
Quiet == [r |-> {}, sz |-> 0]

Cfgs == {c \in [min : MinMtus, init : IMtus, upper : Uppers, chg : MinChgs, mtud : Mtuds] :
           c.init >= c.min}

Init ==
  /\ cfg \in Cfgs
  /\ mtu = cfg.init
  /\ phase = IF cfg.mtud THEN "init" ELSE "off"
  /\ s = NoSearch
  /\ peer = MaxUdp /\ known = FALSE
  /\ link \in Links
  /\ flight = <<>>
  /\ det = NewDetector(cfg.min)
  /\ todo = D /\ done = 0
  /\ bud = [chg |-> Changes, path |-> Paths, rst |-> Restarts]
  /\ last = NoEmit /\ why = Quiet

Idx == 1 .. Len(flight)
Count(k) == Cardinality({j \in Idx : flight[j].k = k})
ProbeOut == \E j \in Idx : flight[j].k = "probe"
\* a probe the search has forgotten is an ordinary packet from then on
Stale(fl) == [j \in 1 .. Len(fl) |-> IF fl[j].k = "probe" THEN [fl[j] EXCEPT !.k = "stale"] ELSE fl[j]]

Pkt(sz, k, u) == [sz |-> sz, ok |-> sz <= link, k |-> k, u |-> u]
Emit(k, sz) == [k |-> k, sz |-> sz, mtu |-> mtu, cap |-> Min(cfg.upper, peer)]

\* the peer's transport parameters arrive (handshake); nothing is probed before
PeerParams(p) ==
  /\ ~known
  /\ known' = TRUE /\ peer' = p /\ mtu' = Min(mtu, p)
  /\ why' = [r |-> {"tp"}, sz |-> 0]
  /\ UNCHANGED <<cfg, phase, s, link, flight, det, todo, done, bud, last>>

SendData(sz) ==
  /\ known /\ todo > 0 /\ Count("data") < W
  /\ sz <= mtu
  /\ flight' = Append(flight, Pkt(sz, "data", 1))
  /\ todo' = todo - 1
  /\ last' = Emit("data", sz) /\ why' = Quiet
  /\ UNCHANGED <<cfg, mtu, phase, s, peer, known, link, det, done, bud>>

\* probe timeout: nothing in flight can be acknowledged
Pto ==
  /\ flight # <<>> /\ \A j \in Idx : ~flight[j].ok
  /\ LET sz == Min(mtu, LpCap) u == IF todo > 0 THEN 1 ELSE 0 IN
       /\ flight' = Append(flight, Pkt(sz, "lp", u))
       /\ todo' = todo - u
       /\ last' = Emit("lp", sz)
  /\ why' = Quiet
  /\ UNCHANGED <<cfg, mtu, phase, s, peer, known, link, det, done, bud>>

\* MtuDiscovery::poll_transmit: start or continue the search; either a probe is sent or the
\* search completes
PollMtud ==
  /\ cfg.mtud /\ known /\ ~ProbeOut /\ phase \in {"init", "due", "search"}
  /\ LET s0 == IF phase = "search" THEN s ELSE StartSearch(mtu, peer, cfg.upper)
         x == IF Quinn THEN ProbeSizeQuinn(s0, cfg.chg) ELSE ProbeSize(s0, cfg.chg) IN
       IF x = 0
         THEN /\ phase' = "done" /\ s' = s0
              /\ UNCHANGED <<flight, last>>
         ELSE /\ phase' = "search" /\ s' = AfterProbe(s0, x)
              /\ flight' = Append(flight, Pkt(x, "probe", 0))
              /\ last' = Emit("probe", x)
  /\ why' = Quiet
  /\ UNCHANGED <<cfg, mtu, peer, known, link, det, todo, done, bud>>

\* the interval / black hole cooldown elapses
Tick ==
  /\ phase = "done" /\ bud.rst > 0
  /\ phase' = "due" /\ bud' = [bud EXCEPT !.rst = @ - 1]
  /\ why' = Quiet
  /\ UNCHANGED <<cfg, mtu, s, peer, known, link, flight, det, todo, done, last>>

LinkChange(v) ==
  /\ bud.chg > 0 /\ v # link
  /\ link' = v /\ bud' = [bud EXCEPT !.chg = @ - 1]
  /\ why' = Quiet
  /\ UNCHANGED <<cfg, mtu, phase, s, peer, known, flight, det, todo, done, last>>

\* migration to a new address / Connection::path_changed: discovery restarts from the
\* configured initial MTU, still capped by the peer's limit
NewPath ==
  /\ known /\ bud.path > 0
  /\ mtu' = Min(cfg.init, peer)
  /\ phase' = IF cfg.mtud THEN "init" ELSE "off"
  /\ s' = NoSearch
  /\ det' = NewDetector(cfg.min)
  /\ flight' = Stale(flight)
  /\ bud' = [bud EXCEPT !.path = @ - 1]
  /\ why' = [r |-> {"path"}, sz |-> 0]
  /\ UNCHANGED <<cfg, peer, known, link, todo, done, last>>

\* ---- acknowledgement of packet i: everything up to i is resolved ---------------------------
RECURSIVE AckFold(_, _, _)
\* a = [mtu, s, det, rose, sz, units]
AckFold(j, i, a) ==
  IF j > i THEN a
  ELSE LET p == flight[j] IN
       IF ~p.ok THEN AckFold(j + 1, i, a)
       ELSE IF p.k = "probe"
         THEN AckFold(j + 1, i, [a EXCEPT !.mtu = p.sz, !.s = [a.s EXCEPT !.lost = 0],
                                          !.det = OnProbeAcked(a.det, j, p.sz),
                                          !.rose = TRUE, !.sz = p.sz])
         ELSE AckFold(j + 1, i, [a EXCEPT !.det = OnNonProbeAcked(a.det, j, p.sz),
                                          !.units = @ + p.u])

NoBurst == [latest |-> 0, smallest |-> 0]
RECURSIVE LossFold(_, _, _)
\* a = [det, cur, units, plost]
LossFold(j, i, a) ==
  IF j > i THEN a
  ELSE LET p == flight[j] IN
       IF p.ok THEN LossFold(j + 1, i, a)
       ELSE IF p.k = "probe" THEN LossFold(j + 1, i, [a EXCEPT !.plost = TRUE])
       ELSE LET ends == a.cur # NoBurst /\ j - a.cur.latest # 1
                d1 == IF ends THEN FinishBurst(a.det, a.cur, cfg.min) ELSE a.det
                sm == IF ends \/ a.cur = NoBurst THEN p.sz ELSE Min(a.cur.smallest, p.sz)
            IN LossFold(j + 1, i, [a EXCEPT !.det = d1, !.cur = [latest |-> j, smallest |-> sm],
                                            !.units = @ + p.u])

Ack(i) ==
  /\ i \in Idx /\ flight[i].ok
  /\ LET a == AckFold(1, i, [mtu |-> mtu, s |-> s, det |-> det, rose |-> FALSE, sz |-> 0, units |-> 0])
         b == LossFold(1, i, [det |-> a.det, cur |-> NoBurst, units |-> 0, plost |-> FALSE])
         dF == IF b.cur # NoBurst THEN FinishBurst(b.det, b.cur, cfg.min) ELSE b.det
         bh == Len(dF.susp) > BlackHoleThreshold
         rest == SubSeq(flight, i + 1, Len(flight))
     IN
       /\ det' = [dF EXCEPT !.susp = IF bh THEN <<>> ELSE @, !.lp = Max(0, @ - i)]
       /\ mtu' = IF bh THEN cfg.min ELSE a.mtu
       /\ phase' = IF bh /\ phase # "off" THEN "done" ELSE phase
       /\ s' = IF ~bh /\ b.plost /\ phase = "search" THEN [a.s EXCEPT !.lost = @ + 1] ELSE a.s
       /\ flight' = IF bh THEN Stale(rest) ELSE rest
       /\ done' = done + a.units
       /\ todo' = todo + b.units
       /\ why' = [r |-> (IF a.rose THEN {"ack"} ELSE {}) \cup (IF bh THEN {"bh"} ELSE {}), sz |-> a.sz]
  /\ UNCHANGED <<cfg, peer, known, link, bud, last>>

Next ==
  \/ \E p \in Peers : PeerParams(p)
  \/ \E sz \in {mtu, LpCap} : SendData(sz)
  \/ Pto
  \/ PollMtud
  \/ Tick
  \/ \E v \in Links : LinkChange(v)
  \/ NewPath
  \/ \E i \in Idx : Ack(i)

Fairness ==
  /\ WF_vars(\E p \in Peers : PeerParams(p))
  /\ WF_vars(\E sz \in {mtu, LpCap} : SendData(sz))
  /\ WF_vars(Pto)
  /\ WF_vars(PollMtud)
  /\ WF_vars(\E i \in Idx : Ack(i))

Spec == Init /\ [][Next]_vars /\ Fairness

\* ---- the clauses of C13 ---------------------------------------------------------------------
\* every datagram but the MTU probe fits the estimate it was built under
SizeBound == last.k \in {"data", "lp"} => last.sz <= last.mtu
\* the probe is larger than the estimate, within the configured upper bound and the peer's limit
ProbeBound == last.k = "probe" => last.sz > last.mtu /\ last.sz <= cfg.upper /\ last.sz <= last.cap
                                  /\ last.sz <= peer
SingleProbe == Count("probe") <= 1
LossProbeBound == last.k = "lp" => last.sz <= LpCap
Floor == mtu >= Min(cfg.min, peer)
PeerCap == known => mtu <= peer
NoProbeWhenOff == ~cfg.mtud => Count("probe") + Count("stale") = 0
SearchSane == phase = "search" => s.lo <= s.hi + 1 /\ s.last <= Max(s.hi, s.lo) /\ s.lost <= MaxProbeRetransmits
Safety == SizeBound /\ ProbeBound /\ SingleProbe /\ LossProbeBound /\ Floor /\ PeerCap /\ NoProbeWhenOff
          /\ SearchSane

\* the estimate rises only to the size of a probe acknowledged in that very step (or on a new path)
RiseOnlyByAck ==
  [][mtu' > mtu => ("path" \in why'.r \/ ("ack" \in why'.r /\ mtu' = why'.sz))]_vars
\* it falls only for a black hole (to min_mtu), the peer's limit or a new path
FallOnlyExplained ==
  [][mtu' < mtu => (  ("bh" \in why'.r /\ mtu' = cfg.min)
                   \/ ("tp" \in why'.r /\ mtu' = peer')
                   \/ "path" \in why'.r)]_vars

\* liveness: all data is delivered whatever the path does, and a path that stops carrying the
\* current size makes the estimate fall back to what it carries (unless the data was done first)
Floor0 == Min(cfg.min, peer)
Delivery == <>(done = D) \/ []<>(link < Floor0)
Fallback == [](link < mtu => <>(mtu <= link \/ done = D \/ link < Floor0))
SearchEnds == <>[](phase # "search" \/ ~cfg.mtud)
=============================================================================
