CONSTANT Fams = {"var", "pn", "frame", "ackraw", "close", "tp", "pkt", "token", "tokenraw", "cidgen", "b2", "b4"}
CONSTANT W = 16
CONSTANT Scale = "gen"
SPECIFICATION Spec
INVARIANT Emit
CHECK_DEADLOCK FALSE
