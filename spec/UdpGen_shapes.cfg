CONSTANT Paths = {"v4>v4:v4", "v6>v6:v6", "v4>ds:v4", "v6>ds:v6", "ds>v4:map", "ds>v6:v6", "ds>ds:map", "ds>ds:v6", "v4any>v4any:v4b", "ds>ds:mapb"}
CONSTANT AltPaths = {"ds>v4:map", "ds>ds:map", "v4any>v4any:v4b", "ds>ds:mapb"}
CONSTANT Segs = {1, 7, 500, 1200, 1452}
CONSTANT Counts = {1, 2, 3, 17, 63, 64}
CONSTANT Tails = {"full", "one", "m1"}
CONSTANT Ecns = {0, 1, 2, 3}
CONSTANT Srcs = {"none", "own", "alt"}
CONSTANT Lens = {}
CONSTANT Forms = {}
INIT InitShapes
NEXT Next
INVARIANT Emit
CHECK_DEADLOCK FALSE
