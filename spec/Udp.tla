-------------------------------- MODULE Udp --------------------------------
(***************************************************************************)
(* C19 - design model of the contract of the UDP layer (quinn-udp).        *)
(*                                                                         *)
(* A caller hands over Transmit{len, segment_size, ecn, src_ip, dst}.  The *)
(* contract says that this IS the set Segments(tx): k = ceil(len / seg)    *)
(* datagrams (one when no segment size is given or it is >= len), the j-th *)
(* carrying bytes (j-1)*seg+1 .. min(j*seg, len) of the contents, all with *)
(* the transmit's ECN codepoint and addresses.  Bytes are modelled by      *)
(* their identity <<transmit, offset>>, so merging, splitting, truncating, *)
(* duplicating or mixing payloads is visible.                              *)
(*                                                                         *)
(* Below the API sits the kernel: a segmentation-offloaded send is ONE     *)
(* buffer with a segment size; loopback may reorder buffers but never      *)
(* merges, splits or truncates datagrams; a receiver with GRO gets         *)
(* offloaded buffers whole (or coalesced from equal-sized neighbours plus  *)
(* one short tail) together with the segment size, a receiver without GRO  *)
(* gets them segmented.  recv() reports RecvMeta{len, stride, ecn, addr,   *)
(* dst_ip} per buffer; the application splits a buffer at multiples of     *)
(* stride.                                                                 *)
(*                                                                         *)
(* Degraded modes (alternative actions, same observable contract):         *)
(*  - the kernel has no UDP_SEGMENT: max_gso_segments = 1 from the start   *)
(*  - the device refuses offloaded buffers (EIO / EINVAL): the transmit    *)
(*    that discovers it is lost (explicitly, variable `lost`), afterwards  *)
(*    max_gso_segments = 1 and sendmsg_einval = TRUE                       *)
(*  - an old kernel refuses the IP_TOS control message: first sendmsg      *)
(*    fails with EINVAL, the retry in fallback mode omits IP_TOS; from     *)
(*    then on IPv4 datagrams carry no ECN codepoint (documented exception) *)
(*  - the receiver has no GRO.                                             *)
(***************************************************************************)
EXTENDS Naturals, Sequences, FiniteSets, TLC

CONSTANTS MaxLen,      \* longest contents of a transmit
          SegSizes,    \* segment sizes a caller may pass (0 = None)
          Ecns,        \* subset of 0..3; 0 = no codepoint
          Srcs,        \* subset of {"none", "own", "alt"}: Transmit.src_ip
          MaxGso,      \* max_gso_segments() with working offload
          GroMax,      \* most datagrams the kernel coalesces into one buffer
          Batch,       \* most buffers one recv() call takes
          NTx          \* transmits per behaviour

VARIABLES env,     \* environment, fixed per behaviour (see Envs)
          gso,     \* max_gso_segments()
          einval,  \* sendmsg_einval
          ntx,     \* transmits submitted so far
          owed,    \* datagrams the contract promises to the receiver
          lost,    \* transmits the kernel refused (permitted, explicit)
          wire,    \* buffers in flight on loopback (a set: any order)
          rxq,     \* receive queue of the socket (sequence of buffers)
          got      \* datagrams the application reconstructed, in order
vars == <<env, gso, einval, ntx, owed, lost, wire, rxq, got>>

Min(a, b) == IF a <= b THEN a ELSE b
CeilDiv(a, b) == (a + b - 1) \div b

\* --- the contract --------------------------------------------------------
Txs == [len : 1..MaxLen, seg : SegSizes, ecn : Ecns, src : Srcs]
K(tx) == IF tx.seg = 0 \/ tx.seg >= tx.len THEN 1 ELSE CeilDiv(tx.len, tx.seg)   \* effective_segment_size
Stride(tx) == IF K(tx) = 1 THEN tx.len ELSE tx.seg
Contents(t, tx) == [o \in 1..tx.len |-> <<t, o>>]

\* splitting a buffer at multiples of stride (what RecvState::poll_socket does)
Split(bytes, stride) ==
  [j \in 1..CeilDiv(Len(bytes), stride) |->
     SubSeq(bytes, (j - 1) * stride + 1, Min(j * stride, Len(bytes)))]

\* how the receiving socket names a peer: a dual-stack socket reports IPv4 peers as v4-mapped
Family(dst) == IF dst = "v6" THEN "v6" ELSE "v4"          \* dst "map" = v4-mapped destination
Report(fam, rk) == IF fam = "v6" THEN "v6" ELSE IF rk = "ds" THEN "mapped" ELSE "v4"
SrcHost(tx) == IF tx.src = "alt" THEN "B" ELSE "A"         \* explicit source address or the default

\* ECN that the fallback mode still conveys
WireEcn(tx, fallback) == IF fallback /\ Family(env.dst) = "v4" THEN 0 ELSE tx.ecn

Dgram(bytes, ecn, host) ==
  [bytes |-> bytes, ecn |-> ecn, addr |-> <<Report(Family(env.dst), env.rk), host>>,
   dst_ip |-> <<Report(Family(env.dst), env.rk), "A">>]

Segments(t, tx, fallback) ==
  LET parts == Split(Contents(t, tx), Stride(tx))
  IN {Dgram(parts[j], WireEcn(tx, fallback), SrcHost(tx)) : j \in DOMAIN parts}

\* --- environment ---------------------------------------------------------
Envs == {x \in [kgso : BOOLEAN,   \* kernel knows UDP_SEGMENT
                dgso : BOOLEAN,   \* device accepts offloaded buffers
                tos : BOOLEAN,    \* kernel accepts the IP_TOS control message
                rxgro : BOOLEAN,  \* receiver has UDP_GRO
                rk : {"v4", "v6", "ds"}, dst : {"v4", "v6", "map"}] :
           /\ (~x.tos => ~x.kgso)                      \* kernels that old have no offload either
           /\ (~x.kgso => ~x.dgso)
           /\ (x.rk = "v4" => Family(x.dst) = "v4")   \* reachable peers only
           /\ (x.rk = "v6" => x.dst = "v6")}

Init == /\ env \in Envs
        /\ gso = IF env.kgso THEN MaxGso ELSE 1
        /\ einval = FALSE /\ ntx = 0 /\ owed = {} /\ lost = {} /\ wire = {} /\ rxq = <<>> /\ got = <<>>

Skb(t, tx, fallback) ==
  [bytes |-> Contents(t, tx), gs |-> IF K(tx) = 1 THEN 0 ELSE tx.seg,
   ecn |-> WireEcn(tx, fallback), host |-> SrcHost(tx)]

\* the caller honours max_gso_segments(); an alternate source exists for IPv4 only
Legal(tx) == K(tx) <= gso /\ (tx.src = "alt" => Family(env.dst) = "v4")

\* sendmsg accepted at the first attempt
Send(tx) ==
  /\ ntx < NTx /\ Legal(tx)
  /\ (K(tx) > 1 => env.dgso)
  /\ (Family(env.dst) = "v4" => env.tos \/ einval)
  /\ ntx' = ntx + 1
  /\ wire' = wire \cup {Skb(ntx + 1, tx, einval)}
  /\ owed' = owed \cup Segments(ntx + 1, tx, einval)
  /\ UNCHANGED <<env, gso, einval, lost, rxq, got>>

\* EINVAL because of IP_TOS: switch to fallback mode, retry without it (single datagram: gso = 1)
SendFallback(tx) ==
  /\ ntx < NTx /\ Legal(tx)
  /\ Family(env.dst) = "v4" /\ ~env.tos /\ ~einval
  /\ ntx' = ntx + 1 /\ einval' = TRUE /\ gso' = 1
  /\ wire' = wire \cup {Skb(ntx + 1, tx, TRUE)}
  /\ owed' = owed \cup Segments(ntx + 1, tx, TRUE)
  /\ UNCHANGED <<env, lost, rxq, got>>

\* EIO / EINVAL for an offloaded buffer: offload is halted, the retry fails as well, the transmit is lost
SendRefused(tx) ==
  /\ ntx < NTx /\ Legal(tx)
  /\ K(tx) > 1 /\ ~env.dgso
  /\ ntx' = ntx + 1 /\ einval' = TRUE /\ gso' = 1
  /\ lost' = lost \cup {ntx + 1}
  /\ UNCHANGED <<env, owed, wire, rxq, got>>

\* loopback: any buffer in flight may arrive next.  An offloaded buffer is queued whole on a GRO
\* socket (the kernel may also segment it), segmented otherwise.
Pieces(b) == LET p == Split(b.bytes, b.gs) IN [j \in DOMAIN p |-> [b EXCEPT !.bytes = p[j], !.gs = 0]]
Deliver(b, whole) ==
  /\ b \in wire
  /\ wire' = wire \ {b}
  /\ rxq' = IF b.gs = 0 THEN Append(rxq, b)
            ELSE IF whole /\ env.rxgro THEN Append(rxq, b) ELSE rxq \o Pieces(b)
  /\ UNCHANGED <<env, gso, einval, ntx, owed, lost, got>>

\* GRO: neighbours of one flow with the same ECN are coalesced when all but the last have one size
SegSize(b) == IF b.gs > 0 THEN b.gs ELSE Len(b.bytes)
Coalesce(i) ==
  /\ env.rxgro /\ i \in 1..(Len(rxq) - 1)
  /\ LET a == rxq[i]  b == rxq[i + 1]  s == SegSize(a) IN
       /\ a.ecn = b.ecn /\ a.host = b.host
       /\ Len(a.bytes) % s = 0                               \* no short tail yet
       /\ IF b.gs > 0 THEN b.gs = s ELSE Len(b.bytes) <= s   \* equal sized, or one short tail
       /\ CeilDiv(Len(a.bytes) + Len(b.bytes), s) <= GroMax
       /\ rxq' = SubSeq(rxq, 1, i - 1) \o <<[a EXCEPT !.bytes = a.bytes \o b.bytes, !.gs = s]>>
                   \o SubSeq(rxq, i + 2, Len(rxq))
  /\ UNCHANGED <<env, gso, einval, ntx, owed, lost, wire, got>>

\* recv(): up to n buffers; RecvMeta per buffer; the application splits by stride
Meta(b) == [len |-> Len(b.bytes), stride |-> SegSize(b), ecn |-> b.ecn, host |-> b.host]
AppSplit(b) == LET m == Meta(b)  p == Split(b.bytes, m.stride)
               IN [j \in DOMAIN p |-> Dgram(p[j], m.ecn, m.host)]
RECURSIVE Flat(_)
Flat(ss) == IF ss = <<>> THEN <<>> ELSE AppSplit(Head(ss)) \o Flat(Tail(ss))
Recv(n) ==
  /\ rxq # <<>>
  /\ LET m == Min(n, Len(rxq)) IN
       /\ got' = got \o Flat(SubSeq(rxq, 1, m))
       /\ rxq' = SubSeq(rxq, m + 1, Len(rxq))
  /\ UNCHANGED <<env, gso, einval, ntx, owed, lost, wire>>

SendAny == \E tx \in Txs : Send(tx)
SendFallbackAny == \E tx \in Txs : SendFallback(tx)
SendRefusedAny == \E tx \in Txs : SendRefused(tx)
DeliverAny == \E b \in wire, w \in BOOLEAN : Deliver(b, w)
CoalesceAny == \E i \in 1..Len(rxq) : Coalesce(i)
RecvAny == \E n \in 1..Batch : Recv(n)
Next == SendAny \/ SendFallbackAny \/ SendRefusedAny \/ DeliverAny \/ CoalesceAny \/ RecvAny

Spec == Init /\ [][Next]_vars /\ WF_vars(DeliverAny) /\ WF_vars(Recv(Batch))

\* --- properties ----------------------------------------------------------
Range(s) == {s[i] : i \in DOMAIN s}
InFlight == UNION {Range(AppSplit(b)) : b \in wire \cup Range(rxq)}

\* nothing is received that was not sent: boundaries, payload, ECN, addresses
NothingForged == Range(got) \subseteq owed
\* nothing is received twice
NothingTwice == \A i, j \in DOMAIN got : i # j => got[i] # got[j]
\* at every moment the stride of every buffer splits it into datagrams that are owed and not yet delivered
StrideExact == /\ InFlight \subseteq owed
               /\ InFlight \cap Range(got) = {}
\* nothing is lost, merged or truncated: what is neither in flight nor received does not exist
Conservation == owed = InFlight \cup Range(got)
\* degradation is one way and the refused transmits are the only ones missing
Degraded == /\ gso \in {1, MaxGso} /\ (einval => gso = 1)
            /\ (lost # {} => einval)
            /\ \A t \in 1..ntx : (t \in lost) = ~(\E d \in owed : d.bytes[1][1] = t)
UdpInv == NothingForged /\ NothingTwice /\ StrideExact /\ Conservation /\ Degraded

\* everything owed eventually reaches the application
Drained == <>[](wire = {} /\ rxq = <<>> /\ Range(got) = owed)
=============================================================================
