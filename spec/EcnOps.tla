------------------------------- MODULE EcnOps -------------------------------
(***************************************************************************)
(* ECN validation of one packet number space (RFC 9000 section 13.4.2), as *)
(* a pure function shared by the design model Ecn and the trace            *)
(* specification EcnTrace.  Counts are records [ect0, ect1, ce].           *)
(***************************************************************************)
EXTENDS Naturals

Zero == [ect0 |-> 0, ect1 |-> 0, ce |-> 0]

Bump(c, mark) == CASE mark = "ect0" -> [c EXCEPT !.ect0 = @ + 1]
                   [] mark = "ect1" -> [c EXCEPT !.ect1 = @ + 1]
                   [] mark = "ce"   -> [c EXCEPT !.ce = @ + 1]
                   [] OTHER -> c

\* verdict of an in-order acknowledgement that newly acknowledges `newly` packets, all of them sent
\* ECT(0), and reports `c` where the last accepted report was `fb`
\*   "regress"  a count went down
\*   "bleach"   fewer marks reported than packets newly acknowledged
\*   "corrupt"  ECT(1) reported although none was sent, or the ECT(0)+CE increase is too small
\*   "ce"       valid, congestion experienced
\*   "ok"       valid
Verdict(fb, c, newly) ==
  IF c.ect0 < fb.ect0 \/ c.ect1 < fb.ect1 \/ c.ce < fb.ce THEN "regress"
  ELSE LET d0 == c.ect0 - fb.ect0
           d1 == c.ect1 - fb.ect1
           dc == c.ce - fb.ce
       IN IF d0 + d1 + dc < newly THEN "bleach"
          ELSE IF d0 + dc < newly \/ d1 # 0 THEN "corrupt"
          ELSE IF dc # 0 THEN "ce" ELSE "ok"

Fails(v) == v \in {"regress", "bleach", "corrupt"}
=============================================================================
