CONSTANT MaxData = 2
CONSTANT MarkForcesAck = "eliciting"
SPECIFICATION ASpec
INVARIANT AckedWereReceived
INVARIANT Quiescence
PROPERTY OwedIsAcked
CHECK_DEADLOCK FALSE
