CONSTANT Alphabet = {0, 1, 2}
CONSTANT N = 6
INIT Init
NEXT Next
INVARIANT Emit
CHECK_DEADLOCK FALSE
