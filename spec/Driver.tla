------------------------------- MODULE Driver -------------------------------
(***************************************************************************)
(* Timer servicing (property C20): handle_timeout(now) stops every expired *)
(* timer and runs its handler.  Handlers either leave the timer stopped,   *)
(* arm timers strictly after `now`, or - the loss detection timer - re-arm *)
(* relative to the time the last ack-eliciting packet was sent with a      *)
(* doubled backoff, which may still lie in the past when the driver is     *)
(* late.  Claim: calling handle_timeout repeatedly at one instant reaches  *)
(* a state whose next timeout lies strictly in the future within a number  *)
(* of calls logarithmic in the lateness.                                   *)
(***************************************************************************)
EXTENDS Naturals, Integers

CONSTANTS MaxLate,   \* how late (in units of the base PTO) the driver may be
          MaxExp     \* MAX_BACKOFF_EXPONENT

VARIABLES now, sentAt, ptoCount, loss, other, calls
dvars == <<now, sentAt, ptoCount, loss, other, calls>>

RECURSIVE Pow2(_)
Pow2(k) == IF k = 0 THEN 1 ELSE 2 * Pow2(k - 1)
Min(a, b) == IF a <= b THEN a ELSE b
LossDeadline(k) == sentAt + Pow2(Min(k, MaxExp))      \* base PTO = 1 unit

DInit == /\ now \in 0 .. MaxLate /\ sentAt = 0 /\ ptoCount = 0
         /\ loss = LossDeadline(0) /\ other \in {-1} \cup (0 .. MaxLate) /\ calls = 0

NextTimeout == IF other = -1 THEN loss ELSE IF other < loss THEN other ELSE loss
Due == NextTimeout <= now

\* one handle_timeout(now) call
HandleTimeout ==
  /\ Due
  /\ calls' = calls + 1
  /\ IF loss <= now
       THEN /\ ptoCount' = ptoCount + 1 /\ loss' = LossDeadline(ptoCount + 1)   \* on_loss_detection_timeout
       ELSE UNCHANGED <<ptoCount, loss>>
  /\ other' = IF other # -1 /\ other <= now THEN -1 ELSE other              \* every other timer stops
  /\ UNCHANGED <<now, sentAt>>

DNext == HandleTimeout
DSpec == DInit /\ [][DNext]_dvars /\ WF_dvars(HandleTimeout)

\* bounded number of calls at one instant, and the loop ends with the next timeout in the future
BoundedCalls == calls <= MaxExp + 2
EventuallyFuture == <>(~Due)
=============================================================================
