------------------------------ MODULE CreditInd ------------------------------
(***************************************************************************)
(* Inductive invariant of the credit loop (Credit.tla), discharged by      *)
(* Apalache for EVERY window and amount (TLC explores small constants):    *)
(*   apalache-mc check --cinit=ConstInit --init=CInit   --next=CNext --inv=IndInv    --length=0   (holds initially)  *)
(*   apalache-mc check --cinit=ConstInit --init=IndInit --next=CNext --inv=IndInv    --length=1   (is preserved)     *)
(*   apalache-mc check --cinit=ConstInit --init=IndInit --next=CNext --inv=CreditInv --length=0   (implies C05/C06)  *)
(* The pre-state of the inductive step holds up to 4 messages in flight    *)
(* (Gen(4)); every action touches at most one message and the invariant is *)
(* a conjunction over single messages.                                     *)
(***************************************************************************)
EXTENDS Credit, Apalache

ConstInit == Window \in Nat /\ Window >= 1 /\ Total \in Nat
IndInv ==
  /\ adv \in Nat /\ known \in Nat /\ sent \in Nat /\ rcvd \in Nat /\ read \in Nat
  /\ sent <= known /\ known <= adv /\ adv <= read + Window
  /\ read <= rcvd /\ rcvd <= sent
  /\ \A m \in net : /\ m[1] \in {"data", "max"}
                     /\ (m[1] = "data" => m[2] <= sent)
                     /\ (m[1] = "max" => m[2] <= adv)
IndInit == /\ adv \in Nat /\ known \in Nat /\ sent \in Nat /\ rcvd \in Nat /\ read \in Nat
           /\ net = Gen(4) /\ IndInv
=============================================================================
