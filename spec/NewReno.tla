------------------------------ MODULE NewReno ------------------------------
(***************************************************************************)
(* NewReno exactly as implemented (congestion/new_reno.rs), in integers;   *)
(* Cubic and BBR use floating point and are covered by the contract only:  *)
(* after any history of calls the reported window is at least two          *)
(* datagrams of the current MTU (property C12, last clause).               *)
(***************************************************************************)
EXTENDS Naturals, Integers

Inf == 1073741824

\* state: [mtu, window, ssthresh, recStart, bytesAcked]
NrInit(now) == [mtu |-> 1200, window |-> 12000, ssthresh |-> Inf, recStart |-> now, acked |-> 0]
Max(a, b) == IF a >= b THEN a ELSE b
MinWindow(s) == 2 * s.mtu

NrOnAck(s, sent, bytes, appLimited) ==
  IF appLimited \/ sent <= s.recStart THEN s
  ELSE IF s.window < s.ssthresh
    THEN LET w == s.window + bytes IN
         [s EXCEPT !.window = w, !.acked = IF w >= s.ssthresh THEN w - s.ssthresh ELSE s.acked]
    ELSE LET a == s.acked + bytes IN
         IF a >= s.window THEN [s EXCEPT !.acked = a - s.window, !.window = s.window + s.mtu]
         ELSE [s EXCEPT !.acked = a]

NrOnCongestion(s, now, sent, persistent) ==
  IF sent <= s.recStart THEN s
  ELSE LET w == Max(s.window \div 2, MinWindow(s)) IN
       [s EXCEPT !.recStart = now, !.window = IF persistent THEN MinWindow(s) ELSE w, !.ssthresh = w]

NrOnMtu(s, m) == LET s2 == [s EXCEPT !.mtu = m] IN [s2 EXCEPT !.window = Max(s2.window, MinWindow(s2))]

\* the abstract calls of the replay harness: op -> effect at time now (ms)
NrApply(s, op, now) ==
  CASE op = "a" -> NrOnAck(s, now - 50, 1200, FALSE)
    [] op = "A" -> NrOnAck(s, now - 10, 12000, FALSE)
    [] op = "z" -> NrOnAck(s, now - 5000, 1200, TRUE)
    [] op = "l" -> NrOnCongestion(s, now, now - 20, FALSE)
    [] op = "L" -> NrOnCongestion(s, now, IF now >= 100000 THEN now - 100000 ELSE 0, FALSE)
    [] op = "p" -> NrOnCongestion(s, now, now - 1, TRUE)
    [] op = "c" -> NrOnCongestion(s, now, now - 30, FALSE)
    [] op = "m" -> NrOnMtu(s, 1452)
    [] op = "M" -> NrOnMtu(s, 1200)
    [] op = "u" -> NrOnMtu(s, 9000)
    [] OTHER -> s

Ops == {"s", "a", "A", "z", "e", "l", "L", "p", "c", "m", "M", "u", "x", "t", "T"}
Tick(op) == IF op = "t" THEN 100 ELSE IF op = "T" THEN 10000 ELSE 0
=============================================================================
