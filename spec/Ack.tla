--------------------------------- MODULE Ack ---------------------------------
(***************************************************************************)
(* Acknowledgement generation between two endpoints (extension of the      *)
(* recovery specification; RFC 9000 section 13.2).                         *)
(*                                                                         *)
(* Each endpoint sends packets that are ack-eliciting or not; the network  *)
(* may lose them and may mark them (ECN-CE).  A receiver records what it   *)
(* got, owes an acknowledgement for ack-eliciting packets (at once when    *)
(* the packet was marked or the second one is outstanding, otherwise by a  *)
(* timer) and may only ever acknowledge what it received.  ACK-only        *)
(* packets are not ack-eliciting.                                          *)
(*   AckedWereReceived   nothing is acknowledged that was not received     *)
(*   OwedIsAcked         an owed acknowledgement is eventually sent        *)
(*   Quiescence          once no endpoint sends ack-eliciting packets any  *)
(*                       more, the exchange of packets stops               *)
(* The last one fails for the variant MarkForcesAck = "any" (a mark on any *)
(* packet forces an immediate acknowledgement), which is what quinn did.   *)
(***************************************************************************)
EXTENDS Naturals, FiniteSets, TLC

CONSTANTS MaxData,        \* ack-eliciting packets each endpoint sends
          MarkForcesAck   \* "eliciting": only on ack-eliciting packets; "any": on every packet

Ends == {"a", "b"}
Other(x) == IF x = "a" THEN "b" ELSE "a"

VARIABLES sent,      \* sent[x]: packets x has sent so far: pn -> eliciting?
          net,       \* packets in flight: <<to, pn, eliciting, marked>>
          rcvd,      \* rcvd[x]: packet numbers x has received
          acked,     \* acked[x]: packet numbers x has put into ACK frames
          owed,      \* owed[x]: "no" | "timer" | "now"
          data,      \* data[x]: ack-eliciting packets x still wants to send
          sentTotal  \* packets sent since the last ack-eliciting one (to state Quiescence)

avars == <<sent, net, rcvd, acked, owed, data, sentTotal>>

AInit == /\ sent = [x \in Ends |-> <<>>] /\ net = {} /\ rcvd = [x \in Ends |-> {}]
         /\ acked = [x \in Ends |-> {}] /\ owed = [x \in Ends |-> "no"]
         /\ data = [x \in Ends |-> MaxData] /\ sentTotal = 0

NextPn(x) == Cardinality(DOMAIN sent[x])

\* x sends a packet; it carries an ACK of everything received whenever one is owed
Send(x, eliciting, marked) ==
  /\ (eliciting /\ data[x] > 0) \/ (~eliciting /\ owed[x] = "now")
  /\ sentTotal < 2 * MaxData + 6
  /\ LET pn == NextPn(x) IN
       /\ sent' = [sent EXCEPT ![x] = sent[x] @@ (pn :> eliciting)]
       /\ net' = net \cup {<<Other(x), pn, eliciting, marked>>}
  /\ acked' = IF owed[x] # "no" THEN [acked EXCEPT ![x] = rcvd[x]] ELSE acked
  /\ owed' = [owed EXCEPT ![x] = "no"]
  /\ data' = IF eliciting THEN [data EXCEPT ![x] = data[x] - 1] ELSE data
  /\ sentTotal' = IF eliciting THEN 0 ELSE sentTotal + 1
  /\ UNCHANGED rcvd

Lose(p) == /\ p \in net /\ net' = net \ {p} /\ UNCHANGED <<sent, rcvd, acked, owed, data, sentTotal>>

Recv(p) ==
  /\ p \in net
  /\ net' = net \ {p}
  /\ LET x == p[1] IN
       /\ rcvd' = [rcvd EXCEPT ![x] = rcvd[x] \cup {p[2]}]
       /\ owed' = [owed EXCEPT ![x] =
                    IF p[3] THEN (IF p[4] \/ owed[x] # "no" THEN "now" ELSE "timer")
                    ELSE IF p[4] /\ MarkForcesAck = "any" THEN "now" ELSE owed[x]]
  /\ UNCHANGED <<sent, acked, data, sentTotal>>

\* max_ack_delay timer
Timer(x) == /\ owed[x] = "timer" /\ owed' = [owed EXCEPT ![x] = "now"]
            /\ UNCHANGED <<sent, net, rcvd, acked, data, sentTotal>>

ANext == \/ \E x \in Ends, el \in BOOLEAN, m \in BOOLEAN : Send(x, el, m)
         \/ \E p \in net : Lose(p) \/ Recv(p)
         \/ \E x \in Ends : Timer(x)

ASpec == AInit /\ [][ANext]_avars
         /\ \A x \in Ends : WF_avars(Timer(x)) /\ WF_avars(Send(x, FALSE, TRUE)) /\ WF_avars(Send(x, FALSE, FALSE))
         /\ WF_avars(\E p \in net : Recv(p))

AckedWereReceived == \A x \in Ends : acked[x] \subseteq rcvd[x]
OwedIsAcked == \A x \in Ends : (owed[x] # "no") ~> (owed[x] = "no")
\* packets sent without any ack-eliciting packet in between stay bounded: an ACK-only packet never
\* causes another packet
Quiescence == sentTotal <= 4
=============================================================================
