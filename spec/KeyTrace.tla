------------------------------ MODULE KeyTrace ------------------------------
(***************************************************************************)
(* Trace validation of key updates (KeyUpdate.tla) on runs with one        *)
(* client/server pair.  The key phase bit of every 1-RTT packet on the     *)
(* wire gives each side's phase count (the bit flips once per update).     *)
(*   PhasesMoreThanOneApart     KeyUpdate!PhasesWithinOne on what the two  *)
(*                              sides have put on the wire                 *)
(*   KeyUpdateBeforeAcknowledged   a side that does not merely follow its  *)
(*                              peer moves on (asked by the application or *)
(*                              because the keys are used up) only once a  *)
(*                              packet sent in the current phase has been  *)
(*                              acknowledged (KeyUpdate!Initiate)          *)
(*   KeyUpdateBeforeHandshakeConfirmed   the first update needs a          *)
(*                              confirmed handshake                        *)
(*   PacketNumberNotIncreasing  packet numbers grow within a side's        *)
(*                              1-RTT packets (the phase of a number is    *)
(*                              unambiguous)                               *)
(***************************************************************************)
EXTENDS Naturals, Integers, Sequences, FiniteSets, TLC, Json, IOUtils
Rec == ndJsonDeserialize(IOEnv.TRACE)
N == Len(Rec)
VARIABLES l, bad, bit, count, first, ackedCur, asked, lastPn, followed, deviations, cur
vars == <<l, bad, bit, count, first, ackedCur, asked, lastPn, followed, deviations, cur>>
e == Rec[l]
Is(k) == l <= N /\ e.ev = k
Flag(c, name) == IF c THEN {} ELSE {name}
Sides == {"c", "s"}
Other(x) == IF x = "c" THEN "s" ELSE "c"

Blank(v) == [x \in Sides |-> v]
TInit == /\ l = 1 /\ bad = {} /\ bit = Blank(FALSE) /\ count = Blank(0) /\ first = Blank(0) /\ ackedCur = Blank(FALSE)
         /\ asked = Blank(FALSE) /\ lastPn = Blank(-1) /\ followed = Blank(FALSE) /\ deviations = {} /\ cur = <<0>>
Reset == /\ Is("Reset") /\ bad' = {} /\ bit' = Blank(FALSE) /\ count' = Blank(0) /\ first' = Blank(0)
         /\ ackedCur' = Blank(FALSE) /\ asked' = Blank(FALSE) /\ lastPn' = Blank(-1) /\ followed' = Blank(FALSE) /\ deviations' = {}
         /\ cur' = <<e.run>> /\ l' = l + 1

\* fold the 1-RTT packets of one transmission of side x:
\* <<bit, count, first pn of the current phase, ackedCur, asked, last pn, flags, last update was a follow, deviations>>
\* (quinn used to let the application force the next update after one in which it merely FOLLOWED its
\* peer as soon as the old keys were discarded, acknowledged or not: fixed, so no deviation is named.)
RECURSIVE Fold(_, _, _, _, _, _, _, _, _, _, _)
Fold(pk, i, x, b, c, f, a, q, lp, conf, fw) ==
  IF i > Len(pk) THEN <<b, c, f, a, q, lp, {}, fw, {}>>
  ELSE LET p == pk[i]
           flip == p.kp # b
           follows == count[Other(x)] > c           \* the peer is already one phase ahead
           early == flip /\ ~follows /\ c > 0 /\ ~a
           \* the first update needs a confirmed handshake, every later one an acknowledgement for a
           \* packet of the phase being left (RFC 9001 6.1)
           fl == Flag(p.pn > lp, "PacketNumberNotIncreasing")
                 \cup (IF flip THEN Flag(~early, "KeyUpdateBeforeAcknowledged")
                                    \cup Flag(follows \/ c > 0 \/ conf, "KeyUpdateBeforeHandshakeConfirmed")
                       ELSE {})
           dv == {}
           r == IF flip THEN Fold(pk, i + 1, x, p.kp, c + 1, p.pn, FALSE, FALSE, p.pn, conf, follows)
                        ELSE Fold(pk, i + 1, x, b, c, f, a, q, p.pn, conf, fw)
       IN <<r[1], r[2], r[3], r[4], r[5], r[6], r[7] \cup fl, r[8], r[9] \cup dv>>

Sent ==
  /\ Is("Sent")
  /\ LET x == e.side
         r == Fold(e.pk, 1, x, bit[x], count[x], first[x], ackedCur[x], asked[x], lastPn[x], e.conf, followed[x])
     IN
       /\ bit' = [bit EXCEPT ![x] = r[1]] /\ count' = [count EXCEPT ![x] = r[2]] /\ first' = [first EXCEPT ![x] = r[3]]
       /\ ackedCur' = [ackedCur EXCEPT ![x] = r[4]] /\ asked' = [asked EXCEPT ![x] = r[5]]
       /\ lastPn' = [lastPn EXCEPT ![x] = r[6]] /\ followed' = [followed EXCEPT ![x] = r[8]]
       /\ deviations' = deviations \cup r[9]
       /\ bad' = bad \cup r[7]
            \cup Flag(r[2] <= count[Other(x)] + 1 /\ count[Other(x)] <= r[2] + 1, "PhasesMoreThanOneApart")
  /\ l' = l + 1 /\ UNCHANGED cur

\* acknowledgements that arrived at side x: does one cover a packet of its current phase?
Got ==
  /\ Is("Got")
  /\ LET x == e.side
         hit == \E i \in 1 .. Len(e.acked) : e.acked[i][2] >= first[x] /\ e.acked[i][1] <= lastPn[x]
     IN ackedCur' = [ackedCur EXCEPT ![x] = ackedCur[x] \/ hit]
  /\ bad' = bad /\ l' = l + 1 /\ UNCHANGED <<bit, count, first, asked, lastPn, followed, deviations, cur>>

Asked == /\ Is("Asked") /\ asked' = [asked EXCEPT ![e.side] = asked[e.side] \/ e.est]
         /\ bad' = bad /\ l' = l + 1 /\ UNCHANGED <<bit, count, first, ackedCur, lastPn, followed, deviations, cur>>

TNext == (Reset \/ Sent \/ Got \/ Asked)
         /\ (deviations' \subseteq deviations
             \/ PrintT(<<"KNOWN", deviations' \ deviations, "line", l, "run", cur>>))
TraceSpec == TInit /\ [][TNext]_vars
Watch == TLCSet(1, <<l, bad, cur>>) /\ bad = {}
TraceAccepted ==
  LET r == TLCGet(1) d == TLCGet("stats").diameter IN
  IF r[2] # {} THEN Print(<<"VIOLATION", r[2], "line", r[1] - 1, "run", r[3]>>, FALSE)
  ELSE IF d - 1 # N THEN Print(<<"UNMATCHED", "line", d, "run", r[3]>>, FALSE)
  ELSE TRUE
=============================================================================
