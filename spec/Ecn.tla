--------------------------------- MODULE Ecn ---------------------------------
(***************************************************************************)
(* Explicit congestion notification between one sender and one receiver.   *)
(* The sender marks every packet ECT(0) while it believes the path carries *)
(* ECN.  The network delivers a packet as sent, marks it CE, strips the    *)
(* mark (bleaching), rewrites it to ECT(1), duplicates or loses it.  The   *)
(* receiver counts the marks of the packets it processes and reports the   *)
(* counts in every acknowledgement once it has seen a mark at all.         *)
(* Acknowledgements are lost and reordered.  The sender validates the      *)
(* counts of acknowledgements that raise the largest acknowledged packet   *)
(* number and gives ECN up when validation fails or a report is missing.   *)
(*                                                                         *)
(*   NoFalseDisable     on a network that neither bleaches nor rewrites    *)
(*                      marks the sender never gives ECN up                *)
(*   BleachedPathGivesUp on a network that strips every mark the sender    *)
(*                      has given ECN up as soon as anything was newly     *)
(*                      acknowledged                                       *)
(*   SignalsAreReal     every congestion event corresponds to CE marks the *)
(*                      receiver really saw: events <= reported CE <= seen *)
(*   ReportsAreExact    a report in flight never exceeds what the receiver *)
(*                      has counted                                        *)
(*   CeSeenOnce         a CE mark is counted once per packet, duplicates   *)
(*                      do not count (the variant CountDuplicates is       *)
(*                      refuted by it)                                     *)
(***************************************************************************)
EXTENDS Integers, FiniteSets, EcnOps

CONSTANTS MaxPkts,          \* packets the sender sends
          Bleach, Rewrite,  \* what the network may do to marks
          AllBleached,      \* the network strips every mark
          CountDuplicates   \* defect variant: the receiver counts duplicates

VARIABLES sendingEcn, nextPn, unacked, largestAcked, fb, events,  \* sender
          net,                                                     \* <<pn, mark>> in flight
          seen, counts, receivingEcn, ceUnique,                    \* receiver
          acks                                                     \* reports in flight

evars == <<sendingEcn, nextPn, unacked, largestAcked, fb, events, net, seen, counts, receivingEcn, ceUnique, acks>>


EInit == /\ sendingEcn = TRUE /\ nextPn = 0 /\ unacked = {} /\ largestAcked = -1 /\ fb = Zero /\ events = 0
         /\ net = {} /\ seen = {} /\ counts = Zero /\ receivingEcn = FALSE /\ ceUnique = 0 /\ acks = {}

Send == /\ nextPn < MaxPkts
        /\ net' = net \cup {<<nextPn, IF sendingEcn THEN "ect0" ELSE "none">>}
        /\ unacked' = unacked \cup {nextPn}
        /\ nextPn' = nextPn + 1
        /\ UNCHANGED <<sendingEcn, largestAcked, fb, events, seen, counts, receivingEcn, ceUnique, acks>>

\* what the network can turn a mark into
Fates(m) == IF m = "none" THEN {"none"}
            ELSE IF AllBleached THEN {"none"}
            ELSE {m, "ce"} \cup (IF Bleach THEN {"none"} ELSE {}) \cup (IF Rewrite THEN {"ect1"} ELSE {})

\* delivery; `keep` leaves the packet in the network (duplication)
Deliver(p, m, keep) ==
  /\ p \in net /\ m \in Fates(p[2])
  /\ net' = IF keep THEN net ELSE net \ {p}
  /\ LET dup == p[1] \in seen
         counted == ~dup \/ CountDuplicates
     IN /\ seen' = seen \cup {p[1]}
        /\ counts' = IF counted THEN Bump(counts, m) ELSE counts
        /\ receivingEcn' = (receivingEcn \/ (counted /\ m # "none"))
        /\ ceUnique' = IF ~dup /\ m = "ce" THEN ceUnique + 1 ELSE ceUnique
  /\ UNCHANGED <<sendingEcn, nextPn, unacked, largestAcked, fb, events, acks>>

Drop(p) == /\ p \in net /\ net' = net \ {p}
           /\ UNCHANGED <<sendingEcn, nextPn, unacked, largestAcked, fb, events, seen, counts, receivingEcn, ceUnique, acks>>

Max(S) == CHOOSE x \in S : \A y \in S : y <= x

Report == /\ seen # {}
          /\ acks' = acks \cup {[largest |-> Max(seen), set |-> seen,
                                 ecn |-> IF receivingEcn THEN [counts EXCEPT !.ect0 = @] ELSE Zero,
                                 has |-> receivingEcn]}
          /\ UNCHANGED <<sendingEcn, nextPn, unacked, largestAcked, fb, events, net, seen, counts, receivingEcn, ceUnique>>

LoseAck(a) == /\ a \in acks /\ acks' = acks \ {a}
              /\ UNCHANGED <<sendingEcn, nextPn, unacked, largestAcked, fb, events, net, seen, counts, receivingEcn, ceUnique>>

\* the sender's side of an acknowledgement, step by step as the implementation takes them
GetAck(a) ==
  /\ a \in acks /\ acks' = acks \ {a}
  /\ LET newLargest == a.largest > largestAcked
         newly == unacked \cap a.set
     IN /\ largestAcked' = IF newLargest THEN a.largest ELSE largestAcked
        /\ unacked' = unacked \ newly
        /\ IF newly = {} \/ ~sendingEcn
             THEN UNCHANGED <<sendingEcn, fb, events>>
             ELSE IF ~a.has
               THEN sendingEcn' = FALSE /\ UNCHANGED <<fb, events>>
               ELSE IF ~newLargest
                 THEN UNCHANGED <<sendingEcn, fb, events>>
                 ELSE LET v == Verdict(fb, a.ecn, Cardinality(newly))
                      IN IF Fails(v)
                           THEN sendingEcn' = FALSE /\ fb' = Zero /\ UNCHANGED events
                           ELSE /\ fb' = a.ecn /\ UNCHANGED sendingEcn
                                /\ events' = IF v = "ce" THEN events + 1 ELSE events
  /\ UNCHANGED <<nextPn, net, seen, counts, receivingEcn, ceUnique>>

ENext == \/ Send \/ Report
         \/ \E p \in net : (\E m \in {"none", "ect0", "ect1", "ce"}, k \in BOOLEAN : Deliver(p, m, k)) \/ Drop(p)
         \/ \E a \in acks : GetAck(a) \/ LoseAck(a)
ESpec == EInit /\ [][ENext]_evars

NoFalseDisable == (~Bleach /\ ~Rewrite /\ ~AllBleached) => sendingEcn
BleachedPathGivesUp == (AllBleached /\ Cardinality(unacked) < nextPn) => ~sendingEcn
SignalsAreReal == events <= counts.ce /\ (sendingEcn => events <= fb.ce /\ fb.ce <= counts.ce)
CeSeenOnce == counts.ce = ceUnique
ReportsAreExact == \A a \in acks : a.ecn.ect0 <= counts.ect0 /\ a.ecn.ect1 <= counts.ect1 /\ a.ecn.ce <= counts.ce
=============================================================================
