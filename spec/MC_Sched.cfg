CONSTANT Streams = {1, 2, 3}
CONSTANT Prios = {0, 1}
CONSTANT MaxChunks = 2
CONSTANT MaxOps = 6
CONSTANT Fair = TRUE
CONSTANT ForgetRequeue = FALSE
SPECIFICATION SSpec
INVARIANT NoStreamForgotten
INVARIANT OneEntryPerStream
PROPERTY PriorityRespected
PROPERTY RoundRobin
CHECK_DEADLOCK FALSE
