SPECIFICATION Spec
CONSTANTS N = 3
          T = 7
          K = 2
          D = 2
          P = 2
          W = 3
          MaxPto = 2
          Bug = "none"
CONSTRAINT Bounded
INVARIANTS TypeOK LostWasOvertaken NothingOverdue TimerArmed CountReset
PROPERTIES LostOnlyAtThreshold AckedStaysAcked
CHECK_DEADLOCK FALSE
