CONSTANT Alphabet = {"ok", "x", "dup", "delay", "corrupt"}
CONSTANT N = 5
INIT Init
NEXT Next
INVARIANT Emit
CHECK_DEADLOCK FALSE
