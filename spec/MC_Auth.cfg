CONSTANT MaxPn = 7
CONSTANT W = 3
SPECIFICATION Spec
INVARIANT AuthInv
CHECK_DEADLOCK FALSE
