CONSTANT MaxDrops = 3
CONSTANT ServerFlight = 3
SPECIFICATION PSpec
INVARIANT ProgressInv
PROPERTY EventuallyConnected
CHECK_DEADLOCK FALSE
