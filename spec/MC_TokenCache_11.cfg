CONSTANT Servers = {1, 2, 3}
CONSTANT MaxTok = 6
CONSTANT S = 1
CONSTANT P = 1
SPECIFICATION Spec
INVARIANT AtMostOnce
INVARIANT OwnServerOnly
INVARIANT OldestFirst
INVARIANT Capacity
INVARIANT ZeroNeverReturns
INVARIANT Disjoint
INVARIANT NewestKept
CHECK_DEADLOCK FALSE
