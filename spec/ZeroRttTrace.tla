---------------------------- MODULE ZeroRttTrace ----------------------------
(***************************************************************************)
(* Trace validation for C17 (0-RTT data is delivered once if accepted and  *)
(* vanishes if rejected).  The state is that of ZeroRtt.tla seen from the  *)
(* two applications: per client connection ("A" = holder of the session    *)
(* ticket, "B" = a client that connects afresh in the same run) the table  *)
(* of streams opened in the current epoch with what was written, the       *)
(* limits in force (remembered parameters before the handshake completes,  *)
(* the server's new parameters afterwards, raised by the MAX_* frames that *)
(* were really processed) and what the server application has been shown.  *)
(* ZeroRtt!Reject is taken at the client's Connected event when the server *)
(* was told to refuse early data: the epoch table is discarded, numbering  *)
(* and credit restart from the TP record.  Every later call result of A is *)
(* predicted from that state and, when B is present, compared position by  *)
(* position with the result B got for the same call (self-composition).    *)
(***************************************************************************)
EXTENDS Naturals, Integers, Sequences, FiniteSets, TLC, Json, IOUtils

Rec == ndJsonDeserialize(IOEnv.TRACE)
N == Len(Rec)

VARIABLES l, bad, deviations, cfg, st, cur
vars == <<l, bad, deviations, cfg, st, cur>>

e == Rec[l]
Is(k) == l <= N /\ e.ev = k
Flag(c, name) == IF c THEN {} ELSE {name}
Min(a, b) == IF a < b THEN a ELSE b
Max(a, b) == IF a > b THEN a ELSE b
At(f, a, d) == IF a \in DOMAIN f THEN f[a] ELSE d
Set(f, a, v) == IF a \in DOMAIN f THEN [f EXCEPT ![a] = v] ELSE f @@ (a :> v)

ZeroTP == [md |-> 0, sdbl |-> 0, sdbr |-> 0, sduni |-> 0, msb |-> 0, msu |-> 0, dgram |-> -1, acid |-> 2]
TPOf(x) == [md |-> x.md, sdbl |-> x.sdbl, sdbr |-> x.sdbr, sduni |-> x.sduni, msb |-> x.msb,
            msu |-> x.msu, dgram |-> x.dgram, acid |-> x.acid]
NoCfg == [ticket |-> FALSE, accept |-> FALSE, policy |-> "accept", ref |-> FALSE, rem |-> ZeroTP]

\* a client connection before its handshake completes: limits are the remembered ones (none without ticket)
FreshConn(rem) ==
  [ph |-> "early", rej |-> FALSE, hasTp |-> FALSE, tp |-> ZeroTP,
   cs |-> <<>>, cs0 |-> <<>>, nb |-> 0, nu |-> 0,
   md |-> rem.md, remmd |-> 0, msb |-> rem.msb, msu |-> rem.msu, sdb |-> rem.sdbr, sdu |-> rem.sduni,
   dgl |-> rem.dgram, msd |-> <<>>, ds |-> 0, dgE |-> {}, dgP |-> {}, dgPL |-> {},
   srv |-> <<>>, sdg |-> {}, post |-> <<>>, fz |-> FALSE, zorig |-> {}, sdgS |-> 0,
   d1 |-> FALSE, d2 |-> FALSE, d3 |-> FALSE, rf |-> FALSE, zf |-> {}, lf |-> {}]
Whos == {"A", "B", "X"}
NewStream == [w |-> 0, key |-> -1, fin |-> FALSE, rst |-> -1, lim |-> -1, stp |-> FALSE]

W == e.who
S == st[W]
Put(r) == st' = [st EXCEPT ![W] = r]
Holder == cfg.ticket /\ W = "A"
IsUni(id) == id % 4 = 2
CId(dir, idx) == 4 * idx + 2 * dir
Live(s, id) == id \in DOMAIN s.cs
Byte(key, off) == (key + off) % 251

\* ZeroRtt!Incompatible: the server accepted early data although a remembered limit exceeds the new one
Incompat(r, n) == \/ r.acid > n.acid \/ r.md > n.md \/ r.sdbl > n.sdbl \/ r.sdbr > n.sdbr
                  \/ r.sduni > n.sduni \/ r.msb > n.msb \/ r.msu > n.msu \/ r.dgram > n.dgram

TInit == /\ l = 1 /\ bad = {} /\ deviations = {} /\ cfg = NoCfg
         /\ st = [w \in Whos |-> FreshConn(ZeroTP)] /\ cur = <<0>>

Reset ==
  /\ Is("Reset")
  /\ cfg' = [ticket |-> e.ticket, accept |-> e.accept, policy |-> e.policy, ref |-> e.ref, rem |-> TPOf(e.rem)]
  /\ st' = [w \in Whos |-> FreshConn(IF w = "A" /\ e.ticket THEN TPOf(e.rem) ELSE ZeroTP)]
  /\ bad' = {} /\ deviations' = {} /\ cur' = <<e.run>> /\ l' = l + 1

Keep == UNCHANGED <<cfg, cur>> /\ l' = l + 1
Same == UNCHANGED <<bad, deviations>>

\* the parameters the server presents to this client in the new handshake
TP ==
  /\ Is("TP")
  /\ Put([S EXCEPT !.hasTp = TRUE, !.tp = TPOf(e)])
  /\ Same /\ Keep

\* ZeroRtt!HandshakeAccepted / ZeroRtt!Reject / ZeroRtt!HandshakeFresh
Connected ==
  /\ Is("CEv") /\ e.k = "Connected"
  /\ LET s == S
         n == s.tp
         rejNow == Holder /\ ~cfg.accept
     IN
       /\ bad' = bad
            \cup Flag(s.hasTp, "ConnectedWithoutServerParameters")
            \cup Flag(s.ph = "early", "ConnectedTwice")
            \cup Flag(e.zacc = (Holder /\ cfg.accept), "AcceptanceFlagWrong")
            \cup Flag(e.zen = Holder, "ZeroRttEnabledFlagWrong")
            \cup Flag(~(Holder /\ cfg.accept /\ Incompat(cfg.rem, n)), "IncompatibleAcceptNotRefused")
       /\ Put(IF rejNow
              THEN [s EXCEPT !.ph = "est", !.rej = TRUE, !.cs0 = s.cs, !.cs = <<>>, !.nb = 0, !.nu = 0,
                             !.md = n.md, !.remmd = s.md, !.msb = n.msb, !.msu = n.msu,
                             !.sdb = n.sdbr, !.sdu = n.sduni, !.dgl = n.dgram, !.msd = <<>>, !.ds = 0,
                             !.zf = {}, !.lf = {}]
              ELSE [s EXCEPT !.ph = "est", !.md = Max(s.md, n.md), !.msb = n.msb, !.msu = n.msu,
                             !.sdb = n.sdbr, !.sdu = n.sduni, !.dgl = n.dgram])
  /\ UNCHANGED deviations /\ Keep

\* ZeroRtt!RefuseIncompatible is the only way a connection may end in these scenarios
\* (apart from the consequences of a named deviation)
Lost ==
  /\ Is("CEv") /\ e.k = "ConnectionLost"
  /\ LET s == S
         expected == Holder /\ cfg.accept /\ s.hasTp /\ Incompat(cfg.rem, s.tp) /\ s.ph = "early"
     IN
       \* consequences of named deviations: the server closes when stale credit (d2) or a stale datagram
       \* size limit (d3) makes the client overrun the new limits
       /\ bad' = bad \cup Flag(expected \/ s.d2 \/ s.d3, "ConnectionLostUnexpectedly")
                     \* either the client notices (PROTOCOL_VIOLATION) or the server, whose reduced limits the
                     \* early data overran, closes first (FLOW_CONTROL_ERROR, STREAM_LIMIT_ERROR, PROTOCOL_VIOLATION)
                     \cup Flag(expected => \/ (e.rk = "TransportError" /\ e.code = 10)
                                            \/ (e.rk = "ConnectionClosed" /\ e.code \in {3, 4, 10}),
                               "IncompatibleAcceptWrongError")
       /\ Put([s EXCEPT !.ph = "lost"])
  /\ UNCHANGED deviations /\ Keep

\* ---------------------------------------------------------------------------------------------
\* client calls

\* the post-handshake history used for the comparison with the fresh connection: call, result and
\* the credit the call could draw on (cv), as far as the server's frames and parameters define it
Norm(cv) == <<e.op, e.k, e.rid, e.rn, cv>>
NoCv == <<0, 0>>
Log(s, cv) == IF s.ph = "est" THEN [s EXCEPT !.post = Append(s.post, Norm(cv))] ELSE s

\* self-composition: after a rejection A must get, call by call, what the fresh connection B gets,
\* whenever both were granted the same credit (MAX_* frames depend on when the server read)
RefOn(s) == W = "B" /\ cfg.ref /\ s.ph = "est" /\ st["A"].rej /\ st["A"].ph = "est"
RefDiffers(s, cv) == RefOn(s) /\ Len(s.post) + 1 <= Len(st["A"].post) /\ st["A"].post[Len(s.post) + 1][5] # cv
RefCheck(s, cv) ==
  IF RefOn(s)
  THEN LET i == Len(s.post) + 1
           pa == st["A"].post
       IN IF i > Len(pa) THEN {"PostRejectionDiffersFromFresh"}
          ELSE IF pa[i] = Norm(cv) THEN {}
          ELSE IF pa[i][1] = e.op /\ pa[i][5] # cv THEN {}
          ELSE IF (st["A"].d1 \/ st["A"].d2) /\ e.op = "write" /\ pa[i][1] = "write" THEN {}
          ELSE {"PostRejectionDiffersFromFresh"}
  ELSE {}
LogR(s, cv) == LET s1 == Log(s, cv) IN [s1 EXCEPT !.rf = @ \/ RefDiffers(s, cv)]

PhaseName(s, early, rejected, other) == IF s.ph = "early" THEN early ELSE IF s.rej THEN rejected ELSE other
DeadName(s, id) == IF s.rej /\ id \in DOMAIN s.cs0 THEN "RejectionNotReportedOnEarlyStream"
                   ELSE "OperationOnUnopenedStreamAccepted"

COpen ==
  /\ Is("C") /\ e.op = "open"
  /\ LET s == S
         idx == IF e.dir = 0 THEN s.nb ELSE s.nu
         lim == IF e.dir = 0 THEN s.msb ELSE s.msu
         ok == IF idx < lim THEN e.k = "Some" /\ e.rid = CId(e.dir, idx) ELSE e.k = "None"
         s1 == IF e.k = "Some"
               THEN [s EXCEPT !.nb = IF e.dir = 0 THEN @ + 1 ELSE @,
                              !.nu = IF e.dir = 1 THEN @ + 1 ELSE @,
                              !.cs = Set(s.cs, e.rid, NewStream)]
               ELSE s
     IN
       /\ bad' = bad \cup (IF s.ph = "lost" THEN {}
                           ELSE Flag(ok, PhaseName(s, "EarlyOpenNotPerRememberedLimits",
                                                   "PostRejectStreamsNotFresh", "OpenNotPerNegotiatedLimits"))
                                \cup RefCheck(s, <<Max(0, lim - idx), 0>>))
       /\ Put(LogR(s1, <<Max(0, lim - idx), 0>>))
  /\ UNCHANGED deviations /\ Keep

\* ZeroRtt!Write: the number of bytes accepted is dictated by the limits in force
CWrite ==
  /\ Is("C") /\ e.op = "write"
  /\ LET s == S
         id == e.id
     IN
       IF s.ph = "lost" THEN Same /\ UNCHANGED st
       ELSE IF ~Live(s, id)
       THEN /\ bad' = bad \cup Flag(e.k = "ClosedStream", DeadName(s, id)) \cup RefCheck(s, NoCv)
            /\ Put(LogR(s, NoCv)) /\ UNCHANGED deviations
       ELSE
         LET r == s.cs[id]
             lim0 == IF r.lim >= 0 THEN r.lim ELSE (IF IsUni(id) THEN s.sdu ELSE s.sdb)
             strm == Max(lim0, At(s.msd, id, 0)) - r.w
             Exp(md, ux) == Max(0, Min(Min(e.len, strm), Min(md - s.ds, e.sw - e.sua - ux)))
             closed == r.fin \/ r.rst # -1
             Matches(x) == IF x = 0 THEN e.k = "Blocked" ELSE e.k = "Ok" /\ e.rn = x
             plain == IF closed THEN e.k = "ClosedStream" ELSE Matches(Exp(s.md, 0))
             viaD1 == ~closed /\ s.rej /\ e.uax > 0 /\ Matches(Exp(s.md, e.uax))
             viaD2 == ~closed /\ s.rej /\ s.remmd > s.md /\ Matches(Exp(s.remmd, 0))
             viaD12 == ~closed /\ s.rej /\ e.uax > 0 /\ s.remmd > s.md /\ Matches(Exp(s.remmd, e.uax))
             dev == IF plain \/ s.fz THEN {}
                    ELSE IF viaD1 THEN {"UnackedDataNotResetOnRejection"}
                    ELSE IF viaD2 THEN {"MaxDataNotLoweredOnRejection"}
                    ELSE IF viaD12 THEN {"UnackedDataNotResetOnRejection", "MaxDataNotLoweredOnRejection"}
                    ELSE {}
             beyond == e.k = "Ok" /\ e.rn > Max(0, Min(e.len, Min(strm, s.md - s.ds)))
             viol == IF plain \/ dev # {} THEN {}
                     ELSE IF s.fz THEN Flag(~beyond /\ e.k \in {"Ok", "Blocked"}, "WriteBeyondFlowControlLimit")
                     ELSE IF beyond THEN {"WriteBeyondFlowControlLimit"}
                     ELSE {PhaseName(s, "EarlyWriteNotPerRememberedLimits", "PostRejectCreditNotFresh",
                                     "WriteNotPerNegotiatedLimits")}
             got == IF e.k = "Ok" THEN e.rn ELSE 0
             r1 == [r EXCEPT !.w = @ + got, !.lim = IF e.k = "ClosedStream" THEN @ ELSE lim0,
                             \* -2: the script wrote with two payload keys (a call meant for after the
                             \* handshake made before it): the content of this stream is not checked
                             !.key = IF e.k # "Ok" \/ r.key = e.key THEN @ ELSE IF r.key = -1 THEN e.key ELSE -2]
             s1 == [s EXCEPT !.cs = Set(s.cs, id, r1), !.ds = @ + got,
                             !.d1 = @ \/ "UnackedDataNotResetOnRejection" \in dev,
                             !.d2 = @ \/ "MaxDataNotLoweredOnRejection" \in dev]
             cv == <<strm, s.md - s.ds>>
         IN /\ bad' = bad \cup viol \cup RefCheck(s, cv)
            /\ deviations' = deviations \cup dev
            /\ Put(LogR(s1, cv))
  /\ Keep

CFinish ==
  /\ Is("C") /\ e.op = "finish"
  /\ LET s == S
         id == e.id
     IN
       IF s.ph = "lost" THEN UNCHANGED <<bad, st>>
       ELSE IF ~Live(s, id)
       THEN /\ bad' = bad \cup Flag(e.k = "ClosedStream", DeadName(s, id)) \cup RefCheck(s, NoCv)
            /\ Put(LogR(s, NoCv))
       ELSE
         LET r == s.cs[id]
             lim0 == IF r.lim >= 0 THEN r.lim ELSE (IF IsUni(id) THEN s.sdu ELSE s.sdb)
             ok == IF r.fin \/ r.rst # -1 THEN e.k = "ClosedStream" ELSE e.k = "Ok"
         IN /\ bad' = bad \cup Flag(ok, "FinishResultUnexpected") \cup RefCheck(s, NoCv)
            /\ Put(LogR([s EXCEPT !.cs = Set(s.cs, id, [r EXCEPT !.fin = @ \/ e.k = "Ok", !.lim = lim0])], NoCv))
  /\ UNCHANGED deviations /\ Keep

CReset ==
  /\ Is("C") /\ e.op = "reset"
  /\ LET s == S
         id == e.id
     IN
       IF s.ph = "lost" THEN UNCHANGED <<bad, st>>
       ELSE IF ~Live(s, id)
       THEN /\ bad' = bad \cup Flag(e.k = "ClosedStream", DeadName(s, id)) \cup RefCheck(s, NoCv)
            /\ Put(LogR(s, NoCv))
       ELSE
         LET r == s.cs[id]
             lim0 == IF r.lim >= 0 THEN r.lim ELSE (IF IsUni(id) THEN s.sdu ELSE s.sdb)
             \* a finished stream disappears once everything is acknowledged: then the reset finds nothing
             ok == IF r.rst # -1 THEN e.k = "ClosedStream"
                   ELSE IF r.fin THEN e.k \in {"Ok", "ClosedStream"} ELSE e.k = "Ok"
         IN /\ bad' = bad \cup Flag(ok, "ResetResultUnexpected") \cup RefCheck(s, NoCv)
            /\ Put(LogR([s EXCEPT !.cs = Set(s.cs, id, [r EXCEPT !.rst = IF e.k = "Ok" THEN e.code ELSE @, !.lim = lim0])], NoCv))
  /\ UNCHANGED deviations /\ Keep

\* receive half of an own bidirectional stream: stop / read must report a stream that is gone
CRecvSide ==
  /\ Is("C") /\ e.op \in {"stop", "read"}
  /\ LET s == S
         id == e.id
     IN
       IF s.ph = "lost" THEN UNCHANGED <<bad, st>>
       ELSE IF ~Live(s, id)
       THEN /\ bad' = bad \cup Flag(e.k = "ClosedStream", DeadName(s, id)) \cup RefCheck(s, NoCv)
            /\ Put(LogR(s, NoCv))
       ELSE
         LET r == s.cs[id]
             ok == IF IsUni(id) \/ r.stp THEN e.k = "ClosedStream"
                   ELSE IF e.op = "stop" THEN e.k = "Ok" ELSE e.k = "Blocked"
         IN /\ bad' = bad \cup Flag(ok, "ReceiveSideResultUnexpected") \cup RefCheck(s, NoCv)
            /\ Put(LogR([s EXCEPT !.cs = Set(s.cs, id, [r EXCEPT !.stp = @ \/ (e.op = "stop" /\ e.k = "Ok")])], NoCv))
  /\ UNCHANGED deviations /\ Keep

CDgram ==
  /\ Is("C") /\ e.op = "send_dgram"
  /\ LET s == S
         ok == IF s.dgl < 0 THEN e.k = "UnsupportedByPeer"
               ELSE e.k \in {"Ok", "TooLarge"} /\ (e.k = "Ok" => e.len <= s.dgl) /\ (e.len <= 100 => e.k = "Ok" \/ s.dgl < 200)
         s1 == IF e.k # "Ok" THEN s
               ELSE IF s.ph = "early" THEN [s EXCEPT !.dgE = @ \cup {e.did}]
               ELSE [s EXCEPT !.dgP = @ \cup {e.did}, !.dgPL = @ \cup {e.len}]
     IN
       /\ bad' = bad \cup (IF s.ph = "lost" THEN {}
                           ELSE Flag(ok, PhaseName(s, "EarlyDatagramNotPerRememberedLimits",
                                                   "PostRejectDatagramLimitNotFresh", "DatagramNotPerNegotiatedLimits"))
                                \cup Flag(e.k # "Ok" \/ e.did \notin (s.dgE \cup s.dgP), "ScriptReusedDatagramId")
                                \cup RefCheck(s, NoCv))
       /\ Put(LogR(s1, NoCv))
  /\ UNCHANGED deviations /\ Keep

\* flow control credit really granted by the server
CMax ==
  /\ Is("CMax")
  /\ LET s == S IN
       Put(CASE e.kind = "data" -> [s EXCEPT !.md = Max(@, e.v)]
             [] e.kind = "sdata" -> [s EXCEPT !.msd = Set(s.msd, e.id, Max(At(s.msd, e.id, 0), e.v))]
             [] e.kind = "bidi" -> [s EXCEPT !.msb = Max(@, e.v)]
             [] e.kind = "uni" -> [s EXCEPT !.msu = Max(@, e.v)]
             [] OTHER -> [s EXCEPT !.fz = TRUE])
  /\ Same /\ Keep

\* ---------------------------------------------------------------------------------------------
\* server application

\* what the early epoch would have produced at this place (classification of a leak)
EarlyLike(s, id, off, first) == s.rej /\ id \in DOMAIN s.cs0 /\ s.cs0[id].key # -1 /\ first = Byte(s.cs0[id].key, off)

SAcc ==
  /\ Is("SAcc")
  /\ LET s == S IN
       /\ bad' = bad \cup Flag(Live(s, e.id), IF s.rej /\ e.id \in DOMAIN s.cs0 THEN "RejectedEarlyStreamVisible"
                                               ELSE "UnknownStreamVisible")
                     \cup Flag(e.id \notin DOMAIN s.srv, "StreamAcceptedTwice")
       /\ Put([s EXCEPT !.srv = Set(s.srv, e.id, [cur |-> 0, end |-> "none"])])
  /\ UNCHANGED deviations /\ Keep

\* ZeroRtt!AppRead: in order, each byte once, content of the current epoch only
SChunk ==
  /\ Is("SChunk")
  /\ LET s == S
         id == e.id
         v == At(s.srv, id, [cur |-> 0, end |-> "none"])
         live == Live(s, id)
         r == IF live THEN s.cs[id] ELSE NewStream
         content == r.key = -2 \/ (e.nruns = 1 /\ r.key # -1 /\ e.first = Byte(r.key, e.off))
     IN
       /\ bad' = bad
            \cup Flag(live \/ ~(s.rej /\ id \in DOMAIN s.cs0), "RejectedEarlyDataVisible")
            \cup Flag(live \/ (s.rej /\ id \in DOMAIN s.cs0), "BytesNeverWritten")
            \cup Flag(e.len > 0, "EmptyChunk")
            \cup Flag(v.end = "none", "DataAfterTerminalOutcome")
            \cup Flag(e.off = v.cur, "StreamDataNotExactlyOnce")
            \cup (IF ~live \/ (content /\ e.off + e.len <= r.w) THEN {}
                  ELSE IF EarlyLike(s, id, e.off, e.first) THEN {"RejectedEarlyDataVisible"}
                  ELSE IF ~content THEN {"ContentAltered"} ELSE {"BytesNeverWritten"})
       /\ Put([s EXCEPT !.srv = Set(s.srv, id, [v EXCEPT !.cur = e.off + e.len])])
  /\ UNCHANGED deviations /\ Keep

SEnd ==
  /\ Is("SEnd")
  /\ LET s == S
         id == e.id
         v == At(s.srv, id, [cur |-> 0, end |-> "none"])
         r == IF Live(s, id) THEN s.cs[id] ELSE NewStream
     IN
       IF e.k = "ClosedStream"
       THEN \* reading again after the terminal outcome finds the stream gone; never before
            /\ bad' = bad \cup Flag(v.end # "none", "ServerStreamVanished")
            /\ UNCHANGED st
       ELSE
       /\ bad' = bad
            \cup Flag(Live(s, id), IF s.rej /\ id \in DOMAIN s.cs0 THEN "RejectedEarlyDataVisible" ELSE "BytesNeverWritten")
            \cup Flag(v.end = "none", "SecondTerminalOutcome")
            \cup Flag(e.k = "Finished" => (r.fin /\ v.cur = r.w), "EndOfStreamBeforeAllBytes")
            \cup Flag(e.k = "Reset" => r.rst = e.code, "ResetCodeMismatch")
       /\ Put([s EXCEPT !.srv = Set(s.srv, id, [v EXCEPT !.end = e.k])])
  /\ UNCHANGED deviations /\ Keep

\* KNOWN FINDING (C17): datagrams queued before the handshake completed but not yet transmitted
\* (pacing, congestion window) stay in the outgoing queue when the server rejects 0-RTT; they are
\* sent in 1-RTT packets and reach the server application although they were early data.
SDg ==
  /\ Is("SDg")
  /\ LET s == S
         leak == s.rej /\ e.did \in s.dgE /\ e.did \notin s.dgP
     IN
       /\ bad' = bad \cup Flag(e.intact, "DatagramAltered")
                     \cup Flag(e.did \notin s.sdg, "DatagramDeliveredTwice")
                     \cup Flag(e.did \in (s.dgE \cup s.dgP), "DatagramNeverSent")
       /\ deviations' = deviations \cup (IF leak THEN {"EarlyDatagramSentAfterRejection"} ELSE {})
       /\ Put([s EXCEPT !.sdg = @ \cup {e.did}, !.d3 = @ \/ leak])
  /\ Keep

\* ---------------------------------------------------------------------------------------------
\* wire level

FramesWithin(s, frames) == \A i \in 1 .. Len(frames) :
  LET f == frames[i] IN Live(s, f[1]) /\ f[2] + f[3] <= s.cs[f[1]].w

\* ZeroRtt!SendZ: 0-RTT packets exist only before the handshake completes, on the ticket holder,
\* carry only frames that are legal there and only data the application wrote
TxZ ==
  /\ Is("TxZ")
  /\ LET s == S IN
       bad' = bad \cup Flag(Holder, "ZeroRttWithoutTicket")
                  \cup Flag(s.ph # "est", "ZeroRttPacketAfterHandshake")
                  \cup Flag(~e.illegal, "IllegalFrameIn0Rtt")
                  \cup Flag(FramesWithin(s, e.st), "ZeroRttCarriesUnwrittenData")
  /\ Put([S EXCEPT !.zf = @ \cup {e.st[i][1] : i \in {j \in 1 .. Len(e.st) : e.st[j][3] = 0 /\ e.st[j][4] = 1}}])
  /\ UNCHANGED deviations /\ Keep

\* ZeroRtt!RecvRetry: everything sent in 0-RTT so far is sent again.
\* KNOWN FINDING (C17): the FIN of a stream finished without any data is not sent again after a Retry
\* (retransmit_all_for_0rtt skips streams whose send buffer is "fully acked and no FIN pending", which
\* also holds for an empty stream whose FIN has just been sent): the stream never ends at the server.
CRetry ==
  /\ Is("CRetry")
  /\ Put([S EXCEPT !.lf = @ \cup S.zf, !.zf = {}])
  /\ Same /\ Keep

\* ZeroRtt!NoEarlyAfterReject on the wire: after a rejection 1-RTT packets carry epoch-1 data only
TxS ==
  /\ Is("TxS")
  /\ LET s == S
         n == s.sdgS + e.ndg
         \* more DATAGRAM frames than datagrams sent since the rejection, or one of a size never sent since
         dgleak == s.rej /\ s.ph = "est" /\ (n > Cardinality(s.dgP) \/ \E i \in 1 .. Len(e.dgl) : e.dgl[i] \notin s.dgPL)
     IN
       /\ bad' = bad \cup (IF s.rej /\ s.ph = "est"
                           THEN Flag(FramesWithin(s, e.st) /\ \A i \in 1 .. Len(e.rst) : Live(s, e.rst[i][1])
                                        /\ (IF e.rst[i][2] = -1 THEN s.cs[e.rst[i][1]].stp ELSE s.cs[e.rst[i][1]].rst # -1),
                                     "EarlyDataSentAfterRejection")
                           ELSE Flag(s.ph # "early", "StreamDataIn1RttBeforeHandshake"))
       /\ deviations' = deviations \cup (IF dgleak THEN {"EarlyDatagramSentAfterRejection"} ELSE {})
       /\ Put([s EXCEPT !.sdgS = IF s.ph = "est" THEN n ELSE @, !.d3 = @ \/ dgleak])
  /\ Keep

\* the server must not take anything out of a 0-RTT packet unless it accepted early data,
\* and never twice out of the same packet
SRxZ ==
  /\ Is("SRxZ")
  /\ LET s == S IN
       /\ bad' = bad \cup Flag(e.proc > 0 => (Holder /\ cfg.accept), "RejectedEarlyPacketProcessed")
                     \cup Flag(e.proc > 0 => e.orig \notin s.zorig, "EarlyPacketProcessedTwice")
       /\ Put([s EXCEPT !.zorig = IF e.proc > 0 THEN @ \cup {e.orig} ELSE @])
  /\ UNCHANGED deviations /\ Keep

\* early packets buffered at the endpoint are processed when the connection is accepted
SAccZ ==
  /\ Is("SAccZ")
  /\ bad' = bad \cup Flag(e.proc > 0 => (Holder /\ cfg.accept), "RejectedEarlyPacketProcessed")
  /\ UNCHANGED <<deviations, st>> /\ Keep

Abnormal ==
  /\ Is("Abnormal")
  /\ bad' = bad \cup {IF e.what = "Panic" THEN "Panic" ELSE "RunawayLoop"}
  /\ UNCHANGED <<deviations, st>> /\ Keep

\* ---------------------------------------------------------------------------------------------
\* end of run: everything the client application handed over in the current epoch has reached the
\* server application (ZeroRtt!Complete), and A after a rejection ended like the fresh B

Exempt(s, id) == id \in s.lf /\ s.cs[id].w = 0 /\ s.cs[id].fin /\ s.cs[id].rst = -1
DeliveredOne(s, id) ==
  LET r == s.cs[id]
      v == At(s.srv, id, [cur |-> -1, end |-> "none"])
  IN (r.w > 0 \/ r.fin \/ r.rst # -1) =>
       /\ (r.rst = -1 => v.cur = r.w \/ (r.w = 0 /\ v.cur = -1 /\ ~r.fin))
       /\ (r.fin /\ r.rst = -1 => v.end = "Finished")
       /\ (r.rst # -1 /\ ~r.fin => v.end = "Reset")
       /\ (r.rst # -1 /\ r.fin => v.end \in {"Reset", "Finished"})
Delivered(s) == \A id \in DOMAIN s.cs : Exempt(s, id) \/ DeliveredOne(s, id)
LostFins(s) == {id \in DOMAIN s.cs : Exempt(s, id) /\ ~DeliveredOne(s, id)}
NoGhost(s) == \A id \in DOMAIN s.srv : Live(s, id)

\* KNOWN FINDING (C17): the acknowledgements of accepted 0-RTT packets travel in 1-RTT packets that
\* reach the client before it has 1-RTT keys and are dropped; if the early data filled the congestion
\* window, the client's Finished (Handshake CRYPTO) stays congestion blocked for ever, probe timeouts
\* only produce 1-RTT probes the server cannot read yet: the server never completes the handshake.
Starved(w) == st[w].ph = "est" /\ ~(IF w = "A" THEN e.sdoneA ELSE e.sdoneB) /\ (IF w = "A" THEN e.cwbA ELSE e.cwbB)

End ==
  /\ Is("End")
  /\ LET a == st["A"]
         b == st["B"]
         same == /\ Len(a.post) = Len(b.post)
                 /\ a.srv = b.srv      \* (datagrams are unreliable: their delivery is not compared)
     IN
       bad' = bad
         \cup UNION {(IF st[w].ph = "est" /\ ~st[w].d2 /\ ~Starved(w)
                      THEN Flag(Delivered(st[w]), IF w = "A" /\ cfg.ticket /\ cfg.accept THEN "AcceptedEarlyDataNotDelivered"
                                                  ELSE "DataNotDelivered")
                           \cup Flag(NoGhost(st[w]), "RejectedEarlyStreamVisible")
                      ELSE {}) : w \in {"A", "B"}}
         \cup (IF cfg.ref /\ a.rej /\ a.ph = "est" /\ b.ph = "est" /\ ~a.d1 /\ ~a.d2 /\ ~a.d3 /\ ~b.rf
                   /\ ~Starved("A") /\ ~Starved("B")
               THEN Flag(same, "PostRejectionDiffersFromFresh") ELSE {})
  /\ deviations' = deviations
       \cup (IF \E w \in {"A", "B"} : st[w].ph = "est" /\ ~Starved(w) /\ LostFins(st[w]) # {}
             THEN {"EmptyFinishedStreamLostAcrossRetry"} ELSE {})
       \cup (IF \E w \in {"A", "B"} : Starved(w) THEN {"ClientFinishedStarvedByEarlyDataInFlight"} ELSE {})
  /\ UNCHANGED st /\ Keep

TNext == (Reset \/ TP \/ Connected \/ Lost \/ COpen \/ CWrite \/ CFinish \/ CReset \/ CRecvSide \/ CDgram
          \/ CMax \/ CRetry \/ SAcc \/ SChunk \/ SEnd \/ SDg \/ TxZ \/ TxS \/ SRxZ \/ SAccZ \/ Abnormal \/ End)
         /\ (deviations' \subseteq deviations
             \/ PrintT(<<"KNOWN", deviations' \ deviations, "line", l, "run", cur>>))
TraceSpec == TInit /\ [][TNext]_vars

Watch == TLCSet(1, <<l, bad, cur>>) /\ bad = {}

TraceAccepted ==
  LET r == TLCGet(1) d == TLCGet("stats").diameter IN
  IF r[2] # {} THEN Print(<<"VIOLATION", r[2], "line", r[1] - 1, "run", r[3]>>, FALSE)
  ELSE IF d - 1 # N THEN Print(<<"UNMATCHED", "line", d, "run", r[3]>>, FALSE)
  ELSE TRUE
=============================================================================
