------------------------------- MODULE TokenOps -------------------------------
(***************************************************************************)
(* Variable-free operators shared by the design models Tokens /            *)
(* TokenClient / TokenCache and by the trace specification TokensTrace     *)
(* (property C14).                                                         *)
(*                                                                         *)
(*  - Outcome: what a server makes of the token carried by a connection    *)
(*    creating Initial (IncomingToken::from_header).                       *)
(*  - LogStep: BloomTokenLog::check_and_insert with the two period filters *)
(*    modelled as sets of fingerprints (exact while the filters are hash   *)
(*    sets; a bloom filter may add false positives only).                  *)
(*  - CacheStore / CacheTake: TokenMemoryCache as an LRU ordered sequence  *)
(*    of per-server FIFO queues.                                           *)
(*  - FollowRetry / EchoOk: the client side rules.                         *)
(***************************************************************************)
EXTENDS Naturals, Integers, Sequences, FiniteSets

\* ---------------------------------------------------------------------------------------------
\* server: token validation

\* tokens carry their issue instant in whole seconds (U = clock units per second)
Floor(t, U) == (t \div U) * U
\* `issued + lifetime < now`: a token is still good at the very instant it expires
Expired(issued, life, now) == issued + life < now

\* rec = [kind |-> "retry" | "new", ip, port, t (floored issue instant)], meaningful only if
\* `decodes` (the bytes are exactly a token sealed with this server's key)
Outcome(decodes, rec, ip, port, now, rlife, vlife, logOk) ==
  IF ~decodes THEN "absent"
  ELSE IF rec.kind = "retry"
    THEN IF rec.ip # ip \/ rec.port # port \/ Expired(rec.t, rlife, now) THEN "invalid" ELSE "validated"
    ELSE IF rec.ip # ip \/ Expired(rec.t, vlife, now) \/ ~logOk THEN "absent" ELSE "validated"

\* the reuse log is consulted (and thereby records the token) only after every other check passed
Consults(decodes, rec, ip, now, vlife) ==
  decodes /\ rec.kind = "new" /\ rec.ip = ip /\ ~Expired(rec.t, vlife, now)

\* ---------------------------------------------------------------------------------------------
\* BloomTokenLog: p1 = start of period 1 (FarPast = "UNIX_EPOCH seen from a clock that started
\* decades later"), f1 / f2 = fingerprints expiring in period 1 / 2

FarPast == -1
LogInit(p) == [p1 |-> p, f1 |-> {}, f2 |-> {}]

\* exp = issued + lifetime; result [st, ok]
LogStep(st, fp, exp, life) ==
  IF life = 0 THEN [st |-> st, ok |-> FALSE]
  ELSE IF st.p1 # FarPast /\ exp < st.p1 THEN [st |-> st, ok |-> FALSE]      \* "too far in past"
  ELSE
    LET pf == IF st.p1 = FarPast THEN 3 ELSE (exp - st.p1) \div life
        st1 == IF pf <= 1 THEN st
               ELSE IF pf = 2 THEN [p1 |-> st.p1 + life, f1 |-> st.f2, f2 |-> {}]
               ELSE [p1 |-> exp, f1 |-> {}, f2 |-> {}]
        first == pf = 0 \/ pf >= 3
        hit == IF first THEN fp \in st1.f1 ELSE fp \in st1.f2
        st2 == IF first THEN [st1 EXCEPT !.f1 = @ \cup {fp}] ELSE [st1 EXCEPT !.f2 = @ \cup {fp}]
    IN [st |-> st2, ok |-> ~hit]

LogBranch(st, exp, life) ==
  IF life = 0 THEN "zero" ELSE IF st.p1 # FarPast /\ exp < st.p1 THEN "past"
  ELSE LET pf == IF st.p1 = FarPast THEN 3 ELSE (exp - st.p1) \div life
       IN IF pf = 0 THEN "p0" ELSE IF pf = 1 THEN "p1" ELSE IF pf = 2 THEN "shift" ELSE "reset"

\* ---------------------------------------------------------------------------------------------
\* TokenMemoryCache: sequence of [srv, q] from least to most recently used; None = -1

None == -1
Pos(c, srv) == IF \E i \in 1 .. Len(c) : c[i].srv = srv
               THEN CHOOSE i \in 1 .. Len(c) : c[i].srv = srv ELSE 0
Without(c, i) == [j \in 1 .. Len(c) - 1 |-> IF j < i THEN c[j] ELSE c[j + 1]]

CacheStore(c, S, P, srv, tok) ==
  IF S = 0 \/ P = 0 THEN c
  ELSE LET i == Pos(c, srv) IN
    IF i # 0
      THEN LET q == c[i].q
               q1 == IF Len(q) >= P THEN Tail(q) ELSE q
           IN Append(Without(c, i), [srv |-> srv, q |-> Append(q1, tok)])
      ELSE LET c1 == IF Len(c) >= S THEN Tail(c) ELSE c
           IN Append(c1, [srv |-> srv, q |-> <<tok>>])

\* result [c, r]; `none` is what "nothing stored" looks like
CacheTakeN(c, srv, none) ==
  LET i == Pos(c, srv) IN
  IF i = 0 THEN [c |-> c, r |-> none]
  ELSE LET q == c[i].q
       IN IF Len(q) = 1 THEN [c |-> Without(c, i), r |-> q[1]]
          ELSE [c |-> Append(Without(c, i), [srv |-> srv, q |-> Tail(q)]), r |-> q[1]]

CacheTake(c, srv) == CacheTakeN(c, srv, None)

Held(c) == UNION {{c[i].q[j] : j \in 1 .. Len(c[i].q)} : i \in 1 .. Len(c)}

\* ---------------------------------------------------------------------------------------------
\* client

\* a Retry is followed only while handshaking, with a verifying tag, a non-empty token, before any
\* other packet of the server was processed and at most once
FollowRetry(handshaking, tagok, toklen, processed, retried) ==
  handshaking /\ tagok /\ toklen > 0 /\ processed = 0 /\ ~retried

\* the server's parameters must echo the IDs actually used; NoCid = parameter absent
NoCid == "-"
EchoOk(p, odcid, srvScid, retryScid) ==
  p.odcid = odcid /\ p.iscid = srvScid /\ p.rscid = retryScid
=============================================================================
