------------------------------- MODULE Dgram -------------------------------
(***************************************************************************)
(* Design model for C16 "Unreliable datagrams: intact, at most once,       *)
(* never oversized".                                                       *)
(*                                                                         *)
(* One direction of one connection.  The sending application calls         *)
(* send(len, drop); accepted datagrams wait in a FIFO bounded by SendBuf   *)
(* bytes (drop = TRUE evicts the oldest, drop = FALSE answers Blocked and  *)
(* an Unblocked event follows once a queued datagram left the queue).      *)
(* Transmit moves datagrams from the head of the queue into one packet,    *)
(* every datagram wholly inside one DATAGRAM frame.  The network keeps     *)
(* every packet ever sent and may deliver each any number of times in any  *)
(* order or never (loss, duplication, reordering); packets larger than the *)
(* current path MTU are never delivered.  The transport processes a packet *)
(* number at most once; lost packets are not retransmitted.  The receiver  *)
(* keeps processed datagrams in a FIFO bounded by RecvBuf bytes, the       *)
(* oldest are evicted first.  The path MTU moves up (MTU discovery) and    *)
(* down (black hole: queued datagrams that no longer fit are discarded).   *)
(*                                                                         *)
(* The queues are written the way the implementation keeps them (byte      *)
(* counters maintained incrementally); the invariants restate the property *)
(* over the ledgers acc / arrived / got kept by the model only.            *)
(*                                                                         *)
(* Bug = "none" is the design.  Other values switch one rule off to show   *)
(* which invariant notices: "nodedup" (duplicate packets processed again), *)
(* "dropnewest" (receiver overflow discards the newest), "counter" (byte   *)
(* counter not reduced on eviction), "nounblock" (black hole drop does not *)
(* release a blocked sender), "strictadmit" (len >= max refused),          *)
(* "keepoversized" (black hole keeps what no longer fits).                 *)
(***************************************************************************)
EXTENDS DgramOps, FiniteSets, TLC

CONSTANTS Lens,       \* payload lengths the application tries
          SendBuf,    \* datagram_send_buffer_size
          RecvBuf,    \* datagram_receive_buffer_size of the receiver
          PeerLimit,  \* max_datagram_frame_size advertised by the receiver
          Mtus,       \* path MTU values; the smallest is the fallback after a black hole
          Cid,        \* length of the destination connection ID
          MaxDg,      \* number of send() calls
          MaxPkts,    \* number of packets
          Bug

\* the receiver is willing to buffer whatever it allows the peer to send
ASSUME SatSub(PeerLimit, FrameBound) <= RecvBuf
ASSUME PeerLimit >= 2

VARIABLES mtu,      \* current path MTU estimate of the sender
          nid,      \* send() calls so far = identity of the next datagram
          acc,      \* ledger: datagrams accepted by send(), in order
          sq, ot,   \* send queue and its byte counter
          blk,      \* a send() was answered Blocked and no Unblocked event was emitted since
          evU, epi, \* Unblocked events emitted / Blocked episodes started
          last,     \* the last send() call with what it saw and answered
          net, npid,\* packets sent so far, next packet number
          seen,     \* packet numbers the receiving transport has processed
          rq, rb,   \* receive queue and its byte counter
          arrived,  \* ledger: datagrams in the order the receiver processed them
          got       \* ledger: datagrams handed to the receiving application, in order

vars == <<mtu, nid, acc, sq, ot, blk, evU, epi, last, net, npid, seen, rq, rb, arrived, got>>

Base == CHOOSE m \in Mtus : \A k \in Mtus : m <= k
CurMax == MaxSize(mtu, Cid, PeerLimit)
Call(len, drop, max, space, before, res, after) ==
  [len |-> len, drop |-> drop, max |-> max, space |-> space, res |-> res, before |-> before, after |-> after]
NoCall == Call(0, FALSE, 0, 0, <<>>, "none", <<>>)

Init ==
  /\ mtu = Base /\ nid = 0 /\ acc = <<>> /\ sq = <<>> /\ ot = 0 /\ blk = FALSE /\ evU = 0 /\ epi = 0
  /\ last = NoCall /\ net = {} /\ npid = 0 /\ seen = {} /\ rq = <<>> /\ rb = 0
  /\ arrived = <<>> /\ got = <<>>

\* DatagramState::make_space_for with the byte counter
RECURSIVE Evict(_, _, _, _)
Evict(q, tot, len, bound) ==
  IF q = <<>> \/ tot + len <= bound THEN <<q, tot>>
  ELSE Evict(Tail(q), IF Bug = "counter" THEN tot ELSE tot - Head(q).l, len, bound)

\* Datagrams::send
Send(len, drop) ==
  /\ nid < MaxDg
  /\ LET max == CurMax
         d == [d |-> nid, l |-> len]
         tooLarge == IF Bug = "strictadmit" THEN len >= Min(max, SendBuf) ELSE len > Min(max, SendBuf)
         ev == Evict(sq, ot, len, SendBuf)
         Answer(res, after) == Call(len, drop, max, SatSub(SendBuf, ot), sq, res, after)
     IN
       /\ nid' = nid + 1
       /\ IF tooLarge
            THEN /\ last' = Answer("TooLarge", sq)
                 /\ UNCHANGED <<acc, sq, ot, blk, epi>>
          ELSE IF drop
            THEN /\ sq' = Append(ev[1], d) /\ ot' = ev[2] + len
                 /\ acc' = Append(acc, d)
                 /\ last' = Answer("Ok", sq')
                 /\ UNCHANGED <<blk, epi>>
          ELSE IF ot + len > SendBuf
            THEN /\ blk' = TRUE /\ epi' = IF blk THEN epi ELSE epi + 1
                 /\ last' = Answer("Blocked", sq)
                 /\ UNCHANGED <<acc, sq, ot>>
          ELSE /\ sq' = Append(sq, d) /\ ot' = ot + len
               /\ acc' = Append(acc, d)
               /\ last' = Answer("Ok", sq')
               /\ UNCHANGED <<blk, epi>>
  /\ UNCHANGED <<mtu, evU, net, npid, seen, rq, rb, arrived, got>>

RECURSIVE FramesSize(_)
FramesSize(fr) == IF fr = <<>> THEN 0 ELSE FrameSize(Head(fr).l) + FramesSize(Tail(fr))

\* populate_packet: the head of the queue, and more while they fit (other frames may take room too)
Transmit ==
  /\ sq # <<>> /\ npid < MaxPkts
  /\ \E k \in 1 .. Len(sq) :
       LET fr == SubSeq(sq, 1, k)
           size == Overhead(Cid) + FramesSize(fr)
       IN /\ size <= mtu
          /\ net' = net \cup {[pid |-> npid, fr |-> fr, size |-> size, mtu |-> mtu]}
          /\ sq' = SubSeq(sq, k + 1, Len(sq))
          /\ ot' = ot - Bytes(fr)
  /\ npid' = npid + 1
  /\ IF blk THEN blk' = FALSE /\ evU' = evU + 1 ELSE UNCHANGED <<blk, evU>>
  /\ UNCHANGED <<mtu, nid, acc, epi, last, seen, rq, rb, arrived, got>>

\* DatagramState::received for every frame of the packet
RECURSIVE Receive(_, _, _)
Receive(q, tot, fr) ==
  IF fr = <<>> THEN <<q, tot>>
  ELSE LET d == Head(fr)
           ev == Evict(q, tot, d.l, RecvBuf)
       IN IF Bug = "dropnewest" /\ tot + d.l > RecvBuf
            THEN Receive(q, tot, Tail(fr))
            ELSE Receive(Append(ev[1], d), ev[2] + d.l, Tail(fr))

\* the network hands over any packet sent so far (again, later, out of order) if the path carries it
Deliver(p) ==
  /\ p.size <= mtu
  /\ (Bug # "nodedup") => p.pid \notin seen
  /\ Len(arrived) < MaxDg + 2
  /\ LET r == Receive(rq, rb, p.fr) IN rq' = r[1] /\ rb' = r[2]
  /\ seen' = seen \cup {p.pid}
  /\ arrived' = arrived \o p.fr
  /\ UNCHANGED <<mtu, nid, acc, sq, ot, blk, evU, epi, last, net, npid, got>>

DeliverAny == \E p \in net : Deliver(p)

\* Datagrams::recv
Read ==
  /\ rq # <<>>
  /\ got' = Append(got, Head(rq)) /\ rq' = Tail(rq) /\ rb' = rb - Head(rq).l
  /\ UNCHANGED <<mtu, nid, acc, sq, ot, blk, evU, epi, last, net, npid, seen, arrived>>

\* MTU discovery confirmed a larger packet size
MtuUp ==
  /\ \E m \in Mtus : m > mtu /\ mtu' = m
  /\ UNCHANGED <<nid, acc, sq, ot, blk, evU, epi, last, net, npid, seen, rq, rb, arrived, got>>

\* black hole detected: back to the base MTU, queued datagrams that no longer fit are discarded
BlackHole ==
  /\ mtu > Base /\ mtu' = Base
  /\ LET keep == IF Bug = "keepoversized" THEN sq ELSE DropOver(sq, MaxSize(Base, Cid, PeerLimit))
     IN /\ sq' = keep /\ ot' = ot - (Bytes(sq) - Bytes(keep))
        /\ IF keep # sq /\ blk /\ Bug # "nounblock"
             THEN blk' = FALSE /\ evU' = evU + 1 ELSE UNCHANGED <<blk, evU>>
  /\ UNCHANGED <<nid, acc, epi, last, net, npid, seen, rq, rb, arrived, got>>

Next ==
  \/ \E len \in Lens, drop \in BOOLEAN : Send(len, drop)
  \/ Transmit
  \/ DeliverAny
  \/ Read \/ MtuUp \/ BlackHole

Spec == Init /\ [][Next]_vars /\ WF_vars(Transmit)

-----------------------------------------------------------------------------
Range(s) == {s[i] : i \in DOMAIN s}
Pos(s, x) == CHOOSE i \in DOMAIN s : s[i] = x
Distinct(s) == \A i, j \in DOMAIN s : i # j => s[i].d # s[j].d
Increasing(s) == \A i, j \in DOMAIN s : i < j => s[i].d < s[j].d

\* byte counters agree with the queues, queues respect the configured bounds
Accounting == ot = Bytes(sq) /\ rb = Bytes(rq)
Bounded == Bytes(sq) <= SendBuf /\ Bytes(rq) <= RecvBuf

\* every datagram received is one the peer application sent, identity and length
Intact == \A i \in DOMAIN got : got[i] \in Range(acc)
\* processed, hence delivered, at most once
AtMostOnce == Distinct(arrived) /\ Distinct(got)
\* a datagram travels whole inside one frame of one packet, never twice
Whole ==
  /\ \A p \in net : \A i \in DOMAIN p.fr : p.fr[i] \in Range(acc)
  /\ \A p \in net : Increasing(p.fr)
  /\ \A p, q \in net : p.pid < q.pid =>
        \A i \in DOMAIN p.fr, j \in DOMAIN q.fr : p.fr[i].d < q.fr[j].d
\* the send queue holds accepted datagrams in the order they were accepted
SendFifo == Increasing(sq) /\ \A i \in DOMAIN sq : sq[i] \in Range(acc)
\* receiver: what is buffered are the newest processed datagrams, the application sees them in order
OldestFirst ==
  /\ IsSuffix(rq, arrived)
  /\ Distinct(arrived) =>
       /\ \A i, j \in DOMAIN got : i < j => Pos(arrived, got[i]) < Pos(arrived, got[j])
       /\ \A i \in DOMAIN got : Pos(arrived, got[i]) <= Len(arrived) - Len(rq)

\* send() accepts exactly what fits the reported maximum and the buffer; the answers and the
\* buffer-space query agree with the bound; eviction takes the oldest and no more than needed
Admission ==
  LET c == last
      fits == c.len <= c.max /\ c.len <= SendBuf
      room == Bytes(c.before) + c.len <= SendBuf
  IN c.res # "none" =>
       /\ c.space = SendBuf - Bytes(c.before)
       /\ (c.res = "TooLarge") = ~fits
       /\ (c.res = "Blocked") = (fits /\ ~c.drop /\ ~room)
       /\ (c.res = "Ok") = (fits /\ (c.drop \/ room))
       /\ c.res # "Ok" => c.after = c.before
       /\ c.res = "Ok" =>
            \E k \in 0 .. Len(c.before) :
              /\ c.after = Append(SubSeq(c.before, k + 1, Len(c.before)), [d |-> nid - 1, l |-> c.len])
              /\ k > 0 => Bytes(SubSeq(c.before, k, Len(c.before))) + c.len > SendBuf
       /\ (c.res = "Ok" /\ c.len <= c.space) => Len(c.after) = Len(c.before) + 1

\* the reported maximum fits one packet on the current path and the peer's limit
MaxSafe == CurMax >= 0 => FitsPacket(CurMax, mtu, Cid) /\ FrameSize(CurMax) <= PeerLimit
\* and so does everything put on the wire
WireSafe == \A p \in net : p.size <= p.mtu /\ \A i \in DOMAIN p.fr : FrameSize(p.fr[i].l) <= PeerLimit
\* nothing queued is stuck behind a datagram that cannot be sent any more
NoWedge == \A i \in DOMAIN sq : FitsPacket(sq[i].l, mtu, Cid)

\* one Unblocked event per Blocked episode, and a blocked sender always has something queued
Unblocking == (blk => sq # <<>>) /\ evU + (IF blk THEN 1 ELSE 0) = epi

\* a blocked sender is released
Released == blk ~> ~blk
=============================================================================
