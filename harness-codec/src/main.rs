//! qc: replays codec test vectors (property C10) through quinn-proto's real encoders and
//! decoders and records what they return.  It does not judge the results: the trace spec
//! CodecTrace.tla compares every line with the reference codecs of Codec.tla.
//!
//!   qc run <vectors.ndjson> <out.ndjson>
//!
//! Numbers below 2^62 travel as [hi, lo] = hi * 2^31 + lo (TLC integers are 32 bit); anything
//! larger is written as [-1, -1].  Every call into quinn is wrapped in catch_unwind; a panic
//! becomes a {"k":"Panic"} line.
use std::{
    fs::File,
    io::{BufRead, BufReader, BufWriter, Cursor, Write},
    net::{IpAddr, Ipv4Addr, Ipv6Addr, SocketAddr},
    panic::{catch_unwind, AssertUnwindSafe},
    sync::Arc,
    time::{Duration, SystemTime, UNIX_EPOCH},
};

use bytes::BytesMut;
use quinn_proto::{
    crypto::{self, AeadKey, CryptoError, HandshakeTokenKey, HeaderKey},
    verif_codec as vc, ConnectionId, ConnectionIdGenerator, FixedLengthConnectionIdParser,
    HashedConnectionIdGenerator, PartialDecode, ProtectedHeader, ServerConfig, Side, TimeSource,
    transport_parameters::TransportParameters,
};
use rand::{RngExt, SeedableRng};
use serde_json::{json, Value};

// ------------------------------------------------------------------------------ json helpers

fn num(x: u64) -> Value {
    if x >= 1 << 62 {
        json!([-1, -1])
    } else {
        json!([x >> 31, x & 0x7fff_ffff])
    }
}

fn unnum(v: &Value) -> u64 {
    let a = v.as_array().expect("number pair");
    (a[0].as_u64().unwrap() << 31) | a[1].as_u64().unwrap()
}

fn bytes_of(v: &Value) -> Vec<u8> {
    v.as_array()
        .expect("byte array")
        .iter()
        .map(|x| x.as_u64().unwrap() as u8)
        .collect()
}

fn jbytes(b: &[u8]) -> Value {
    Value::Array(b.iter().map(|&x| json!(x)).collect())
}

fn opt<T>(x: Option<T>, f: impl Fn(T) -> Value) -> Value {
    match x {
        None => json!([]),
        Some(v) => json!([f(v)]),
    }
}

// ----------------------------------------------------------------------------- toy crypto

/// No-op header protection with the sample size of the real ciphers
struct NullHeaderKey;
impl HeaderKey for NullHeaderKey {
    fn decrypt(&self, _: usize, _: &mut [u8]) {}
    fn encrypt(&self, _: usize, _: &mut [u8]) {}
    fn sample_size(&self) -> usize {
        16
    }
}

/// Token "AEAD": plaintext followed by a 16 byte keyed checksum
struct ToyAead(u64);
impl ToyAead {
    fn tag(&self, data: &[u8]) -> [u8; 16] {
        let mut a = self.0 ^ 0x9e37_79b9_7f4a_7c15;
        let mut b = self.0.rotate_left(17) ^ 0xc2b2_ae3d_27d4_eb4f;
        for (i, &x) in data.iter().enumerate() {
            a = (a ^ u64::from(x)).wrapping_mul(0x0000_0100_0000_01b3).rotate_left(5);
            b = b.wrapping_add(a ^ (i as u64)).rotate_left(11);
        }
        let mut t = [0; 16];
        t[..8].copy_from_slice(&a.to_le_bytes());
        t[8..].copy_from_slice(&b.to_le_bytes());
        t
    }
}
impl AeadKey for ToyAead {
    fn seal(&self, data: &mut Vec<u8>, _: &[u8]) -> Result<(), CryptoError> {
        let t = self.tag(data);
        data.extend_from_slice(&t);
        Ok(())
    }
    fn open<'a>(&self, data: &'a mut [u8], _: &[u8]) -> Result<&'a mut [u8], CryptoError> {
        let n = data.len().checked_sub(16).ok_or(CryptoError)?;
        let t = self.tag(&data[..n]);
        if t[..] != data[n..] {
            return Err(CryptoError);
        }
        Ok(&mut data[..n])
    }
}
struct ToyTokenKey;
impl HandshakeTokenKey for ToyTokenKey {
    fn aead_from_hkdf(&self, random_bytes: &[u8]) -> Box<dyn AeadKey> {
        let mut k = 0x5151_5151u64;
        for &b in random_bytes {
            k = k.rotate_left(7) ^ u64::from(b);
        }
        Box::new(ToyAead(k))
    }
}
struct NoCrypto;
impl crypto::ServerConfig for NoCrypto {
    fn initial_keys(
        &self,
        _: u32,
        _: ConnectionId,
    ) -> Result<crypto::Keys, crypto::UnsupportedVersion> {
        unimplemented!()
    }
    fn retry_tag(&self, _: u32, _: ConnectionId, _: &[u8]) -> [u8; 16] {
        unimplemented!()
    }
    fn start_session(
        self: Arc<Self>,
        _: u32,
        _: &TransportParameters,
    ) -> Box<dyn crypto::Session> {
        unimplemented!()
    }
}
struct FixedTime(u64);
impl TimeSource for FixedTime {
    fn now(&self) -> SystemTime {
        UNIX_EPOCH + Duration::from_secs(self.0)
    }
}

// ------------------------------------------------------------------------------- decoders

fn frame_json(f: &vc::FrameRepr) -> Value {
    json!({
        "ty": f.ty,
        "n": f.nums.iter().map(|&x| num(x)).collect::<Vec<_>>(),
        "b": f.blobs.iter().map(|b| jbytes(b)).collect::<Vec<_>>(),
    })
}

fn static_name(s: &str) -> &'static str {
    const NAMES: &[&str] = &[
        "PADDING", "PING", "ACK", "ACK_ECN", "RESET_STREAM", "STOP_SENDING", "CRYPTO", "NEW_TOKEN",
        "STREAM", "MAX_DATA", "MAX_STREAM_DATA", "MAX_STREAMS_BIDI", "MAX_STREAMS_UNI",
        "DATA_BLOCKED", "STREAM_DATA_BLOCKED", "STREAMS_BLOCKED_BIDI", "STREAMS_BLOCKED_UNI",
        "NEW_CONNECTION_ID", "RETIRE_CONNECTION_ID", "PATH_CHALLENGE", "PATH_RESPONSE",
        "CONNECTION_CLOSE", "APPLICATION_CLOSE", "HANDSHAKE_DONE", "IMMEDIATE_ACK", "DATAGRAM",
        "ACK_FREQUENCY", "initial", "zerortt", "handshake", "short", "retry", "vn",
    ];
    NAMES.iter().find(|&&n| n == s).copied().unwrap_or("?")
}

fn frame_from(v: &Value) -> vc::FrameRepr {
    vc::FrameRepr {
        ty: static_name(v["ty"].as_str().unwrap()),
        nums: v["n"].as_array().unwrap().iter().map(unnum).collect(),
        blobs: v["b"].as_array().unwrap().iter().map(bytes_of).collect(),
    }
}

fn dec_frames(bs: &[u8]) -> Value {
    let (frames, err) = vc::frames_decode(bs);
    json!({"ok": err.is_none(), "frames": frames.iter().map(frame_json).collect::<Vec<_>>()})
}

fn dec_var(bs: &[u8]) -> Value {
    match vc::varint_decode(bs) {
        Some((v, used)) => json!({"ok": true, "v": num(v), "p": used + 1}),
        None => json!({"ok": false}),
    }
}

fn tp_json(t: &vc::TpRepr) -> Value {
    json!({
        "ints": t.ints.iter().map(|&x| num(x)).collect::<Vec<_>>(),
        "dam": t.disable_active_migration,
        "grease": t.grease_quic_bit,
        "mdfs": opt(t.max_datagram_frame_size, num),
        "mad": opt(t.min_ack_delay, num),
        "iscid": opt(t.initial_src_cid.as_ref(), |x| jbytes(x)),
        "odcid": opt(t.original_dst_cid.as_ref(), |x| jbytes(x)),
        "rscid": opt(t.retry_src_cid.as_ref(), |x| jbytes(x)),
        "srt": opt(t.stateless_reset_token.as_ref(), |x| jbytes(x)),
        "pa": opt(t.preferred_address.as_ref(), |a| json!({
            "v4": match &a.v4 {
                None => json!([]),
                Some((ip, port)) => json!([jbytes(ip), port]),
            },
            "v6": match &a.v6 {
                None => json!([]),
                Some((ip, port)) => json!([jbytes(ip), port]),
            },
            "cid": jbytes(&a.cid),
            "srt": jbytes(&a.reset_token),
        })),
    })
}

fn opt_of<T>(v: &Value, f: impl Fn(&Value) -> T) -> Option<T> {
    v.as_array().unwrap().first().map(f)
}

fn tp_from(v: &Value) -> vc::TpRepr {
    let ints: Vec<u64> = v["ints"].as_array().unwrap().iter().map(unnum).collect();
    let arr16 = |x: &Value| -> [u8; 16] { bytes_of(x)[..].try_into().unwrap() };
    vc::TpRepr {
        ints: ints[..].try_into().unwrap(),
        disable_active_migration: v["dam"].as_bool().unwrap(),
        grease_quic_bit: v["grease"].as_bool().unwrap(),
        max_datagram_frame_size: opt_of(&v["mdfs"], unnum),
        min_ack_delay: opt_of(&v["mad"], unnum),
        initial_src_cid: opt_of(&v["iscid"], bytes_of),
        original_dst_cid: opt_of(&v["odcid"], bytes_of),
        retry_src_cid: opt_of(&v["rscid"], bytes_of),
        stateless_reset_token: opt_of(&v["srt"], arr16),
        preferred_address: opt_of(&v["pa"], |a| vc::PreferredAddressRepr {
            v4: {
                let x = a["v4"].as_array().unwrap();
                (!x.is_empty()).then(|| {
                    (bytes_of(&x[0])[..].try_into().unwrap(), x[1].as_u64().unwrap() as u16)
                })
            },
            v6: {
                let x = a["v6"].as_array().unwrap();
                (!x.is_empty()).then(|| {
                    (bytes_of(&x[0])[..].try_into().unwrap(), x[1].as_u64().unwrap() as u16)
                })
            },
            cid: bytes_of(&a["cid"]),
            reset_token: arr16(&a["srt"]),
        }),
    }
}

fn dec_tp(side: Side, bs: &[u8]) -> Value {
    match vc::transport_parameters_decode(side, bs) {
        Ok(t) => json!({"ok": true, "tp": tp_json(&t)}),
        Err(_) => json!({"ok": false}),
    }
}

const VERSIONS: &[u32] = &[1];

/// What the public API tells about the first packet of `bs`: header fields through
/// `ProtectedHeader::decode`, the packet boundary through `PartialDecode::new`
fn dec_header(bs: &[u8], cid_len: usize, grease: bool) -> Option<(Value, Value, Option<BytesMut>)> {
    let parser = FixedLengthConnectionIdParser::new(cid_len);
    let (pd, rest) = PartialDecode::new(BytesMut::from(bs), &parser, VERSIONS, grease).ok()?;
    let mut cur = Cursor::new(bs);
    let h = ProtectedHeader::decode(&mut cur, &parser, VERSIONS, grease).ok()?;
    let pnoff = cur.position() as usize + 1;
    let total = pd.len();
    let ver = |v: u32| jbytes(&v.to_be_bytes());
    let mut o = match h {
        ProtectedHeader::Initial(i) => json!({
            "kind": "initial", "version": ver(i.version), "dcid": jbytes(&i.dst_cid), "scid": jbytes(&i.src_cid),
            "token": jbytes(&bs[i.token_pos.clone()]), "len": i.len.min(1 << 30), "pnoff": pnoff}),
        ProtectedHeader::Long { ty, dst_cid, src_cid, len, version } => json!({
            "kind": match ty { quinn_proto::LongType::Handshake => "handshake", quinn_proto::LongType::ZeroRtt => "zerortt" },
            "version": ver(version), "dcid": jbytes(&dst_cid), "scid": jbytes(&src_cid), "token": [],
            "len": len.min(1 << 30), "pnoff": pnoff}),
        ProtectedHeader::Retry { dst_cid, src_cid, version } => json!({
            "kind": "retry", "version": ver(version), "dcid": jbytes(&dst_cid), "scid": jbytes(&src_cid), "pnoff": pnoff}),
        ProtectedHeader::Short { spin, dst_cid } => json!({
            "kind": "short", "dcid": jbytes(&dst_cid), "spin": spin as u8, "pnoff": pnoff}),
        ProtectedHeader::VersionNegotiate { random, dst_cid, src_cid } => json!({
            "kind": "vn", "dcid": jbytes(&dst_cid), "scid": jbytes(&src_cid), "random": random, "pnoff": pnoff}),
    };
    o["total"] = json!(total);
    o["ok"] = json!(true);
    // second element: the destination CID reported by PartialDecode itself
    Some((o, jbytes(&pd.dst_cid()), rest))
}

/// Split a datagram into coalesced packets the way Endpoint / Connection do
fn dec_dgram(bs: &[u8], cid_len: usize, grease: bool) -> Value {
    let mut pkts = Vec::new();
    let mut pd = Vec::new();
    let mut cur: Option<BytesMut> = Some(BytesMut::from(bs));
    let mut ok = true;
    while let Some(data) = cur.take() {
        if data.is_empty() {
            break;
        }
        match dec_header(&data, cid_len, grease) {
            Some((h, d, rest)) => {
                pkts.push(h);
                pd.push(d);
                cur = rest;
            }
            None => {
                ok = false;
                break;
            }
        }
    }
    json!({"ok": ok, "pkts": pkts, "pd": pd})
}

fn header_json(h: &vc::HeaderRepr, hlen: usize, payload_len: usize) -> Value {
    json!({"ok": true, "kind": h.kind, "dcid": jbytes(&h.dst_cid), "scid": jbytes(&h.src_cid),
           "token": jbytes(&h.token), "pn": jbytes(&h.pn), "spin": h.spin as u8, "kp": h.key_phase as u8,
           "random": h.random, "version": jbytes(&h.version.to_be_bytes()), "hlen": hlen, "plen": payload_len})
}

/// First packet of `bs` through PartialDecode::new and PartialDecode::finish
fn dec_packet(bs: &[u8], cid_len: usize, grease: bool) -> Value {
    match vc::packet_decode(bs, cid_len, VERSIONS, grease, &NullHeaderKey) {
        Ok((h, hlen, payload, _rest)) => header_json(&h, hlen, payload.len()),
        Err(_) => json!({"ok": false}),
    }
}

/// Decoder names: var, frames, tpc, tps (transport parameters read by a client / server), cid,
/// dg<L> / dgg<L> (datagram split, local CID length L, g = the fixed bit may be clear),
/// pk<L> / pkg<L> (full decode of the first packet).  Returns (family, L, g, result).
fn decode_with(d: &str, bs: &[u8]) -> (String, usize, bool, Value) {
    let plain = |v: Value| (d.to_string(), 0, false, v);
    match d {
        "var" => plain(dec_var(bs)),
        "frames" => plain(dec_frames(bs)),
        "tpc" => plain(dec_tp(Side::Client, bs)),
        "tps" => plain(dec_tp(Side::Server, bs)),
        "cid" => plain(match vc::cid_decode_long(bs) {
            Some((c, used)) => json!({"ok": true, "d": jbytes(&c), "p": used + 1}),
            None => json!({"ok": false}),
        }),
        _ => {
            let (kind, rest) = d.split_at(2);
            let (grease, l) = match rest.strip_prefix('g') {
                Some(l) => (true, l),
                None => (false, rest),
            };
            let l: usize = l.parse().expect("cid length");
            let res = match kind {
                "dg" => dec_dgram(bs, l, grease),
                "pk" => dec_packet(bs, l, grease),
                _ => panic!("unknown decoder {d}"),
            };
            (kind.to_string(), l, grease, res)
        }
    }
}

// ------------------------------------------------------------------------------- mutations

/// All single-step mutations of a byte string: truncation at every position, one more byte,
/// +1 / -1 and every single bit flip of every byte
fn mutations(bs: &[u8]) -> Vec<Vec<u8>> {
    let mut out = Vec::new();
    for i in 0..bs.len() {
        out.push(bs[..i].to_vec());
    }
    for extra in [0u8, 1, 0x40, 0xff] {
        let mut m = bs.to_vec();
        m.push(extra);
        out.push(m);
    }
    for i in 0..bs.len() {
        for delta in [1u8, 0xff] {
            let mut m = bs.to_vec();
            m[i] = m[i].wrapping_add(delta);
            out.push(m);
        }
        for bit in 0..8 {
            let mut m = bs.to_vec();
            m[i] ^= 1 << bit;
            out.push(m);
        }
    }
    out
}

// ---------------------------------------------------------------------------------- driver

struct Out {
    w: BufWriter<File>,
    run: u64,
    lines: u64,
}

impl Out {
    fn emit(&mut self, mut v: Value) {
        v["run"] = json!(self.run);
        serde_json::to_writer(&mut self.w, &v).unwrap();
        self.w.write_all(b"\n").unwrap();
        self.lines += 1;
    }

    /// Run `f` (which calls into quinn); a panic is recorded instead of its result
    fn guarded(&mut self, what: &str, input: Value, f: impl FnOnce() -> Value) {
        match catch_unwind(AssertUnwindSafe(f)) {
            Ok(v) => self.emit(v),
            Err(e) => {
                let msg = e
                    .downcast_ref::<String>()
                    .cloned()
                    .or_else(|| e.downcast_ref::<&str>().map(|s| s.to_string()))
                    .unwrap_or_default();
                self.emit(json!({"k": "Panic", "of": what, "input": input, "msg": msg}));
            }
        }
    }

    fn decode(&mut self, decoders: &[String], bs: &[u8]) {
        for d in decoders {
            self.guarded("Dec", json!({"d": d, "bs": jbytes(bs)}), || {
                let (fam, cl, g, res) = decode_with(d, bs);
                json!({"k": "Dec", "d": fam, "cl": cl, "g": g, "bs": jbytes(bs), "res": res})
            });
        }
    }

    /// the byte string itself and, if the vector asks for it, mutations of it:
    /// "mut": -1 = all of them, n > 0 = n drawn with the vector's "seed"
    fn decode_mut(&mut self, vec: &Value, decoders: &[String], bs: &[u8]) {
        self.decode(decoders, bs);
        let n = vec.get("mut").and_then(|x| x.as_i64()).unwrap_or(0);
        if n == 0 {
            return;
        }
        let all = mutations(bs);
        if n < 0 || n as usize >= all.len() {
            for m in &all {
                self.decode(decoders, m);
            }
        } else {
            let seed = vec.get("seed").and_then(|x| x.as_u64()).unwrap_or(0);
            let mut rng = rand_pcg::Pcg64Mcg::seed_from_u64(seed);
            for _ in 0..n {
                let m = &all[rng.random_range(0..all.len())];
                self.decode(decoders, m);
            }
        }
    }
}

fn strings(v: &Value) -> Vec<String> {
    v.as_array().unwrap().iter().map(|x| x.as_str().unwrap().to_string()).collect()
}

fn header_from(p: &Value) -> vc::HeaderRepr {
    vc::HeaderRepr {
        kind: static_name(p["kind"].as_str().unwrap()),
        version: u32::from_be_bytes(bytes_of(&p["version"])[..].try_into().unwrap()),
        dst_cid: bytes_of(&p["dcid"]),
        src_cid: bytes_of(&p["scid"]),
        token: bytes_of(&p["token"]),
        pn: Vec::new(),
        spin: p["spin"].as_u64().unwrap() == 1,
        key_phase: p["kp"].as_u64().unwrap() == 1,
        random: p["random"].as_u64().unwrap() as u8,
    }
}

fn ip_of(b: &[u8]) -> IpAddr {
    if b.len() == 4 {
        IpAddr::V4(Ipv4Addr::from(<[u8; 4]>::try_from(b).unwrap()))
    } else {
        IpAddr::V6(Ipv6Addr::from(<[u8; 16]>::try_from(b).unwrap()))
    }
}

fn process(out: &mut Out, v: &Value) {
    let k = v["k"].as_str().unwrap_or("?");
    match k {
        "Var" => {
            let x = unnum(&v["v"]);
            out.guarded(k, v.clone(), || {
                let enc = vc::varint_encode(x);
                let wv = vc::write_var(x);
                let (size, bytes) = enc.clone().unwrap_or((0, Vec::new()));
                json!({"k": "Var", "v": v["v"], "has": enc.is_some(), "size": size, "out": jbytes(&bytes),
                       "wv": jbytes(&wv), "back": dec_var(&bytes),
                       "rt": opt(vc::varint_roundtrip(x), num)})
            });
        }
        "Bytes" => {
            let bs = bytes_of(&v["bs"]);
            out.decode_mut(v, &strings(&v["d"]), &bs);
        }
        "Frame" => {
            let f = frame_from(&v["f"]);
            let len = v["len"].as_bool().unwrap();
            out.guarded("EncFrame", v.clone(), || {
                let enc = vc::frame_encode(&f, len, 1 << 20);
                let bytes = enc.clone().unwrap_or_default();
                json!({"k": "EncFrame", "f": v["f"], "len": len, "has": enc.is_some(), "out": jbytes(&bytes),
                       "back": dec_frames(&bytes)})
            });
            let bs = bytes_of(&v["bytes"]);
            out.decode_mut(v, &["frames".to_string()], &bs);
        }
        "Close" => {
            // close frame encoders with a space budget
            let f = frame_from(&v["f"]);
            let max = v["max"].as_u64().unwrap() as usize;
            out.guarded("EncClose", v.clone(), || {
                let bytes = vc::frame_encode(&f, true, max).unwrap_or_default();
                json!({"k": "EncClose", "f": v["f"], "max": max, "out": jbytes(&bytes), "back": dec_frames(&bytes)})
            });
        }
        "Pn" => {
            let n = unnum(&v["n"]);
            let la = unnum(&v["la"]);
            let e0 = unnum(&v["e0"]);
            let cnt = v["cnt"].as_u64().unwrap();
            out.guarded(k, v.clone(), || {
                let bytes = vc::pn_encode(n, la);
                let len = vc::pn_len(n, la);
                let mut vals = Vec::with_capacity(cnt as usize);
                let ok = vc::pn_decode_expand_range(&bytes, e0, cnt, &mut vals);
                // spot check of the one-shot wrapper
                let single = vc::pn_decode_expand(&bytes, e0);
                // run-length encoding of the results over the window of expected values
                let mut runs: Vec<(u64, u64)> = Vec::new();
                for x in vals {
                    match runs.last_mut() {
                        Some((y, c)) if *y == x => *c += 1,
                        _ => runs.push((x, 1)),
                    }
                }
                let over = runs.len() > 64;
                runs.truncate(64);
                json!({"k": "Pn", "n": v["n"], "la": v["la"], "e0": v["e0"], "cnt": cnt, "out": jbytes(&bytes),
                       "len": len, "ok": ok, "single": opt(single, num), "over": over,
                       "runs": runs.iter().map(|&(x, c)| json!([num(x), c])).collect::<Vec<_>>()})
            });
        }
        "Tp" => {
            let t = tp_from(&v["tp"]);
            out.guarded(k, v.clone(), || {
                let bytes = vc::transport_parameters_encode(&t);
                json!({"k": "Tp", "tp": v["tp"], "out": jbytes(&bytes), "rc": dec_tp(Side::Client, &bytes),
                       "rs": dec_tp(Side::Server, &bytes)})
            });
            let bs = bytes_of(&v["bytes"]);
            out.decode_mut(v, &["tpc".to_string(), "tps".to_string()], &bs);
        }
        "Pkt" => {
            let cidlen = v["cidlen"].as_u64().unwrap() as usize;
            let pkts = v["pkts"].as_array().unwrap();
            let mut dgram = Vec::new();
            out.guarded(k, v.clone(), || {
                let mut outs = Vec::new();
                let mut full = Vec::new();
                for p in pkts {
                    let h = header_from(p);
                    let bytes = vc::packet_encode(&h, unnum(&p["n"]), unnum(&p["la"]), &bytes_of(&p["rest"]), &NullHeaderKey)
                        .unwrap_or_default();
                    full.push(dec_packet(&bytes, cidlen, false));
                    dgram.extend_from_slice(&bytes);
                    outs.push(jbytes(&bytes));
                }
                json!({"k": "Pkt", "cidlen": cidlen, "pkts": v["pkts"], "outs": outs, "full": full,
                       "split": dec_dgram(&dgram, cidlen, false)})
            });
            if !dgram.is_empty() {
                let ds = vec![format!("dg{cidlen}"), format!("pk{cidlen}"), format!("dgg{cidlen}")];
                out.decode_mut(v, &ds, &dgram);
            }
        }
        "Token" => {
            let ip = bytes_of(&v["ip"]);
            let port = v["port"].as_u64().unwrap() as u16;
            let cid = bytes_of(&v["cid"]);
            let dst = bytes_of(&v["dst"]);
            let secs = unnum(&v["secs"]);
            let retry = v["retry"].as_bool().unwrap();
            let seed = v.get("seed").and_then(|x| x.as_u64()).unwrap_or(0);
            out.guarded(k, v.clone(), || {
                let mut rng = rand_pcg::Pcg64Mcg::seed_from_u64(seed);
                let addr = SocketAddr::new(ip_of(&ip), port);
                let key = ToyTokenKey;
                let bytes = if retry {
                    vc::token_encode_retry(&key, addr, &cid, secs, &mut rng)
                } else {
                    vc::token_encode_validation(&key, addr.ip(), secs, &mut rng)
                };
                // a fresh configuration (and token log) per question, except for the reuse check
                let mk_cfg = || {
                    let mut cfg = ServerConfig::new(Arc::new(NoCrypto), Arc::new(ToyTokenKey));
                    cfg.time_source(Arc::new(FixedTime(secs + 1)));
                    cfg
                };
                let chk_with = |cfg: &ServerConfig, token: &[u8], remote: SocketAddr| match vc::token_check(cfg, token, &dst, remote) {
                    Some((r, o, val)) => json!({"err": false, "rscid": opt(r, |x| jbytes(&x)), "odcid": jbytes(&o), "validated": val}),
                    None => json!({"err": true}),
                };
                let chk = |token: &[u8], remote: SocketAddr| chk_with(&mk_cfg(), token, remote);
                let cfg = mk_cfg();
                let same = chk_with(&cfg, &bytes, addr);
                let again = chk_with(&cfg, &bytes, addr);
                let other = SocketAddr::new(ip_of(&ip), port.wrapping_add(1));
                let elsewhere = SocketAddr::new(if ip.len() == 4 { IpAddr::V4(Ipv4Addr::new(9, 9, 9, 9)) } else { IpAddr::V6(Ipv6Addr::LOCALHOST) }, port);
                // every single-bit corruption must be rejected by the AEAD, never panic
                let mut rejected = 0;
                let muts = mutations(&bytes);
                for m in &muts {
                    if let Some((None, o, false)) = vc::token_check(&cfg, m, &dst, addr) {
                        if o == dst {
                            rejected += 1;
                        }
                    }
                }
                let n = bytes.len();
                json!({"k": "Token", "retry": retry, "ip": v["ip"], "port": port, "cid": v["cid"], "dst": v["dst"],
                       "secs": v["secs"], "out": jbytes(&bytes), "plain": jbytes(&bytes[..n.saturating_sub(32)]),
                       "same": same, "again": again, "port2": chk(&bytes, other), "ip2": chk(&bytes, elsewhere),
                       "muts": muts.len(), "rejected": rejected})
            });
        }
        "TokenRaw" => {
            // a token whose plaintext is given: sealed here with the toy AEAD, as a server sharing
            // the token key but not the token format would have produced it
            let plain = bytes_of(&v["plain"]);
            let dst = bytes_of(&v["dst"]);
            out.guarded(k, v.clone(), || {
                let nonce = [7u8; 16];
                let mut sealed = plain.clone();
                ToyTokenKey.aead_from_hkdf(&nonce).seal(&mut sealed, &[]).unwrap();
                sealed.extend_from_slice(&nonce);
                let mut cfg = ServerConfig::new(Arc::new(NoCrypto), Arc::new(ToyTokenKey));
                cfg.time_source(Arc::new(FixedTime(1_000)));
                cfg.retry_token_lifetime(Duration::from_secs(u32::MAX as u64));
                let remote = SocketAddr::new(IpAddr::V4(Ipv4Addr::new(192, 0, 2, 7)), 4433);
                let res = match vc::token_check(&cfg, &sealed, &dst, remote) {
                    Some((r, o, val)) => json!({"err": false, "rscid": opt(r, |x| jbytes(&x)), "odcid": jbytes(&o), "validated": val}),
                    None => json!({"err": true}),
                };
                json!({"k": "TokenRaw", "plain": v["plain"], "dst": v["dst"], "res": res})
            });
        }
        "CidGen" => {
            let key = v["key"].as_u64().unwrap();
            out.guarded(k, v.clone(), || {
                let mut g = HashedConnectionIdGenerator::from_key(key);
                let cid = g.generate_cid();
                let valid = g.validate(cid).is_ok();
                // a corrupted signature byte must not validate under the same key
                let mut bad = cid;
                let last = bad.len() - 1;
                bad[last] ^= 0x01;
                let long = vc::cid_encode_long(&cid);
                json!({"k": "CidGen", "key": key, "cid": jbytes(&cid), "len": g.cid_len(), "valid": valid,
                       "bad_valid": g.validate(bad).is_ok(), "long": jbytes(&long),
                       "back": decode_with("cid", &long).3})
            });
        }
        _ => out.emit(json!({"k": "BadVector", "input": v})),
    }
}

fn main() {
    let args: Vec<String> = std::env::args().collect();
    if args.len() < 4 || args[1] != "run" {
        eprintln!("usage: qc run <vectors.ndjson> <out.ndjson>");
        std::process::exit(2);
    }
    // panics are data; keep stderr quiet
    std::panic::set_hook(Box::new(|_| {}));
    let input = BufReader::new(File::open(&args[2]).expect("vector file"));
    let mut out = Out { w: BufWriter::new(File::create(&args[3]).expect("output file")), run: 0, lines: 0 };
    let mut n = 0u64;
    for line in input.lines() {
        let line = line.unwrap();
        if line.trim().is_empty() {
            continue;
        }
        let v: Value = serde_json::from_str(&line).expect("vector json");
        out.run = v.get("run").and_then(|x| x.as_u64()).unwrap_or(n);
        process(&mut out, &v);
        n += 1;
    }
    out.w.flush().unwrap();
    println!("{{\"vectors\":{},\"lines\":{}}}", n, out.lines);
}
