//! Projection for the loss-detection specification (LossTrace, RFC 9002 sections 5 and 6): around
//! every step of a connection the RTT estimator, the per-space largest acknowledged packet, loss
//! time and last ack-eliciting send time, the loss-detection timer and the probe-timeout count;
//! the ACK frames the step digested (with the packets each newly acknowledged and their send
//! times), the packets that left the sent-packet tables without being acknowledged (declared
//! lost) and the packets still outstanding below the largest acknowledged one.
//! One history per connection; needs probe level 2.  Times in microseconds.
use serde_json::{json, Value};
use std::collections::{BTreeMap, BTreeSet};

fn cap(v: &Value) -> i64 {
    v.as_i64().unwrap_or(0).clamp(-1, 1 << 30)
}

fn ack_frames(p: &Value) -> Vec<Value> {
    p["fr"].as_array().cloned().unwrap_or_default().into_iter().filter(|f| f["f"] == "ACK").collect()
}

/// (pn, size, ack_eliciting, time_sent) of one space's outstanding packets
fn table(p: &Value, s: usize) -> Vec<(i64, i64, bool, i64, i64)> {
    p["sp"][s]["sent"].as_array().cloned().unwrap_or_default().iter()
        .map(|x| (x[0].as_i64().unwrap_or(-1), x[1].as_i64().unwrap_or(0), x[2] == true, x[4].as_i64().unwrap_or(0),
            x[3].as_i64().unwrap_or(0)))
        .collect()
}

fn us(ns: &Value) -> i64 {
    let v = ns.as_i64().unwrap_or(-1);
    if v < 0 { -1 } else { (v / 1000).min(1 << 30) }
}

fn state(p: &Value) -> Value {
    let sp = |k: &str| -> Vec<i64> { (0..3).map(|s| cap(&p["sp"][s][k])).collect() };
    let hif: Vec<bool> = (0..3).map(|s| table(p, s).iter().any(|x| x.1 != 0)).collect();
    let keys: Vec<bool> = (0..3).map(|s| p["sp"][s]["keys"] == true).collect();
    let r = &p["path"]["rttp"];
    json!({
        "rtt":[us(&r[0]), us(&r[1]), us(&r[2]), us(&r[3])],
        "lack":sp("lack"),"lt":sp("lt"),"lae":sp("lae"),"lp":sp("lp"),"hif":hif,"keys":keys,
        "ifae":cap(&p["path"]["ifae"]),"ptoc":cap(&p["ptoc"]),"ptob":cap(&p["path"]["ptob"]),
        "pto":[cap(&p["pto"][0]), cap(&p["pto"][1]), cap(&p["pto"][2])],
        "tm":cap(&p["tm"][0]),"st":cap(&p["st"]),"val":p["path"]["val"] == true,
        "pcr":(0..3).map(|s| cap(&p["sp"][s]["pcrypto"])).sum::<i64>(),
        "cev":cap(&p["stats"]["cev"]),"mtu":cap(&p["path"]["mtu"]),
        "hs":cap(&p["hs"]),"pmad":cap(&p["pmad"]),
        "sentb":cap(&p["path"]["sent"]),"recvb":cap(&p["path"]["recvd"]),"gen":cap(&p["path"]["gen"]),
    })
}

pub fn loss(trace: &[Value]) -> Vec<Value> {
    let run = trace[0]["run"].clone();
    let mut lines: BTreeMap<(i64, i64), Vec<Value>> = Default::default();
    for e in trace {
        let ev = e["ev"].as_str().unwrap_or("");
        if !matches!(ev, "Tx" | "Rx" | "Timeout" | "Call") || !e["pre"].is_object() || !e["post"].is_object() {
            continue;
        }
        if ev == "Rx" && e["kind"] != "conn" {
            continue;
        }
        let n = e["n"].as_i64().unwrap_or(-1);
        let c = e["c"].as_i64().unwrap_or(-1);
        let pre = &e["pre"];
        let post = &e["post"];
        if !pre["sp"][0]["sent"].is_array() || !post["sp"][0]["sent"].is_array() {
            continue;
        }
        let v = lines.entry((n, c)).or_default();
        if v.is_empty() {
            let side = if n == 0 { "server" } else { "client" };
            let pth = trace[0]["cfgx"][side]["packet_threshold"].as_i64().unwrap_or(3);
            v.push(json!({"ev":"Reset","run":run,"n":n,"c":c,"server":n == 0,"pth":pth}));
        }
        // which packets of the datagram were processed (as in the ECN projection)
        let mut sure = true;
        let mut acks: Vec<Value> = Vec::new();
        let mut gone: [BTreeSet<i64>; 3] = [BTreeSet::new(), BTreeSet::new(), BTreeSet::new()];
        if ev == "Rx" {
            let authed = post["authed"].as_i64().unwrap_or(0) - pre["authed"].as_i64().unwrap_or(0);
            let pk = e["pk"].as_array().cloned().unwrap_or_default();
            let npk = pk.len() as i64;
            let cand: Vec<Value> = pk.iter().filter(|p| {
                let s = p["sp"].as_i64().unwrap_or(0).clamp(0, 2) as usize;
                pre["sp"][s]["keys"] == true
            }).cloned().collect();
            let whole = authed >= npk && npk > 0 && e["damaged"] != true;
            let cand = if whole { pk.clone() } else { cand };
            let all = !cand.is_empty() && authed == cand.len() as i64 && e["damaged"] != true;
            let has_ack = pk.iter().any(|p| !ack_frames(p).is_empty());
            if all {
                let mut lack: [i64; 3] = [-1; 3];
                for s in 0..3 {
                    lack[s] = pre["sp"][s]["lack"].as_i64().unwrap_or(-1);
                }
                for p in &cand {
                    let s = p["sp"].as_i64().unwrap_or(0).clamp(0, 2) as usize;
                    // 0-RTT packets carry no ACK frames; short and long header packets of the Data space do
                    let tab = table(pre, s);
                    for f in ack_frames(p) {
                        let ranges: Vec<(i64, i64)> = f["ranges"].as_array().cloned().unwrap_or_default().iter()
                            .map(|r| (r[0].as_i64().unwrap_or(0), r[1].as_i64().unwrap_or(0))).collect();
                        let mut newly: Vec<Value> = Vec::new();
                        for x in &tab {
                            if !gone[s].contains(&x.0) && ranges.iter().any(|(a, b)| *a <= x.0 && x.0 <= *b) {
                                gone[s].insert(x.0);
                                newly.push(json!({"pn":x.0,"ts":x.3,"ae":x.2}));
                            }
                        }
                        let largest = f["largest"].as_i64().unwrap_or(-1);
                        let newl = largest > lack[s];
                        if newl {
                            lack[s] = largest;
                        }
                        let raw = f["delay"].as_i64().unwrap_or(0).clamp(0, 1 << 26);
                        acks.push(json!({"sp":s,"largest":largest.min(1 << 30),"newl":newl,"delay":raw * 8,"newly":newly}));
                    }
                }
            } else if authed != 0 && has_ack {
                sure = false;
            }
        }
        let is_retry = ev == "Rx" && e["pk"].as_array().is_some_and(|a| a.iter().any(|p| p["ty"] == "R"));
        // packets that left without being acknowledged, outside spaces dropped in this step
        let mut lost: Vec<Value> = Vec::new();
        let mut rem: Vec<Value> = Vec::new();
        let mut disc: Vec<i64> = Vec::new();
        for s in 0..3usize {
            // a Retry makes the client start its Initial space over: what was outstanding is sent again
            // (and takes back every 0-RTT packet)
            let retry = s != 1 && is_retry;
            // 1-RTT keys arrive: rejected 0-RTT packets are taken back to be sent again
            let rejected = s == 2 && pre["sp"][s]["keys"] != true && post["sp"][s]["keys"] == true;
            let dropped = (pre["sp"][s]["keys"] == true && post["sp"][s]["keys"] != true) || retry || rejected;
            if dropped {
                disc.push(s as i64);
            }
            let after: BTreeSet<i64> = table(post, s).iter().map(|x| x.0).collect();
            for x in table(pre, s) {
                if !after.contains(&x.0) && !gone[s].contains(&x.0) && !dropped {
                    lost.push(json!({"sp":s,"pn":x.0,"ts":x.3,"ae":x.2,"size":x.1,"onpath":x.4 == pre["path"]["gen"].as_i64().unwrap_or(0)}));
                }
            }
            let lack = post["sp"][s]["lack"].as_i64().unwrap_or(-1);
            for x in table(post, s) {
                if x.0 < lack {
                    rem.push(json!({"sp":s,"pn":x.0,"ts":x.3}));
                }
            }
        }
        // spaces in which this step put a new ack-eliciting packet into the table
        let sentae: Vec<bool> = (0..3).map(|s| {
            let before: BTreeSet<i64> = table(pre, s).iter().map(|x| x.0).collect();
            table(post, s).iter().any(|x| x.2 && !before.contains(&x.0))
        }).collect();
        v.push(json!({"ev":"Step","kind":ev,"t":cap(&e["t"]),"sure":sure,"acks":acks,"lost":lost,"rem":rem,"disc":disc,"retry":is_retry,"sentae":sentae,
            "pre":state(pre),"post":state(post),"mad":cap(&post["pto"][2]) - cap(&post["path"]["ptob"])}));
    }
    let mut out = Vec::new();
    for (_, v) in lines {
        out.extend(v);
    }
    out
}
