//! qv: run scripts against the real quinn-proto and write traces
//!
//! qv run <scripts.ndjson> <outdir> --proj a,b,c [--probe N] [--first-run K] [--prefix P]
use std::io::{BufRead, BufWriter, Write};

use qv_core::{proj, script::Runner};

static CUR_RUN: std::sync::atomic::AtomicU64 = std::sync::atomic::AtomicU64::new(0);
static STARTED: std::sync::atomic::AtomicU64 = std::sync::atomic::AtomicU64::new(0);

fn now_s() -> u64 {
    std::time::SystemTime::now().duration_since(std::time::UNIX_EPOCH).map(|d| d.as_secs()).unwrap_or(0)
}

/// A call into the code under test that never returns cannot be interrupted; the watchdog records
/// which run hung (a finding, not a tool error) and ends the process with status 3.
fn watchdog(marker: String) {
    let limit: u64 = std::env::var("QV_HANG_S").ok().and_then(|x| x.parse().ok()).unwrap_or(300);
    std::thread::spawn(move || loop {
        std::thread::sleep(std::time::Duration::from_secs(1));
        let st = STARTED.load(std::sync::atomic::Ordering::SeqCst);
        if st != 0 && now_s().saturating_sub(st) > limit {
            let run = CUR_RUN.load(std::sync::atomic::Ordering::SeqCst);
            let _ = std::fs::write(&marker, format!("{{\"run\":{run},\"limit_s\":{limit}}}"));
            std::process::exit(3);
        }
    });
}

fn main() {
    let args: Vec<String> = std::env::args().collect();
    match args.get(1).map(|s| s.as_str()) {
        Some("run") => {
            let inp = std::fs::File::open(&args[2]).expect("scripts file");
            let outdir = args[3].clone();
            std::fs::create_dir_all(&outdir).unwrap();
            let mut probe = 1u8;
            let mut first = 0u64;
            let mut projs: Vec<String> = vec!["master".into()];
            let mut prefix = String::new();
            let mut i = 4;
            while i < args.len() {
                match args[i].as_str() {
                    "--probe" => {
                        probe = args[i + 1].parse().unwrap();
                        i += 1;
                    }
                    "--first-run" => {
                        first = args[i + 1].parse().unwrap();
                        i += 1;
                    }
                    "--proj" => {
                        projs = args[i + 1].split(',').map(|s| s.to_string()).collect();
                        i += 1;
                    }
                    "--prefix" => {
                        prefix = args[i + 1].clone();
                        i += 1;
                    }
                    _ => {}
                }
                i += 1;
            }
            let mut outs: Vec<BufWriter<std::fs::File>> = projs
                .iter()
                .map(|p| {
                    BufWriter::new(
                        std::fs::File::create(format!("{outdir}/{prefix}{p}.ndjson")).unwrap(),
                    )
                })
                .collect();
            std::panic::set_hook(Box::new(|_| {}));
            let mut run = first;
            watchdog(format!("{outdir}/hang.json"));
            for line in std::io::BufReader::new(inp).lines() {
                let line = line.unwrap();
                if line.trim().is_empty() {
                    continue;
                }
                let script: serde_json::Value = serde_json::from_str(&line).expect("script json");
                CUR_RUN.store(run, std::sync::atomic::Ordering::SeqCst);
                STARTED.store(now_s(), std::sync::atomic::Ordering::SeqCst);
                let trace = Runner::run_script(&script, run, probe);
                STARTED.store(0, std::sync::atomic::Ordering::SeqCst);
                // a panic inside the code under test is a finding for whatever property is being checked
                for e in trace.iter().filter(|e| e["ev"] == "Panic") {
                    use std::io::Write as _;
                    let mut f = std::fs::OpenOptions::new().create(true).append(true)
                        .open(format!("{outdir}/panics.ndjson")).expect("panics file");
                    writeln!(f, "{}", serde_json::json!({"run":run,"msg":e["msg"],"what":e["what"],"t":e["t"]})).unwrap();
                }
                for (p, o) in projs.iter().zip(outs.iter_mut()) {
                    for l in proj::project(p, &trace) {
                        writeln!(o, "{}", l).unwrap();
                    }
                    o.flush().unwrap();
                }
                run += 1;
            }
        }
        Some("pair") => {
            // qv pair <scripts.ndjson> <out.ndjson> [--first-run K]: every script is run twice in
            // this process (variant from script.tag.variant) and the outputs are zipped
            std::panic::set_hook(Box::new(|_| {}));
            let inp = std::fs::File::open(&args[2]).expect("scripts file");
            let mut out = BufWriter::new(std::fs::File::create(&args[3]).expect("out"));
            let mut run: u64 = if args.len() > 5 && args[4] == "--first-run" { args[5].parse().unwrap() } else { 0 };
            watchdog(format!("{}.hang.json", args[3]));
            for line in std::io::BufReader::new(inp).lines() {
                let line = line.unwrap();
                if line.trim().is_empty() {
                    continue;
                }
                let script: serde_json::Value = serde_json::from_str(&line).expect("script json");
                let variant = script["tag"]["variant"].as_str().unwrap_or("same").to_string();
                CUR_RUN.store(run, std::sync::atomic::Ordering::SeqCst);
                STARTED.store(now_s(), std::sync::atomic::Ordering::SeqCst);
                let a = Runner::run_script(&script, run, 0);
                let mut sb = script.clone();
                match variant.as_str() {
                    "shift" => sb["cfg"]["epoch_shift_s"] = serde_json::json!(script["tag"]["shift_s"].as_u64().unwrap_or(1000)),
                    "spurious" => {
                        sb["cfg"]["spurious"] = serde_json::json!(true);
                    }
                    _ => {}
                }
                let b = Runner::run_script(&sb, run, 0);
                STARTED.store(0, std::sync::atomic::Ordering::SeqCst);
                let with_timeouts = variant != "spurious";
                for l in qv_core::pair::zip(&serde_json::json!(run), &variant, &a, &b, with_timeouts) {
                    writeln!(out, "{}", l).unwrap();
                }
                out.flush().unwrap();
                run += 1;
            }
        }
        Some("zip") => {
            // qv zip <a/master.ndjson> <b/master.ndjson> <out.ndjson>: outputs of two processes
            // streamed run by run: the recordings of a whole shard do not fit into memory at once
            struct Runs {
                lines: std::io::Lines<std::io::BufReader<std::fs::File>>,
                held: Option<serde_json::Value>,
            }
            impl Runs {
                fn open(p: &str) -> Self {
                    Self { lines: std::io::BufReader::new(std::fs::File::open(p).expect("master")).lines(), held: None }
                }
                fn next_run(&mut self) -> Option<Vec<serde_json::Value>> {
                    let mut run: Vec<serde_json::Value> = Vec::new();
                    if let Some(v) = self.held.take() {
                        run.push(v);
                    }
                    for line in self.lines.by_ref() {
                        let v: serde_json::Value = serde_json::from_str(&line.unwrap()).unwrap();
                        if v["ev"] == "Reset" && !run.is_empty() {
                            self.held = Some(v);
                            return Some(run);
                        }
                        run.push(v);
                    }
                    if run.is_empty() { None } else { Some(run) }
                }
            }
            let mut a = Runs::open(&args[2]);
            let mut b = Runs::open(&args[3]);
            let mut out = BufWriter::new(std::fs::File::create(&args[4]).expect("out"));
            while let (Some(ra), Some(rb)) = (a.next_run(), b.next_run()) {
                for l in qv_core::pair::zip(&ra[0]["run"], "fresh", &ra, &rb, true) {
                    writeln!(out, "{}", l).unwrap();
                }
            }
        }
        Some("tokens") => {
            // qv tokens <histories.ndjson> <out.ndjson> [--first-run K]: BloomTokenLog / TokenMemoryCache replay
            std::panic::set_hook(Box::new(|_| {}));
            qv_core::tokens::run(&args[2], &args[3]);
        }
        Some("cc") => {
            std::panic::set_hook(Box::new(|_| {}));
            qv_core::cc::run(&args[2], &args[3]);
        }
        _ => {
            eprintln!("usage: qv run <scripts.ndjson> <outdir> --proj a,b [--probe N] [--first-run K]");
            std::process::exit(2);
        }
    }
}
