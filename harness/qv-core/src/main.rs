//! qv: run scripts against the real quinn-proto and write traces
//!
//! qv run <scripts.ndjson> <out.ndjson> [--probe N] [--first-run K]
use std::io::{BufRead, BufWriter, Write};

use qv_core::script::Runner;

fn main() {
    let args: Vec<String> = std::env::args().collect();
    match args.get(1).map(|s| s.as_str()) {
        Some("run") => {
            let inp = std::fs::File::open(&args[2]).expect("scripts file");
            let out = std::fs::File::create(&args[3]).expect("out file");
            let mut out = BufWriter::new(out);
            let mut probe = 1u8;
            let mut first = 0u64;
            let mut i = 4;
            while i < args.len() {
                match args[i].as_str() {
                    "--probe" => {
                        probe = args[i + 1].parse().unwrap();
                        i += 1;
                    }
                    "--first-run" => {
                        first = args[i + 1].parse().unwrap();
                        i += 1;
                    }
                    _ => {}
                }
                i += 1;
            }
            std::panic::set_hook(Box::new(|_| {}));
            let mut run = first;
            for line in std::io::BufReader::new(inp).lines() {
                let line = line.unwrap();
                if line.trim().is_empty() {
                    continue;
                }
                let script: serde_json::Value = serde_json::from_str(&line).expect("script json");
                let trace = Runner::run_script(&script, run, probe);
                for l in &trace {
                    writeln!(out, "{}", l).unwrap();
                }
                run += 1;
            }
        }
        _ => {
            eprintln!("usage: qv run <scripts.ndjson> <out.ndjson> [--probe N] [--first-run K]");
            std::process::exit(2);
        }
    }
}
