use qv_core::sim::*;
use std::io::Write;

fn main() {
    let args: Vec<String> = std::env::args().collect();
    let cfg: Cfg = serde_json::from_str(args.get(1).map(|s| s.as_str()).unwrap_or("{}")).unwrap();
    let mut w = World::new(cfg, 0);
    w.probe_level = 2;
    let c = w.connect(1).unwrap();
    w.after_input(1, c);
    w.run_for(1_000_000);
    w.finish();
    let out = std::io::stdout();
    let mut o = out.lock();
    for l in &w.trace {
        writeln!(o, "{}", l).unwrap();
    }
}
