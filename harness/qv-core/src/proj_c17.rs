//! C17 projection: what the client application did and was told, what the server application
//! saw, and the wire-level facts about 0-RTT packets. Observations only; the oracle is
//! `spec/ZeroRttTrace.tla`.
//!
//! Connections are named by the client node: node 1 = "A" (holder of the session ticket, if any),
//! node 2 = "B" (always connects afresh; the reference for the rejection clause).
use serde_json::{json, Value};

const CAP: i64 = 1 << 30;

fn who_of(node: i64) -> &'static str {
    match node {
        1 => "A",
        2 => "B",
        _ => "X",
    }
}

fn clamp(v: &Value) -> i64 {
    match v.as_i64() {
        Some(x) => x.min(CAP),
        None => match v.as_u64() {
            Some(_) => CAP,
            None => -1,
        },
    }
}

fn tp_rec(e: &Value) -> Value {
    json!({"md":clamp(&e["md"]),"sdbl":clamp(&e["sdbl"]),"sdbr":clamp(&e["sdbr"]),
        "sduni":clamp(&e["sduni"]),"msb":clamp(&e["msb"]),"msu":clamp(&e["msu"]),
        "dgram":clamp(&e["dgram"]),"acid":clamp(&e["acid"])})
}

fn zero_tp() -> Value {
    json!({"md":0,"sdbl":0,"sdbr":0,"sduni":0,"msb":0,"msu":0,"dgram":-1,"acid":2})
}

/// frames a 0-RTT packet must not carry (RFC 9000 section 12.4, table 3)
fn illegal_in_0rtt(f: &str) -> bool {
    matches!(
        f,
        "ACK" | "CRYPTO" | "HANDSHAKE_DONE" | "NEW_TOKEN" | "PATH_RESPONSE" | "RETIRE_CONNECTION_ID"
    )
}

fn dgram_lens(p: &Value) -> Vec<Value> {
    p["fr"].as_array().map_or(Vec::new(), |fr| {
        fr.iter().filter(|f| f["f"] == "DATAGRAM").map(|f| json!(clamp(&f["len"]))).collect()
    })
}

fn app_frames(p: &Value) -> (Vec<Value>, i64, Vec<Value>, bool) {
    let mut st = Vec::new();
    let mut ndg = 0;
    let mut rst = Vec::new();
    let mut illegal = false;
    if let Some(fr) = p["fr"].as_array() {
        for f in fr {
            let name = f["f"].as_str().unwrap_or("");
            match name {
                "STREAM" => st.push(json!([clamp(&f["id"]), clamp(&f["off"]), clamp(&f["len"]),
                    if f["fin"] == true { 1 } else { 0 }])),
                "DATAGRAM" => ndg += 1,
                "RESET_STREAM" => rst.push(json!([clamp(&f["id"]), clamp(&f["fin"])])),
                // (second component -1 tells it apart from a reset, whose final size is not negative)
                "STOP_SENDING" => rst.push(json!([clamp(&f["id"]), -1])),
                _ => {}
            }
            if illegal_in_0rtt(name) {
                illegal = true;
            }
        }
    }
    (st, ndg, rst, illegal)
}

pub fn zerortt(trace: &[Value]) -> Vec<Value> {
    let cfgx = &trace[0]["cfgx"];
    let ticket = cfgx["ticket"] == true;
    let mut rem = zero_tp();
    for e in trace.iter().take(4) {
        if e["ev"] == "Ticket" {
            rem = tp_rec(e);
        }
    }
    let clients = cfgx["clients"].as_i64().unwrap_or(1);
    let mut out = vec![json!({"ev":"Reset","run":trace[0]["run"],"ticket":ticket,
        "accept":cfgx["accept_early"] == true,
        "policy":cfgx["incoming"].as_str().unwrap_or("accept"),
        "ref":clients >= 2,"rem":rem})];
    // A client that retransmits its Initial around a Retry can leave an orphan server connection
    // behind (created from the retransmission with the old connection ID and then abandoned by the
    // client). Per client only the server connection that completed the handshake is followed
    // (the last one accepted if none did); what the application sees on an orphan is not projected.
    // (connection handles are reused once a connection has drained: a server connection is
    // identified by the ordinal of its Accept event)
    let mut accepted: Vec<(i64, bool)> = Vec::new(); // ordinal -> (peer, handshake completed)
    let mut ord_of: std::collections::BTreeMap<i64, usize> = Default::default();
    for e in trace {
        if e["n"] != 0 {
            continue;
        }
        let c = e["c"].as_i64().unwrap_or(-1);
        if e["ev"] == "Accept" && e["ok"] == true {
            ord_of.insert(c, accepted.len());
            accepted.push((e["peer"].as_i64().unwrap_or(1), false));
        } else if e["ev"] == "AppEvent" && e["e"]["k"] == "Connected" {
            if let Some(&o) = ord_of.get(&c) {
                accepted[o].1 = true;
            }
        }
    }
    let mut orphan_ord: std::collections::BTreeSet<usize> = Default::default();
    for (o, &(peer, _)) in accepted.iter().enumerate() {
        let rivals: Vec<usize> = (0..accepted.len()).filter(|&x| accepted[x].0 == peer).collect();
        let keep = rivals.iter().copied().find(|&x| accepted[x].1).unwrap_or(*rivals.last().unwrap());
        if o != keep {
            orphan_ord.insert(o);
        }
    }
    let mut ord_of: std::collections::BTreeMap<i64, usize> = Default::default();
    let mut n_acc = 0usize;
    // server connection -> client node
    let mut peer_of: std::collections::BTreeMap<i64, i64> = Default::default();
    // latest probe of each client connection (zacc / zen at the time of an application event)
    let mut last_probe: std::collections::BTreeMap<i64, Value> = Default::default();
    for e in trace {
        let ev = e["ev"].as_str().unwrap_or("");
        let n = e["n"].as_i64().unwrap_or(-1);
        if n >= 1 {
            if let Some(p) = e.get("post") {
                if p.get("zen").is_some() {
                    last_probe.insert(n, json!({"zacc":p["zacc"],"zen":p["zen"]}));
                }
            }
        }
        if n == 0 {
            let c = e["c"].as_i64().unwrap_or(-1);
            if ev == "Accept" && e["ok"] == true {
                ord_of.insert(c, n_acc);
                n_acc += 1;
            }
            // (the parameters the server presents are the same on every attempt: kept)
            if ev != "TP" && ord_of.get(&c).is_some_and(|o| orphan_ord.contains(o)) {
                continue;
            }
        }
        match ev {
            "Accept" if e["ok"] == true => {
                let c = e["c"].as_i64().unwrap();
                let peer = e["peer"].as_i64().unwrap_or(1);
                peer_of.insert(c, peer);
                // frames of buffered early packets are processed inside Endpoint::accept
                let d = &e["dfr"];
                let total: i64 = d.as_array().map_or(0, |a| a.iter().filter_map(|x| x.as_i64()).sum());
                let proc = total - d[0].as_i64().unwrap_or(0) - d[2].as_i64().unwrap_or(0);
                out.push(json!({"ev":"SAccZ","who":who_of(peer),"proc":proc.min(CAP)}));
            }
            "TP" if n == 0 => {
                let c = e["c"].as_i64().unwrap_or(-1);
                let peer = peer_of.get(&c).copied().unwrap_or(1);
                let mut v = tp_rec(e);
                v["ev"] = json!("TP");
                v["who"] = json!(who_of(peer));
                out.push(v);
            }
            "AppEvent" if n >= 1 => {
                let k = e["e"]["k"].as_str().unwrap_or("");
                if k == "Connected" || k == "ConnectionLost" {
                    let pr = last_probe.get(&n).cloned().unwrap_or(json!({"zacc":false,"zen":false}));
                    out.push(json!({"ev":"CEv","who":who_of(n),"k":k,
                        "rk":e["e"]["reason"]["k"].as_str().unwrap_or(""),
                        "code":clamp(&e["e"]["reason"]["code"]),
                        "zacc":pr["zacc"] == true,"zen":pr["zen"] == true,"t":e["t"]}));
                }
            }
            "Call" if n >= 1 => {
                let op = e["op"].as_str().unwrap_or("");
                if !matches!(op, "open" | "write" | "finish" | "reset" | "stop" | "read" | "send_dgram") {
                    continue;
                }
                if e["res"]["k"] == "NoConn" {
                    continue;
                }
                let pre = &e["pre"]["streams"];
                let sua: i64 = pre["send"]
                    .as_array()
                    .map_or(0, |a| {
                        // outstanding data of a reset stream is written off at the reset call
                        a.iter().filter(|s| s["st"] != 3).map(|s| s["ua"].as_i64().unwrap_or(0)).sum()
                    });
                let ua = clamp(&pre["ua"]);
                out.push(json!({"ev":"C","who":who_of(n),"op":op,
                    "dir":e.get("dir").map_or(-1, clamp),
                    "id":e.get("id").map_or(-1, clamp),
                    "len":e.get("len").map_or(-1, clamp),
                    "key":e.get("key").map_or(-1, clamp),
                    "code":e.get("code").map_or(-1, clamp),
                    "did":e.get("did").map_or(-1, clamp),
                    "k":e["res"]["k"].as_str().unwrap_or(""),
                    "rid":e["res"].get("id").map_or(-1, clamp),
                    "rn":e["res"].get("n").map_or(-1, clamp),
                    "sua":sua.min(CAP),"uax":(ua - sua.min(CAP)).max(0),
                    "sw":clamp(&pre["sw"]),
                    "t":e["t"]}));
            }
            "Call" if n == 0 => {
                let peer = e["peer"].as_i64().unwrap_or(1);
                let who = who_of(peer);
                let k = e["res"]["k"].as_str().unwrap_or("");
                match e["op"].as_str().unwrap_or("") {
                    "accept" if k == "Some" => {
                        out.push(json!({"ev":"SAcc","who":who,"id":clamp(&e["res"]["id"]),"t":e["t"]}));
                    }
                    "read" => {
                        if let Some(chunks) = e["res"]["chunks"].as_array() {
                            for ch in chunks {
                                let runs = ch["runs"].as_array().map(|r| r.len()).unwrap_or(0);
                                out.push(json!({"ev":"SChunk","who":who,"id":clamp(&e["id"]),
                                    "off":clamp(&ch["off"]),"len":clamp(&ch["len"]),
                                    "first":ch["runs"][0][0].as_i64().unwrap_or(-1),"nruns":runs,
                                    "ord":e["ordered"] == true,"t":e["t"]}));
                            }
                        }
                        if k == "Finished" || k == "Reset" || k == "ClosedStream" {
                            out.push(json!({"ev":"SEnd","who":who,"id":clamp(&e["id"]),"k":k,
                                "code":e["res"].get("code").map_or(-1, clamp),"t":e["t"]}));
                        }
                    }
                    "recv_dgram" if k == "Some" => {
                        out.push(json!({"ev":"SDg","who":who,"did":clamp(&e["res"]["did"]),
                            "len":clamp(&e["res"]["len"]),"intact":e["res"]["intact"] == true,"t":e["t"]}));
                    }
                    _ => {}
                }
            }
            "Tx" if n >= 1 => {
                let pkts: Vec<&Value> = e["dgs"]
                    .as_array()
                    .map(|a| a.iter().flat_map(|d| d["pkts"].as_array().into_iter().flatten()).collect())
                    .unwrap_or_default();
                for p in pkts {
                    let ty = p["ty"].as_str().unwrap_or("");
                    if ty != "Z" && ty != "S" {
                        continue;
                    }
                    let (st, ndg, rst, illegal) = app_frames(p);
                    if ty == "Z" {
                        out.push(json!({"ev":"TxZ","who":who_of(n),"pn":clamp(&p["pn"]),"st":st,
                            "ndg":ndg,"rst":rst,"illegal":illegal || p["ok"] == false,"t":e["t"]}));
                    } else if !st.is_empty() || ndg > 0 || !rst.is_empty() {
                        out.push(json!({"ev":"TxS","who":who_of(n),"st":st,"ndg":ndg,"rst":rst,
                            "dgl":dgram_lens(p),"t":e["t"]}));
                    }
                }
            }
            "Rx" if n == 0 => {
                let has_z = e["pk"].as_array().is_some_and(|a| a.iter().any(|p| p["ty"] == "Z"));
                if !has_z {
                    continue;
                }
                let who = match e["src"].as_i64().unwrap_or(0) {
                    x if x == crate::sim::addr_id(crate::sim::client_addr(0)) => "A",
                    x if x == crate::sim::addr_id(crate::sim::client_addr(1)) => "B",
                    _ => "X",
                };
                let kind = e["kind"].as_str().unwrap_or("");
                let proc = if kind == "conn" {
                    clamp(&e["dfr_sum"]) - e["dfr"][0].as_i64().unwrap_or(0) - e["dfr"][2].as_i64().unwrap_or(0)
                } else {
                    0
                };
                let buffered = kind != "conn"
                    && e["ep_post"]["inbytes"].as_i64().unwrap_or(0) > e["ep_pre"]["inbytes"].as_i64().unwrap_or(0);
                out.push(json!({"ev":"SRxZ","who":who,"orig":clamp(&e["orig"]),
                    "cls":e["cls"].as_str().unwrap_or(""),"kind":kind,"proc":proc,
                    "buffered":buffered,"t":e["t"]}));
            }
            "Rx" if n >= 1 && e["kind"] == "conn" => {
                if e["pk"].as_array().is_some_and(|a| a.iter().any(|p| p["ty"] == "R")) {
                    out.push(json!({"ev":"CRetry","who":who_of(n),"t":e["t"]}));
                }
                // flow control credit the client was really given (frames of processed packets)
                let d = &e["dfr"];
                let want = [("MAX_DATA", 8usize), ("MAX_STREAM_DATA", 9), ("MAX_STREAMS", 10)];
                let mut present = [0i64; 3];
                let mut lines = Vec::new();
                if let Some(pk) = e["pk"].as_array() {
                    for p in pk {
                        if let Some(fr) = p["fr"].as_array() {
                            for f in fr {
                                let name = f["f"].as_str().unwrap_or("");
                                for (i, (w, _)) in want.iter().enumerate() {
                                    if name == *w {
                                        present[i] += 1;
                                        let (kind, id) = match i {
                                            0 => ("data", -1),
                                            1 => ("sdata", clamp(&f["id"])),
                                            _ => (if f["uni"] == true { "uni" } else { "bidi" }, -1),
                                        };
                                        lines.push(json!({"ev":"CMax","who":who_of(n),"kind":kind,
                                            "id":id,"v":clamp(&f["v"]),"t":e["t"]}));
                                    }
                                }
                            }
                        }
                    }
                }
                if lines.is_empty() {
                    continue;
                }
                let got = [
                    d[8].as_i64().unwrap_or(0),
                    d[9].as_i64().unwrap_or(0),
                    d[10].as_i64().unwrap_or(0) + d[11].as_i64().unwrap_or(0),
                ];
                // all of them processed, none of them processed, or unclear
                let all = (0..3).all(|i| got[i] == present[i]);
                let none = (0..3).all(|i| got[i] == 0);
                if all {
                    out.extend(lines);
                } else if !none {
                    out.push(json!({"ev":"CMax","who":who_of(n),"kind":"fuzzy","id":-1,"v":0,"t":e["t"]}));
                }
            }
            "StepBound" if e["what"] == "max_trace" => {}
            "Panic" | "StepBound" => {
                out.push(json!({"ev":"Abnormal","what":ev}));
            }
            "End" => {
                // did the server side of each client's connection complete the handshake, and is
                // the client's congestion window exhausted at the end of the run
                let sdone = |peer: i64| {
                    (0..accepted.len()).any(|o| accepted[o].0 == peer && accepted[o].1)
                };
                let cwb = |node: i64| {
                    e["conns"].as_array().is_some_and(|a| {
                        a.iter().any(|c| {
                            c["n"] == node
                                && c["ifb"].as_i64().unwrap_or(0) >= c["cwnd"].as_i64().unwrap_or(i64::MAX)
                        })
                    })
                };
                out.push(json!({"ev":"End","t":e["t"],"sdoneA":sdone(1),"sdoneB":sdone(2),
                    "cwbA":cwb(1),"cwbB":cwb(2)}));
            }
            _ => {}
        }
    }
    out
}
