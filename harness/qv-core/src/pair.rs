//! Self-composition for C20: canonical output sequences of two runs, zipped line by line.
use serde_json::{json, Value};

fn h31(s: &str) -> i64 {
    let mut h: u64 = 0xcbf29ce484222325;
    for b in s.bytes() {
        h = (h ^ b as u64).wrapping_mul(0x100000001b3);
    }
    (h % 2147483647) as i64
}

/// Canonical outputs of one run: what the library emitted, in order (kind, time, digest)
pub fn outputs(trace: &[Value], with_timeouts: bool) -> Vec<(String, i64, i64)> {
    let mut out = Vec::new();
    for e in trace {
        let ev = e["ev"].as_str().unwrap_or("");
        let t = e["t"].as_i64().unwrap_or(0);
        match ev {
            "Tx" => {
                for d in e["dgs"].as_array().cloned().unwrap_or_default() {
                    let s = format!("{}|{}|{}|{}|{}", e["n"], e["c"], e["dst"], d["size"], d["pkts"]);
                    out.push(("Tx".to_string(), t, h31(&s)));
                }
                let s = format!("{}|{}|{}|{}", e["n"], e["c"], e["size"], e["seg"]);
                out.push(("Transmit".to_string(), t, h31(&s)));
            }
            "Resp" => {
                let s = format!("{}|{}|{}|{}", e["n"], e["dst"], e["size"], e["pkts"]);
                out.push(("Resp".to_string(), t, h31(&s)));
            }
            "AppEvent" => {
                let s = format!("{}|{}|{}", e["n"], e["c"], e["e"]);
                out.push(("AppEvent".to_string(), t, h31(&s)));
            }
            "EpEvent" => {
                let s = format!("{}|{}|{}", e["n"], e["c"], e["drained"]);
                out.push(("EpEvent".to_string(), t, h31(&s)));
            }
            "Call" => {
                let s = format!("{}|{}|{}|{}", e["n"], e["c"], e["op"], e["res"]);
                out.push(("Call".to_string(), t, h31(&s)));
            }
            "Timeout" if with_timeouts => {
                let s = format!("{}|{}|{}|{}", e["n"], e["c"], e["before"], e["after"]);
                out.push(("Timeout".to_string(), t, h31(&s)));
            }
            "Accept" | "Connect" => {
                let s = format!("{}|{}|{}", e["n"], e["c"], e["ok"]);
                out.push((ev.to_string(), t, h31(&s)));
            }
            _ => {}
        }
    }
    out
}

/// longest run of handle_timeout calls one connection needed at a single instant, and the amount
/// of output after a connection reported Drained
pub fn driver_facts(trace: &[Value]) -> (i64, i64, i64) {
    let mut max_burst = 0i64;
    let mut cur: Option<(i64, i64, i64)> = None;
    let mut n_cur = 0i64;
    let mut drained: std::collections::HashSet<(i64, i64)> = Default::default();
    let mut after = 0i64;
    let mut spurious_changed = 0i64;
    for e in trace {
        let ev = e["ev"].as_str().unwrap_or("");
        let key = (e["n"].as_i64().unwrap_or(-1), e["c"].as_i64().unwrap_or(-1));
        if ev == "Timeout" {
            let k = (key.0, key.1, e["t"].as_i64().unwrap_or(0));
            if cur == Some(k) {
                n_cur += 1;
            } else {
                cur = Some(k);
                n_cur = 1;
            }
            max_burst = max_burst.max(n_cur);
        } else if matches!(ev, "Rx" | "Call") && cur.is_some_and(|c| (c.0, c.1) == key) {
            cur = None;
        }
        if matches!(ev, "Accept" | "Connect") {
            // the endpoint reuses connection handles: a new connection under an old key
            drained.remove(&key);
        } else if ev == "EpEvent" && e["drained"] == true {
            // a second Drained notification is output of a drained connection, too
            if !drained.insert(key) {
                after += 1;
            }
        } else if drained.contains(&key)
            && (ev == "Tx" || (ev == "AppEvent" && e["e"]["k"] != "ConnectionLost"))
        {
            // (a timer left armed is not output: quinn stops only the close timer when it drains)
            after += 1;
        }
        if ev == "Spurious" && e["same"] == false {
            spurious_changed += 1;
        }
    }
    (max_burst, after, spurious_changed)
}

pub fn zip(run: &Value, variant: &str, a: &[Value], b: &[Value], with_timeouts: bool) -> Vec<Value> {
    let oa = outputs(a, with_timeouts);
    let ob = outputs(b, with_timeouts);
    let (burst, after, spur) = driver_facts(b);
    // a run cut short by the harness's own trace cap is compared on the common prefix only
    let cut = |t: &[Value]| t.iter().any(|e| e["ev"] == "StepBound" && e["what"] == "max_trace");
    let (oa, ob) = if cut(a) || cut(b) {
        let m = oa.len().min(ob.len());
        (oa[..m].to_vec(), ob[..m].to_vec())
    } else {
        (oa, ob)
    };
    let mut out = vec![json!({"ev":"Reset","run":run,"variant":variant,"na":oa.len(),"nb":ob.len(),
        "burst":burst,"afterdrain":after,"spurchg":spur})];
    for i in 0..oa.len().min(ob.len()) {
        out.push(json!({"ev":"Out","ka":oa[i].0,"kb":ob[i].0,"ta":oa[i].1,"tb":ob[i].1,"ha":oa[i].2,"hb":ob[i].2}));
    }
    out.push(json!({"ev":"End","na":oa.len(),"nb":ob.len()}));
    out
}
