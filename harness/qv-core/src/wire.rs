//! Independent QUIC wire decoder / re-encoder (deliberately not quinn's code).
//!
//! Works on the toy provider's wire: no header protection, plaintext payload, 16-byte tag.
use serde::Serialize;

pub const TAG: usize = 16;

#[derive(Debug, Clone, Copy, PartialEq, Eq, Serialize)]
pub enum PType {
    Initial,
    ZeroRtt,
    Handshake,
    Retry,
    Short,
    VersionNeg,
}

impl PType {
    /// packet number space index (0 initial, 1 handshake, 2 data), if any
    pub fn space(self) -> Option<usize> {
        match self {
            PType::Initial => Some(0),
            PType::Handshake => Some(1),
            PType::ZeroRtt | PType::Short => Some(2),
            _ => None,
        }
    }
}

#[derive(Debug, Clone, PartialEq, Eq)]
pub enum Frame {
    Padding(usize),
    Ping,
    Ack {
        largest: u64,
        delay: u64,
        /// inclusive ranges, descending
        ranges: Vec<(u64, u64)>,
        ecn: Option<(u64, u64, u64)>,
    },
    ResetStream {
        id: u64,
        code: u64,
        final_size: u64,
    },
    StopSending {
        id: u64,
        code: u64,
    },
    Crypto {
        off: u64,
        len: usize,
    },
    NewToken {
        token: Vec<u8>,
    },
    Stream {
        id: u64,
        off: u64,
        len: usize,
        fin: bool,
        /// offset of the data inside the packet payload
        data_at: usize,
    },
    MaxData(u64),
    MaxStreamData {
        id: u64,
        max: u64,
    },
    MaxStreams {
        uni: bool,
        max: u64,
    },
    DataBlocked(u64),
    StreamDataBlocked {
        id: u64,
        limit: u64,
    },
    StreamsBlocked {
        uni: bool,
        limit: u64,
    },
    NewConnectionId {
        seq: u64,
        retire_prior_to: u64,
        cid: Vec<u8>,
        token: [u8; 16],
    },
    RetireConnectionId(u64),
    PathChallenge(u64),
    PathResponse(u64),
    Close {
        app: bool,
        code: u64,
        frame_type: Option<u64>,
        reason: Vec<u8>,
    },
    HandshakeDone,
    ImmediateAck,
    AckFrequency {
        seq: u64,
        threshold: u64,
        max_ack_delay: u64,
        reordering: u64,
    },
    Datagram {
        len: usize,
        data_at: usize,
        /// identity carried by the harness payload (see `dgram_ident`): id, declared length, pattern ok
        did: u64,
        hlen: u64,
        intact: bool,
        /// wire size of the whole frame (type + length field + payload)
        fsize: usize,
    },
    Unknown(u64),
}

impl Frame {
    pub fn name(&self) -> &'static str {
        match self {
            Frame::Padding(_) => "PADDING",
            Frame::Ping => "PING",
            Frame::Ack { .. } => "ACK",
            Frame::ResetStream { .. } => "RESET_STREAM",
            Frame::StopSending { .. } => "STOP_SENDING",
            Frame::Crypto { .. } => "CRYPTO",
            Frame::NewToken { .. } => "NEW_TOKEN",
            Frame::Stream { .. } => "STREAM",
            Frame::MaxData(_) => "MAX_DATA",
            Frame::MaxStreamData { .. } => "MAX_STREAM_DATA",
            Frame::MaxStreams { .. } => "MAX_STREAMS",
            Frame::DataBlocked(_) => "DATA_BLOCKED",
            Frame::StreamDataBlocked { .. } => "STREAM_DATA_BLOCKED",
            Frame::StreamsBlocked { .. } => "STREAMS_BLOCKED",
            Frame::NewConnectionId { .. } => "NEW_CONNECTION_ID",
            Frame::RetireConnectionId(_) => "RETIRE_CONNECTION_ID",
            Frame::PathChallenge(_) => "PATH_CHALLENGE",
            Frame::PathResponse(_) => "PATH_RESPONSE",
            Frame::Close { .. } => "CONNECTION_CLOSE",
            Frame::HandshakeDone => "HANDSHAKE_DONE",
            Frame::ImmediateAck => "IMMEDIATE_ACK",
            Frame::AckFrequency { .. } => "ACK_FREQUENCY",
            Frame::Datagram { .. } => "DATAGRAM",
            Frame::Unknown(_) => "UNKNOWN",
        }
    }
    pub fn ack_eliciting(&self) -> bool {
        !matches!(
            self,
            Frame::Padding(_) | Frame::Ack { .. } | Frame::Close { .. }
        )
    }
}

#[derive(Debug, Clone)]
pub struct Pkt {
    pub ty: PType,
    pub version: u32,
    pub dcid: Vec<u8>,
    pub scid: Vec<u8>,
    pub token: Vec<u8>,
    pub pn: u64,
    pub pn_len: usize,
    pub key_phase: bool,
    /// offset of this packet in the datagram
    pub start: usize,
    /// length of the header incl. packet number
    pub hdr_len: usize,
    /// total length incl. tag
    pub len: usize,
    pub frames: Vec<Frame>,
    /// false if the payload could not be fully parsed as frames
    pub frames_ok: bool,
    /// offset (in packet) of the Length field and its encoded size, for long headers
    pub len_field: Option<(usize, usize)>,
}

impl Pkt {
    pub fn payload_range(&self) -> (usize, usize) {
        (self.start + self.hdr_len, self.start + self.len - TAG)
    }
    pub fn ack_eliciting(&self) -> bool {
        self.frames.iter().any(|f| f.ack_eliciting())
    }
}

pub struct Rd<'a> {
    pub b: &'a [u8],
    pub p: usize,
}

impl<'a> Rd<'a> {
    pub fn new(b: &'a [u8]) -> Self {
        Self { b, p: 0 }
    }
    pub fn left(&self) -> usize {
        self.b.len() - self.p
    }
    pub fn u8(&mut self) -> Option<u8> {
        let x = *self.b.get(self.p)?;
        self.p += 1;
        Some(x)
    }
    pub fn take(&mut self, n: usize) -> Option<&'a [u8]> {
        if self.left() < n {
            return None;
        }
        let s = &self.b[self.p..self.p + n];
        self.p += n;
        Some(s)
    }
    pub fn u32(&mut self) -> Option<u32> {
        Some(u32::from_be_bytes(self.take(4)?.try_into().ok()?))
    }
    pub fn u64(&mut self) -> Option<u64> {
        Some(u64::from_be_bytes(self.take(8)?.try_into().ok()?))
    }
    pub fn var(&mut self) -> Option<u64> {
        let f = self.u8()?;
        let n = 1usize << (f >> 6);
        let mut v = (f & 0x3f) as u64;
        for _ in 1..n {
            v = (v << 8) | self.u8()? as u64;
        }
        Some(v)
    }
}

pub fn put_var(out: &mut Vec<u8>, v: u64) {
    if v < 1 << 6 {
        out.push(v as u8);
    } else if v < 1 << 14 {
        out.extend_from_slice(&((v as u16) | 0x4000).to_be_bytes());
    } else if v < 1 << 30 {
        out.extend_from_slice(&((v as u32) | 0x8000_0000).to_be_bytes());
    } else {
        out.extend_from_slice(&(v | 0xc000_0000_0000_0000).to_be_bytes());
    }
}

pub fn var_size(v: u64) -> usize {
    if v < 1 << 6 {
        1
    } else if v < 1 << 14 {
        2
    } else if v < 1 << 30 {
        4
    } else {
        8
    }
}

/// RFC 9000 A.3
pub fn expand_pn(expected: u64, truncated: u64, nbits: u32) -> u64 {
    let win = 1u64 << nbits;
    let hwin = win / 2;
    let mask = win - 1;
    let candidate = (expected & !mask) | truncated;
    if expected.checked_sub(hwin).is_some_and(|x| candidate <= x) && candidate < (1 << 62) - win {
        candidate + win
    } else if candidate > expected + hwin && candidate >= win {
        candidate - win
    } else {
        candidate
    }
}

/// Payload convention of harness-made application datagrams: bytes 0..2 = id (big endian), bytes
/// 2..4 = length (big endian), byte i >= 4 = (id + i) % 251; shorter payloads are a prefix of the
/// header. Returns (id, declared length, whether every byte agrees with that convention).
pub fn dgram_ident(b: &[u8]) -> (u64, u64, bool) {
    let len = b.len();
    let did = if len >= 2 { ((b[0] as u64) << 8) | b[1] as u64 } else { 0 };
    let hlen = if len >= 4 { ((b[2] as u64) << 8) | b[3] as u64 } else { len as u64 };
    let mut ok = hlen as usize == len;
    if len == 3 {
        ok &= b[2] == 0;
    }
    ok &= b.iter().enumerate().skip(4).all(|(i, &x)| x == ((did + i as u64) % 251) as u8);
    (did, hlen, ok)
}

/// The payload `dgram_ident` accepts for (id, len)
pub fn dgram_payload(did: u64, len: usize) -> Vec<u8> {
    let hdr = [(did >> 8) as u8, did as u8, (len >> 8) as u8, len as u8];
    (0..len).map(|i| if i < 4 { hdr[i] } else { ((did + i as u64) % 251) as u8 }).collect()
}

pub fn parse_frames(payload: &[u8]) -> (Vec<Frame>, bool) {
    let mut r = Rd::new(payload);
    let mut out = Vec::new();
    while r.left() > 0 {
        match parse_frame(&mut r) {
            Some(f) => {
                if let (Frame::Padding(n), Some(Frame::Padding(m))) = (&f, out.last_mut()) {
                    *m += *n;
                } else {
                    out.push(f);
                }
            }
            None => return (out, false),
        }
    }
    (out, true)
}

fn parse_frame(r: &mut Rd<'_>) -> Option<Frame> {
    let frame_start = r.p;
    let ty = r.var()?;
    Some(match ty {
        0x00 => {
            let mut n = 1;
            while r.left() > 0 && r.b[r.p] == 0 {
                r.p += 1;
                n += 1;
            }
            Frame::Padding(n)
        }
        0x01 => Frame::Ping,
        0x02 | 0x03 => {
            let largest = r.var()?;
            let delay = r.var()?;
            let count = r.var()?;
            let first = r.var()?;
            let mut ranges = Vec::new();
            let mut hi = largest;
            let mut lo = hi.checked_sub(first)?;
            ranges.push((lo, hi));
            for _ in 0..count {
                let gap = r.var()?;
                let len = r.var()?;
                hi = lo.checked_sub(gap + 2)?;
                lo = hi.checked_sub(len)?;
                ranges.push((lo, hi));
            }
            let ecn = if ty == 0x03 {
                Some((r.var()?, r.var()?, r.var()?))
            } else {
                None
            };
            Frame::Ack {
                largest,
                delay,
                ranges,
                ecn,
            }
        }
        0x04 => Frame::ResetStream {
            id: r.var()?,
            code: r.var()?,
            final_size: r.var()?,
        },
        0x05 => Frame::StopSending {
            id: r.var()?,
            code: r.var()?,
        },
        0x06 => {
            let off = r.var()?;
            let len = r.var()? as usize;
            r.take(len)?;
            Frame::Crypto { off, len }
        }
        0x07 => {
            let len = r.var()? as usize;
            Frame::NewToken {
                token: r.take(len)?.to_vec(),
            }
        }
        0x08..=0x0f => {
            let id = r.var()?;
            let off = if ty & 0x04 != 0 { r.var()? } else { 0 };
            let len = if ty & 0x02 != 0 {
                r.var()? as usize
            } else {
                r.left()
            };
            let data_at = r.p;
            r.take(len)?;
            Frame::Stream {
                id,
                off,
                len,
                fin: ty & 0x01 != 0,
                data_at,
            }
        }
        0x10 => Frame::MaxData(r.var()?),
        0x11 => Frame::MaxStreamData {
            id: r.var()?,
            max: r.var()?,
        },
        0x12 | 0x13 => Frame::MaxStreams {
            uni: ty == 0x13,
            max: r.var()?,
        },
        0x14 => Frame::DataBlocked(r.var()?),
        0x15 => Frame::StreamDataBlocked {
            id: r.var()?,
            limit: r.var()?,
        },
        0x16 | 0x17 => Frame::StreamsBlocked {
            uni: ty == 0x17,
            limit: r.var()?,
        },
        0x18 => {
            let seq = r.var()?;
            let retire_prior_to = r.var()?;
            let l = r.u8()? as usize;
            let cid = r.take(l)?.to_vec();
            let token: [u8; 16] = r.take(16)?.try_into().ok()?;
            Frame::NewConnectionId {
                seq,
                retire_prior_to,
                cid,
                token,
            }
        }
        0x19 => Frame::RetireConnectionId(r.var()?),
        0x1a => Frame::PathChallenge(r.u64()?),
        0x1b => Frame::PathResponse(r.u64()?),
        0x1c | 0x1d => {
            let code = r.var()?;
            let frame_type = if ty == 0x1c { Some(r.var()?) } else { None };
            let l = r.var()? as usize;
            Frame::Close {
                app: ty == 0x1d,
                code,
                frame_type,
                reason: r.take(l)?.to_vec(),
            }
        }
        0x1e => Frame::HandshakeDone,
        0x1f => Frame::ImmediateAck,
        0xaf => Frame::AckFrequency {
            seq: r.var()?,
            threshold: r.var()?,
            max_ack_delay: r.var()?,
            reordering: r.var()?,
        },
        0x30 | 0x31 => {
            let len = if ty == 0x31 {
                r.var()? as usize
            } else {
                r.left()
            };
            let data_at = r.p;
            let body = r.take(len)?;
            let (did, hlen, intact) = dgram_ident(body);
            Frame::Datagram { len, data_at, did, hlen, intact, fsize: r.p - frame_start }
        }
        x => {
            // unknown: cannot continue
            r.p = r.b.len();
            Frame::Unknown(x)
        }
    })
}

/// Context needed to decode what one endpoint sends
#[derive(Debug, Clone, Default)]
pub struct TxCtx {
    /// length of the CIDs the *receiver* uses (for short headers)
    pub dst_cid_len: usize,
    /// largest packet number seen so far per space, plus one (0 = none)
    pub next_pn: [u64; 3],
}

/// Decode every QUIC packet in a datagram. Returns None on a malformed datagram.
pub fn parse_datagram(d: &[u8], ctx: &mut TxCtx) -> Option<Vec<Pkt>> {
    let mut out = Vec::new();
    let mut at = 0;
    while at < d.len() {
        let b = &d[at..];
        let first = b[0];
        let mut r = Rd::new(b);
        r.u8()?;
        if first & 0x80 != 0 {
            let version = r.u32()?;
            let dl = r.u8()? as usize;
            let dcid = r.take(dl)?.to_vec();
            let sl = r.u8()? as usize;
            let scid = r.take(sl)?.to_vec();
            if version == 0 {
                out.push(Pkt {
                    ty: PType::VersionNeg,
                    version,
                    dcid,
                    scid,
                    token: vec![],
                    pn: 0,
                    pn_len: 0,
                    key_phase: false,
                    start: at,
                    hdr_len: r.p,
                    len: b.len(),
                    frames: vec![],
                    frames_ok: true,
                    len_field: None,
                });
                return Some(out);
            }
            let ty = match (first >> 4) & 3 {
                0 => PType::Initial,
                1 => PType::ZeroRtt,
                2 => PType::Handshake,
                _ => PType::Retry,
            };
            if ty == PType::Retry {
                let token = b[r.p..b.len().saturating_sub(16).max(r.p)].to_vec();
                out.push(Pkt {
                    ty,
                    version,
                    dcid,
                    scid,
                    token,
                    pn: 0,
                    pn_len: 0,
                    key_phase: false,
                    start: at,
                    hdr_len: r.p,
                    len: b.len(),
                    frames: vec![],
                    frames_ok: true,
                    len_field: None,
                });
                return Some(out);
            }
            let mut token = vec![];
            if ty == PType::Initial {
                let tl = r.var()? as usize;
                token = r.take(tl)?.to_vec();
            }
            let lf_at = r.p;
            let length = r.var()? as usize;
            let lf_sz = r.p - lf_at;
            let pn_len = (first & 3) as usize + 1;
            if length < pn_len + TAG || r.left() < length {
                return None;
            }
            let mut tr = 0u64;
            for _ in 0..pn_len {
                tr = (tr << 8) | r.u8()? as u64;
            }
            let sp = ty.space().unwrap();
            let pn = expand_pn(ctx.next_pn[sp], tr, 8 * pn_len as u32);
            ctx.next_pn[sp] = ctx.next_pn[sp].max(pn + 1);
            let hdr_len = r.p;
            let total = hdr_len + length - pn_len;
            let (frames, ok) = parse_frames(&b[hdr_len..total - TAG]);
            out.push(Pkt {
                ty,
                version,
                dcid,
                scid,
                token,
                pn,
                pn_len,
                key_phase: false,
                start: at,
                hdr_len,
                len: total,
                frames,
                frames_ok: ok,
                len_field: Some((lf_at, lf_sz)),
            });
            at += total;
        } else {
            let dcid = r.take(ctx.dst_cid_len)?.to_vec();
            let pn_len = (first & 3) as usize + 1;
            let mut tr = 0u64;
            for _ in 0..pn_len {
                tr = (tr << 8) | r.u8()? as u64;
            }
            let pn = expand_pn(ctx.next_pn[2], tr, 8 * pn_len as u32);
            ctx.next_pn[2] = ctx.next_pn[2].max(pn + 1);
            let hdr_len = r.p;
            if b.len() < hdr_len + TAG {
                return None;
            }
            let (frames, ok) = parse_frames(&b[hdr_len..b.len() - TAG]);
            out.push(Pkt {
                ty: PType::Short,
                version: 0,
                dcid,
                scid: vec![],
                token: vec![],
                pn,
                pn_len,
                key_phase: first & 0x04 != 0,
                start: at,
                hdr_len,
                len: b.len(),
                frames,
                frames_ok: ok,
                len_field: None,
            });
            at = d.len();
        }
    }
    Some(out)
}

// ---------------------------------------------------------------------------------------------
// frame encoders for the man in the middle

pub fn enc_stream(out: &mut Vec<u8>, id: u64, off: u64, data: &[u8], fin: bool) {
    let mut ty = 0x08 | 0x02;
    if off != 0 {
        ty |= 0x04;
    }
    if fin {
        ty |= 0x01;
    }
    out.push(ty);
    put_var(out, id);
    if off != 0 {
        put_var(out, off);
    }
    put_var(out, data.len() as u64);
    out.extend_from_slice(data);
}

pub fn enc_simple(out: &mut Vec<u8>, ty: u64, fields: &[u64]) {
    put_var(out, ty);
    for &f in fields {
        put_var(out, f);
    }
}

#[cfg(test)]
mod tests {
    use super::*;
    #[test]
    fn pn() {
        assert_eq!(expand_pn(0xa82f30ea + 1, 0x9b32, 16), 0xa82f9b32);
        assert_eq!(expand_pn(0, 0, 8), 0);
        assert_eq!(expand_pn(1, 0, 8), 0);
    }
}
