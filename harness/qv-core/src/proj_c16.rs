//! C16 projection: what the datagram API, the wire and the probe showed, for `DgramTrace.tla`.
//!
//! Only extraction and renaming happens here; every judgement is made by the trace spec.
//!   Reset  run, CID lengths, configured datagram buffers of the server / the clients
//!   Open   a connection (n, c) came into being; pn = node of its peer
//!   TP     max_datagram_frame_size node n advertises on connection c (-1 = absent)
//!   Send   Datagrams::send with max_size() / send_buffer_space() read before and after the call
//!   Query  the two read-only queries alone
//!   Recv   Datagrams::recv
//!   Tx     one poll_transmit: UDP datagrams with the DATAGRAM frames the independent decoder found
//!   Rx     one UDP datagram handed to the connection: DATAGRAM frames it carries (receiver-side
//!          decode of the delivered bytes), how many DATAGRAM frames FrameStats says were processed
//!   Tick   handle_timeout
//!   Ev     DatagramReceived / DatagramsUnblocked reported by Connection::poll
//!   End
//! q = datagram part of the probe: o/ot send queue entries/bytes, b send_blocked, i/rb receive
//! queue entries/bytes, st connection state, mtu current path MTU, bh black holes detected so far.
use serde_json::{json, Value};

const CAP: i64 = 1 << 30;

fn q(p: &Value) -> Value {
    if p.get("path").is_none() {
        return json!({"o":-1,"ot":-1,"b":false,"i":-1,"rb":-1,"st":9,"mtu":0,"bh":0});
    }
    json!({"o":p["dgo"],"ot":p["dgot"].as_i64().unwrap_or(0).min(CAP),"b":p["dgsb"],"i":p["dgi"],
        "rb":p["dgrb"].as_i64().unwrap_or(0).min(CAP),"st":p["st"],"mtu":p["path"]["mtu"],
        "bh":p["stats"]["bh"].as_i64().unwrap_or(0).min(CAP)})
}

fn frames(pkts: &Value) -> Vec<Value> {
    let mut out = Vec::new();
    if let Some(ps) = pkts.as_array() {
        for p in ps {
            if let Some(fr) = p["fr"].as_array() {
                for f in fr {
                    if f["f"] == "DATAGRAM" {
                        out.push(json!({"d":f["did"],"l":f["len"],
                            "i":f["intact"] == true && f["hlen"] == f["len"],
                            "z":f["fsize"],"cid":p["dcid"].as_str().map_or(0, |s| s.len() / 2),
                            "ty":p["ty"]}));
                    }
                }
            }
        }
    }
    out
}

fn buf(t: &Value, key: &str, default: i64) -> i64 {
    match t[key].as_i64() {
        Some(v) if v < 0 => -1,
        Some(v) => v.min(CAP),
        None => default,
    }
}

pub fn dgram(trace: &[Value]) -> Vec<Value> {
    let mut out = Vec::new();
    let r0 = &trace[0];
    let cfg = &r0["cfgx"];
    out.push(json!({"ev":"Reset","run":r0["run"],"scid":r0["scid"],"ccid":r0["ccid"],
        "ssb":buf(&cfg["server"], "dgram_send_buf", 1 << 20),
        "srb":buf(&cfg["server"], "dgram_recv_buf", 1_250_000),
        "csb":buf(&cfg["client"], "dgram_send_buf", 1 << 20),
        "crb":buf(&cfg["client"], "dgram_recv_buf", 1_250_000)}));
    // node of the peer of each server-side connection
    let mut peer: std::collections::BTreeMap<i64, i64> = Default::default();
    let pn = |n: i64, c: i64, peer: &std::collections::BTreeMap<i64, i64>| -> i64 {
        if n == 0 {
            peer.get(&c).copied().unwrap_or(-1)
        } else {
            0
        }
    };
    for e in trace {
        let ev = e["ev"].as_str().unwrap_or("");
        let n = e["n"].as_i64().unwrap_or(-1);
        let c = e["c"].as_i64().unwrap_or(-1);
        match ev {
            "Connect" | "Accept" if e["ok"] == true => {
                if ev == "Accept" {
                    peer.insert(c, e["peer"].as_i64().unwrap_or(-1));
                }
                out.push(json!({"ev":"Open","n":n,"c":c,"pn":pn(n, c, &peer)}));
            }
            "TP" => out.push(json!({"ev":"TP","n":n,"c":c,"dgram":e["dgram"]})),
            "Call" if e["res"]["k"] != "NoConn" && e["res"]["k"] != "Panic" => {
                let res = e["res"]["k"].clone();
                match e["op"].as_str().unwrap_or("") {
                    "send_dgram" => out.push(json!({"ev":"Send","n":n,"c":c,"pn":pn(n, c, &peer),
                        "did":e["did"],"len":e["len"],"drop":e["drop"],"max":e["max"],
                        "space":e["space"].as_i64().unwrap_or(0).min(CAP),"res":res,
                        "max2":e["max_post"],"space2":e["space_post"].as_i64().unwrap_or(0).min(CAP),
                        "pre":q(&e["pre"]),"q":q(&e["post"])})),
                    "dgram_query" => out.push(json!({"ev":"Query","n":n,"c":c,"pn":pn(n, c, &peer),
                        "max":e["res"]["max"],"space":e["res"]["space"].as_i64().unwrap_or(0).min(CAP),
                        "pre":q(&e["pre"]),"q":q(&e["post"])})),
                    "recv_dgram" => {
                        let some = res == "Some";
                        out.push(json!({"ev":"Recv","n":n,"c":c,"some":some,
                            "did":if some { e["res"]["did"].clone() } else { json!(-1) },
                            "len":if some { e["res"]["len"].clone() } else { json!(-1) },
                            "ok":some && e["res"]["intact"] == true && e["res"]["hlen"] == e["res"]["len"],
                            "q":q(&e["post"])}));
                    }
                    _ => {}
                }
            }
            "Tx" => {
                let dgs: Vec<Value> = e["dgs"]
                    .as_array()
                    .map(|a| {
                        a.iter()
                            .map(|d| json!({"id":d["id"],"size":d["size"],"fr":frames(&d["pkts"])}))
                            .collect()
                    })
                    .unwrap_or_default();
                out.push(json!({"ev":"Tx","n":n,"c":c,"pn":pn(n, c, &peer),"dgs":dgs,
                    "pre":q(&e["pre"]),"q":q(&e["post"])}));
            }
            "Rx" if e["kind"] == "conn" => {
                out.push(json!({"ev":"Rx","n":n,"c":c,"pn":pn(n, c, &peer),"orig":e["orig"].as_u64().map_or(-1, |x| if x > CAP as u64 { -1 } else { x as i64 }),
                    "cls":e["cls"],"fr":frames(&e["pk"]),"k":e["dfr"][5],
                    "pre":q(&e["pre"]),"q":q(&e["post"])}));
            }
            "Timeout" => {
                out.push(json!({"ev":"Tick","n":n,"c":c,"pn":pn(n, c, &peer),
                    "pre":q(&e["pre"]),"q":q(&e["post"])}));
            }
            "AppEvent" if e["e"]["k"] == "DatagramReceived" || e["e"]["k"] == "DatagramsUnblocked" => {
                out.push(json!({"ev":"Ev","n":n,"c":c,"k":e["e"]["k"]}));
            }
            "End" => out.push(json!({"ev":"End","panicked":e["panicked"]})),
            _ => {}
        }
    }
    out
}
