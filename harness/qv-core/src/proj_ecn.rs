//! Projection for the ECN specification (EcnTrace): the mark every datagram was sent and arrived
//! with, the ECN counts of every ACK frame on the wire, the sender's belief (sending_ecn) around
//! every step and the congestion events it counted.
//! Only runs with exactly one client/server connection pair are projected.
use serde_json::{json, Value};
use std::collections::{BTreeSet, HashSet};

fn cap(v: &Value) -> i64 {
    v.as_i64().unwrap_or(0).min(1 << 30)
}

fn ack_frames(p: &Value) -> Vec<Value> {
    p["fr"].as_array().cloned().unwrap_or_default().into_iter().filter(|f| f["f"] == "ACK").collect()
}

fn counts(f: &Value) -> Value {
    match f["ecnc"].as_array() {
        Some(a) if a.len() == 3 => json!([cap(&a[0]), cap(&a[1]), cap(&a[2])]),
        _ => json!([0, 0, 0]),
    }
}

pub fn ecn(trace: &[Value]) -> Vec<Value> {
    let mut out = vec![json!({"ev":"Reset","run":trace[0]["run"]})];
    let conns = trace.iter().filter(|e| (e["ev"] == "Connect" || e["ev"] == "Accept") && e["ok"] == true).count();
    if conns != 2 || trace[0]["clients"].as_i64().unwrap_or(1) != 1 {
        return out;
    }
    // datagrams (by original id) of which every packet was processed, per node
    let mut done: [HashSet<i64>; 2] = [HashSet::new(), HashSet::new()];
    // the datagram that is about to create the server's connection
    let mut creating: Option<(String, Vec<Value>, i64)> = None;
    for e in trace {
        let ev = e["ev"].as_str().unwrap_or("");
        let n = e["n"].as_i64().unwrap_or(-1);
        if !(0..=1).contains(&n) {
            continue;
        }
        let side = if n == 0 { "s" } else { "c" };
        let secn = |p: &Value| p["path"]["secn"] == true;
        match ev {
            "Tx" => {
                let mut acks: Vec<Value> = Vec::new();
                for d in e["dgs"].as_array().cloned().unwrap_or_default() {
                    for p in d["pkts"].as_array().cloned().unwrap_or_default() {
                        for f in ack_frames(&p) {
                            acks.push(json!({"sp":p["sp"],"has":f["ecn"] == true,"c":counts(&f)}));
                        }
                    }
                }
                // the belief does not change while transmitting; off-path datagrams carry no mark
                let onpath = e["dst"] == e["post"]["path"]["rem"] && e["pre"]["path"]["gen"] == e["post"]["path"]["gen"];
                out.push(json!({"ev":"Sent","side":side,"mark":e["ecn"] == true,"secn":secn(&e["post"]),
                    "onpath":onpath,"acks":acks}));
                if secn(&e["pre"]) != secn(&e["post"]) {
                    out.push(json!({"ev":"Chg","side":side,"gen0":e["pre"]["path"]["gen"],"gen1":e["post"]["path"]["gen"],"at":"Tx"}));
                }
            }
            "Rx" if e["kind"] == "new" => {
                let sps: Vec<Value> = e["pk"].as_array().cloned().unwrap_or_default().iter().map(|p| p["sp"].clone()).collect();
                creating = Some((e["ecnm"].as_str().unwrap_or("none").to_string(), sps, e["orig"].as_i64().unwrap_or(-1)));
            }
            "Accept" => {
                if let Some((mark, sps, orig)) = creating.take() {
                    if e["ok"] == true {
                        // the endpoint authenticated the first Initial; packets coalesced behind it
                        // (0-RTT) are processed by the new connection right away
                        let k = sps.len() as i64;
                        let j = e["post"]["authed"].as_i64().unwrap_or(1);
                        let (sure, sp2): (bool, Vec<Value>) = if j >= k {
                            (true, sps)
                        } else if j <= 1 {
                            (true, sps.into_iter().take(1).collect())
                        } else {
                            (false, sps)
                        };
                        if sure && j >= k {
                            done[n as usize].insert(orig);
                        }
                        out.push(json!({"ev":"Got","side":side,"mark":mark,"sure":sure,"npk":k,"sps":sp2,"acks":[],
                            "secn0":true,"secn1":secn(&e["post"]),"cev":0,"gen0":0,"gen1":0,"closed":true}));
                    }
                }
            }
            "Rx" if e["kind"] == "conn" => {
                let pre = &e["pre"];
                let post = &e["post"];
                let authed = post["authed"].as_i64().unwrap_or(0) - pre["authed"].as_i64().unwrap_or(0);
                let pk = e["pk"].as_array().cloned().unwrap_or_default();
                let npk = pk.len() as i64;
                let orig = e["orig"].as_i64().unwrap_or(-1);
                let is_dup_of_done = e["cls"] == "dup" && done[n as usize].contains(&orig);
                // packets of a space without keys cannot have been processed
                let cand: Vec<Value> = pk.iter().filter(|p| {
                    let s = p["sp"].as_i64().unwrap_or(0).clamp(0, 2) as usize;
                    pre["sp"][s]["keys"] == true
                }).cloned().collect();
                let whole = authed >= npk && npk > 0 && e["damaged"] != true;
                let cand = if whole { pk.clone() } else { cand };
                let all = !cand.is_empty() && authed == cand.len() as i64 && e["damaged"] != true;
                let (sure, sps): (bool, Vec<Value>) = if is_dup_of_done {
                    // every packet of the original was processed: none of the copy may be counted
                    (true, vec![])
                } else if all {
                    (true, cand.iter().map(|p| p["sp"].clone()).collect())
                } else if authed == 0 {
                    (true, vec![])
                } else {
                    (false, pk.iter().map(|p| p["sp"].clone()).collect())
                };
                if whole && !is_dup_of_done {
                    done[n as usize].insert(orig);
                }
                // the reports as the sender digests them: newly acknowledged packets and whether the
                // largest acknowledged packet number rises, frame by frame
                let mut acks: Vec<Value> = Vec::new();
                if all && !is_dup_of_done {
                    let mut gone: [BTreeSet<i64>; 3] = [BTreeSet::new(), BTreeSet::new(), BTreeSet::new()];
                    let mut lack: [i64; 3] = [-1; 3];
                    for s in 0..3 {
                        lack[s] = pre["sp"][s]["lack"].as_i64().unwrap_or(-1);
                    }
                    for p in &cand {
                        let s = p["sp"].as_i64().unwrap_or(0).clamp(0, 2) as usize;
                        for f in ack_frames(p) {
                            let ranges: Vec<(i64, i64)> = f["ranges"].as_array().cloned().unwrap_or_default().iter()
                                .map(|r| (r[0].as_i64().unwrap_or(0), r[1].as_i64().unwrap_or(0))).collect();
                            let mut newly = 0;
                            for sp in pre["sp"][s]["sent"].as_array().cloned().unwrap_or_default() {
                                let pn = sp[0].as_i64().unwrap_or(-1);
                                if !gone[s].contains(&pn) && ranges.iter().any(|(a, b)| *a <= pn && pn <= *b) {
                                    gone[s].insert(pn);
                                    newly += 1;
                                }
                            }
                            let largest = f["largest"].as_i64().unwrap_or(-1);
                            let newl = largest > lack[s];
                            if newl {
                                lack[s] = largest;
                            }
                            acks.push(json!({"sp":s,"has":f["ecn"] == true,"c":counts(&f),"newly":newly,"newl":newl}));
                        }
                    }
                }
                if !sure {
                    // which packets were processed is unknown: name the spaces whose feedback may have moved
                    for p in &pk {
                        for f in ack_frames(p) {
                            acks.push(json!({"sp":p["sp"].as_i64().unwrap_or(0).clamp(0, 2),"has":f["ecn"] == true,"c":counts(&f),"newly":0,"newl":false}));
                        }
                    }
                }
                let closed = pre["st"].as_i64().unwrap_or(0) >= 2 || post["st"].as_i64().unwrap_or(0) >= 2
                    || !pre["sp"][0]["sent"].is_array();
                out.push(json!({"ev":"Got","side":side,"mark":e["ecnm"].as_str().unwrap_or("none"),"sure":sure,"npk":npk,"sps":sps,
                    "acks":acks,"secn0":secn(pre),"secn1":secn(post),
                    "cev":cap(&post["stats"]["cev"]) - cap(&pre["stats"]["cev"]),
                    "gen0":pre["path"]["gen"],"gen1":post["path"]["gen"],"closed":closed}));
            }
            "Timeout" | "Call" => {
                if e["pre"].is_object() && e["post"].is_object() && secn(&e["pre"]) != secn(&e["post"]) {
                    out.push(json!({"ev":"Chg","side":side,"gen0":e["pre"]["path"]["gen"],"gen1":e["post"]["path"]["gen"],"at":ev}));
                }
            }
            _ => {}
        }
    }
    out
}
