//! Projection for the front-door specification (DispatchTrace): every datagram that an endpoint did
//! not hand to one of its connections, described from its bytes alone, and what the endpoint did
//! with it (nothing, a stateless answer and its shape, a new connection attempt).
use serde_json::{json, Value};

const SUPPORTED: [i64; 7] = [1, 0xff00_001d, 0xff00_001e, 0xff00_001f, 0xff00_0020, 0xff00_0021, 0xff00_0022];

pub fn dispatch(trace: &[Value]) -> Vec<Value> {
    let cfgx = &trace[0]["cfgx"];
    let interval = cfgx["min_reset_interval_ms"].as_i64().unwrap_or(20) * 1000;
    let mut out = vec![json!({"ev":"Reset","run":trace[0]["run"],"interval":interval})];
    if cfgx["incoming"] == "wait" {
        return out;
    }
    let hashed = cfgx["cid_gen"] == "hashed";
    let mut i = 0;
    while i < trace.len() {
        let e = &trace[i];
        i += 1;
        if e["ev"] != "Rx" {
            continue;
        }
        let kind = e["kind"].as_str().unwrap_or("");
        if !matches!(kind, "none" | "resp" | "new") {
            continue;
        }
        let n = e["n"].as_i64().unwrap_or(-1);
        if n < 0 {
            continue;
        }
        let size = e["size"].as_i64().unwrap_or(0);
        let first = e["first"].as_i64().unwrap_or(0);
        let long = e["long"] == true;
        let fixed = first & 0x40 != 0;
        let cidl = e["cidl"].as_i64().unwrap_or(8);
        let ver = e["ver"].as_i64().unwrap_or(-1);
        let parsed = e["pk"].as_array().is_some_and(|a| !a.is_empty());
        // what the bytes are, judged without quinn
        let (form, verc, ty, cids, cidok) = if size == 0 {
            ("junk", "ok", "I", 0, "yes")
        } else if !long {
            if !fixed || size < 1 + cidl {
                ("junk", "ok", "I", 0, "yes")
            } else {
                ("short", "ok", "I", 0, if cidl == 0 { "no" } else if hashed { "maybe" } else { "yes" })
            }
        } else {
            match e["lens"].as_array() {
                Some(l) if l[0].as_i64().unwrap_or(99) <= 20 && l[1].as_i64().unwrap_or(99) <= 20 => {
                    let cids = l[0].as_i64().unwrap_or(0) + l[1].as_i64().unwrap_or(0);
                    if ver == 0 {
                        ("long", "zero", "I", cids, "yes")
                    } else if !fixed {
                        ("junk", "ok", "I", 0, "yes")
                    } else if !SUPPORTED.contains(&ver) {
                        ("long", "bad", "I", cids, "yes")
                    } else {
                        let ty = match (first >> 4) & 3 { 0 => "I", 1 => "Z", 2 => "H", _ => "R" };
                        // an unknown Initial is answered by a client endpoint like a short packet
                        ("long", "ok", ty, cids, if hashed { "maybe" } else { "yes" })
                    }
                }
                _ => ("junk", "ok", "I", 0, "yes"),
            }
        };
        // the answer, if any: the Resp event that names this datagram
        let mut resp = json!({"k":"none","size":0});
        if kind == "resp" {
            for r in trace[i..].iter().take(4) {
                if r["ev"] == "Resp" && r["incite_id"] == e["id"] {
                    let rf = r["first"].as_i64().unwrap_or(0);
                    let k = if rf & 0x80 == 0 { "short" } else if r["ver"] == 0 { "vn" } else { "long" };
                    resp = json!({"k":k,"size":r["size"]});
                    break;
                }
            }
        }
        out.push(json!({"ev":"In","n":n,"server":n == 0,"t":e["t"],"kind":kind,"form":form,"ver":verc,"ty":ty,"cids":cids,
            "cidok":cidok,"size":size,"parsed":parsed,"resp":resp}));
    }
    out
}
