//! Projection for C15 (path migration): per connection, every datagram handed to it (source,
//! eligibility facts, path state before/after), every transmit (destination, challenges), every
//! timeout (path state before/after), client address changes, final state.
use serde_json::{json, Value};
use std::collections::HashMap;

fn path(p: &Value) -> Value {
    json!({"rem":p["path"]["rem"],"val":p["path"]["val"],"chal":p["path"]["chal"],
        "gen":p["path"]["gen"],"prem":p["prev"]["rem"].as_i64().unwrap_or(0),"pv":p["tm"][4].as_i64().unwrap_or(-1)})
}

/// what a packet from a foreign address must leave untouched
fn digest(p: &Value) -> Value {
    let sp: Vec<Value> = p["sp"].as_array().map(|a| a.iter().map(|s| {
        json!([s["keys"], s["next"], s["lack"], s["rx"], s["dd"], s["nsent"], s["coff"], s["cread"], s["pcrypto"], s["pretire"], s["pack"]])
    }).collect()).unwrap_or_default();
    json!({"st":p["st"],"err":p["err"],"sp":sp,"kp":p["kp"],"streams":p["streams"],"dgi":p["dgi"],"dgo":p["dgo"],
        "rcid":p["rcid"],"lcids":p["lcids"],"path":p["path"],"prev":p["prev"],"tm":p["tm"],"nev":p["nev"],
        "presp":p["presp"],"authed":p["authed"]})
}

/// Upper bound for the validation period started by a migration in this step:
/// 3 * max(PTO of the new path, PTO of the path being left at that moment).  The path being left is
/// visible afterwards as the previous path unless it was itself unvalidated (then it is dropped and
/// all that is known is that its PTO cannot exceed three times the largest possible RTT sample).
fn pto3(pre: &Value, post: &Value, t: i64) -> i64 {
    let mad = post["pto"][2].as_i64().unwrap_or(0) - post["path"]["ptob"].as_i64().unwrap_or(0);
    let new = post["path"]["ptob"].as_i64().unwrap_or(0);
    let left = if pre["path"]["chal"] == true {
        pre["pto"][2].as_i64().unwrap_or(0).max(3 * t + 100_000)
    } else {
        post["prev"]["ptob"].as_i64().unwrap_or(0).max(pre["path"]["ptob"].as_i64().unwrap_or(0))
    };
    (3 * (new.max(left) + mad.max(0))).min(1 << 30)
}

pub fn migration(trace: &[Value]) -> Vec<Value> {
    let mut out = Vec::new();
    let mut uid_of: HashMap<(i64, i64), i64> = HashMap::new();
    let mut addr_of_node: HashMap<i64, i64> = HashMap::new();
    let cfgx = trace[0]["cfgx"].clone();
    for e in trace {
        let ev = e["ev"].as_str().unwrap_or("");
        let n = e["n"].as_i64().unwrap_or(-1);
        let c = e["c"].as_i64().unwrap_or(-1);
        let t = e["t"].as_i64().unwrap_or(0).min(1 << 30);
        match ev {
            "Reset" => {
                out.push(json!({"ev":"Reset","run":e["run"],"migration":e["migration"] == true,
                    "late":cfgx["late_us"].as_i64().unwrap_or(0)}));
            }
            "Connect" | "Accept" if e["ok"] == true => {
                let uid = e["uid"].as_i64().unwrap_or(-1);
                uid_of.insert((n, c), uid);
                out.push(json!({"ev":"Conn","uid":uid,"srv":n == 0,"peer":e["peer"].as_i64().unwrap_or(0),"p":path(&e["post"])}));
            }
            "Migrate" => {
                addr_of_node.insert(n, e["new"].as_i64().unwrap_or(0));
                out.push(json!({"ev":"Move","n":n,"old":e["old"],"new":e["new"],"t":t}));
            }
            "Rx" if e["kind"] == "conn" => {
                let uid = e["uid"].as_i64().unwrap_or(-1);
                let pre = &e["pre"];
                let post = &e["post"];
                // facts about the 1-RTT packets in the datagram, from the receiver-side decode
                let mut nonprobing = false;
                let mut resp: Vec<Value> = Vec::new();
                let mut chal: Vec<Value> = Vec::new();
                for p in e["pk"].as_array().cloned().unwrap_or_default() {
                    if p["ty"] != "S" {
                        continue;
                    }
                    for f in p["fr"].as_array().cloned().unwrap_or_default() {
                        match f["f"].as_str().unwrap_or("") {
                            "PADDING" | "NEW_CONNECTION_ID" => {}
                            "PATH_CHALLENGE" => chal.push(f["tok"].clone()),
                            "PATH_RESPONSE" => resp.push(f["tok"].clone()),
                            _ => nonprobing = true,
                        }
                    }
                }
                let hs = e["pk"].as_array().is_some_and(|a| a.iter().any(|p| p["ty"] == "H"));
                let authed = post["authed"].as_i64().unwrap_or(0) > pre["authed"].as_i64().unwrap_or(0);
                let hi = post["sp"][2]["rx"].as_i64().unwrap_or(0) > pre["sp"][2]["rx"].as_i64().unwrap_or(0)
                    || (pre["sp"][2]["dd"].as_i64().unwrap_or(0) == 0 && post["sp"][2]["dd"].as_i64().unwrap_or(0) > 0);
                out.push(json!({"ev":"Rx","uid":uid,"srv":n == 0,"t":t,"src":e["src"],"authed":authed,"hi":hi,
                    "nonprobing":nonprobing,"hs":hs,"resp":resp,"chal":chal,"pre":path(pre),"post":path(post),
                    "same":digest(pre) == digest(post),"pto3":pto3(pre, post, t),
                    "closed":post["st"].as_i64().unwrap_or(0) >= 2}));
            }
            "Tx" => {
                let uid = e["uid"].as_i64().unwrap_or(-1);
                let mut chal: Vec<Value> = Vec::new();
                let mut resp = false;
                for d in e["dgs"].as_array().cloned().unwrap_or_default() {
                    for p in d["pkts"].as_array().cloned().unwrap_or_default() {
                        for f in p["fr"].as_array().cloned().unwrap_or_default() {
                            if f["f"] == "PATH_CHALLENGE" {
                                chal.push(f["tok"].clone());
                            }
                            if f["f"] == "PATH_RESPONSE" {
                                resp = true;
                            }
                        }
                    }
                }
                out.push(json!({"ev":"Tx","uid":uid,"srv":n == 0,"t":t,"dst":e["dst"],"chal":chal,"resp":resp,
                    "post":path(&e["post"])}));
            }
            "Timeout" => {
                if let Some(&uid) = uid_of.get(&(n, c)) {
                    out.push(json!({"ev":"Tick","uid":uid,"srv":n == 0,"t":t,"pre":path(&e["pre"]),"post":path(&e["post"])}));
                }
            }
            "End" => {
                let mut conns: Vec<Value> = Vec::new();
                for x in e["conns"].as_array().cloned().unwrap_or_default() {
                    conns.push(json!({"uid":x["uid"].as_i64().unwrap_or(-1),"n":x["n"],"lost":x["lost"].as_i64().unwrap_or(0) > 0,
                        "drained":x["drained"] == true,"rem":x["rem"].as_i64().unwrap_or(0),"val":x["val"] == true,
                        "st":x["st"]}));
                }
                let addrs: Vec<Value> = addr_of_node.iter().map(|(k, v)| json!([k, v])).collect();
                out.push(json!({"ev":"End","t":t,"done":e["apps_done"] == true,"conns":conns,"moved":addrs}));
            }
            _ => {}
        }
    }
    out
}
