pub mod app;
pub mod ops;
pub mod script;
pub mod sim;
pub mod toycrypto;
pub mod wire;
