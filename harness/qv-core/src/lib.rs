pub mod app;
pub mod cc;
pub mod ops;
pub mod proj;
pub mod script;
pub mod sim;
pub mod toycrypto;
pub mod wire;
