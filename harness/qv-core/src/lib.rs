pub mod sim;
pub mod toycrypto;
pub mod wire;
