//! Projection for the key-update specification (KeyTrace): key phase of every 1-RTT packet sent,
//! key phases and acknowledgements that arrived, key-update calls, handshake confirmation.
//! Only runs with exactly one client/server connection pair are projected.
use serde_json::{json, Value};

pub fn keys(trace: &[Value]) -> Vec<Value> {
    let mut out = vec![json!({"ev":"Reset","run":trace[0]["run"]})];
    let conns = trace.iter().filter(|e| (e["ev"] == "Connect" || e["ev"] == "Accept") && e["ok"] == true).count();
    if conns != 2 || trace[0]["clients"].as_i64().unwrap_or(1) != 1 {
        return out;
    }
    for e in trace {
        let ev = e["ev"].as_str().unwrap_or("");
        let n = e["n"].as_i64().unwrap_or(-1);
        if !(0..=1).contains(&n) {
            continue;
        }
        let side = if n == 0 { "s" } else { "c" };
        match ev {
            "Tx" => {
                let mut pk: Vec<Value> = Vec::new();
                for d in e["dgs"].as_array().cloned().unwrap_or_default() {
                    for p in d["pkts"].as_array().cloned().unwrap_or_default() {
                        if p["ty"] == "S" {
                            pk.push(json!({"pn":p["pn"].as_i64().unwrap_or(0).min(1 << 30),"kp":p["kp"] == true}));
                        }
                    }
                }
                if !pk.is_empty() {
                    out.push(json!({"ev":"Sent","side":side,"pk":pk,"conf":e["pre"]["hs"].as_i64().unwrap_or(0) >= 0 && confirmed(&e["pre"], n)}));
                }
            }
            "Rx" if e["kind"] == "conn" => {
                // authenticated 1-RTT packets: phases seen and packet numbers acknowledged
                let authed = e["post"]["authed"].as_i64().unwrap_or(0) - e["pre"]["authed"].as_i64().unwrap_or(0);
                if authed <= 0 || e["damaged"] == true {
                    continue;
                }
                let mut kps: Vec<Value> = Vec::new();
                let mut acked: Vec<Value> = Vec::new();
                let npk = e["pk"].as_array().map_or(0, |a| a.len()) as i64;
                for p in e["pk"].as_array().cloned().unwrap_or_default() {
                    if p["ty"] != "S" {
                        continue;
                    }
                    // only when every packet of the datagram was authenticated is each one known to be
                    if authed >= npk {
                        kps.push(json!(p["kp"] == true));
                        for f in p["fr"].as_array().cloned().unwrap_or_default() {
                            if f["f"] == "ACK" {
                                for r in f["ranges"].as_array().cloned().unwrap_or_default() {
                                    acked.push(json!([r[0].as_i64().unwrap_or(0).min(1 << 30), r[1].as_i64().unwrap_or(0).min(1 << 30)]));
                                }
                            }
                        }
                    }
                }
                if !kps.is_empty() {
                    out.push(json!({"ev":"Got","side":side,"kps":kps,"acked":acked}));
                }
            }
            "Call" if e["op"] == "key_update" => {
                out.push(json!({"ev":"Asked","side":side,"est":e["pre"]["st"] == 1}));
            }
            _ => {}
        }
    }
    out
}

/// handshake confirmed: the server once the handshake is complete, the client once the Handshake
/// keys are gone (HANDSHAKE_DONE processed)
fn confirmed(p: &Value, n: i64) -> bool {
    if p["st"] != 1 {
        return false;
    }
    n == 0 || p["sp"][1]["keys"] != true
}
