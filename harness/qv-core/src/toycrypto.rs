//! Toy crypto provider for driving unmodified quinn-proto through its public `crypto` traits.
//!
//! * payload is left in plaintext, header protection is a no-op (the wire stays readable for the
//!   independent decoder and the harness can act as an authenticated man in the middle)
//! * every packet carries a 16-byte keyed checksum tag over (key id, packet number, header, payload)
//! * a 4-message handshake (CH, SH in Initial; SF, CF in Handshake) carries the real
//!   `TransportParameters::write` bytes of both sides
//! * optional 0-RTT: a "ticket" is the server's remembered transport parameters + a ticket id
use std::{
    any::Any,
    sync::{Arc, Mutex},
};

use bytes::{Buf, BytesMut};
use quinn_proto::{
    crypto::{
        AeadKey, ClientConfig, CryptoError, ExportKeyingMaterialError, HandshakeTokenKey,
        HeaderKey, HmacKey, KeyPair, Keys, PacketKey, ServerConfig, Session, UnsupportedVersion,
    },
    transport_parameters::TransportParameters,
    ConnectError, ConnectionId, Side, TransportError, TransportErrorCode,
};

pub const TAG_LEN: usize = 16;

/// 128-bit keyed checksum (two independent 64-bit mixes). Not cryptographic; collision
/// resistance against *accidental* equality is all that is needed.
pub fn mac(key: u64, parts: &[&[u8]]) -> [u8; 16] {
    let mut a: u64 = key ^ 0x9e37_79b9_7f4a_7c15;
    let mut b: u64 = key.rotate_left(32) ^ 0xc2b2_ae3d_27d4_eb4f;
    for p in parts {
        a = mix(a ^ (p.len() as u64));
        b = mix(b.wrapping_add(p.len() as u64 + 1));
        for &x in *p {
            a = (a ^ x as u64).wrapping_mul(0x0000_0100_0000_01b3);
            b = mix(b ^ ((x as u64) << 7) ^ a);
        }
    }
    a = mix(a);
    b = mix(b ^ a);
    let mut out = [0u8; 16];
    out[..8].copy_from_slice(&a.to_be_bytes());
    out[8..].copy_from_slice(&b.to_be_bytes());
    out
}

pub fn mix(mut z: u64) -> u64 {
    z = z.wrapping_add(0x9e37_79b9_7f4a_7c15);
    z = (z ^ (z >> 30)).wrapping_mul(0xbf58_476d_1ce4_e5b9);
    z = (z ^ (z >> 27)).wrapping_mul(0x94d0_49bb_1331_11eb);
    z ^ (z >> 31)
}

pub fn hash64(parts: &[&[u8]]) -> u64 {
    let m = mac(0x5151_5151, parts);
    u64::from_be_bytes(m[..8].try_into().unwrap())
}

/// Identifies one packet-protection key: (connection secret, level, direction, generation)
#[derive(Clone, Copy, Debug, PartialEq, Eq)]
pub struct KeyId(pub u64);

pub const LVL_INITIAL: u8 = 0;
pub const LVL_ZERO_RTT: u8 = 1;
pub const LVL_HANDSHAKE: u8 = 2;
pub const LVL_ONE_RTT: u8 = 3;

/// dir: 0 = client->server, 1 = server->client
pub fn key_id(secret: u64, level: u8, dir: u8, generation: u32) -> KeyId {
    KeyId(mix(
        secret ^ ((level as u64) << 56) ^ ((dir as u64) << 48) ^ (generation as u64)
    ))
}

pub fn initial_secret(dst_cid: &[u8]) -> u64 {
    hash64(&[b"initial", dst_cid])
}

pub fn packet_tag(key: KeyId, pn: u64, header: &[u8], payload: &[u8]) -> [u8; 16] {
    mac(key.0, &[&pn.to_be_bytes(), header, payload])
}

pub struct ToyPacketKey {
    pub id: KeyId,
}

impl PacketKey for ToyPacketKey {
    fn encrypt(&self, packet: u64, buf: &mut [u8], header_len: usize) {
        let (header, rest) = buf.split_at_mut(header_len);
        let plen = rest.len() - TAG_LEN;
        let (payload, tag) = rest.split_at_mut(plen);
        tag.copy_from_slice(&packet_tag(self.id, packet, header, payload));
    }
    fn decrypt(
        &self,
        packet: u64,
        header: &[u8],
        payload: &mut BytesMut,
    ) -> Result<(), CryptoError> {
        if payload.len() < TAG_LEN {
            return Err(CryptoError);
        }
        let plen = payload.len() - TAG_LEN;
        let expect = packet_tag(self.id, packet, header, &payload[..plen]);
        if payload[plen..] != expect {
            return Err(CryptoError);
        }
        payload.truncate(plen);
        Ok(())
    }
    fn tag_len(&self) -> usize {
        TAG_LEN
    }
    fn confidentiality_limit(&self) -> u64 {
        CONF_LIMIT.load(std::sync::atomic::Ordering::Relaxed)
    }
    fn integrity_limit(&self) -> u64 {
        INTEG_LIMIT.load(std::sync::atomic::Ordering::Relaxed)
    }
}

pub static CONF_LIMIT: std::sync::atomic::AtomicU64 = std::sync::atomic::AtomicU64::new(1 << 23);
pub static INTEG_LIMIT: std::sync::atomic::AtomicU64 = std::sync::atomic::AtomicU64::new(1 << 52);

pub struct ToyHeaderKey;
impl HeaderKey for ToyHeaderKey {
    // no protection is applied, but like every real provider this one reads the sample its caller
    // has to guarantee: 16 bytes starting 4 bytes behind the packet number offset
    fn decrypt(&self, pn_offset: usize, packet: &mut [u8]) {
        let _sample = &packet[pn_offset + 4..pn_offset + 4 + 16];
    }
    fn encrypt(&self, pn_offset: usize, packet: &mut [u8]) {
        let _sample = &packet[pn_offset + 4..pn_offset + 4 + 16];
    }
    fn sample_size(&self) -> usize {
        16
    }
}

fn keys_for(secret: u64, level: u8, side: Side, generation: u32) -> Keys {
    let (l, r) = match side {
        Side::Client => (0, 1),
        Side::Server => (1, 0),
    };
    Keys {
        header: KeyPair {
            local: Box::new(ToyHeaderKey),
            remote: Box::new(ToyHeaderKey),
        },
        packet: KeyPair {
            local: Box::new(ToyPacketKey {
                id: key_id(secret, level, l, generation),
            }),
            remote: Box::new(ToyPacketKey {
                id: key_id(secret, level, r, generation),
            }),
        },
    }
}

// ---------------------------------------------------------------------------------------------
// handshake messages

const M_CH: u8 = 1;
const M_SH: u8 = 2;
const M_SF: u8 = 3;
const M_CF: u8 = 4;

fn put_msg(out: &mut Vec<u8>, ty: u8, body: &[u8]) {
    out.push(ty);
    out.extend_from_slice(&(body.len() as u32).to_be_bytes());
    out.extend_from_slice(body);
}

/// How the harness may tamper with the transport parameters a session presents
pub type ParamHook = Arc<dyn Fn(Vec<u8>) -> Vec<u8> + Send + Sync>;

#[derive(Clone)]
pub struct Ticket {
    pub id: u64,
    /// server transport parameters (encoded) remembered from an earlier connection
    pub params: Vec<u8>,
}

pub struct ToyClientConfig {
    /// total size of the client hello (padding added); 0 = minimal
    pub ch_size: usize,
    /// total size of the client's Handshake flight ("client certificate"); 0 = minimal
    pub cf_size: usize,
    pub ticket: Option<Ticket>,
    pub param_hook: Option<ParamHook>,
    /// filled with the shared secret of each started session (for the MITM)
    pub secrets: Arc<Mutex<Vec<u64>>>,
    pub nonce: Mutex<u64>,
    pub alpn: Vec<u8>,
}

impl ToyClientConfig {
    pub fn new(seed: u64) -> Self {
        Self {
            ch_size: 0,
            cf_size: 0,
            ticket: None,
            param_hook: None,
            secrets: Arc::new(Mutex::new(Vec::new())),
            nonce: Mutex::new(seed),
            alpn: b"qv".to_vec(),
        }
    }
}

pub struct ToyServerConfig {
    /// total size of the server's Handshake flight ("certificate chain size")
    pub sf_size: usize,
    pub accept_early: bool,
    pub param_hook: Option<ParamHook>,
    pub nonce: Mutex<u64>,
    pub alpn: Vec<u8>,
}

impl ToyServerConfig {
    pub fn new(seed: u64) -> Self {
        Self {
            sf_size: 0,
            accept_early: false,
            param_hook: None,
            nonce: Mutex::new(seed ^ 0xabcdef),
            alpn: b"qv".to_vec(),
        }
    }
}

impl ClientConfig for ToyClientConfig {
    fn start_session(
        self: Arc<Self>,
        _version: u32,
        _server_name: &str,
        params: &TransportParameters,
    ) -> Result<Box<dyn Session>, ConnectError> {
        let mut p = Vec::new();
        params.write(&mut p);
        if let Some(h) = &self.param_hook {
            p = h(p);
        }
        let crand = {
            let mut n = self.nonce.lock().unwrap();
            *n = mix(*n);
            *n
        };
        Ok(Box::new(ToySession {
            side: Side::Client,
            state: 0,
            inbuf: Vec::new(),
            my_params: p,
            peer_params: self.ticket.as_ref().map(|t| t.params.clone()),
            crand,
            srand: 0,
            ticket: self.ticket.as_ref().map(|t| t.id),
            early_accepted: None,
            pad_to: self.ch_size,
            pad_cf: self.cf_size,
            gen: 0,
            accept_early: false,
            pending_keys: Vec::new(),
            data_ready_reported: false,
            secrets: Some(self.secrets.clone()),
            alpn: self.alpn.clone(),
            peer_alpn: Vec::new(),
        }))
    }
}

impl ServerConfig for ToyServerConfig {
    fn initial_keys(
        &self,
        version: u32,
        dst_cid: ConnectionId,
    ) -> Result<Keys, UnsupportedVersion> {
        if version != 1 && !(0xff00_001d..=0xff00_0022).contains(&version) {
            return Err(UnsupportedVersion);
        }
        Ok(keys_for(
            initial_secret(&dst_cid),
            LVL_INITIAL,
            Side::Server,
            0,
        ))
    }

    fn retry_tag(&self, _version: u32, orig_dst_cid: ConnectionId, packet: &[u8]) -> [u8; 16] {
        retry_tag(&orig_dst_cid, packet)
    }

    fn start_session(
        self: Arc<Self>,
        _version: u32,
        params: &TransportParameters,
    ) -> Box<dyn Session> {
        let mut p = Vec::new();
        params.write(&mut p);
        if let Some(h) = &self.param_hook {
            p = h(p);
        }
        let srand = {
            let mut n = self.nonce.lock().unwrap();
            *n = mix(*n);
            *n
        };
        Box::new(ToySession {
            side: Side::Server,
            state: 0,
            inbuf: Vec::new(),
            my_params: p,
            peer_params: None,
            crand: 0,
            srand,
            ticket: None,
            early_accepted: None,
            pad_to: self.sf_size,
            pad_cf: 0,
            gen: 0,
            accept_early: self.accept_early,
            pending_keys: Vec::new(),
            data_ready_reported: false,
            secrets: None,
            alpn: self.alpn.clone(),
            peer_alpn: Vec::new(),
        })
    }
}

pub fn retry_tag(orig_dst_cid: &[u8], packet: &[u8]) -> [u8; 16] {
    mac(0x7e77, &[orig_dst_cid, packet])
}

pub struct ToySession {
    side: Side,
    /// client: 0 start, 1 CH sent, 2 SH read, 3 SF read (CF to write), 4 done
    /// server: 0 start, 1 CH read (SH,SF to write), 2 SH written, 3 SF written, 4 CF read
    state: u8,
    inbuf: Vec<u8>,
    my_params: Vec<u8>,
    peer_params: Option<Vec<u8>>,
    crand: u64,
    srand: u64,
    ticket: Option<u64>,
    early_accepted: Option<bool>,
    pad_to: usize,
    pad_cf: usize,
    gen: u32,
    accept_early: bool,
    pending_keys: Vec<u8>,
    data_ready_reported: bool,
    secrets: Option<Arc<Mutex<Vec<u64>>>>,
    alpn: Vec<u8>,
    peer_alpn: Vec<u8>,
}

impl ToySession {
    fn secret(&self) -> u64 {
        mix(self.crand ^ mix(self.srand))
    }
    fn early_secret(ticket: u64) -> u64 {
        mix(ticket ^ 0xea51_7)
    }

    fn on_msg(&mut self, ty: u8, body: &[u8]) -> Result<bool, TransportError> {
        let bad = |s: &str| {
            TransportError::new(TransportErrorCode::crypto(0x0a), s.to_owned()) // unexpected_message
        };
        match (self.side, ty, self.state) {
            (Side::Server, M_CH, 0) => {
                // body: crand(8) ticket_flag(1) ticket(8) alpn_len(1) alpn plen(u32) params pad
                let mut b = body;
                if b.len() < 8 + 1 + 8 + 1 {
                    return Err(bad("short CH"));
                }
                self.crand = b.get_u64();
                let tf = b.get_u8();
                let t = b.get_u64();
                let al = b.get_u8() as usize;
                if b.len() < al + 4 {
                    return Err(bad("short CH"));
                }
                self.peer_alpn = b[..al].to_vec();
                b.advance(al);
                let pl = b.get_u32() as usize;
                if b.len() < pl {
                    return Err(bad("short CH"));
                }
                self.peer_params = Some(b[..pl].to_vec());
                if self.peer_alpn != self.alpn {
                    // no_application_protocol
                    return Err(TransportError::new(
                        TransportErrorCode::crypto(120),
                        "alpn mismatch".to_owned(),
                    ));
                }
                if tf == 1 {
                    self.ticket = Some(t);
                    self.early_accepted = Some(self.accept_early);
                }
                self.state = 1;
                self.data_ready_reported = true;
                Ok(true)
            }
            (Side::Client, M_SH, 1) => {
                if body.len() < 8 {
                    return Err(bad("short SH"));
                }
                self.srand = u64::from_be_bytes(body[..8].try_into().unwrap());
                if let Some(s) = &self.secrets {
                    s.lock().unwrap().push(self.secret());
                }
                self.state = 2;
                self.pending_keys.push(LVL_HANDSHAKE);
                Ok(false)
            }
            (Side::Client, M_SF, 2) => {
                // body: early_accepted(1) plen(u32) params pad
                let mut b = body;
                if b.len() < 5 {
                    return Err(bad("short SF"));
                }
                let ea = b.get_u8();
                let pl = b.get_u32() as usize;
                if b.len() < pl {
                    return Err(bad("short SF"));
                }
                self.peer_params = Some(b[..pl].to_vec());
                if self.ticket.is_some() {
                    self.early_accepted = Some(ea == 1);
                }
                self.state = 3;
                self.data_ready_reported = true;
                Ok(true)
            }
            (Side::Server, M_CF, 3) => {
                self.state = 4;
                Ok(false)
            }
            _ => Err(bad("unexpected handshake message")),
        }
    }
}

impl Session for ToySession {
    fn initial_keys(&self, dst_cid: ConnectionId, side: Side) -> Keys {
        keys_for(initial_secret(&dst_cid), LVL_INITIAL, side, 0)
    }

    fn handshake_data(&self) -> Option<Box<dyn Any>> {
        if self.data_ready_reported {
            Some(Box::new(self.peer_alpn.clone()))
        } else {
            None
        }
    }

    fn peer_identity(&self) -> Option<Box<dyn Any>> {
        None
    }

    fn early_crypto(&self) -> Option<(Box<dyn HeaderKey>, Box<dyn PacketKey>)> {
        match self.side {
            Side::Client => {
                let t = self.ticket?;
                if self.state >= 3 {
                    return None;
                }
                Some((
                    Box::new(ToyHeaderKey),
                    Box::new(ToyPacketKey {
                        id: key_id(Self::early_secret(t), LVL_ZERO_RTT, 0, 0),
                    }),
                ))
            }
            Side::Server => {
                let t = self.ticket?;
                if self.early_accepted != Some(true) {
                    return None;
                }
                Some((
                    Box::new(ToyHeaderKey),
                    Box::new(ToyPacketKey {
                        id: key_id(Self::early_secret(t), LVL_ZERO_RTT, 0, 0),
                    }),
                ))
            }
        }
    }

    fn early_data_accepted(&self) -> Option<bool> {
        self.early_accepted
    }

    fn is_handshaking(&self) -> bool {
        match self.side {
            Side::Client => self.state < 3,
            Side::Server => self.state < 4,
        }
    }

    fn read_handshake(&mut self, buf: &[u8]) -> Result<bool, TransportError> {
        self.inbuf.extend_from_slice(buf);
        let mut ready = false;
        loop {
            if self.inbuf.len() < 5 {
                break;
            }
            let ty = self.inbuf[0];
            let len = u32::from_be_bytes(self.inbuf[1..5].try_into().unwrap()) as usize;
            if len > 1 << 20 {
                return Err(TransportError::new(
                    TransportErrorCode::crypto(0x32),
                    "oversized handshake message".to_owned(),
                ));
            }
            if self.inbuf.len() < 5 + len {
                break;
            }
            let body: Vec<u8> = self.inbuf[5..5 + len].to_vec();
            self.inbuf.drain(..5 + len);
            ready |= self.on_msg(ty, &body)?;
        }
        Ok(ready)
    }

    fn transport_parameters(&self) -> Result<Option<TransportParameters>, TransportError> {
        match &self.peer_params {
            None => Ok(None),
            Some(p) => {
                match TransportParameters::read(self.side, &mut &p[..]) {
                    Ok(p) => Ok(Some(p)),
                    Err(e) => Err(e.into()),
                }
            }
        }
    }

    fn write_handshake(&mut self, buf: &mut Vec<u8>) -> Option<Keys> {
        match (self.side, self.state) {
            (Side::Client, 0) => {
                let mut body = Vec::new();
                body.extend_from_slice(&self.crand.to_be_bytes());
                body.push(self.ticket.is_some() as u8);
                body.extend_from_slice(&self.ticket.unwrap_or(0).to_be_bytes());
                body.push(self.alpn.len() as u8);
                body.extend_from_slice(&self.alpn);
                body.extend_from_slice(&(self.my_params.len() as u32).to_be_bytes());
                body.extend_from_slice(&self.my_params);
                while body.len() + 5 < self.pad_to {
                    body.push(0);
                }
                put_msg(buf, M_CH, &body);
                self.state = 1;
                None
            }
            (Side::Client, 2) if !self.pending_keys.is_empty() => {
                self.pending_keys.clear();
                Some(keys_for(self.secret(), LVL_HANDSHAKE, self.side, 0))
            }
            (Side::Client, 3) => {
                put_msg(buf, M_CF, &vec![0u8; self.pad_cf.saturating_sub(5)]);
                self.state = 4;
                Some(keys_for(self.secret(), LVL_ONE_RTT, self.side, 0))
            }
            (Side::Server, 1) => {
                put_msg(buf, M_SH, &self.srand.to_be_bytes());
                self.state = 2;
                Some(keys_for(self.secret(), LVL_HANDSHAKE, self.side, 0))
            }
            (Side::Server, 2) => {
                let mut body = Vec::new();
                body.push((self.early_accepted == Some(true)) as u8);
                body.extend_from_slice(&(self.my_params.len() as u32).to_be_bytes());
                body.extend_from_slice(&self.my_params);
                while body.len() + 5 < self.pad_to {
                    body.push(0);
                }
                put_msg(buf, M_SF, &body);
                self.state = 3;
                Some(keys_for(self.secret(), LVL_ONE_RTT, self.side, 0))
            }
            _ => None,
        }
    }

    fn next_1rtt_keys(&mut self) -> Option<KeyPair<Box<dyn PacketKey>>> {
        self.gen += 1;
        let k = keys_for(self.secret(), LVL_ONE_RTT, self.side, self.gen);
        Some(k.packet)
    }

    fn is_valid_retry(&self, orig_dst_cid: ConnectionId, header: &[u8], payload: &[u8]) -> bool {
        let Some(tag_start) = payload.len().checked_sub(16) else {
            return false;
        };
        let mut pkt = header.to_vec();
        pkt.extend_from_slice(&payload[..tag_start]);
        retry_tag(&orig_dst_cid, &pkt) == payload[tag_start..]
    }

    fn export_keying_material(
        &self,
        output: &mut [u8],
        label: &[u8],
        context: &[u8],
    ) -> Result<(), ExportKeyingMaterialError> {
        let m = mac(self.secret(), &[label, context]);
        for (i, o) in output.iter_mut().enumerate() {
            *o = m[i % 16];
        }
        Ok(())
    }
}

// ---------------------------------------------------------------------------------------------
// endpoint-level keys

pub struct ToyHmacKey(pub u64);
impl HmacKey for ToyHmacKey {
    fn sign(&self, data: &[u8], signature_out: &mut [u8]) {
        let m1 = mac(self.0, &[data]);
        let m2 = mac(self.0 ^ 0x55, &[data]);
        signature_out[..16].copy_from_slice(&m1);
        signature_out[16..32].copy_from_slice(&m2);
    }
    fn signature_len(&self) -> usize {
        32
    }
    fn verify(&self, data: &[u8], signature: &[u8]) -> Result<(), CryptoError> {
        let mut s = [0u8; 32];
        self.sign(data, &mut s);
        if signature == s {
            Ok(())
        } else {
            Err(CryptoError)
        }
    }
}

pub struct ToyTokenKey(pub u64);
impl HandshakeTokenKey for ToyTokenKey {
    fn aead_from_hkdf(&self, random_bytes: &[u8]) -> Box<dyn AeadKey> {
        Box::new(ToyAead(hash64(&[&self.0.to_be_bytes(), random_bytes])))
    }
}

pub struct ToyAead(pub u64);
impl AeadKey for ToyAead {
    fn seal(&self, data: &mut Vec<u8>, additional_data: &[u8]) -> Result<(), CryptoError> {
        let t = mac(self.0, &[data, additional_data]);
        data.extend_from_slice(&t);
        Ok(())
    }
    fn open<'a>(
        &self,
        data: &'a mut [u8],
        additional_data: &[u8],
    ) -> Result<&'a mut [u8], CryptoError> {
        if data.len() < 16 {
            return Err(CryptoError);
        }
        let n = data.len() - 16;
        let t = mac(self.0, &[&data[..n], additional_data]);
        if data[n..] != t {
            return Err(CryptoError);
        }
        Ok(&mut data[..n])
    }
}
