//! Projection for C14 (validation tokens and Retry): which tokens the server issued (to whom, when),
//! which token every connection-creating Initial carried (from where, when) and what the endpoint
//! made of it, what each client did with Retry packets, the connection IDs echoed in the server's
//! transport parameters, and the calls into the client token store. Judgements are in TokensTrace.
use serde_json::{json, Value};
use std::collections::HashMap;

const CLAMP: i64 = 1 << 29;

fn unhex(h: &str) -> Vec<u8> {
    (0..h.len() / 2)
        .map(|i| u8::from_str_radix(&h[2 * i..2 * i + 2], 16).unwrap_or(0))
        .collect()
}

fn s(v: &Value) -> String {
    v.as_str().unwrap_or("").to_string()
}

pub fn tokens(trace: &[Value]) -> Vec<Value> {
    let mut out: Vec<Value> = Vec::new();
    // uid -> (node, is client)
    let mut node_of: HashMap<i64, i64> = HashMap::new();
    // client uid -> original destination CID (first Initial), own source CID
    let mut odcid: HashMap<i64, String> = HashMap::new();
    // client uid -> destination CID of its latest Initial (what a Retry answering it is tagged with)
    let mut cur_dcid: HashMap<i64, String> = HashMap::new();
    // server uid -> first source CID seen on the wire
    let mut sscid: HashMap<i64, bool> = HashMap::new();
    // dcid of the last connection-creating Initial (for the Retry issue record)
    let mut last_present_dcid = String::new();
    // datagram id -> (close code, why) of the stateless response it incited
    let mut resp_of: HashMap<i64, (i64, String)> = HashMap::new();
    for e in trace {
        if e["ev"] == "Resp" {
            let id = e["incite_id"].as_i64().unwrap_or(-1);
            let mut code = -1;
            for p in e["pkts"].as_array().cloned().unwrap_or_default() {
                for f in p["fr"].as_array().cloned().unwrap_or_default() {
                    if f["f"] == "CONNECTION_CLOSE" {
                        code = f["code"].as_i64().unwrap_or(-1);
                    }
                }
            }
            resp_of.entry(id).or_insert((code, s(&e["why"])));
        }
    }
    let mut pending_log: Vec<Value> = Vec::new();
    let mut tpedit = false;
    for e in trace {
        let ev = e["ev"].as_str().unwrap_or("");
        let n = e["n"].as_i64().unwrap_or(-1);
        let t = e["t"].as_i64().unwrap_or(0).min(CLAMP);
        match ev {
            "Reset" => {
                let cx = &e["cfgx"];
                let rlife = cx["retry_token_lifetime_ms"].as_i64().unwrap_or(15_000).saturating_mul(1000).min(CLAMP);
                let vlife = cx["validation_token_lifetime_ms"].as_i64().unwrap_or(1_209_600_000).saturating_mul(1000).min(CLAMP);
                let log = s(&cx["token_log"]);
                // "exact": a set-backed BloomTokenLog (no hash false positives), "lossy": tiny bloom
                // filters, "none": NoneTokenLog, "unlogged": calls into the log are not recorded
                let logmode = if log.is_empty() {
                    "unlogged"
                } else if log.starts_with("none") {
                    "none"
                } else if log.starts_with("bloom:") && log.split(':').nth(1).and_then(|x| x.parse::<u64>().ok()).unwrap_or(1 << 20) < 4096 {
                    "lossy"
                } else {
                    "exact"
                };
                let store = s(&cx["token_store"]);
                let cap = |i: usize, d: i64| store.split(':').nth(i).and_then(|x| x.parse::<i64>().ok()).unwrap_or(d).min(1 << 20);
                tpedit = cx["server_tp"].as_array().is_some_and(|a| !a.is_empty());
                out.push(json!({"ev":"Reset","run":e["run"],"kind":"conn","rlife":rlife,"vlife":vlife,
                    "logmode":logmode,"tpedit":tpedit,"policy":e["incoming"],
                    "store":!s(&cx["token_store"]).is_empty(),
                    "servers":cap(1, 256),"per":cap(2, 2)}));
            }
            "Connect" if e["ok"] == true => {
                let uid = e["uid"].as_i64().unwrap_or(-1);
                node_of.insert(uid, n);
                out.push(json!({"ev":"CConn","t":t,"uid":uid,"n":n}));
            }
            "TokTake" | "TokInsert" => {
                out.push(json!({"ev":if ev == "TokTake" { "StoreTake" } else { "StoreIns" },"t":t,
                    "uid":e["uid"].as_i64().unwrap_or(-1),"tok":e["tok"],"forced":e["forced"].as_bool().unwrap_or(false)}));
            }
            "TokLog" => pending_log.push(e.clone()),
            "TokMint" => {
                out.push(json!({"ev":"Issue","t":e["at_us"].as_i64().unwrap_or(0).min(CLAMP),"kind":e["kind"],"src":"mint",
                    "tok":e["tok"],"addr":e["addr"],"odcid":e["odcid"],"own":e["own"]}));
            }
            "Resp" if e["why"] == "retry" => {
                let p = &e["pkts"][0];
                out.push(json!({"ev":"Issue","t":t,"kind":"retry","src":"server","tok":p["tokh"],"addr":e["dst"],
                    "odcid":last_present_dcid.clone(),"own":true,"rscid":p["scid"]}));
            }
            "Tx" => {
                let uid = e["uid"].as_i64().unwrap_or(-1);
                for d in e["dgs"].as_array().cloned().unwrap_or_default() {
                    for p in d["pkts"].as_array().cloned().unwrap_or_default() {
                        if n == 0 {
                            for f in p["fr"].as_array().cloned().unwrap_or_default() {
                                if f["f"] == "NEW_TOKEN" {
                                    out.push(json!({"ev":"Issue","t":t,"kind":"new","src":"server","tok":f["tok"],
                                        "addr":e["dst"],"odcid":"","own":true,"rscid":""}));
                                }
                            }
                            if !s(&p["scid"]).is_empty() && !sscid.contains_key(&uid) {
                                sscid.insert(uid, true);
                                out.push(json!({"ev":"SScid","uid":uid,"scid":p["scid"]}));
                            }
                        } else if p["ty"] == "I" {
                            odcid.entry(uid).or_insert_with(|| s(&p["dcid"]));
                            cur_dcid.insert(uid, s(&p["dcid"]));
                            out.push(json!({"ev":"CInit","t":t,"uid":uid,"dcid":p["dcid"],"scid":p["scid"],"tok":p["tokh"]}));
                        }
                    }
                }
            }
            "Rx" if n == 0 => {
                let kind = s(&e["kind"]);
                let p0 = &e["pk"][0];
                let logn = pending_log.len();
                let logok = pending_log.iter().all(|l| l["ok"] == true);
                pending_log.clear();
                if p0["ty"] != "I" || kind == "conn" || kind == "stale" || kind == "noroute" {
                    if logn > 0 {
                        // the token log was consulted although no Initial was being admitted
                        out.push(json!({"ev":"StrayLog","t":t,"n":logn}));
                    }
                    continue;
                }
                let id = e["id"].as_i64().unwrap_or(-1);
                let (res, code) = match kind.as_str() {
                    "new" => ("new", -1),
                    "resp" => {
                        let (code, _) = resp_of.get(&id).cloned().unwrap_or((-1, String::new()));
                        (if code == 11 { "invalid" } else { "closed" }, code)
                    }
                    _ => ("none", -1),
                };
                last_present_dcid = s(&p0["dcid"]);
                out.push(json!({"ev":"Present","t":t,"id":id,"src":e["src"],"tok":p0["tokh"],"dcid":p0["dcid"],
                    "scid":p0["scid"],"res":res,"code":code,"validated":e["validated"].as_bool().unwrap_or(false),
                    "may_retry":e["may_retry"].as_bool().unwrap_or(false),"logn":logn,"logok":logok,
                    "size":e["size"],"damaged":e["damaged"],"suid":e["suid"]}));
            }
            "Accept" if n == 0 => {
                if e["ok"] == true {
                    node_of.insert(e["uid"].as_i64().unwrap_or(-1), 0);
                }
                // transport parameters follow in the next TP line of node 0; emitted there
                out.push(json!({"ev":"Accept","t":t,"ok":e["ok"],"uid":e["uid"].as_i64().unwrap_or(-1),
                    "puid":e["puid"].as_i64().unwrap_or(-1),"err":s(&e["err"]).chars().take(80).collect::<String>()}));
            }
            "TP" if n == 0 => {
                let g = |k: &str| e.get(k).map_or("-".to_string(), s);
                out.push(json!({"ev":"STP","odcid":g("odcid"),"iscid":g("iscid"),"rscid":g("rscid")}));
            }
            "Rx" if n > 0 && e["kind"] == "conn" => {
                let uid = e["uid"].as_i64().unwrap_or(-1);
                if let Some(raw) = e["retry_raw"].as_str() {
                    let raw = unhex(raw);
                    let p0 = &e["pk"][0];
                    let od = unhex(cur_dcid.get(&uid).map_or("", |x| x.as_str()));
                    let tagok = crate::tokens::retry_tag_ok(&od, &raw);
                    let pre = &e["pre"]["sp"][0];
                    let post = &e["post"]["sp"][0];
                    let reinit = post["pcrypto"].as_i64().unwrap_or(0) > pre["pcrypto"].as_i64().unwrap_or(0)
                        || post["nsent"].as_i64().unwrap_or(0) < pre["nsent"].as_i64().unwrap_or(0);
                    out.push(json!({"ev":"CRetry","t":t,"uid":uid,"tagok":tagok,"toklen":p0["tok"],"tok":p0["tokh"],
                        "scid":p0["scid"],"reinit":reinit,"hs":e["pre"]["st"].as_i64().unwrap_or(-1) == 0,
                        "cls":e["cls"]}));
                } else if e["pre"]["st"].as_i64().unwrap_or(-1) == 0 {
                    // (handshaking clients only) intact genuine packets by space; anything else is
                    // junk to the connection
                    let ipk = e["ipk"].as_array().cloned().unwrap_or_default();
                    let init = ipk.iter().filter(|p| p["ty"] == "P" && p["sp"] == 0).count();
                    out.push(json!({"ev":"CRx","t":t,"uid":uid,"init":init,"pk":ipk.iter().filter(|p| p["ty"] == "P").count(),
                        "vn":e["first"].as_i64().unwrap_or(0) & 0x80 != 0 && ipk.iter().all(|p| p["ty"] == "V") && e["cls"] != "gen"}));
                }
            }
            "AppEvent" if n > 0 => {
                let uid = e["uid"].as_i64().unwrap_or(-1);
                let k = s(&e["e"]["k"]);
                if k == "Connected" {
                    out.push(json!({"ev":"CEnd","t":t,"uid":uid,"ok":true,"k":"Connected","code":-1}));
                } else if k == "ConnectionLost" {
                    out.push(json!({"ev":"CEnd","t":t,"uid":uid,"ok":false,"k":e["e"]["reason"]["k"],
                        "code":e["e"]["reason"]["code"].as_i64().unwrap_or(-1).min(CLAMP)}));
                }
            }
            "StepBound" if e["what"] == "max_trace" => {}
            "Panic" | "StepBound" => out.push(json!({"ev":"Panic","t":t,"what":e["what"]})),
            _ => {}
        }
    }
    let _ = (tpedit, node_of);
    out
}
