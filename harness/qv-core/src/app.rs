//! Event-driven applications: act only on the events the connection reports.
//!
//! {"do":"app","n":1,"c":0,"streams":[{"dir":0,"size":5000,"chunk":1200,"finish":true}],
//!  "read_max":65536,"ordered":true,"dgrams":3,"dgram_size":100}
//! A peer application (reader) is attached automatically to every connection of every node:
//! it accepts and reads whatever the peer opens, and echoes nothing.
use std::collections::BTreeMap;

use serde_json::{json, Value};

use crate::{ops::key_for, sim::World};

#[derive(Debug, Clone)]
struct OutStream {
    dir: u64,
    size: u64,
    chunk: u64,
    finish: bool,
    id: Option<u64>,
    written: u64,
    finished_called: bool,
    finished_event: bool,
    stopped: bool,
    key: u64,
}

#[derive(Debug, Clone, Default)]
struct InStream {
    got: u64,
    done: bool,
    reads: u64,
}

#[derive(Debug, Default)]
struct ConnApp {
    out: Vec<OutStream>,
    inn: BTreeMap<u64, InStream>,
    read_max: usize,
    ordered: bool,
    connected: bool,
    lost: bool,
    active_writer: bool,
    dgrams_to_send: u64,
    dgram_size: u64,
    dgrams_sent: u64,
    dgrams_got: u64,
    reader: bool,
    /// identity of the connection this state belongs to (handles are reused)
    uid: Option<i64>,
    /// after this many ordered reads of a stream the reader switches to unordered reads (0: never)
    unordered_after: u64,
    /// sizes used round-robin (empty: `dgram_size`), drop flag, skip datagrams refused for good
    dgram_sizes: Vec<u64>,
    dgram_drop: bool,
    dgram_skip: bool,
    dgram_base: u64,
}

#[derive(Default)]
pub struct Apps {
    conns: BTreeMap<(usize, usize), ConnApp>,
    /// attach passive readers to all connections
    pub readers: bool,
    /// readers answer on every bidirectional stream the peer opens: (bytes, chunk)
    pub echo: Option<(u64, u64)>,
    /// readers leave received datagrams in the connection's buffer ("dgram_read":false)
    pub no_dgram_read: bool,
}

impl Apps {
    pub fn start(&mut self, w: &mut World, s: &Value) {
        let n = s["n"].as_u64().unwrap_or(1) as usize;
        let c = s["c"].as_u64().unwrap_or(0) as usize;
        let a = self.conns.entry((n, c)).or_default();
        a.read_max = s["read_max"].as_u64().unwrap_or(1 << 20) as usize;
        a.ordered = s["ordered"].as_bool().unwrap_or(true);
        a.unordered_after = s["unordered_after"].as_u64().unwrap_or(0);
        a.active_writer = true;
        a.reader = true;
        a.dgrams_to_send = s["dgrams"].as_u64().unwrap_or(0);
        a.dgram_size = s["dgram_size"].as_u64().unwrap_or(100);
        a.dgram_sizes = s["dgram_sizes"]
            .as_array()
            .map(|l| l.iter().filter_map(|x| x.as_u64()).collect())
            .unwrap_or_default();
        a.dgram_drop = s["dgram_drop"].as_bool().unwrap_or(false);
        a.dgram_skip = s["dgram_skip"].as_bool().unwrap_or(false);
        a.dgram_base = s["dgram_base"].as_u64().unwrap_or(0);
        if s["dgram_read"].as_bool() == Some(false) {
            self.no_dgram_read = true;
        }
        if let Some(list) = s["streams"].as_array() {
            for st in list {
                a.out.push(OutStream {
                    dir: st["dir"].as_u64().unwrap_or(0),
                    size: st["size"].as_u64().unwrap_or(1000),
                    chunk: st["chunk"].as_u64().unwrap_or(1 << 20),
                    finish: st["finish"].as_bool().unwrap_or(true),
                    id: None,
                    written: 0,
                    finished_called: false,
                    finished_event: false,
                    stopped: false,
                    key: 0,
                });
            }
        }
        self.readers = true;
        if let Some(e) = s["echo"].as_u64() {
            self.echo = Some((e, s["echo_chunk"].as_u64().unwrap_or(1 << 20)));
        }
        if s["echo_off"] == true {
            self.echo = None;
        }
        // the handshake may already be complete
        if w.nodes[n]
            .conns
            .get(&c)
            .is_some_and(|s| !s.conn.is_handshaking() && !s.conn.is_closed())
        {
            self.conns.get_mut(&(n, c)).unwrap().connected = true;
            self.pump_writer(w, n, c);
        }
    }

    pub fn tick(&mut self, w: &mut World) {
        if !self.readers && self.conns.is_empty() {
            return;
        }
        let keys: Vec<(usize, usize)> = w
            .nodes
            .iter()
            .flat_map(|n| n.conns.keys().map(move |c| (n.idx, *c)))
            .collect();
        for (n, c) in keys {
            let uid = w.nodes[n].conns[&c].uid;
            match self.conns.get_mut(&(n, c)) {
                // state left behind by an earlier connection under the same handle
                Some(a) if a.uid.is_some_and(|u| u != uid) => {
                    self.conns.remove(&(n, c));
                }
                Some(a) => a.uid = Some(uid),
                None => {}
            }
            if !self.conns.contains_key(&(n, c)) {
                if !self.readers {
                    continue;
                }
                let a = self.conns.entry((n, c)).or_default();
                a.read_max = 1 << 20;
                a.ordered = true;
                a.reader = true;
                a.uid = Some(uid);
            }
            let evs = w.take_app_events(n, c);
            if evs.is_empty() {
                continue;
            }
            for e in evs {
                self.on_event(w, n, c, &e);
            }
        }
    }

    fn on_event(&mut self, w: &mut World, n: usize, c: usize, e: &Value) {
        let k = e["k"].as_str().unwrap_or("");
        let reader = self.conns[&(n, c)].reader;
        match k {
            "Connected" => {
                self.conns.get_mut(&(n, c)).unwrap().connected = true;
                self.pump_writer(w, n, c);
            }
            "ConnectionLost" => {
                self.conns.get_mut(&(n, c)).unwrap().lost = true;
            }
            "Opened" if reader => {
                let dir = e["dir"].as_u64().unwrap_or(0);
                loop {
                    let r = w.op(n, c, &json!({"op":"accept","dir":dir}));
                    if r["res"]["k"] != "Some" {
                        break;
                    }
                    let id = r["res"]["id"].as_u64().unwrap();
                    self.conns
                        .get_mut(&(n, c))
                        .unwrap()
                        .inn
                        .insert(id, InStream::default());
                    if let (0, Some((size, chunk))) = (dir, self.echo) {
                        // answer on the peer's bidirectional stream
                        let key = key_for(w, n, id);
                        let a = self.conns.get_mut(&(n, c)).unwrap();
                        a.out.push(OutStream { dir: 0, size, chunk, finish: true, id: Some(id), written: 0,
                            finished_called: false, finished_event: false, stopped: false, key });
                        a.active_writer = true;
                        a.connected = true;
                    }
                    self.read(w, n, c, id);
                }
                if self.echo.is_some() {
                    self.pump_writer(w, n, c);
                }
                w.after_input(n, c);
            }
            "Readable" if reader => {
                let id = e["id"].as_u64().unwrap();
                self.conns
                    .get_mut(&(n, c))
                    .unwrap()
                    .inn
                    .entry(id)
                    .or_default();
                self.read(w, n, c, id);
                w.after_input(n, c);
            }
            "Writable" | "Available" => {
                self.pump_writer(w, n, c);
            }
            "Finished" => {
                let id = e["id"].as_u64().unwrap();
                for o in self.conns.get_mut(&(n, c)).unwrap().out.iter_mut() {
                    if o.id == Some(id) {
                        o.finished_event = true;
                    }
                }
            }
            "Stopped" => {
                let id = e["id"].as_u64().unwrap();
                for o in self.conns.get_mut(&(n, c)).unwrap().out.iter_mut() {
                    if o.id == Some(id) {
                        o.stopped = true;
                    }
                }
            }
            "DatagramReceived" if reader && !self.no_dgram_read => {
                loop {
                    let r = w.op(n, c, &json!({"op":"recv_dgram"}));
                    if r["res"]["k"] != "Some" {
                        break;
                    }
                    self.conns.get_mut(&(n, c)).unwrap().dgrams_got += 1;
                }
            }
            "DatagramsUnblocked" => self.pump_writer(w, n, c),
            _ => {}
        }
    }

    fn read(&mut self, w: &mut World, n: usize, c: usize, id: u64) {
        let (max, ordered) = {
            let a = &self.conns[&(n, c)];
            let reads = a.inn.get(&id).map_or(0, |s| s.reads);
            (a.read_max, a.ordered && (a.unordered_after == 0 || reads < a.unordered_after))
        };
        let r = w.op(
            n,
            c,
            &json!({"op":"read","id":id,"ordered":ordered,"max_len":max}),
        );
        let a = self.conns.get_mut(&(n, c)).unwrap();
        let s = a.inn.entry(id).or_default();
        s.reads += 1;
        s.got += r["res"]["total"].as_u64().unwrap_or(0);
        let k = r["res"]["k"].as_str().unwrap_or("");
        if k == "Finished" || k == "Reset" || k == "ClosedStream" {
            s.done = true;
        }
    }

    fn pump_writer(&mut self, w: &mut World, n: usize, c: usize) {
        let Some(a) = self.conns.get(&(n, c)) else {
            return;
        };
        if !a.active_writer || !a.connected {
            return;
        }
        let count = a.out.len();
        for i in 0..count {
            // open if necessary
            if self.conns[&(n, c)].out[i].id.is_none() {
                let dir = self.conns[&(n, c)].out[i].dir;
                let r = w.op(n, c, &json!({"op":"open","dir":dir}));
                if r["res"]["k"] == "Some" {
                    let id = r["res"]["id"].as_u64().unwrap();
                    let key = key_for(w, n, id);
                    let o = &mut self.conns.get_mut(&(n, c)).unwrap().out[i];
                    o.id = Some(id);
                    o.key = key;
                    if o.dir == 0 {
                        self.conns
                            .get_mut(&(n, c))
                            .unwrap()
                            .inn
                            .entry(id)
                            .or_default();
                    }
                } else {
                    continue;
                }
            }
            loop {
                let o = self.conns[&(n, c)].out[i].clone();
                let id = o.id.unwrap();
                if o.stopped {
                    break;
                }
                if o.written >= o.size {
                    if o.finish && !o.finished_called {
                        let r = w.op(n, c, &json!({"op":"finish","id":id}));
                        let _ = r;
                        self.conns.get_mut(&(n, c)).unwrap().out[i].finished_called = true;
                    }
                    break;
                }
                let len = (o.size - o.written).min(o.chunk);
                let r = w.op(
                    n,
                    c,
                    &json!({"op":"write","id":id,"len":len,"key":o.key,"off":o.written}),
                );
                match r["res"]["k"].as_str().unwrap_or("") {
                    "Ok" => {
                        let k = r["res"]["n"].as_u64().unwrap_or(0);
                        self.conns.get_mut(&(n, c)).unwrap().out[i].written += k;
                        if k == 0 {
                            break;
                        }
                    }
                    "Stopped" | "ClosedStream" => {
                        self.conns.get_mut(&(n, c)).unwrap().out[i].stopped = true;
                        break;
                    }
                    _ => break,
                }
            }
        }
        // datagrams
        loop {
            let a = &self.conns[&(n, c)];
            if a.dgrams_sent >= a.dgrams_to_send {
                break;
            }
            let did = a.dgram_base + a.dgrams_sent + 1;
            let size = if a.dgram_sizes.is_empty() {
                a.dgram_size
            } else {
                a.dgram_sizes[a.dgrams_sent as usize % a.dgram_sizes.len()]
            };
            let skip = a.dgram_skip;
            let r = w.op(
                n,
                c,
                &json!({"op":"send_dgram","len":size,"drop":a.dgram_drop,"did":did}),
            );
            if r["res"]["k"] == "Ok" || (skip && r["res"]["k"] != "Blocked") {
                self.conns.get_mut(&(n, c)).unwrap().dgrams_sent += 1;
            } else {
                break;
            }
        }
        w.after_input(n, c);
    }

    /// every writer finished (and saw `Finished` where it asked for it) and the peer application
    /// has read every finished stream to its end
    pub fn all_done(&self, w: &World) -> bool {
        for ((n, c), a) in &self.conns {
            if !a.active_writer {
                continue;
            }
            if a.lost {
                continue;
            }
            // locate the peer connection
            let peer: Option<(usize, usize)> = if *n == 0 {
                w.nodes[0].conns.get(c).map(|s| (s.peer, 0usize))
            } else {
                w.nodes[0]
                    .conns
                    .iter()
                    .find(|(_, s)| s.peer == *n)
                    .map(|(pc, _)| (0usize, *pc))
            };
            for o in &a.out {
                if o.stopped {
                    continue;
                }
                let Some(id) = o.id else { return false };
                if o.written < o.size {
                    return false;
                }
                if o.finish {
                    if !o.finished_event {
                        return false;
                    }
                    let Some(p) = peer else { return false };
                    let Some(pa) = self.conns.get(&p) else {
                        return false;
                    };
                    if pa.lost {
                        continue;
                    }
                    if !pa.inn.get(&id).is_some_and(|s| s.done && s.got >= o.size) {
                        return false;
                    }
                }
            }
            if a.dgrams_sent < a.dgrams_to_send {
                return false;
            }
        }
        true
    }

    pub fn summary(&self) -> Value {
        json!(self
            .conns
            .iter()
            .map(|((n, c), a)| json!({"n":n,"c":c,"uid":a.uid.unwrap_or(-1),"connected":a.connected,"lost":a.lost,
                "out":a.out.iter().map(|o| json!({"id":o.id.map_or(-1, |x| x as i64),"written":o.written,
                    "size":o.size,"fin_ev":o.finished_event,"stopped":o.stopped})).collect::<Vec<_>>(),
                "in":a.inn.iter().map(|(id,s)| json!({"id":id,"got":s.got,"done":s.done})).collect::<Vec<_>>(),
                "dg_sent":a.dgrams_sent,"dg_got":a.dgrams_got}))
            .collect::<Vec<_>>())
    }
}
