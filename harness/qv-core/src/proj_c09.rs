//! Projection for C09 (routing and isolation): who issued which connection ID, which connection
//! every incoming datagram was handed to, table sizes at quiescent points, bystander outcomes.
use serde_json::{json, Value};
use std::collections::HashMap;

fn key(n: i64, cid: &str) -> String {
    format!("{}:{}", n, cid)
}

pub fn routing(trace: &[Value]) -> Vec<Value> {
    let mut out = Vec::new();
    // (n, c) -> uid currently occupying the handle
    let mut uid_of: HashMap<(i64, i64), i64> = HashMap::new();
    let mut act: HashMap<i64, Vec<i64>> = HashMap::new();
    let mut last_new_dcid: HashMap<i64, String> = HashMap::new();
    let mut server_peer: HashMap<i64, i64> = HashMap::new(); // server conn c -> client node
    let mut victims: Vec<i64> = Vec::new();
    // the scripted final phase in which every client closes: whatever ends a connection then is benign
    let mut leaving = false;
    let mut lost_benign: HashMap<i64, bool> = HashMap::new();
    let mut cidlen: Vec<i64> = vec![8, 8];
    let probe_act = |out: &mut Vec<Value>, act: &mut HashMap<i64, Vec<i64>>, uid: i64, p: &Value| {
        if uid < 0 || !p.is_object() {
            return;
        }
        let seqs: Vec<i64> = p["lcids"].as_array().map(|a| a.iter().filter_map(|x| x.as_i64()).collect()).unwrap_or_default();
        if act.get(&uid) != Some(&seqs) {
            out.push(json!({"ev":"Act","uid":uid,"seqs":seqs}));
            act.insert(uid, seqs);
        }
    };
    for e in trace {
        let ev = e["ev"].as_str().unwrap_or("");
        let n = e["n"].as_i64().unwrap_or(-1);
        let c = e["c"].as_i64().unwrap_or(-1);
        match ev {
            "Reset" => {
                let scl = e["scid"].as_i64().unwrap_or(8);
                let ccl = e["ccid"].as_i64().unwrap_or(8);
                cidlen = vec![scl, ccl];
                victims = e["tag"]["victims"].as_array().map(|a| a.iter().filter_map(|x| x.as_i64()).collect()).unwrap_or_default();
                out.push(json!({"ev":"Reset","run":e["run"],"scl":scl,"ccl":ccl}));
            }
            "Connect" | "Accept" if e["ok"] == true => {
                let uid = e["uid"].as_i64().unwrap_or(-1);
                uid_of.insert((n, c), uid);
                let ikey = if ev == "Accept" {
                    server_peer.insert(c, e["peer"].as_i64().unwrap_or(-1));
                    last_new_dcid.remove(&n).map(|d| key(n, &d)).unwrap_or_default()
                } else {
                    String::new()
                };
                out.push(json!({"ev":"Conn","uid":uid,"n":n,"puid":e["puid"].as_i64().unwrap_or(-1),"ikey":ikey}));
                probe_act(&mut out, &mut act, uid, &e["post"]);
            }
            "Tx" => {
                let uid = e["uid"].as_i64().unwrap_or(-1);
                for d in e["dgs"].as_array().cloned().unwrap_or_default() {
                    for p in d["pkts"].as_array().cloned().unwrap_or_default() {
                        let scid = p["scid"].as_str().unwrap_or("");
                        if !scid.is_empty() && p["ty"] != "R" && p["ty"] != "V" {
                            out.push(json!({"ev":"Issue","key":key(n, scid),"uid":uid,"seq":0}));
                        }
                        for f in p["fr"].as_array().cloned().unwrap_or_default() {
                            if f["f"] == "NEW_CONNECTION_ID" {
                                out.push(json!({"ev":"Issue","key":key(n, f["cid"].as_str().unwrap_or("")),"uid":uid,
                                    "seq":f["seq"].as_i64().unwrap_or(-1)}));
                            }
                        }
                    }
                }
                probe_act(&mut out, &mut act, uid, &e["post"]);
            }
            "Rx" => {
                if n < 0 {
                    continue;
                }
                let kind = e["kind"].as_str().unwrap_or("");
                let rd = e["rdcid"].as_str().unwrap_or("");
                if kind == "new" {
                    last_new_dcid.insert(n, rd.to_string());
                }
                let uid = if kind == "conn" { e["uid"].as_i64().unwrap_or(-1) } else { -1 };
                let cl = cidlen[if n == 0 { 0 } else { 1 }];
                let cls = e["cls"].as_str().unwrap_or("");
                out.push(json!({"ev":"Rx","n":n,"key":key(n, rd),"uid":uid,"suid":e["suid"].as_i64().unwrap_or(-1),
                    "cls":cls,"intact":(cls == "gen" || cls == "dup") && e["damaged"] != true,
                    "kind":kind,"long":e["long"] == true,
                    "zl":cl == 0 && rd.is_empty(),
                    "reset":kind == "conn" && e["rtok"] != "no","tokuid":e["tokuid"].as_i64().unwrap_or(-1),"src":e["src"],"rrem":if kind == "conn" { e["pre"]["path"]["rem"].clone() } else { json!(-1) }}));
                if kind == "conn" {
                    probe_act(&mut out, &mut act, uid, &e["post"]);
                }
            }
            "Timeout" | "Call" => {
                if ev == "Call" && e["op"] == "close" && e["reason"] == "end" {
                    leaving = true;
                }
                if let Some(&uid) = uid_of.get(&(n, c)) {
                    probe_act(&mut out, &mut act, uid, &e["post"]);
                }
            }
            "Resp" => {
                // source IDs of Retry packets: chosen by the endpoint, owned by no connection
                for p in e["pkts"].as_array().cloned().unwrap_or_default() {
                    if p["ty"] == "R" {
                        out.push(json!({"ev":"RetryCid","key":key(n, p["scid"].as_str().unwrap_or(""))}));
                    }
                }
            }
            "AppEvent" => {
                if e["e"]["k"] == "ConnectionLost" {
                    let r = &e["e"]["reason"];
                    // the idle timeout of a connection that has nothing left to do and the
                    // scripted final close are not disturbances
                    let benign = leaving || r["k"] == "TimedOut" || (r["k"] == "ApplicationClosed" && r["reason"] == "end")
                        || (r["k"] == "LocallyClosed");
                    lost_benign.insert(e["uid"].as_i64().unwrap_or(-1), benign);
                }
            }
            "EpEvent" => {
                if e["drained"] == true && e["dup"] != true {
                    out.push(json!({"ev":"Drained","uid":e["uid"].as_i64().unwrap_or(-1)}));
                }
            }
            "Until" | "End" => {
                if e["eps"].is_array() {
                    let conns: Vec<Value> = e["conns"].as_array().cloned().unwrap_or_default().iter().map(|x| {
                        json!({"n":x["n"],"uid":x["uid"].as_i64().unwrap_or(-1),"drained":x["drained"] == true,
                            "lcids":x["lcids"].as_i64().unwrap_or(0)})
                    }).collect();
                    out.push(json!({"ev":"Quiet","eps":e["eps"],"conns":conns}));
                }
                if ev == "End" {
                    // bystanders: applications on connections of client nodes that no fault targeted
                    let mut disturbed: Vec<Value> = Vec::new();
                    let mut bystanders = 0;
                    for a in e["apps"].as_array().cloned().unwrap_or_default() {
                        let an = a["n"].as_i64().unwrap_or(-1);
                        let ac = a["c"].as_i64().unwrap_or(-1);
                        let client = if an == 0 { server_peer.get(&ac).copied().unwrap_or(-1) } else { an };
                        if victims.is_empty() || victims.contains(&client) || client < 0 {
                            continue;
                        }
                        bystanders += 1;
                        let complete = a["out"].as_array().is_some_and(|o| o.iter().all(|s| {
                            s["stopped"] == true || (s["written"] == s["size"] && s["fin_ev"] == true)
                        }));
                        let lost_badly = a["lost"] == true && !lost_benign.get(&a["uid"].as_i64().unwrap_or(-1)).copied().unwrap_or(false);
                        if lost_badly || !complete {
                            disturbed.push(json!(a["uid"].as_i64().unwrap_or(-1)));
                        }
                    }
                    out.push(json!({"ev":"End","bystanders":bystanders,"disturbed":disturbed}));
                }
            }
            _ => {}
        }
    }
    out
}
