//! Deterministic world: endpoints, connections, virtual clock, fault-injecting network, tracing.
use std::{
    collections::{BTreeMap, VecDeque},
    net::{IpAddr, Ipv4Addr, SocketAddr},
    panic::{catch_unwind, AssertUnwindSafe},
    sync::{
        atomic::{AtomicU64, Ordering},
        Arc, Mutex,
    },
    time::{Duration, Instant, SystemTime, UNIX_EPOCH},
};

use bytes::{Bytes, BytesMut};
use quinn_proto::{
    congestion, AckFrequencyConfig, ClientConfig, Connection, ConnectionEvent, ConnectionHandle,
    DatagramEvent, Dir, EcnCodepoint, Endpoint, EndpointConfig, Event, IdleTimeout, Incoming,
    MtuDiscoveryConfig, ServerConfig, StreamEvent, TimeSource, TransportConfig, VarInt,
};
use serde::Deserialize;
use serde_json::{json, Value};

use crate::{
    toycrypto::{self, KeyId, ToyClientConfig, ToyServerConfig},
    wire::{self, Frame, PType, Pkt, TxCtx},
};

// ---------------------------------------------------------------------------------------------
// configuration

fn d_lat() -> u64 {
    10_000
}
fn d_one() -> usize {
    1
}
fn d_cid() -> usize {
    8
}
fn d_maxdg() -> usize {
    10
}
fn d_mtu() -> usize {
    1500
}
fn d_true() -> bool {
    true
}
fn d_accept() -> String {
    "accept".into()
}

#[derive(Debug, Clone, Deserialize, Default)]
#[serde(default)]
pub struct TCfg {
    pub recv_window: Option<u64>,
    pub stream_recv_window: Option<u64>,
    pub send_window: Option<u64>,
    pub max_bidi: Option<u64>,
    pub max_uni: Option<u64>,
    /// 0 = disabled
    pub idle_ms: Option<u64>,
    pub keep_alive_ms: Option<u64>,
    pub initial_mtu: Option<u16>,
    pub min_mtu: Option<u16>,
    pub mtud: Option<bool>,
    pub mtud_upper: Option<u16>,
    pub mtud_min_change: Option<u16>,
    pub mtud_interval_ms: Option<u64>,
    pub mtud_cooldown_ms: Option<u64>,
    pub pad_to_mtu: Option<bool>,
    pub ack_freq: Option<bool>,
    pub ack_freq_threshold: Option<u64>,
    pub ack_freq_max_delay_ms: Option<u64>,
    pub dgram_recv_buf: Option<i64>,
    pub dgram_send_buf: Option<usize>,
    /// "newreno" | "cubic" | "bbr" | "fixed:<bytes>" | "flip:<a>:<b>"
    pub cc: Option<String>,
    pub gso: Option<bool>,
    pub crypto_buffer_size: Option<usize>,
    pub initial_rtt_ms: Option<u64>,
    pub max_bytes_per_sec: Option<u64>,
    pub packet_threshold: Option<u32>,
    pub send_fairness: Option<bool>,
}

#[derive(Debug, Clone, Deserialize)]
pub struct Cfg {
    #[serde(default)]
    pub seed: u64,
    #[serde(default = "d_lat")]
    pub latency_us: u64,
    #[serde(default = "d_one")]
    pub clients: usize,
    #[serde(default = "d_cid")]
    pub server_cid_len: usize,
    #[serde(default = "d_cid")]
    pub client_cid_len: usize,
    #[serde(default = "d_maxdg")]
    pub max_datagrams: usize,
    #[serde(default)]
    pub late_us: u64,
    #[serde(default)]
    pub spurious: bool,
    #[serde(default = "d_mtu")]
    pub link_mtu: usize,
    #[serde(default)]
    pub loss_pct: u32,
    #[serde(default)]
    pub dup_pct: u32,
    #[serde(default)]
    pub jitter_us: u64,
    /// explicit fates for the first datagrams client->server
    #[serde(default)]
    pub fates_c2s: Vec<String>,
    #[serde(default)]
    pub fates_s2c: Vec<String>,
    /// explicit fates for the successive MTU probes of each direction (C13); a probe with an entry
    /// here does not consume an entry of `fates_*`
    #[serde(default)]
    pub pfates_c2s: Vec<String>,
    #[serde(default)]
    pub pfates_s2c: Vec<String>,
    #[serde(default)]
    pub server: TCfg,
    #[serde(default)]
    pub client: TCfg,
    #[serde(default = "d_accept")]
    pub incoming: String,
    #[serde(default)]
    pub sf_size: usize,
    #[serde(default)]
    pub ch_size: usize,
    #[serde(default)]
    pub cf_size: usize,
    #[serde(default)]
    pub ticket: bool,
    #[serde(default)]
    pub accept_early: bool,
    /// 0-RTT: server transport configuration in force when the ticket of the first client was
    /// issued (None = same as `server`); the remembered parameters are the bytes a real server
    /// with that configuration presents
    #[serde(default)]
    pub ticket_server: Option<TCfg>,
    /// edits (same syntax as `server_tp`) applied to the remembered parameters
    #[serde(default)]
    pub ticket_tp: Vec<Value>,
    #[serde(default = "d_true")]
    pub migration: bool,
    #[serde(default)]
    pub retry_token_lifetime_ms: Option<u64>,
    #[serde(default)]
    pub cid_lifetime_ms: Option<u64>,
    #[serde(default)]
    pub min_reset_interval_ms: Option<u64>,
    #[serde(default)]
    pub ce_mark: bool,
    #[serde(default)]
    pub new_tokens: Option<u32>,
    /// "det" (default, harness generator), "random", "hashed"
    #[serde(default)]
    pub cid_gen: String,
    /// hostile transport parameters: [[id, value]] sets (or adds) an integer parameter,
    /// [[id, -1]] removes it, [[id, -2, "hex"]] sets raw bytes; applied to the bytes quinn produced
    /// shift of the run's base instant (seconds): all instants handed to quinn move by this much
    #[serde(default)]
    pub epoch_shift_s: u64,
    /// a node that changes its address keeps receiving on the old ones (multi-homed host)
    #[serde(default)]
    pub keep_old_addrs: bool,
    /// poll a pacing-blocked connection every this many microseconds (0: sleep until its timer)
    #[serde(default)]
    pub eager_poll_us: u64,
    /// how many such polls a run may spend
    #[serde(default)]
    pub eager_polls: u64,
    #[serde(default)]
    pub client_tp: Vec<Value>,
    #[serde(default)]
    pub server_tp: Vec<Value>,
    /// C14: server token key (default 0x70ce)
    #[serde(default)]
    pub token_key: Option<u64>,
    /// C14: lifetime of NEW_TOKEN tokens (default: quinn's two weeks)
    #[serde(default)]
    pub validation_token_lifetime_ms: Option<u64>,
    /// C14: "" quinn's default log, "bloom:<max_bytes>:<expected_hits>", "none"
    #[serde(default)]
    pub token_log: String,
    /// C14: "" per-connection default store (old behaviour), "cache:<servers>:<per_server>" one
    /// logging TokenMemoryCache shared by all clients
    #[serde(default)]
    pub token_store: String,
}

impl Default for Cfg {
    fn default() -> Self {
        serde_json::from_str("{}").unwrap()
    }
}

// ---------------------------------------------------------------------------------------------
// test congestion controller

#[derive(Debug, Clone)]
pub struct FixedCc {
    pub windows: Vec<u64>,
    pub calls: Arc<AtomicU64>,
    pub log: Option<Arc<Mutex<Vec<Value>>>>,
}

impl congestion::Controller for FixedCc {
    fn on_congestion_event(&mut self, _: Instant, _: Instant, _: bool, _: bool, _: u64) {
        self.calls.fetch_add(1, Ordering::Relaxed);
    }
    fn on_mtu_update(&mut self, _: u16) {}
    fn window(&self) -> u64 {
        let i = self.calls.load(Ordering::Relaxed) as usize % self.windows.len();
        self.windows[i]
    }
    fn clone_box(&self) -> Box<dyn congestion::Controller> {
        Box::new(self.clone())
    }
    fn initial_window(&self) -> u64 {
        self.windows[0]
    }
    fn into_any(self: Box<Self>) -> Box<dyn std::any::Any> {
        self
    }
}

pub struct FixedCcFactory(pub Vec<u64>);
impl congestion::ControllerFactory for FixedCcFactory {
    fn build(self: Arc<Self>, _: Instant, _: u16) -> Box<dyn congestion::Controller> {
        Box::new(FixedCc {
            windows: self.0.clone(),
            calls: Arc::new(AtomicU64::new(0)),
            log: None,
        })
    }
}

pub fn transport(t: &TCfg) -> TransportConfig {
    let mut c = TransportConfig::default();
    if let Some(v) = t.recv_window {
        c.receive_window(VarInt::from_u64(v).unwrap());
    }
    if let Some(v) = t.stream_recv_window {
        c.stream_receive_window(VarInt::from_u64(v).unwrap());
    }
    if let Some(v) = t.send_window {
        c.send_window(v);
    }
    if let Some(v) = t.max_bidi {
        c.max_concurrent_bidi_streams(VarInt::from_u64(v).unwrap());
    }
    if let Some(v) = t.max_uni {
        c.max_concurrent_uni_streams(VarInt::from_u64(v).unwrap());
    }
    if let Some(v) = t.idle_ms {
        c.max_idle_timeout(if v == 0 {
            None
        } else {
            Some(IdleTimeout::from(VarInt::from_u64(v).unwrap()))
        });
    }
    if let Some(v) = t.keep_alive_ms {
        c.keep_alive_interval(if v == 0 {
            None
        } else {
            Some(Duration::from_millis(v))
        });
    }
    if let Some(v) = t.min_mtu {
        c.min_mtu(v);
    }
    if let Some(v) = t.initial_mtu {
        c.initial_mtu(v);
    }
    match t.mtud {
        Some(false) => {
            c.mtu_discovery_config(None);
        }
        _ => {
            let mut m = MtuDiscoveryConfig::default();
            if let Some(u) = t.mtud_upper {
                m.upper_bound(u);
            }
            if let Some(u) = t.mtud_min_change {
                m.minimum_change(u);
            }
            if let Some(u) = t.mtud_interval_ms {
                m.interval(Duration::from_millis(u));
            }
            if let Some(u) = t.mtud_cooldown_ms {
                m.black_hole_cooldown(Duration::from_millis(u));
            }
            c.mtu_discovery_config(Some(m));
        }
    }
    if let Some(v) = t.pad_to_mtu {
        c.pad_to_mtu(v);
    }
    if t.ack_freq == Some(true) {
        let mut a = AckFrequencyConfig::default();
        if let Some(x) = t.ack_freq_threshold {
            a.ack_eliciting_threshold(VarInt::from_u64(x).unwrap());
        }
        if let Some(x) = t.ack_freq_max_delay_ms {
            a.max_ack_delay(Some(Duration::from_millis(x)));
        }
        c.ack_frequency_config(Some(a));
    }
    if let Some(v) = t.dgram_recv_buf {
        c.datagram_receive_buffer_size(if v < 0 { None } else { Some(v as usize) });
    }
    if let Some(v) = t.dgram_send_buf {
        c.datagram_send_buffer_size(v);
    }
    if let Some(v) = t.gso {
        c.enable_segmentation_offload(v);
    }
    if let Some(v) = t.crypto_buffer_size {
        c.crypto_buffer_size(v);
    }
    if let Some(v) = t.initial_rtt_ms {
        c.initial_rtt(Duration::from_millis(v));
    }
    if let Some(v) = t.max_bytes_per_sec {
        c.max_outgoing_bytes_per_second(Some(v));
    }
    if let Some(v) = t.packet_threshold {
        c.packet_threshold(v);
    }
    if let Some(v) = t.send_fairness {
        c.send_fairness(v);
    }
    match t.cc.as_deref() {
        None | Some("cubic") => {}
        Some("newreno") => {
            c.congestion_controller_factory(Arc::new(congestion::NewRenoConfig::default()));
        }
        Some("bbr") => {
            c.congestion_controller_factory(Arc::new(congestion::BbrConfig::default()));
        }
        Some(s) if s.starts_with("fixed:") || s.starts_with("flip:") => {
            let ws: Vec<u64> = s
                .split(':')
                .skip(1)
                .map(|x| x.parse().expect("cc window"))
                .collect();
            c.congestion_controller_factory(Arc::new(FixedCcFactory(ws)));
        }
        Some(s) => panic!("unknown cc {s}"),
    }
    c
}

/// Deterministic connection ID generator (public `ConnectionIdGenerator` trait)
pub struct DetCidGen {
    pub cid_len: usize,
    pub state: u64,
    pub lifetime: Option<Duration>,
}

impl quinn_proto::ConnectionIdGenerator for DetCidGen {
    fn generate_cid(&mut self) -> quinn_proto::ConnectionId {
        let mut b = [0u8; 24];
        for i in 0..3 {
            self.state = self.state.wrapping_add(0x9e37_79b9_7f4a_7c15);
            b[i * 8..i * 8 + 8].copy_from_slice(&toycrypto::mix(self.state).to_be_bytes());
        }
        quinn_proto::ConnectionId::new(&b[..self.cid_len])
    }
    fn cid_len(&self) -> usize {
        self.cid_len
    }
    fn cid_lifetime(&self) -> Option<Duration> {
        self.lifetime
    }
}

// ---------------------------------------------------------------------------------------------
// time source shared with quinn (token issue times)

pub struct VClock(pub Arc<AtomicU64>);
impl TimeSource for VClock {
    fn now(&self) -> SystemTime {
        UNIX_EPOCH + Duration::from_secs(1_700_000_000) + Duration::from_micros(self.0.load(Ordering::Relaxed))
    }
}

// ---------------------------------------------------------------------------------------------
// network

#[derive(Debug, Clone, PartialEq, Eq)]
pub enum Fate {
    Deliver,
    Drop,
    /// also deliver a copy after extra delay (us)
    Dup(u64),
    /// extra delay (us)
    Delay(u64),
    /// xor byte at position (from start if >=0, from end if negative)
    Corrupt(i64, u8),
    Truncate(usize),
    Extend(usize),
    /// re-encode a padded single-packet Initial datagram so that the datagram has this size
    Shrink(usize),
    /// what the network does to the ECN field: 0 congestion experienced (only on ECN-capable
    /// datagrams), 1 strip the mark, 2 rewrite to ECT(1)
    Ecn(u8),
}

pub fn parse_fate(s: &str) -> Fate {
    let mut it = s.split(':');
    match it.next().unwrap() {
        "ok" | "d" => Fate::Deliver,
        "x" | "drop" => Fate::Drop,
        "dup" => Fate::Dup(it.next().map_or(0, |x| x.parse().unwrap())),
        "delay" => Fate::Delay(it.next().map_or(25_000, |x| x.parse().unwrap())),
        "corrupt" => Fate::Corrupt(
            it.next().map_or(-1, |x| x.parse().unwrap()),
            it.next().map_or(1, |x| x.parse().unwrap()),
        ),
        "trunc" => Fate::Truncate(it.next().unwrap().parse().unwrap()),
        "ext" => Fate::Extend(it.next().unwrap().parse().unwrap()),
        "shrink" => Fate::Shrink(it.next().unwrap().parse().unwrap()),
        "ce" => Fate::Ecn(0),
        "bleach" => Fate::Ecn(1),
        "ect1" => Fate::Ecn(2),
        o => panic!("unknown fate {o}"),
    }
}

#[derive(Debug, Clone)]
pub struct Dgram {
    pub id: u64,
    /// id of the genuine datagram this was derived from (== id for genuine ones)
    pub orig: u64,
    pub src: SocketAddr,
    pub dst: SocketAddr,
    pub data: Vec<u8>,
    pub ecn: Option<EcnCodepoint>,
    pub at_us: u64,
    /// "gen" genuine first copy, "dup", "corrupt", "forged", "foreign", "reset", "inject", "raw"
    pub cls: &'static str,
    pub seq: u64,
    /// exact stateless reset token of the CID in use (reset-like datagrams only)
    pub exact: bool,
    /// genuine packets this datagram was built from (sender-side decode)
    pub pkts: Vec<PkSum>,
    /// byte range [lo, hi) that was tampered with in transit, if any
    pub damage: Option<(usize, usize)>,
    /// unique id of the connection that emitted it (-1: endpoint response / injected)
    pub from_uid: i64,
}

/// Summary of one genuine packet: identity, extent and non-padding frame counts by FrameStats index
#[derive(Debug, Clone)]
pub struct PkSum {
    pub ty: PType,
    pub space: i64,
    pub pn: u64,
    pub start: usize,
    pub len: usize,
    pub frames: Vec<(usize, u64)>,
}

pub fn frame_index(f: &Frame) -> Option<usize> {
    Some(match f {
        Frame::Padding(_) => return None,
        Frame::Ack { .. } => 0,
        Frame::AckFrequency { .. } => 1,
        Frame::Crypto { .. } => 2,
        Frame::Close { .. } => 3,
        Frame::DataBlocked(_) => 4,
        Frame::Datagram { .. } => 5,
        Frame::HandshakeDone => 6,
        Frame::ImmediateAck => 7,
        Frame::MaxData(_) => 8,
        Frame::MaxStreamData { .. } => 9,
        Frame::MaxStreams { uni: false, .. } => 10,
        Frame::MaxStreams { uni: true, .. } => 11,
        Frame::NewConnectionId { .. } => 12,
        Frame::NewToken { .. } => 13,
        Frame::PathChallenge(_) => 14,
        Frame::PathResponse(_) => 15,
        Frame::Ping => 16,
        Frame::ResetStream { .. } => 17,
        Frame::RetireConnectionId(_) => 18,
        Frame::StreamDataBlocked { .. } => 19,
        Frame::StreamsBlocked { uni: false, .. } => 20,
        Frame::StreamsBlocked { uni: true, .. } => 21,
        Frame::StopSending { .. } => 22,
        Frame::Stream { .. } => 23,
        Frame::Unknown(_) => return None,
    })
}

pub fn pk_summaries(pkts: &[Pkt]) -> Vec<PkSum> {
    pkts.iter()
        .map(|p| {
            let mut fr: Vec<(usize, u64)> = Vec::new();
            for f in &p.frames {
                if let Some(i) = frame_index(f) {
                    if let Some(e) = fr.iter_mut().find(|e| e.0 == i) {
                        e.1 += 1;
                    } else {
                        fr.push((i, 1));
                    }
                }
            }
            PkSum {
                ty: p.ty,
                space: p.ty.space().map_or(-1, |x| x as i64),
                pn: p.pn,
                start: p.start,
                len: p.len,
                frames: fr,
            }
        })
        .collect()
}

// ---------------------------------------------------------------------------------------------
// nodes

pub struct ConnSlot {
    pub conn: Connection,
    pub handle: ConnectionHandle,
    pub tx: TxCtx,
    pub events: VecDeque<ConnectionEvent>,
    pub drained: bool,
    pub lost: u32,
    /// index of peer node (for clients: 0)
    pub peer: usize,
    pub last_frame_rx: [u64; 24],
    pub app_events: Vec<Value>,
    /// destination CID of the most recent packet this connection sent
    pub last_dcid: Vec<u8>,
    /// identity of the connection within the run (handles are reused by the endpoint)
    pub uid: i64,
    /// uid of the connection whose datagram created this one (server side), -1 otherwise
    pub puid: i64,
}

pub struct Node {
    pub idx: usize,
    pub addr: SocketAddr,
    pub ep: Endpoint,
    pub conns: BTreeMap<usize, ConnSlot>,
    pub is_server: bool,
    pub cid_len: usize,
    pub waiting: Vec<Incoming>,
    pub resp_tx: TxCtx,
    pub old_addrs: Vec<SocketAddr>,
}

pub struct World {
    pub cfg: Cfg,
    pub epoch: Instant,
    pub now_us: u64,
    pub clock: Arc<AtomicU64>,
    pub nodes: Vec<Node>,
    pub net: Vec<Dgram>,
    pub next_dgram: u64,
    pub next_seq: u64,
    pub sent_count: [usize; 2],
    pub trace: Vec<Value>,
    pub run_id: u64,
    pub rng: u64,
    pub client_cfgs: Vec<Arc<ToyClientConfig>>,
    pub server_crypto: Arc<ToyServerConfig>,
    pub panicked: bool,
    pub steps: u64,
    pub fates_c2s: Vec<Fate>,
    pub fates_s2c: Vec<Fate>,
    /// genuine datagrams kept for replay by scenarios: id -> dgram
    pub history: Vec<Dgram>,
    pub keep_history: bool,
    /// hook applied to each genuine datagram before fate: may rewrite bytes (MITM)
    pub mitm: Option<Box<dyn FnMut(&mut Dgram, &[Pkt], &mut MitmCtx) + Send>>,
    pub probe_level: u8,
    pub max_trace: usize,
    /// id of the datagram currently being delivered
    pub cur_rx_id: i64,
    pub cur_rx_uid: i64,
    pub dcid_ctr: Arc<AtomicU64>,
    pub eager_left: u64,
    pub quiet_polls: bool,
    pub cur_tx_uid: i64,
    pub next_uid: i64,
    /// encoded transport parameters each side presented (tapped at the crypto provider)
    pub tp_server: Arc<Mutex<Vec<Vec<u8>>>>,
    pub tp_client: Arc<Mutex<Vec<Vec<u8>>>>,
    /// connection IDs each endpoint has issued on the wire (handshake SCIDs, NEW_CONNECTION_ID)
    pub issued: Vec<Vec<Vec<u8>>>,
    pub client_tcfg: Arc<TransportConfig>,
    pub token_store: Option<Arc<dyn quinn_proto::TokenStore>>,
    /// C14: logging token store (same object as `token_store` when configured) and Retry tokens seen
    pub tok: Option<Arc<crate::tokens::LogStore>>,
    pub tok_retry: Vec<Vec<u8>>,
    pub tok_srv_log: Option<Arc<Mutex<Vec<Value>>>>,
    /// the transmit being sent is an MTU probe (ConnectionStats.sent_plpmtud_probes moved)
    pub cur_is_probe: bool,
    pub probe_count: [usize; 2],
}

pub struct MitmCtx<'a> {
    pub secrets: &'a [u64],
    pub ticket: Option<u64>,
    pub from_server: bool,
    pub now_us: u64,
}

pub fn server_addr() -> SocketAddr {
    SocketAddr::new(IpAddr::V4(Ipv4Addr::new(10, 0, 0, 1)), 4433)
}
pub fn client_addr(i: usize) -> SocketAddr {
    SocketAddr::new(IpAddr::V4(Ipv4Addr::new(10, 0, 1, (i + 1) as u8)), 50_000 + i as u16)
}

pub fn addr_id(a: SocketAddr) -> i64 {
    match a.ip() {
        IpAddr::V4(v4) => {
            let o = v4.octets();
            ((o[2] as i64) << 24) | ((o[3] as i64) << 16) | a.port() as i64
        }
        IpAddr::V6(_) => -(a.port() as i64),
    }
}

pub fn stream_id_u64(id: quinn_proto::StreamId) -> u64 {
    VarInt::from(id).into_inner()
}

pub fn frame_rx_vec(s: &quinn_proto::FrameStats) -> [u64; 24] {
    [
        s.acks,
        s.ack_frequency,
        s.crypto,
        s.connection_close,
        s.data_blocked,
        s.datagram,
        s.handshake_done as u64,
        s.immediate_ack,
        s.max_data,
        s.max_stream_data,
        s.max_streams_bidi,
        s.max_streams_uni,
        s.new_connection_id,
        s.new_token,
        s.path_challenge,
        s.path_response,
        s.ping,
        s.reset_stream,
        s.retire_connection_id,
        s.stream_data_blocked,
        s.streams_blocked_bidi,
        s.streams_blocked_uni,
        s.stop_sending,
        s.stream,
    ]
}

fn splitmix(s: &mut u64) -> u64 {
    *s = s.wrapping_add(0x9e37_79b9_7f4a_7c15);
    toycrypto::mix(*s)
}

impl World {
    pub fn new(cfg: Cfg, run_id: u64) -> Self {
        let epoch = Instant::now() + Duration::from_secs(cfg.epoch_shift_s);
        let clock = Arc::new(AtomicU64::new(0));
        let seed = cfg.seed;
        let mut seed32 = [0u8; 32];
        seed32[..8].copy_from_slice(&seed.to_le_bytes());

        let mk_epcfg = |cid_len: usize, tag: u8| {
            let mut e = EndpointConfig::new(Arc::new(toycrypto::ToyHmacKey(0x1234 + tag as u64)));
            let mut s = seed32;
            s[31] = tag;
            e.rng_seed(Some(s));
            let lifetime = cfg.cid_lifetime_ms;
            let gen_kind = cfg.cid_gen.clone();
            let gseed = seed ^ ((tag as u64) << 48);
            e.cid_generator(Arc::new(move || -> Box<dyn quinn_proto::ConnectionIdGenerator> { match gen_kind.as_str() {
                "random" => {
                    let mut g = quinn_proto::RandomConnectionIdGenerator::new(cid_len);
                    if let Some(l) = lifetime {
                        g.set_lifetime(Duration::from_millis(l));
                    }
                    Box::new(g)
                }
                "hashed" => {
                    let mut g = quinn_proto::HashedConnectionIdGenerator::from_key(gseed);
                    if let Some(l) = lifetime {
                        g.set_lifetime(Duration::from_millis(l));
                    }
                    Box::new(g)
                }
                _ => Box::new(DetCidGen {
                    cid_len,
                    state: gseed,
                    lifetime: lifetime.map(Duration::from_millis),
                }),
            }}));
            if let Some(ms) = cfg.min_reset_interval_ms {
                e.min_reset_interval(Duration::from_millis(ms));
            }
            e.grease_quic_bit(false);
            Arc::new(e)
        };

        let tp_server: Arc<Mutex<Vec<Vec<u8>>>> = Arc::new(Mutex::new(Vec::new()));
        let tp_client: Arc<Mutex<Vec<Vec<u8>>>> = Arc::new(Mutex::new(Vec::new()));
        let mut server_crypto = ToyServerConfig::new(seed);
        server_crypto.sf_size = cfg.sf_size;
        server_crypto.accept_early = cfg.accept_early;
        {
            let tap = tp_server.clone();
            let edits = cfg.server_tp.clone();
            server_crypto.param_hook = Some(Arc::new(move |b: Vec<u8>| {
                let b = tp_edit(&b, &edits);
                tap.lock().unwrap().push(b.clone());
                b
            }));
        }
        let server_crypto = Arc::new(server_crypto);
        let mut scfg = ServerConfig::new(
            server_crypto.clone(),
            Arc::new(toycrypto::ToyTokenKey(cfg.token_key.unwrap_or(0x70ce))),
        );
        crate::tokens::configure_server(&cfg, &mut scfg);
        scfg.transport_config(Arc::new(transport(&cfg.server)));
        scfg.migration(cfg.migration);
        scfg.time_source(Arc::new(VClock(clock.clone())));
        if let Some(ms) = cfg.retry_token_lifetime_ms {
            scfg.retry_token_lifetime(Duration::from_millis(ms));
        }
        if let Some(n) = cfg.new_tokens {
            scfg.validation_token.sent(n);
        }
        let server_ep = Endpoint::new(
            mk_epcfg(cfg.server_cid_len, 0),
            Some(Arc::new(scfg)),
            true,
        );
        let mut nodes = vec![Node {
            idx: 0,
            addr: server_addr(),
            ep: server_ep,
            conns: BTreeMap::new(),
            is_server: true,
            cid_len: cfg.server_cid_len,
            waiting: Vec::new(),
            old_addrs: Vec::new(),
            resp_tx: TxCtx {
                dst_cid_len: cfg.client_cid_len,
                next_pn: [0; 3],
            },
        }];
        let mut client_cfgs = Vec::new();
        for i in 0..cfg.clients {
            let ep = Endpoint::new(mk_epcfg(cfg.client_cid_len, 1 + i as u8), None, true);
            nodes.push(Node {
                idx: i + 1,
                addr: client_addr(i),
                ep,
                conns: BTreeMap::new(),
                is_server: false,
                cid_len: cfg.client_cid_len,
                waiting: Vec::new(),
                old_addrs: Vec::new(),
                resp_tx: TxCtx {
                    dst_cid_len: cfg.server_cid_len,
                    next_pn: [0; 3],
                },
            });
            let mut cc = ToyClientConfig::new(seed ^ ((i as u64 + 1) << 32));
            cc.ch_size = cfg.ch_size;
            cc.cf_size = cfg.cf_size;
            // the session ticket is held by the first client only; the others connect afresh
            if cfg.ticket && i == 0 {
                cc.ticket = Some(toycrypto::Ticket {
                    id: toycrypto::mix(seed ^ 0x71c4e7),
                    params: remembered_params(&cfg),
                });
            }
            {
                let tap = tp_client.clone();
                // hostile parameters are presented by the first client only; the others are bystanders
                let edits = if i == 0 { cfg.client_tp.clone() } else { Vec::new() };
                cc.param_hook = Some(Arc::new(move |b: Vec<u8>| {
                    let b = tp_edit(&b, &edits);
                    tap.lock().unwrap().push(b.clone());
                    b
                }));
            }
            client_cfgs.push(Arc::new(cc));
        }
        let fates_c2s = cfg.fates_c2s.iter().map(|s| parse_fate(s)).collect();
        let fates_s2c = cfg.fates_s2c.iter().map(|s| parse_fate(s)).collect();
        let client_tcfg = Arc::new(transport(&cfg.client));
        let mut w = Self {
            epoch,
            now_us: 0,
            clock,
            nodes,
            net: Vec::new(),
            next_dgram: 0,
            next_seq: 0,
            sent_count: [0, 0],
            trace: Vec::new(),
            run_id,
            rng: seed ^ 0xfeed,
            client_cfgs,
            server_crypto,
            panicked: false,
            steps: 0,
            fates_c2s,
            fates_s2c,
            history: Vec::new(),
            keep_history: false,
            mitm: None,
            probe_level: 1,
            max_trace: 25_000,
            cur_rx_id: -1,
            cur_rx_uid: -1,
            dcid_ctr: Arc::new(AtomicU64::new(0)),
            eager_left: cfg.eager_polls,
            quiet_polls: false,
            cur_tx_uid: -1,
            next_uid: 0,
            tp_server,
            tp_client,
            issued: Vec::new(),
            client_tcfg,
            token_store: None,
            tok: None,
            tok_retry: Vec::new(),
            tok_srv_log: None,
            cur_is_probe: false,
            probe_count: [0, 0],
            cfg,
        };
        crate::tokens::configure_world(&mut w);
        w.issued = vec![Vec::new(); w.nodes.len()];
        let c = &w.cfg;
        w.trace.push(json!({
            "ev":"Reset","run":run_id,"seed":c.seed,"lat":c.latency_us,"clients":c.clients,
            "scid":c.server_cid_len,"ccid":c.client_cid_len,"maxdg":c.max_datagrams,
            "migration":c.migration,"incoming":c.incoming,
        }));
        if let Some(t) = w.client_cfgs.first().and_then(|c| c.ticket.clone()) {
            let mut v = tp_json(&t.params);
            v["ev"] = json!("Ticket");
            v["n"] = json!(1);
            w.trace.push(v);
        }
        w
    }

    pub fn now(&self) -> Instant {
        self.epoch + Duration::from_micros(self.now_us)
    }

    pub fn rand(&mut self) -> u64 {
        splitmix(&mut self.rng)
    }

    pub fn log(&mut self, v: Value) {
        self.trace.push(v);
    }

    /// Run `f` on the connection, catching panics. A panic is recorded as a trace line.
    pub fn guarded<R>(&mut self, what: &str, f: impl FnOnce(&mut Self) -> R) -> Option<R> {
        match catch_unwind(AssertUnwindSafe(|| f(self))) {
            Ok(r) => Some(r),
            Err(e) => {
                let msg = if let Some(s) = e.downcast_ref::<&str>() {
                    s.to_string()
                } else if let Some(s) = e.downcast_ref::<String>() {
                    s.clone()
                } else {
                    "?".into()
                };
                self.panicked = true;
                let t = self.now_us;
                self.trace
                    .push(json!({"ev":"Panic","t":t,"what":what,"msg":msg}));
                None
            }
        }
    }

    // -----------------------------------------------------------------------------------------
    // connection setup

    pub fn client_config(&self, i: usize) -> ClientConfig {
        let mut c = ClientConfig::new(self.client_cfgs[i].clone());
        c.transport_config(self.client_tcfg.clone());
        let seed = self.cfg.seed;
        // one counter per run: every connection attempt gets its own initial destination CID
        let ctr = self.dcid_ctr.clone();
        let cid_i = i as u64;
        c.initial_dst_cid_provider(Arc::new(move || {
            let n = ctr.fetch_add(1, Ordering::Relaxed);
            let h = toycrypto::mix(seed ^ (cid_i << 40) ^ n ^ 0xd57c1d);
            let h2 = toycrypto::mix(h);
            let mut b = [0u8; 16];
            b[..8].copy_from_slice(&h.to_be_bytes());
            b[8..].copy_from_slice(&h2.to_be_bytes());
            quinn_proto::ConnectionId::new(&b)
        }));
        if let Some(ts) = &self.token_store {
            c.token_store(ts.clone());
        }
        c
    }

    /// Start a connection from client node `n` (1-based node index). Returns local handle index.
    pub fn connect(&mut self, n: usize) -> Option<usize> {
        let cfg = self.client_config(n - 1);
        self.connect_with(n, cfg)
    }

    pub fn connect_with(&mut self, n: usize, cfg: ClientConfig) -> Option<usize> {
        let now = self.now();
        let r = self.nodes[n].ep.connect(now, cfg, server_addr(), "server");
        let t = self.now_us;
        match r {
            Ok((ch, conn)) => {
                let scid_len = self.cfg.server_cid_len;
                self.nodes[n].conns.insert(
                    ch.0,
                    ConnSlot {
                        conn,
                        handle: ch,
                        tx: TxCtx {
                            dst_cid_len: scid_len,
                            next_pn: [0; 3],
                        },
                        events: VecDeque::new(),
                        drained: false,
                        lost: 0,
                        peer: 0,
                        last_frame_rx: [0; 24],
                        app_events: Vec::new(),
                        last_dcid: Vec::new(),
                        uid: self.next_uid,
                        puid: -1,
                    },
                );
                self.next_uid += 1;
                let post = self.probe(n, ch.0);
                self.trace
                    .push(json!({"ev":"Connect","t":t,"n":n,"c":ch.0,"ok":true,"post":post,"uid":self.next_uid - 1}));
                crate::tokens::drain(self, n, self.next_uid - 1);
                if let Some(b) = self.tp_client.lock().unwrap().last() {
                    let mut v = tp_json(b);
                    v["ev"] = json!("TP");
                    v["n"] = json!(n);
                    v["c"] = json!(ch.0);
                    v["t"] = json!(t);
                    self.trace.push(v);
                }
                Some(ch.0)
            }
            Err(e) => {
                self.trace.push(
                    json!({"ev":"Connect","t":t,"n":n,"c":-1,"ok":false,"err":format!("{e:?}")}),
                );
                None
            }
        }
    }

    // -----------------------------------------------------------------------------------------
    // probes

    pub fn probe(&self, n: usize, c: usize) -> Value {
        let Some(slot) = self.nodes[n].conns.get(&c) else {
            return json!({"gone":true});
        };
        let mut v = probe_json(&slot.conn.verif_probe(self.epoch), self.probe_level);
        let st = slot.conn.stats();
        v["stats"] = json!({"lost":st.path.lost_packets,"lostb":st.path.lost_bytes,
            "cev":st.path.congestion_events,"sentp":st.path.sent_packets,
            "lprobe":st.path.lost_plpmtud_probes,"sprobe":st.path.sent_plpmtud_probes,
            "bh":st.path.black_holes_detected,"udptx":st.udp_tx.datagrams,"udptxb":st.udp_tx.bytes,
            "udprx":st.udp_rx.datagrams,"udprxb":st.udp_rx.bytes});
        v
    }

    pub fn ep_probe(&self, n: usize) -> Value {
        let p = self.nodes[n].ep.verif_probe();
        json!({"conns":p.connections,"cids":p.connection_ids,"icids":p.connection_ids_initial,
               "inrem":p.incoming_connection_remotes,"outrem":p.outgoing_connection_remotes,
               "rtok":p.reset_tokens,"inbuf":p.incoming_buffers,"inbytes":p.incoming_buffer_bytes,
               "open":self.nodes[n].ep.open_connections()})
    }

    // -----------------------------------------------------------------------------------------
    // sending

    fn fate_for(&mut self, from_server: bool) -> Fate {
        let dir = from_server as usize;
        if self.cur_is_probe {
            let k = self.probe_count[dir];
            let pl = if from_server { &self.cfg.pfates_s2c } else { &self.cfg.pfates_c2s };
            if let Some(f) = pl.get(k) {
                self.probe_count[dir] += 1;
                return parse_fate(f);
            }
        }
        let i = self.sent_count[dir];
        self.sent_count[dir] += 1;
        let list = if from_server {
            &self.fates_s2c
        } else {
            &self.fates_c2s
        };
        if let Some(f) = list.get(i) {
            return f.clone();
        }
        if self.cfg.loss_pct > 0 || self.cfg.dup_pct > 0 {
            let r = (self.rand() % 100) as u32;
            if r < self.cfg.loss_pct {
                return Fate::Drop;
            }
            if r < self.cfg.loss_pct + self.cfg.dup_pct {
                let d = self.rand() % 30_000;
                return Fate::Dup(d);
            }
        }
        Fate::Deliver
    }

    /// Hand one datagram produced by node `n` to the network.
    pub fn send_dgram(
        &mut self,
        n: usize,
        dst: SocketAddr,
        data: Vec<u8>,
        ecn: Option<EcnCodepoint>,
        pkts: &[Pkt],
    ) -> (u64, Fate) {
        let id = self.next_dgram;
        self.next_dgram += 1;
        let from_server = self.nodes[n].is_server;
        let mut d = Dgram {
            id,
            orig: id,
            src: self.nodes[n].addr,
            dst,
            data,
            ecn: if self.cfg.ce_mark && ecn.is_some() {
                Some(EcnCodepoint::Ce)
            } else {
                ecn
            },
            at_us: self.now_us + self.cfg.latency_us,
            cls: "gen",
            seq: 0,
            exact: false,
            pkts: pk_summaries(pkts),
            damage: None,
            from_uid: self.cur_tx_uid,
        };
        if let Some(mut m) = self.mitm.take() {
            let secrets: Vec<u64> = self
                .client_cfgs
                .iter()
                .flat_map(|c| c.secrets.lock().unwrap().clone())
                .collect();
            let mut ctx = MitmCtx {
                secrets: &secrets,
                ticket: None,
                from_server,
                now_us: self.now_us,
            };
            m(&mut d, pkts, &mut ctx);
            self.mitm = Some(m);
            if d.cls == "inject" {
                let mut rctx = TxCtx {
                    dst_cid_len: pkts.last().map_or(0, |p| p.dcid.len()),
                    next_pn: [0; 3],
                };
                if let Some(mut np) = wire::parse_datagram(&d.data, &mut rctx) {
                    for (a, b) in np.iter_mut().zip(pkts.iter()) {
                        a.pn = b.pn;
                    }
                    d.pkts = pk_summaries(&np);
                }
            }
        }
        if self.keep_history {
            self.history.push(d.clone());
        }
        let mut fate = self.fate_for(from_server);
        if d.data.len() > self.cfg.link_mtu {
            fate = Fate::Drop;
        }
        if self.cfg.jitter_us > 0 {
            d.at_us += self.rand() % self.cfg.jitter_us;
        }
        match &fate {
            Fate::Deliver => self.enqueue(d),
            Fate::Drop => {}
            Fate::Dup(extra) => {
                let mut d2 = d.clone();
                d2.id = self.next_dgram;
                self.next_dgram += 1;
                d2.cls = "dup";
                d2.at_us += *extra;
                self.enqueue(d);
                self.enqueue(d2);
            }
            Fate::Delay(us) => {
                d.at_us += *us;
                self.enqueue(d);
            }
            Fate::Ecn(k) => {
                d.ecn = match (*k, d.ecn) {
                    (_, None) => None,
                    (0, Some(_)) => Some(EcnCodepoint::Ce),
                    (1, Some(_)) => None,
                    (_, Some(_)) => Some(EcnCodepoint::Ect1),
                };
                self.enqueue(d);
            }
            Fate::Corrupt(pos, x) => {
                let l = d.data.len() as i64;
                let p = if *pos >= 0 { *pos } else { l + *pos };
                if p >= 0 && p < l {
                    d.data[p as usize] ^= *x;
                    d.damage = Some((p as usize, p as usize + 1));
                    d.cls = "corrupt";
                }
                self.enqueue(d);
            }
            Fate::Truncate(k) => {
                if *k < d.data.len() {
                    d.damage = Some((*k, usize::MAX));
                    d.data.truncate(*k);
                    d.cls = "corrupt";
                }
                self.enqueue(d);
            }
            Fate::Extend(k) => {
                // junk after the last packet: a trailing short-header packet absorbs it
                let l = d.data.len();
                // after a long-header packet (explicit length) the junk is a separate, undecodable
                // packet and leaves the genuine ones intact
                let last_short = pkts.last().is_some_and(|p| p.ty == PType::Short);
                d.damage = Some((if last_short { l.saturating_sub(1) } else { l }, usize::MAX));
                d.data.extend(std::iter::repeat(0xa5).take(*k));
                d.cls = "corrupt";
                self.enqueue(d);
            }
            Fate::Shrink(k) => {
                if let Some(nd) = shrink_initial(&d.data, pkts, *k) {
                    d.data = nd;
                    d.cls = "shrunk";
                    let l = d.data.len();
                    for p in d.pkts.iter_mut() {
                        p.len = l;
                    }
                }
                self.enqueue(d);
            }
        }
        (id, fate)
    }

    pub fn enqueue(&mut self, mut d: Dgram) {
        d.seq = self.next_seq;
        self.next_seq += 1;
        self.net.push(d);
    }

    /// Inject an arbitrary datagram (scenario-made) into the network
    pub fn inject(
        &mut self,
        src: SocketAddr,
        dst: SocketAddr,
        data: Vec<u8>,
        cls: &'static str,
        orig: u64,
        delay_us: u64,
    ) -> u64 {
        let id = self.next_dgram;
        self.next_dgram += 1;
        let at_us = self.now_us + delay_us;
        self.enqueue(Dgram {
            id,
            orig,
            src,
            dst,
            data,
            ecn: None,
            at_us,
            cls,
            seq: 0,
            exact: false,
            pkts: Vec::new(),
            damage: None,
            from_uid: -1,
        });
        id
    }

    fn node_of_addr(&self, a: SocketAddr) -> Option<usize> {
        self.nodes.iter().position(|n| n.addr == a).or_else(|| {
            // a multi-homed node still receives on the addresses it used before
            if self.cfg.keep_old_addrs { self.nodes.iter().position(|n| n.old_addrs.contains(&a)) } else { None }
        })
    }

    /// Poll one connection for transmits until it has nothing more to send right now.
    pub fn flush_conn(&mut self, n: usize, c: usize) {
        let mut guard = 0;
        loop {
            guard += 1;
            if guard > 10_000 {
                let t = self.now_us;
                self.trace
                    .push(json!({"ev":"StepBound","t":t,"what":"flush_conn","n":n,"c":c}));
                self.panicked = true;
                return;
            }
            if !self.poll_transmit_once(n, c) {
                break;
            }
        }
    }

    /// One `poll_transmit` call. Returns whether something was sent.
    pub fn poll_transmit_once(&mut self, n: usize, c: usize) -> bool {
        let now = self.now();
        let maxdg = self.cfg.max_datagrams;
        if !self.nodes[n].conns.contains_key(&c) {
            return false;
        }
        let pre = self.probe(n, c);
        let mut buf = Vec::new();
        let r = self.guarded("poll_transmit", |w| {
            let slot = w.nodes[n].conns.get_mut(&c).unwrap();
            slot.conn.poll_transmit(now, maxdg, &mut buf)
        });
        let Some(Some(t)) = r else {
            // nothing to send; a poll may still have armed a timer (pacing): record that
            if r.is_some() && !self.quiet_polls {
                let post = self.probe(n, c);
                if post["tm"] != pre["tm"] {
                    let tnow = self.now_us;
                    self.trace
                        .push(json!({"ev":"TxNone","t":tnow,"n":n,"c":c,"pre":pre,"post":post}));
                }
            }
            return false;
        };
        let post = self.probe(n, c);
        self.cur_is_probe = post["stats"]["sprobe"] != pre["stats"]["sprobe"];
        let seg = t.segment_size.unwrap_or(t.size);
        let mut dgs = Vec::new();
        let mut off = 0;
        while off < t.size {
            let end = (off + seg).min(t.size);
            let data = buf[off..end].to_vec();
            off = end;
            let slot = self.nodes[n].conns.get_mut(&c).unwrap();
            let pkts = wire::parse_datagram(&data, &mut slot.tx);
            let pk = pkts.clone().unwrap_or_default();
            if let Some(last) = pk.last() {
                slot.last_dcid = last.dcid.clone();
            }
            for p in &pk {
                if !p.scid.is_empty() && !self.issued[n].contains(&p.scid) {
                    self.issued[n].push(p.scid.clone());
                }
                for f in &p.frames {
                    if let Frame::NewConnectionId { cid, .. } = f {
                        if !self.issued[n].contains(cid) {
                            self.issued[n].push(cid.clone());
                        }
                    }
                }
            }
            let size = data.len();
            self.cur_tx_uid = self.nodes[n].conns[&c].uid;
            let (id, fate) = self.send_dgram(n, t.destination, data, t.ecn, &pk);
            self.cur_tx_uid = -1;
            dgs.push(json!({"id":id,"size":size,"fate":fate_str(&fate),
                "ok":pkts.is_some(),"pkts":pk.iter().map(pkt_json).collect::<Vec<_>>()}));
        }
        self.cur_is_probe = false;
        let tnow = self.now_us;
        self.trace.push(json!({
            "ev":"Tx","t":tnow,"n":n,"c":c,"uid":self.nodes[n].conns[&c].uid,"dst":addr_id(t.destination),"size":t.size,
            "seg":t.segment_size.unwrap_or(0),"ecn":t.ecn.is_some(),
            "dgs":dgs,"pre":pre,"post":post,
        }));
        true
    }

    /// Send an endpoint-generated response (stateless reset, VN, retry, refusal)
    fn send_response(&mut self, n: usize, t: quinn_proto::Transmit, buf: &[u8], why: &str, incite: i64) {
        let incite_id = self.cur_rx_id;
        let data = buf[..t.size].to_vec();
        let mut ctx = self.nodes[n].resp_tx.clone();
        ctx.next_pn = [0; 3];
        let pkts = wire::parse_datagram(&data, &mut ctx).unwrap_or_default();
        if why == "retry" {
            if let Some(p) = pkts.first() {
                self.tok_retry.push(p.token.clone());
            }
        }
        let size = data.len();
        let rfirst = data.first().copied().unwrap_or(0);
        let rver: i64 = if data.len() >= 5 && rfirst & 0x80 != 0 { u32::from_be_bytes([data[1], data[2], data[3], data[4]]) as i64 } else { -1 };
        let (id, fate) = self.send_dgram(n, t.destination, data, t.ecn, &pkts);
        let tnow = self.now_us;
        self.trace.push(json!({
            "ev":"Resp","t":tnow,"n":n,"dst":addr_id(t.destination),"size":size,"why":why,
            "first":rfirst,"ver":rver,
            "incite":incite,"incite_id":incite_id,"id":id,"fate":fate_str(&fate),
            "pkts":pkts.iter().map(pkt_json).collect::<Vec<_>>(),
        }));
    }

    // -----------------------------------------------------------------------------------------
    // receiving

    pub fn deliver(&mut self, d: Dgram) {
        let Some(n) = self.node_of_addr(d.dst) else {
            let t = self.now_us;
            self.trace
                .push(json!({"ev":"Rx","t":t,"n":-1,"id":d.id,"kind":"noroute","size":d.data.len()}));
            return;
        };
        let now = self.now();
        self.cur_rx_id = d.id as i64;
        self.cur_rx_uid = d.from_uid;
        let mut buf = Vec::new();
        let size = d.data.len();
        let data = BytesMut::from(&d.data[..]);
        let ep_pre = self.ep_probe(n);
        let src = d.src;
        let ecn = d.ecn;
        let r = self.guarded("endpoint.handle", |w| {
            w.nodes[n].ep.handle(now, src, None, ecn, data, &mut buf)
        });
        if self.tok_srv_log.is_some() {
            crate::tokens::drain(self, n, -1);
        }
        let tnow = self.now_us;
        let mut rctx = TxCtx {
            dst_cid_len: self.nodes[n].cid_len,
            next_pn: [0; 3],
        };
        let pk: Vec<Value> = wire::parse_datagram(&d.data, &mut rctx)
            .unwrap_or_default()
            .iter()
            .map(pkt_json)
            .collect();
        // genuine packets that arrive intact: [space, pn, [[frame index, count]..]]
        let ipk: Vec<Value> = d
            .pkts
            .iter()
            .filter(|p| match d.damage {
                None => true,
                Some((lo, hi)) => p.start + p.len <= lo || p.start >= hi,
            })
            .map(|p| {
                let ty = match p.ty {
                    PType::Retry => "R",
                    PType::VersionNeg => "V",
                    _ => "P",
                };
                json!({"ty":ty,"sp":p.space,"pn":p.pn,
                    "fr":p.frames.iter().map(|(i, c)| json!([i + 1, c])).collect::<Vec<_>>()})
            })
            .collect();
        // destination connection ID as the routing layer must see it (independent of the decoder)
        let rdcid: String = {
            let b = &d.data;
            let cl = self.nodes[n].cid_len;
            let cid: &[u8] = if b.is_empty() {
                &[]
            } else if b[0] & 0x80 != 0 {
                if b.len() > 5 && b.len() >= 6 + b[5] as usize { &b[6..6 + b[5] as usize] } else { &[] }
            } else if b.len() > cl {
                &b[1..1 + cl]
            } else {
                &[]
            };
            cid.iter().map(|x| format!("{:02x}", x)).collect()
        };
        // connection ID lengths of a long header, when both IDs are there in full
        let lens: Value = {
            let b = &d.data;
            if b.len() > 5 && b[0] & 0x80 != 0 {
                let dl = b[5] as usize;
                if b.len() > 6 + dl {
                    let sl = b[6 + dl] as usize;
                    if b.len() >= 7 + dl + sl { json!([dl, sl]) } else { Value::Null }
                } else {
                    Value::Null
                }
            } else {
                Value::Null
            }
        };
        let base = json!({"ev":"Rx","t":tnow,"n":n,"id":d.id,"orig":d.orig,"suid":d.from_uid,"rdcid":rdcid,
            "long":d.data.first().is_some_and(|b| b & 0x80 != 0),"damaged":d.damage.is_some(),"src":addr_id(d.src),
            "ver":if d.data.len() >= 5 { u32::from_be_bytes([d.data[1], d.data[2], d.data[3], d.data[4]]) as i64 } else { -1 },
            "size":size,"cls":d.cls,"first":d.data.first().copied().unwrap_or(0),"pk":pk,
            "cidl":self.nodes[n].cid_len,
            "lens":lens,
            "ecnm":match d.ecn { None => "none", Some(EcnCodepoint::Ect0) => "ect0", Some(EcnCodepoint::Ect1) => "ect1", Some(EcnCodepoint::Ce) => "ce" },
            "exact":d.exact,"ipk":ipk,
            "otypes":d.pkts.iter().map(|p| match p.ty { PType::Retry => "R", PType::VersionNeg => "V", _ => "P" }).collect::<String>()});
        let mut base = base;
        if d.data.len() > 5 && d.data[0] & 0xb0 == 0xb0 && d.data[1..5] != [0, 0, 0, 0] {
            // Retry packet: keep the bytes, the integrity tag is judged downstream (C14)
            base["retry_raw"] = json!(hex(&d.data));
        }
        let Some(r) = r else { return };
        // the live connection of this node (if any) whose current remote ID's stateless reset token
        // ends the datagram: a datagram that reaches no connection may still have been meant for it
        let tok_owner: i64 = {
            let mut found = -1i64;
            // (client endpoints only: a server never learns a token for the ID its client chose for the
            // handshake, so what a client endpoint sends as a reset for it cannot be recognised)
            if d.data.len() >= 21 && n != 0 {
                let tail = &d.data[d.data.len() - 16..];
                for (_, slot) in self.nodes[n].conns.iter() {
                    let peer = slot.peer;
                    if slot.last_dcid.is_empty() || !self.issued[peer].contains(&slot.last_dcid) {
                        continue;
                    }
                    let key = toycrypto::ToyHmacKey(0x1234 + peer as u64);
                    let mut sig = [0u8; 32];
                    quinn_proto::crypto::HmacKey::sign(&key, &slot.last_dcid, &mut sig);
                    if sig[..16] == *tail {
                        found = slot.uid as i64;
                    }
                }
            }
            found
        };
        let mut base = base;
        base["tokuid"] = json!(tok_owner);
        match r {
            None => {
                let mut v = base;
                v["kind"] = json!("none");
                v["c"] = json!(-1);
                v["ep_pre"] = ep_pre;
                v["ep_post"] = self.ep_probe(n);
                self.trace.push(v);
            }
            Some(DatagramEvent::Response(t)) => {
                let mut v = base;
                v["kind"] = json!("resp");
                v["c"] = json!(-1);
                v["ep_pre"] = ep_pre;
                v["ep_post"] = self.ep_probe(n);
                self.trace.push(v);
                self.send_response(n, t, &buf, "handle", size as i64);
            }
            Some(DatagramEvent::ConnectionEvent(ch, ev)) => {
                let c = ch.0;
                if !self.nodes[n].conns.contains_key(&c) {
                    let mut v = base;
                    v["kind"] = json!("stale");
                    v["c"] = json!(c);
                    self.trace.push(v);
                    return;
                }
                let pre = self.probe(n, c);
                let stats_pre = self.nodes[n].conns[&c].conn.stats();
                let rtok = {
                    let slot = &self.nodes[n].conns[&c];
                    let peer = slot.peer;
                    if d.data.len() >= 21 {
                        let tail = &d.data[d.data.len() - 16..];
                        let key = toycrypto::ToyHmacKey(0x1234 + peer as u64);
                        let tok = |cid: &[u8]| {
                            let mut sig = [0u8; 32];
                            quinn_proto::crypto::HmacKey::sign(&key, cid, &mut sig);
                            sig[..16].to_vec()
                        };
                        if !slot.last_dcid.is_empty()
                            && self.issued[peer].contains(&slot.last_dcid)
                            && tok(&slot.last_dcid) == tail
                        {
                            "exact"
                        } else if self.issued[peer].iter().any(|cid| tok(cid) == tail) {
                            "maybe"
                        } else {
                            "no"
                        }
                    } else {
                        "no"
                    }
                };
                self.guarded("conn.handle_event", |w| {
                    w.nodes[n].conns.get_mut(&c).unwrap().conn.handle_event(ev)
                });
                let stats_post = self.nodes[n].conns[&c].conn.stats();
                let a = frame_rx_vec(&stats_pre.frame_rx);
                let b = frame_rx_vec(&stats_post.frame_rx);
                let dfr: Vec<u64> = a.iter().zip(b.iter()).map(|(x, y)| y - x).collect();
                let mut v = base;
                v["kind"] = json!("conn");
                v["c"] = json!(c);
                v["uid"] = json!(self.nodes[n].conns[&c].uid);
                v["dfr"] = json!(dfr);
                v["dfr_sum"] = json!(dfr.iter().sum::<u64>());
                v["rtok"] = json!(rtok);
                v["pre"] = pre;
                v["post"] = self.probe(n, c);
                self.trace.push(v);
                let uid = self.nodes[n].conns[&c].uid;
                crate::tokens::drain(self, n, uid);
                self.after_input(n, c);
            }
            Some(DatagramEvent::NewConnection(inc)) => {
                let validated = inc.remote_address_validated();
                let may_retry = inc.may_retry();
                let mut v = base;
                v["kind"] = json!("new");
                v["c"] = json!(-1);
                v["validated"] = json!(validated);
                v["may_retry"] = json!(may_retry);
                v["ep_pre"] = ep_pre;
                v["ep_post"] = self.ep_probe(n);
                self.trace.push(v);
                let policy = self.cfg.incoming.clone();
                match policy.as_str() {
                    "accept" => self.accept(n, inc),
                    "validate" => {
                        if validated || !may_retry {
                            self.accept(n, inc)
                        } else {
                            self.retry(n, inc)
                        }
                    }
                    "retry" => {
                        if may_retry {
                            self.retry(n, inc)
                        } else {
                            self.accept(n, inc)
                        }
                    }
                    "reject" => {
                        let mut buf = Vec::new();
                        let t = self.nodes[n].ep.refuse(inc, &mut buf);
                        self.send_response(n, t, &buf, "refuse", size as i64);
                    }
                    "ignore" => self.nodes[n].ep.ignore(inc),
                    "wait" => self.nodes[n].waiting.push(inc),
                    o => panic!("unknown incoming policy {o}"),
                }
            }
        }
    }

    pub fn retry(&mut self, n: usize, inc: Incoming) {
        let mut buf = Vec::new();
        match self.nodes[n].ep.retry(inc, &mut buf) {
            Ok(t) => self.send_response(n, t, &buf, "retry", -1),
            Err(e) => {
                let inc = e.into_incoming();
                self.accept(n, inc)
            }
        }
    }

    pub fn accept(&mut self, n: usize, inc: Incoming) {
        let now = self.now();
        let mut buf = Vec::new();
        let peer = self.node_of_addr(inc.remote_address()).unwrap_or(0);
        let r = self.guarded("endpoint.accept", |w| {
            w.nodes[n].ep.accept(inc, now, &mut buf, None)
        });
        let t = self.now_us;
        match r {
            None => {}
            Some(Ok((ch, conn))) => {
                let ccid = self.cfg.client_cid_len;
                self.nodes[n].conns.insert(
                    ch.0,
                    ConnSlot {
                        conn,
                        handle: ch,
                        tx: TxCtx {
                            dst_cid_len: ccid,
                            next_pn: [0; 3],
                        },
                        events: VecDeque::new(),
                        drained: false,
                        lost: 0,
                        peer,
                        last_frame_rx: [0; 24],
                        app_events: Vec::new(),
                        last_dcid: Vec::new(),
                        uid: self.next_uid,
                        puid: self.cur_rx_uid,
                    },
                );
                self.next_uid += 1;
                let p = self.probe(n, ch.0);
                let fr = frame_rx_vec(&self.nodes[n].conns[&ch.0].conn.stats().frame_rx);
                self.trace.push(json!({"ev":"Accept","t":t,"n":n,"c":ch.0,"ok":true,"post":p,
                    "dfr":fr.to_vec(),"peer":peer,"uid":self.next_uid - 1,"puid":self.cur_rx_uid}));
                if let Some(b) = self.tp_server.lock().unwrap().last() {
                    let mut v = tp_json(b);
                    v["ev"] = json!("TP");
                    v["n"] = json!(n);
                    v["c"] = json!(ch.0);
                    v["t"] = json!(t);
                    self.trace.push(v);
                }
                self.after_input(n, ch.0);
            }
            Some(Err(e)) => {
                self.trace.push(json!({"ev":"Accept","t":t,"n":n,"c":-1,"ok":false,
                    "err":format!("{:?}", e.cause)}));
                if let Some(tr) = e.response {
                    self.send_response(n, tr, &buf, "accept_err", -1);
                }
            }
        }
    }

    /// After any input to a connection: endpoint events, app events, transmits.
    pub fn after_input(&mut self, n: usize, c: usize) {
        self.pump_endpoint_events(n, c);
        self.poll_app(n, c);
        self.flush_conn(n, c);
        self.pump_endpoint_events(n, c);
        self.poll_app(n, c);
    }

    pub fn pump_endpoint_events(&mut self, n: usize, c: usize) {
        let mut guard = 0;
        loop {
            guard += 1;
            if guard > 10_000 {
                self.panicked = true;
                let t = self.now_us;
                self.trace
                    .push(json!({"ev":"StepBound","t":t,"what":"endpoint_events"}));
                return;
            }
            let Some(slot) = self.nodes[n].conns.get_mut(&c) else {
                return;
            };
            let Some(ev) = slot.conn.poll_endpoint_events() else {
                return;
            };
            let drained = ev.is_drained();
            let handle = slot.handle;
            let already = slot.drained;
            if drained {
                slot.drained = true;
            }
            let t = self.now_us;
            let ep_pre = self.ep_probe(n);
            // a second Drained for the same handle would hit whatever connection now owns the slot;
            // record it but do not forward it
            let back = if drained && already {
                None
            } else {
                self.guarded("endpoint.handle_event", |w| {
                    w.nodes[n].ep.handle_event(handle, ev)
                })
                .flatten()
            };
            let ep_post = self.ep_probe(n);
            let uid = self.nodes[n].conns.get(&c).map(|s| s.uid).unwrap_or(-1);
            self.trace.push(json!({"ev":"EpEvent","t":t,"n":n,"c":c,"uid":uid,"drained":drained,
                "dup":drained && already,"ep_pre":ep_pre,"ep_post":ep_post}));
            if let Some(back) = back {
                self.guarded("conn.handle_event(ids)", |w| {
                    w.nodes[n].conns.get_mut(&c).unwrap().conn.handle_event(back)
                });
            }
        }
    }

    /// Drain application events, logging each. Returns them for app drivers.
    pub fn poll_app(&mut self, n: usize, c: usize) {
        let mut guard = 0;
        loop {
            guard += 1;
            if guard > 100_000 {
                self.panicked = true;
                return;
            }
            let Some(slot) = self.nodes[n].conns.get_mut(&c) else {
                return;
            };
            let Some(ev) = slot.conn.poll() else { return };
            let v = event_json(&ev);
            if matches!(ev, Event::ConnectionLost { .. }) {
                slot.lost += 1;
            }
            slot.app_events.push(v.clone());
            let t = self.now_us;
            let st = slot.conn.verif_probe(self.epoch).state;
            let mut line = json!({"ev":"AppEvent","t":t,"n":n,"c":c,"uid":slot.uid,"st":st});
            line["e"] = v;
            self.trace.push(line);
        }
    }

    pub fn take_app_events(&mut self, n: usize, c: usize) -> Vec<Value> {
        match self.nodes[n].conns.get_mut(&c) {
            Some(s) => std::mem::take(&mut s.app_events),
            None => vec![],
        }
    }

    // -----------------------------------------------------------------------------------------
    // time

    pub fn next_timer(&self) -> Option<(u64, usize, usize)> {
        let mut best: Option<(u64, usize, usize)> = None;
        for node in &self.nodes {
            for (c, slot) in &node.conns {
                if let Some(t) = slot.conn.poll_timeout() {
                    let us = t.saturating_duration_since(self.epoch).as_nanos().div_ceil(1000) as u64;
                    if best.is_none_or(|b| us < b.0) {
                        best = Some((us, node.idx, *c));
                    }
                }
            }
        }
        best
    }

    pub fn next_delivery(&self) -> Option<usize> {
        let mut best: Option<usize> = None;
        for (i, d) in self.net.iter().enumerate() {
            if best.is_none_or(|b| (d.at_us, d.seq) < (self.net[b].at_us, self.net[b].seq)) {
                best = Some(i);
            }
        }
        best
    }

    /// Whether the connection's next timeout is not in the future
    pub fn timer_due(&self, n: usize, c: usize) -> bool {
        let now = self.now();
        self.nodes[n].conns.get(&c).and_then(|s| s.conn.poll_timeout()).is_some_and(|t| t <= now)
    }

    pub fn fire_timeout(&mut self, n: usize, c: usize) {
        let now = self.now();
        let before = self.nodes[n].conns[&c]
            .conn
            .poll_timeout()
            .map(|t| t.saturating_duration_since(self.epoch).as_micros() as i64)
            .unwrap_or(-1);
        let pre = self.probe(n, c);
        self.guarded("handle_timeout", |w| {
            w.nodes[n].conns.get_mut(&c).unwrap().conn.handle_timeout(now)
        });
        let after = self.nodes[n].conns[&c]
            .conn
            .poll_timeout()
            .map(|t| t.saturating_duration_since(self.epoch).as_micros() as i64)
            .unwrap_or(-1);
        let t = self.now_us;
        let post = self.probe(n, c);
        self.trace.push(json!({"ev":"Timeout","t":t,"n":n,"c":c,"before":before,"after":after,
            "pre":pre,"post":post}));
        self.after_input(n, c);
    }

    /// Advance the world by one event (delivery or timer). Returns false if nothing is pending
    /// before `limit_us`.
    pub fn step(&mut self, limit_us: u64) -> bool {
        self.steps += 1;
        if self.trace.len() > self.max_trace || self.panicked {
            if !self.panicked {
                let t = self.now_us;
                self.trace
                    .push(json!({"ev":"StepBound","t":t,"what":"max_trace"}));
                self.panicked = true;
            }
            return false;
        }
        let late = self.cfg.late_us;
        let nd = self.next_delivery().map(|i| self.net[i].at_us);
        let nt = self.next_timer().map(|(t, n, c)| (t + late, n, c));
        // an over-eager driver: while a connection waits for its pacing timer it is polled again and
        // again at short intervals instead of sleeping until the timer (bounded per run)
        if self.cfg.eager_poll_us > 0 && self.eager_left > 0 {
            let epoch = self.epoch;
            let paced: Option<(usize, usize)> = self.nodes.iter().find_map(|node| {
                node.conns.iter().find(|(_, s)| !s.drained && s.conn.verif_probe(epoch).timers[6].is_some())
                    .map(|(c, _)| (node.idx, *c))
            });
            if let Some((n, c)) = paced {
                let at = self.now_us + self.cfg.eager_poll_us;
                let next = nd.unwrap_or(u64::MAX).min(nt.map_or(u64::MAX, |x| x.0));
                if at < next && at <= limit_us {
                    self.eager_left -= 1;
                    self.now_us = at;
                    self.clock.store(self.now_us, Ordering::Relaxed);
                    self.quiet_polls = true;
                    self.poll_transmit_once(n, c);
                    self.quiet_polls = false;
                    return true;
                }
            }
        }
        let pick_delivery = match (nd, nt) {
            (None, None) => return false,
            (Some(_), None) => true,
            (None, Some(_)) => false,
            (Some(a), Some((b, _, _))) => a <= b,
        };
        if pick_delivery {
            let i = self.next_delivery().unwrap();
            if self.net[i].at_us > limit_us {
                return false;
            }
            let d = self.net.swap_remove(i);
            self.now_us = self.now_us.max(d.at_us);
            self.clock.store(self.now_us, Ordering::Relaxed);
            self.deliver(d);
        } else {
            let (t, n, c) = nt.unwrap();
            if t > limit_us {
                return false;
            }
            self.now_us = self.now_us.max(t);
            self.clock.store(self.now_us, Ordering::Relaxed);
            self.fire_timeout(n, c);
            if self.cfg.spurious {
                // extra harmless calls
                self.fire_timeout(n, c);
                self.poll_transmit_once(n, c);
            }
        }
        self.reap();
        true
    }

    /// Remove drained connections whose Drained event was forwarded
    pub fn reap(&mut self) {
        // keep drained connections around: scenarios may still poke them; they are cheap
    }

    pub fn run_for(&mut self, dt_us: u64) {
        let limit = self.now_us + dt_us;
        let mut guard = 0u64;
        while self.step(limit) {
            guard += 1;
            if guard > 2_000_000 || self.panicked {
                if !self.panicked {
                    let t = self.now_us;
                    self.trace
                        .push(json!({"ev":"StepBound","t":t,"what":"run_for"}));
                    self.panicked = true;
                }
                return;
            }
        }
        self.now_us = limit;
        self.clock.store(self.now_us, Ordering::Relaxed);
    }

    /// Run until `pred` holds (checked after each step) or `max_us` of virtual time passed.
    pub fn run_until(&mut self, max_us: u64, mut pred: impl FnMut(&mut Self) -> bool) -> bool {
        let limit = self.now_us + max_us;
        let mut guard = 0u64;
        loop {
            if pred(self) {
                return true;
            }
            if !self.step(limit) {
                return pred(self);
            }
            guard += 1;
            if guard > 2_000_000 || self.panicked {
                return false;
            }
        }
    }

    pub fn finish(&mut self) {
        let t = self.now_us;
        let eps: Vec<Value> = (0..self.nodes.len()).map(|n| self.ep_probe(n)).collect();
        let epoch = self.epoch;
        let lost: Vec<Value> = self
            .nodes
            .iter()
            .flat_map(|n| {
                n.conns
                    .iter()
                    .map(move |(c, s)| {
                        let p = s.conn.verif_probe(epoch);
                        json!({"n":n.idx,"c":c,"uid":s.uid,"lcids":p.loc_cid_active.len(),"lost":s.lost,"drained":s.drained,
                            "rem":p.path.remote.map_or(0, addr_id),"val":p.path.validated,
                            "sstreams":p.streams.send.iter().filter(|x| x.unacked > 0 && x.state < 3)
                                .map(|x| json!([x.id, x.unacked.min(1 << 30), x.state])).collect::<Vec<_>>(),
                            "ifb":p.path.in_flight_bytes,"ifae":p.path.in_flight_ack_eliciting,"st":p.state,
                            "sall":p.streams.send.iter().map(|x| json!([x.id, x.state, x.stop_reason.map_or(-1, |c| c.min(1 << 30) as i64)])).collect::<Vec<_>>(),
                            "rall":p.streams.recv.iter().map(|x| json!([x.id, x.state, x.stopped])).collect::<Vec<_>>(),
                            "tm0":p.timers[0].unwrap_or(-1),"tm6":p.timers[6].unwrap_or(-1),
                            "pcrypto":p.spaces[0].pending_crypto + p.spaces[1].pending_crypto,
                            "hsout":p.spaces[0].sent.iter().chain(p.spaces[1].sent.iter()).filter(|x| x.2).count(),
                            "cwnd":p.path.cwnd.min(1 << 30)})
                    })
            })
            .collect();
        self.trace.push(json!({"ev":"End","t":t,"steps":self.steps,"eps":eps,"conns":lost,
            "panicked":self.panicked,"net":self.net.len()}));
    }
}

/// The transport parameters a server configured with `cfg.ticket_server` (default `cfg.server`)
/// really presents: taken from a scratch handshake on a clean network, then edited by `ticket_tp`.
pub fn remembered_params(cfg: &Cfg) -> Vec<u8> {
    let mut c2 = cfg.clone();
    c2.ticket = false;
    if let Some(t) = &cfg.ticket_server {
        c2.server = t.clone();
    }
    c2.clients = 1;
    c2.fates_c2s.clear();
    c2.fates_s2c.clear();
    c2.loss_pct = 0;
    c2.dup_pct = 0;
    c2.jitter_us = 0;
    c2.link_mtu = d_mtu();
    c2.incoming = d_accept();
    c2.client_tp.clear();
    c2.server_tp.clear();
    c2.ch_size = 0;
    c2.epoch_shift_s = 0;
    let mut w = World::new(c2, u64::MAX);
    if let Some(c) = w.connect(1) {
        w.after_input(1, c);
    }
    w.run_until(5_000_000, |w| !w.tp_server.lock().unwrap().is_empty());
    let b = w.tp_server.lock().unwrap().last().cloned().unwrap_or_default();
    tp_edit(&b, &cfg.ticket_tp)
}

/// Apply hostile edits to an encoded transport parameter list
pub fn tp_edit(b: &[u8], edits: &[Value]) -> Vec<u8> {
    if edits.is_empty() {
        return b.to_vec();
    }
    let mut items: Vec<(u64, Vec<u8>)> = Vec::new();
    let mut r = wire::Rd::new(b);
    while r.left() > 0 {
        let Some(id) = r.var() else { break };
        let Some(len) = r.var() else { break };
        let Some(body) = r.take(len as usize) else { break };
        items.push((id, body.to_vec()));
    }
    for e in edits {
        let id = e[0].as_u64().unwrap_or(0);
        let v = e[1].as_i64().unwrap_or(0);
        if v == -1 {
            items.retain(|x| x.0 != id);
        } else if v == -4 {
            // alter the last byte of the parameter's value
            if let Some(x) = items.iter_mut().find(|x| x.0 == id) {
                if let Some(b) = x.1.last_mut() {
                    *b ^= 1;
                }
            }
        } else if v == -3 {
            // duplicate the parameter
            if let Some(x) = items.iter().find(|x| x.0 == id).cloned() {
                items.push(x);
            }
        } else {
            let body = if v == -2 {
                let hexs = e[2].as_str().unwrap_or("");
                (0..hexs.len() / 2)
                    .map(|i| u8::from_str_radix(&hexs[2 * i..2 * i + 2], 16).unwrap_or(0))
                    .collect()
            } else {
                let mut o = Vec::new();
                wire::put_var(&mut o, v as u64);
                o
            };
            if let Some(x) = items.iter_mut().find(|x| x.0 == id) {
                x.1 = body;
            } else {
                items.push((id, body));
            }
        }
    }
    let mut out = Vec::new();
    for (id, body) in items {
        wire::put_var(&mut out, id);
        wire::put_var(&mut out, body.len() as u64);
        out.extend_from_slice(&body);
    }
    out
}

/// Independent TLV decode of the integer transport parameters (RFC 9000 section 18)
pub fn tp_json(b: &[u8]) -> Value {
    let mut r = wire::Rd::new(b);
    let mut v = json!({"md":0,"sdbl":0,"sdbr":0,"sduni":0,"msb":0,"msu":0,"idle":0,"udp":65527,
        "dgram":-1,"acid":2,"mad":25,"minad":-1});
    while r.left() > 0 {
        let Some(id) = r.var() else { break };
        let Some(len) = r.var() else { break };
        let Some(body) = r.take(len as usize) else { break };
        let mut br = wire::Rd::new(body);
        let val = br.var().unwrap_or(0).min(1 << 30);
        // connection ID authentication parameters (C14): hex, absent = key missing
        match id {
            0x00 => v["odcid"] = json!(hex(body)),
            0x0f => v["iscid"] = json!(hex(body)),
            0x10 => v["rscid"] = json!(hex(body)),
            _ => {}
        }
        let key = match id {
            0x01 => "idle",
            0x03 => "udp",
            0x04 => "md",
            0x05 => "sdbl",
            0x06 => "sdbr",
            0x07 => "sduni",
            0x08 => "msb",
            0x09 => "msu",
            0x0b => "mad",
            0x0e => "acid",
            0x20 => "dgram",
            0xff04de1b => "minad",
            _ => continue,
        };
        v[key] = json!(val);
    }
    v
}

pub fn fate_str(f: &Fate) -> String {
    match f {
        Fate::Deliver => "ok".into(),
        Fate::Drop => "x".into(),
        Fate::Dup(_) => "dup".into(),
        Fate::Delay(_) => "delay".into(),
        Fate::Corrupt(..) => "corrupt".into(),
        Fate::Truncate(_) => "trunc".into(),
        Fate::Extend(_) => "ext".into(),
        Fate::Shrink(_) => "shrink".into(),
        Fate::Ecn(0) => "ce".into(),
        Fate::Ecn(1) => "bleach".into(),
        Fate::Ecn(_) => "ect1".into(),
    }
}

pub fn pkt_json(p: &Pkt) -> Value {
    let ty = match p.ty {
        PType::Initial => "I",
        PType::ZeroRtt => "Z",
        PType::Handshake => "H",
        PType::Retry => "R",
        PType::Short => "S",
        PType::VersionNeg => "V",
    };
    json!({"ty":ty,"sp":p.ty.space().map_or(-1, |x| x as i64),"pn":p.pn,"kp":p.key_phase,
        "len":p.len,"ae":p.ack_eliciting(),"ok":p.frames_ok,"tok":p.token.len(),
        "dcid":hex(&p.dcid),"scid":hex(&p.scid),"tokh":hex(&p.token),
        "fr":p.frames.iter().map(frame_json).collect::<Vec<_>>()})
}

pub fn hex(b: &[u8]) -> String {
    b.iter().map(|x| format!("{x:02x}")).collect()
}

pub fn frame_json(f: &Frame) -> Value {
    match f {
        Frame::Padding(n) => json!({"f":"PADDING","n":n}),
        Frame::Ping => json!({"f":"PING"}),
        Frame::Ack {
            largest,
            delay,
            ranges,
            ecn,
        } => json!({"f":"ACK","largest":largest,"delay":delay,
            "ranges":ranges.iter().map(|(a,b)| json!([a,b])).collect::<Vec<_>>(),"ecn":ecn.is_some(),
            "ecnc":ecn.map(|(a, b, c)| json!([a, b, c]))}),
        Frame::ResetStream {
            id,
            code,
            final_size,
        } => json!({"f":"RESET_STREAM","id":id,"code":code,"fin":final_size}),
        Frame::StopSending { id, code } => json!({"f":"STOP_SENDING","id":id,"code":code}),
        Frame::Crypto { off, len } => json!({"f":"CRYPTO","off":off,"len":len}),
        Frame::NewToken { token } => json!({"f":"NEW_TOKEN","len":token.len(),"tok":hex(token)}),
        Frame::Stream {
            id, off, len, fin, ..
        } => json!({"f":"STREAM","id":id,"off":off,"len":len,"fin":fin}),
        Frame::MaxData(v) => json!({"f":"MAX_DATA","v":v}),
        Frame::MaxStreamData { id, max } => json!({"f":"MAX_STREAM_DATA","id":id,"v":max}),
        Frame::MaxStreams { uni, max } => json!({"f":"MAX_STREAMS","uni":uni,"v":max}),
        Frame::DataBlocked(v) => json!({"f":"DATA_BLOCKED","v":v}),
        Frame::StreamDataBlocked { id, limit } => {
            json!({"f":"STREAM_DATA_BLOCKED","id":id,"v":limit})
        }
        Frame::StreamsBlocked { uni, limit } => json!({"f":"STREAMS_BLOCKED","uni":uni,"v":limit}),
        Frame::NewConnectionId {
            seq,
            retire_prior_to,
            cid,
            token,
        } => json!({"f":"NEW_CONNECTION_ID","seq":seq,"rpt":retire_prior_to,"cid":hex(cid),
            "tok":hex(token)}),
        Frame::RetireConnectionId(s) => json!({"f":"RETIRE_CONNECTION_ID","seq":s}),
        Frame::PathChallenge(t) => json!({"f":"PATH_CHALLENGE","tok":format!("{t:016x}")}),
        Frame::PathResponse(t) => json!({"f":"PATH_RESPONSE","tok":format!("{t:016x}")}),
        Frame::Close {
            app,
            code,
            frame_type,
            reason,
        } => json!({"f":"CONNECTION_CLOSE","app":app,"code":code,"ft":frame_type.map_or(-1, |x| x as i64),
            "reason":String::from_utf8_lossy(reason)}),
        Frame::HandshakeDone => json!({"f":"HANDSHAKE_DONE"}),
        Frame::ImmediateAck => json!({"f":"IMMEDIATE_ACK"}),
        Frame::AckFrequency {
            seq,
            threshold,
            max_ack_delay,
            reordering,
        } => json!({"f":"ACK_FREQUENCY","seq":seq,"th":threshold,"mad":max_ack_delay,"ro":reordering}),
        Frame::Datagram { len, did, hlen, intact, fsize, .. } => {
            json!({"f":"DATAGRAM","len":len,"did":did,"hlen":hlen,"intact":intact,"fsize":fsize})
        }
        Frame::Unknown(t) => json!({"f":"UNKNOWN","ty":t}),
    }
}

pub fn conn_err_json(e: &quinn_proto::ConnectionError) -> Value {
    use quinn_proto::ConnectionError::*;
    match e {
        VersionMismatch => json!({"k":"VersionMismatch","code":-1}),
        TransportError(t) => json!({"k":"TransportError","code":u64::from(t.code),"reason":t.reason}),
        ConnectionClosed(c) => json!({"k":"ConnectionClosed","code":u64::from(c.error_code),
            "reason":String::from_utf8_lossy(&c.reason)}),
        ApplicationClosed(c) => json!({"k":"ApplicationClosed","code":c.error_code.into_inner(),
            "reason":String::from_utf8_lossy(&c.reason)}),
        Reset => json!({"k":"Reset","code":-1}),
        TimedOut => json!({"k":"TimedOut","code":-1}),
        LocallyClosed => json!({"k":"LocallyClosed","code":-1}),
        CidsExhausted => json!({"k":"CidsExhausted","code":-1}),
    }
}

pub fn dir_i(d: Dir) -> u8 {
    match d {
        Dir::Bi => 0,
        Dir::Uni => 1,
    }
}

pub fn event_json(e: &Event) -> Value {
    match e {
        Event::HandshakeDataReady => json!({"k":"HandshakeDataReady"}),
        Event::Connected => json!({"k":"Connected"}),
        Event::HandshakeConfirmed => json!({"k":"HandshakeConfirmed"}),
        Event::ConnectionLost { reason } => json!({"k":"ConnectionLost","reason":conn_err_json(reason)}),
        Event::DatagramReceived => json!({"k":"DatagramReceived"}),
        Event::DatagramsUnblocked => json!({"k":"DatagramsUnblocked"}),
        Event::Stream(s) => match s {
            StreamEvent::Opened { dir } => json!({"k":"Opened","dir":dir_i(*dir)}),
            StreamEvent::Readable { id } => json!({"k":"Readable","id":stream_id_u64(*id)}),
            StreamEvent::Writable { id } => json!({"k":"Writable","id":stream_id_u64(*id)}),
            StreamEvent::Finished { id } => json!({"k":"Finished","id":stream_id_u64(*id)}),
            StreamEvent::Stopped { id, error_code } => {
                json!({"k":"Stopped","id":stream_id_u64(*id),"code":error_code.into_inner()})
            }
            StreamEvent::Available { dir } => json!({"k":"Available","dir":dir_i(*dir)}),
        },
    }
}

pub fn probe_json(p: &quinn_proto::verif::ConnProbe, level: u8) -> Value {
    let path = |p: &quinn_proto::verif::PathProbe| {
        json!({"rem":p.remote.map_or(0, addr_id),"gen":p.generation,"val":p.validated,
            "sent":p.total_sent,"recvd":p.total_recvd,"chal":p.challenge,"chalp":p.challenge_pending,
            "ifb":p.in_flight_bytes,"ifae":p.in_flight_ack_eliciting,"mtu":p.mtu,"cwnd":p.cwnd,
            "rtt":p.rtt_us,"ptob":p.pto_base_us,"secn":p.sending_ecn,
            "rttp":[p.rtt_parts_ns.0, p.rtt_parts_ns.1.map_or(-1, |x| x as i64), p.rtt_parts_ns.2, p.rtt_parts_ns.3]})
    };
    let spaces: Vec<Value> = p
        .spaces
        .iter()
        .map(|s| {
            let mut v = json!({"keys":s.has_keys,"next":s.next_pn,"lack":s.largest_acked.map_or(-1, |x| x as i64),
                "rx":s.rx_packet,"dd":s.dedup_next,"lp":s.loss_probes,"nsent":s.sent.len(),
                "nlost":s.lost_packets,"coff":s.crypto_offset,"cread":s.crypto_read,
                "pcrypto":s.pending_crypto,"pretire":s.pending_retire_cids,"pack":s.pending_ack_ranges,
                "tail":s.unacked_non_ack_eliciting_tail,
                "lt":s.loss_time_us.unwrap_or(-1),"lae":s.last_ack_eliciting_us.unwrap_or(-1)});
            if level >= 2 {
                v["sent"] = s
                    .sent
                    .iter()
                    .map(|(pn, sz, ae, g, t)| json!([pn, sz, ae, g, t]))
                    .collect();
            }
            v
        })
        .collect();
    let st = &p.streams;
    let mut streams = json!({
        "next":st.next,"max":st.max,"maxr":st.max_remote,"smaxr":st.sent_max_remote,
        "alloc":st.allocated_remote_count,"nextr":st.next_remote,"nrep":st.next_reported_remote,
        "ss":st.send_streams,"cb":st.connection_blocked,"md":st.max_data,"rw":st.receive_window,
        "lmd":st.local_max_data,"smd":st.sent_max_data,"ds":st.data_sent,"dr":st.data_recvd,
        "ua":st.unacked_data,"sw":st.send_window,"debt":st.receive_window_shrink_debt,"srw":st.stream_receive_window,
        "nsend":st.send_slots,"nrecv":st.recv_slots,
    });
    if level >= 1 {
        streams["send"] = st
            .send
            .iter()
            .map(|s| json!({"id":s.id,"st":s.state,"md":s.max_data,"off":s.offset,"ua":s.unacked,
                "stop":s.stop_reason.map_or(-1, |x| x as i64),"fa":s.fully_acked,"cb":s.connection_blocked}))
            .collect();
        streams["recv"] = st
            .recv
            .iter()
            .map(|r| json!({"id":r.id,"st":r.state,"fs":r.final_size.map_or(-1, |x| x as i64),
                "end":r.end,"stopped":r.stopped,"smsd":r.sent_max_stream_data,"br":r.bytes_read,
                "buf":r.buffered,"alloc":r.allocated,"chunks":r.chunks}))
            .collect();
    }
    json!({
        "st":p.state,"close":p.close_flag,"err":p.error_pending,"nev":p.events_pending,
        "hs":p.highest_space,"sp":spaces,"path":path(&p.path),
        "prev":p.prev_path.as_ref().map(path).unwrap_or(json!({"rem":0})),
        "tm":p.timers.iter().map(|t| t.unwrap_or(-1)).collect::<Vec<_>>(),
        "ptoc":p.pto_count,"pto":p.pto_us,"kp":p.key_phase,"prevk":p.prev_crypto,
        "zk":p.zero_rtt_keys,"zen":p.zero_rtt_enabled,"zacc":p.accepted_0rtt,
        "idle":p.idle_timeout_us.map_or(-1, |x| x as i64),"authf":p.authentication_failures,
        "authed":p.total_authed_packets,"streams":streams,
        "dgi":p.dgram_incoming,"dgrb":p.dgram_recv_buffered,"dgo":p.dgram_outgoing,
        "dgot":p.dgram_outgoing_total,"dgsb":p.dgram_send_blocked,"pir":p.permit_idle_reset,
        "rcid":p.rem_cid_active_seq,"lcids":p.loc_cid_active,"lissued":p.loc_cid_issued,
        "lrpt":p.loc_cid_retire_prior_to,"presp":!p.path_responses_empty,
        "pmad":p.peer_max_ack_delay_us,
    })
}

// ---------------------------------------------------------------------------------------------
// key recovery for the man in the middle

/// Find the key that authenticates `pkt` inside `dgram`, among the known connection secrets.
pub fn find_key(dgram: &[u8], pkt: &Pkt, secrets: &[u64], tickets: &[u64]) -> Option<KeyId> {
    let (ps, pe) = pkt.payload_range();
    let header = &dgram[pkt.start..ps];
    let payload = &dgram[ps..pe];
    let tag = &dgram[pe..pe + wire::TAG];
    let check = |k: KeyId| toycrypto::packet_tag(k, pkt.pn, header, payload) == tag;
    match pkt.ty {
        PType::Initial => None, // initial secret depends on the original dcid; use `initial_key`
        PType::Handshake => {
            for &s in secrets {
                for dir in 0..2 {
                    let k = toycrypto::key_id(s, toycrypto::LVL_HANDSHAKE, dir, 0);
                    if check(k) {
                        return Some(k);
                    }
                }
            }
            None
        }
        PType::Short => {
            for &s in secrets {
                for dir in 0..2 {
                    for g in 0..64 {
                        let k = toycrypto::key_id(s, toycrypto::LVL_ONE_RTT, dir, g);
                        if check(k) {
                            return Some(k);
                        }
                    }
                }
            }
            None
        }
        PType::ZeroRtt => {
            for &t in tickets {
                let k = toycrypto::key_id(
                    toycrypto::mix(t ^ 0xea51_7),
                    toycrypto::LVL_ZERO_RTT,
                    0,
                    0,
                );
                if check(k) {
                    return Some(k);
                }
            }
            None
        }
        _ => None,
    }
}

/// Recompute the tag of `pkt` (whose payload may have been edited in place, same length).
pub fn retag(dgram: &mut [u8], pkt: &Pkt, key: KeyId) {
    let (ps, pe) = pkt.payload_range();
    let tag = toycrypto::packet_tag(key, pkt.pn, &dgram[pkt.start..ps], &dgram[ps..pe]);
    dgram[pe..pe + wire::TAG].copy_from_slice(&tag);
}

/// Remove padding from a datagram consisting of one client Initial packet so that it is `size`
/// bytes long (never shorter than its non-padding frames allow), with a valid length field and tag.
pub fn shrink_initial(d: &[u8], pkts: &[Pkt], size: usize) -> Option<Vec<u8>> {
    if pkts.len() != 1 || pkts[0].ty != PType::Initial {
        return None;
    }
    let p = &pkts[0];
    let (lf_at, lf_sz) = p.len_field?;
    let (ps, pe) = p.payload_range();
    // keep everything up to the trailing padding
    let mut keep = pe;
    while keep > ps && d[keep - 1] == 0 {
        keep -= 1;
    }
    let min_total = keep + wire::TAG;
    let total = size.max(min_total).min(d.len());
    let payload_len = total - wire::TAG - ps;
    let mut out = d[..ps].to_vec();
    out.extend_from_slice(&d[ps..ps + payload_len.min(pe - ps)]);
    while out.len() < ps + payload_len {
        out.push(0);
    }
    // length field = pn_len + payload + tag, same encoded size
    let length = (p.pn_len + payload_len + wire::TAG) as u64;
    let mut enc = Vec::new();
    match lf_sz {
        1 => enc.push(length as u8),
        2 => enc.extend_from_slice(&((length as u16) | 0x4000).to_be_bytes()),
        4 => enc.extend_from_slice(&((length as u32) | 0x8000_0000).to_be_bytes()),
        _ => enc.extend_from_slice(&(length | 0xc000_0000_0000_0000).to_be_bytes()),
    }
    if (lf_sz == 1 && length >= 64) || (lf_sz == 2 && length >= 16384) {
        return None;
    }
    out[lf_at..lf_at + lf_sz].copy_from_slice(&enc);
    out.extend_from_slice(&[0u8; wire::TAG]);
    let key = toycrypto::key_id(toycrypto::initial_secret(&p.dcid), toycrypto::LVL_INITIAL, 0, 0);
    let mut p2 = p.clone();
    p2.len = out.len();
    retag(&mut out, &p2, key);
    Some(out)
}

/// Append frame bytes to the last (short-header) packet of a datagram and re-tag it.
/// Returns false if the last packet is not a short-header packet or no key is known.
pub fn append_frames(d: &mut Vec<u8>, pkts: &[Pkt], secrets: &[u64], extra: &[u8]) -> bool {
    let Some(last) = pkts.last() else {
        return false;
    };
    if last.ty != PType::Short {
        return false;
    }
    let Some(key) = find_key(d, last, secrets, &[]) else {
        return false;
    };
    let (_, pe) = last.payload_range();
    d.truncate(pe);
    d.extend_from_slice(extra);
    d.extend_from_slice(&[0u8; wire::TAG]);
    let mut p2 = last.clone();
    p2.len = d.len() - p2.start;
    retag(d, &p2, key);
    true
}

/// Replace the frames of the last short-header packet (keeping its packet number) and re-tag.
pub fn replace_frames(d: &mut Vec<u8>, pkts: &[Pkt], secrets: &[u64], frames: &[u8]) -> bool {
    let Some(last) = pkts.last() else {
        return false;
    };
    if last.ty != PType::Short {
        return false;
    }
    let Some(key) = find_key(d, last, secrets, &[]) else {
        return false;
    };
    let (ps, _) = last.payload_range();
    d.truncate(ps);
    d.extend_from_slice(frames);
    // keep packets long enough for header-protection sampling rules
    while d.len() - ps < 4 {
        d.push(0);
    }
    d.extend_from_slice(&[0u8; wire::TAG]);
    let mut p2 = last.clone();
    p2.len = d.len() - p2.start;
    retag(d, &p2, key);
    true
}

pub fn bytes_pattern(key: u64, off: u64, len: usize) -> Bytes {
    let mut v = Vec::with_capacity(len);
    for i in 0..len as u64 {
        v.push(((key + off + i) % 251) as u8);
    }
    Bytes::from(v)
}

/// Run-length encode `data` into maximal arithmetic progressions (+1 mod 251): [[first,len],..]
pub fn runs(data: &[u8]) -> Vec<[u64; 2]> {
    let mut out: Vec<[u64; 2]> = Vec::new();
    let mut i = 0;
    while i < data.len() {
        let first = data[i];
        let mut j = i + 1;
        while j < data.len() && data[j] as u64 == (data[j - 1] as u64 + 1) % 251 {
            j += 1;
        }
        out.push([first as u64, (j - i) as u64]);
        i = j;
    }
    out
}

pub fn stream_key(initiator_server: bool, id: u64, salt: u64) -> u64 {
    (id * 37 + salt * 101 + initiator_server as u64 * 53 + 7) % 251
}
