//! Projection for the stream scheduling specification (SchedTrace): the application's calls that
//! queue or re-prioritise stream data, and the STREAM frames of every transmission in wire order.
//! A side is marked dirty as soon as something re-queues data behind the application's back
//! (a lost packet, a probe timeout that resends the oldest data, 0-RTT rejection).
//! Only runs with exactly one client/server connection pair are projected.
use serde_json::{json, Value};

fn cap(v: &Value) -> i64 {
    v.as_i64().unwrap_or(0).min(1 << 30)
}

pub fn sched(trace: &[Value]) -> Vec<Value> {
    let cfgx = &trace[0]["cfgx"];
    let fair = |k: &str| cfgx[k]["send_fairness"].as_bool().unwrap_or(true);
    let mut out = vec![json!({"ev":"Reset","run":trace[0]["run"],"fair":{"c":fair("client"),"s":fair("server")}})];
    let conns = trace.iter().filter(|e| (e["ev"] == "Connect" || e["ev"] == "Accept") && e["ok"] == true).count();
    if conns != 2 || trace[0]["clients"].as_i64().unwrap_or(1) != 1 || cfgx["ticket"] == true {
        return out;
    }
    for e in trace {
        let ev = e["ev"].as_str().unwrap_or("");
        let n = e["n"].as_i64().unwrap_or(-1);
        if !(0..=1).contains(&n) {
            continue;
        }
        let side = if n == 0 { "s" } else { "c" };
        // anything lost: its data is queued again at a moment the trace does not show
        if e["pre"].is_object() && e["post"].is_object() {
            let lost = cap(&e["post"]["stats"]["lost"]) - cap(&e["pre"]["stats"]["lost"]);
            if lost > 0 || cap(&e["post"]["st"]) >= 2 {
                out.push(json!({"ev":"Dirty","side":side}));
            }
        }
        match ev {
            "Call" => {
                let op = e["op"].as_str().unwrap_or("");
                let ok = e["res"]["k"] == "Ok";
                match op {
                    "write" if ok => {
                        let nb = cap(&e["res"]["n"]);
                        if nb > 0 {
                            out.push(json!({"ev":"Op","side":side,"op":"write","id":cap(&e["id"]),"n":nb,"p":0}));
                        }
                    }
                    "finish" | "reset" if ok => {
                        out.push(json!({"ev":"Op","side":side,"op":op,"id":cap(&e["id"]),"n":0,"p":0}));
                    }
                    "set_priority" if ok => {
                        out.push(json!({"ev":"Op","side":side,"op":"prio","id":cap(&e["id"]),"n":0,"p":e["prio"].as_i64().unwrap_or(0)}));
                    }
                    _ => {}
                }
            }
            "Tx" => {
                if cap(&e["pre"]["sp"][2]["lp"]) > 0 {
                    out.push(json!({"ev":"Dirty","side":side}));
                }
                let mut fr: Vec<Value> = Vec::new();
                for d in e["dgs"].as_array().cloned().unwrap_or_default() {
                    for p in d["pkts"].as_array().cloned().unwrap_or_default() {
                        for f in p["fr"].as_array().cloned().unwrap_or_default() {
                            if f["f"] == "STREAM" {
                                fr.push(json!({"id":cap(&f["id"]),"off":cap(&f["off"]),"len":cap(&f["len"]),"fin":f["fin"] == true}));
                            }
                        }
                    }
                }
                if !fr.is_empty() {
                    out.push(json!({"ev":"Fr","side":side,"fr":fr}));
                }
            }
            _ => {}
        }
    }
    out
}
