//! Script interpreter: a run is `{"cfg":{..},"steps":[..]}`; the script is also the replay file.
use std::net::{IpAddr, Ipv4Addr, SocketAddr};

use serde_json::{json, Value};

use crate::{
    app::Apps,
    sim::{self, addr_id, Cfg, Dgram, World},
    toycrypto, wire,
};

pub struct Runner {
    pub w: World,
    pub apps: Apps,
    pub blackhole: Vec<bool>,
    /// streams the explicit `drain` application knows per connection: (id, terminal outcome seen)
    pub drain_known: std::collections::BTreeMap<(usize, usize), Vec<(u64, bool)>>,
}

fn addr_from(v: &Value) -> SocketAddr {
    // [a,b,port] -> 10.0.a.b:port
    let a = v[0].as_u64().unwrap_or(2) as u8;
    let b = v[1].as_u64().unwrap_or(1) as u8;
    let p = v[2].as_u64().unwrap_or(6000) as u16;
    SocketAddr::new(IpAddr::V4(Ipv4Addr::new(10, 0, a, b)), p)
}

impl Runner {
    pub fn new(cfg: Cfg, run_id: u64) -> Self {
        let mut w = World::new(cfg, run_id);
        w.keep_history = true;
        let n = w.nodes.len();
        Self {
            w,
            apps: Apps::default(),
            blackhole: vec![false; n],
            drain_known: Default::default(),
        }
    }

    pub fn run_script(script: &Value, run_id: u64, probe_level: u8) -> Vec<Value> {
        let cfg: Cfg = serde_json::from_value(script["cfg"].clone()).unwrap_or_default();
        let mut r = Self::new(cfg, run_id);
        r.w.probe_level = probe_level;
        if let Some(tag) = script.get("tag") {
            r.w.trace[0]["tag"] = tag.clone();
        }
        r.w.trace[0]["cfgx"] = script["cfg"].clone();
        if let Some(steps) = script["steps"].as_array() {
            for s in steps {
                if r.w.panicked {
                    break;
                }
                r.step(s);
            }
        }
        r.w.finish();
        let done = r.apps.all_done(&r.w);
        let last = r.w.trace.len() - 1;
        r.w.trace[last]["apps_done"] = json!(done);
        r.w.trace[last]["apps"] = r.apps.summary();
        std::mem::take(&mut r.w.trace)
    }

    /// one world step followed by application reactions
    fn world_step(&mut self, limit: u64) -> bool {
        // drop traffic towards blackholed nodes
        if self.blackhole.iter().any(|b| *b) {
            let bh = self.blackhole.clone();
            let nodes: Vec<SocketAddr> = self.w.nodes.iter().map(|n| n.addr).collect();
            self.w.net.retain(|d| {
                nodes
                    .iter()
                    .position(|a| *a == d.dst)
                    .is_none_or(|i| !bh[i])
            });
        }
        let r = self.w.step(limit);
        self.apps.tick(&mut self.w);
        r
    }

    pub fn run_for(&mut self, us: u64) {
        let limit = self.w.now_us + us;
        let mut guard = 0u64;
        self.apps.tick(&mut self.w);
        while self.world_step(limit) {
            guard += 1;
            if guard > 3_000_000 || self.w.panicked {
                if !self.w.panicked {
                    let t = self.w.now_us;
                    self.w.log(json!({"ev":"StepBound","t":t,"what":"run_for"}));
                    self.w.panicked = true;
                }
                return;
            }
        }
        self.w.now_us = limit;
    }

    pub fn run_until(&mut self, what: &str, max_us: u64) -> bool {
        let limit = self.w.now_us + max_us;
        let mut guard = 0u64;
        self.apps.tick(&mut self.w);
        loop {
            if self.cond(what) {
                return true;
            }
            if !self.world_step(limit) {
                return self.cond(what);
            }
            guard += 1;
            if guard > 3_000_000 || self.w.panicked {
                return false;
            }
        }
    }

    fn cond(&self, what: &str) -> bool {
        let w = &self.w;
        match what {
            "connected" => w.nodes.iter().skip(1).all(|n| {
                n.conns
                    .values()
                    .all(|s| s.conn.verif_probe(w.epoch).state >= 1)
            }) && !w.nodes[0].conns.is_empty()
                && w.nodes[0]
                    .conns
                    .values()
                    .all(|s| s.conn.verif_probe(w.epoch).state >= 1),
            "apps" => self.apps.all_done(&self.w),
            "drained" => w
                .nodes
                .iter()
                .all(|n| n.conns.values().all(|s| s.conn.is_drained())),
            "quiet" => w.net.is_empty(),
            _ => false,
        }
    }

    pub fn step(&mut self, s: &Value) {
        let kind = s["do"].as_str().unwrap_or("?");
        match kind {
            "connect" => {
                let n = s["n"].as_u64().unwrap_or(1) as usize;
                if let Some(c) = self.w.connect(n) {
                    self.w.after_input(n, c);
                }
            }
            "run" => match s["until_us"].as_u64() {
                // absolute virtual time (C14: arrivals placed around a token's expiry instant)
                Some(abs) => self.run_for(abs.saturating_sub(self.w.now_us)),
                None => self.run_for(s["us"].as_u64().unwrap_or(100_000)),
            },
            "run_until" => {
                let what = s["what"].as_str().unwrap_or("connected").to_string();
                let ok = self.run_until(&what, s["max_us"].as_u64().unwrap_or(10_000_000));
                let t = self.w.now_us;
                let eps: Vec<Value> = (0..self.w.nodes.len()).map(|n| self.w.ep_probe(n)).collect();
                let lc: Vec<Value> = self.w.nodes.iter().flat_map(|n| n.conns.iter().map(move |(c, s)| {
                    json!({"n":n.idx,"c":c,"uid":s.uid,"drained":s.drained,"lcids":s.conn.verif_probe(std::time::Instant::now()).loc_cid_active.len()})
                })).collect();
                self.w
                    .log(json!({"ev":"Until","t":t,"what":what,"ok":ok,"eps":eps,"conns":lc}));
            }
            "op" => {
                let n = s["n"].as_u64().unwrap() as usize;
                let mut c = s["c"].as_u64().unwrap_or(0) as usize;
                if let Some(k) = s["peer_of"].as_u64() {
                    // address the (latest, live) connection whose peer is node k rather than a handle
                    let found = self.w.nodes[n].conns.iter().filter(|(_, sl)| sl.peer == k as usize && !sl.drained)
                        .max_by_key(|(_, sl)| sl.uid).map(|(c, _)| *c);
                    match found {
                        Some(x) => c = x,
                        None => {
                            let t = self.w.now_us;
                            self.w.log(json!({"ev":"OpSkipped","t":t,"n":n,"peer_of":k}));
                            return;
                        }
                    }
                }
                self.w.op_flush(n, c, &s["op"]);
                self.apps.tick(&mut self.w);
            }
            "op_noflush" => {
                let n = s["n"].as_u64().unwrap() as usize;
                let c = s["c"].as_u64().unwrap_or(0) as usize;
                self.w.op(n, c, &s["op"]);
            }
            "flush" => {
                let n = s["n"].as_u64().unwrap() as usize;
                let c = s["c"].as_u64().unwrap_or(0) as usize;
                self.w.after_input(n, c);
            }
            "app" => {
                self.apps.start(&mut self.w, s);
            }
            "blackhole" => {
                let n = s["n"].as_u64().unwrap() as usize;
                self.blackhole[n] = s["on"].as_bool().unwrap_or(true);
                let t = self.w.now_us;
                self.w
                    .log(json!({"ev":"Blackhole","t":t,"n":n,"on":self.blackhole[n]}));
            }
            "drop_inflight" => {
                // lose one datagram currently in flight (chosen by index modulo count)
                let k = s["k"].as_u64().unwrap_or(0) as usize;
                let t = self.w.now_us;
                if self.w.net.is_empty() {
                    self.w.log(json!({"ev":"DropInflight","t":t,"ok":false}));
                } else {
                    let i = k % self.w.net.len();
                    let d = self.w.net.swap_remove(i);
                    self.w.log(json!({"ev":"DropInflight","t":t,"ok":true,"id":d.id}));
                }
            }
            "set" => {
                let key = s["key"].as_str().unwrap();
                let v = s["v"].as_u64().unwrap();
                match key {
                    "link_mtu" => self.w.cfg.link_mtu = v as usize,
                    "loss_pct" => self.w.cfg.loss_pct = v as u32,
                    "latency_us" => self.w.cfg.latency_us = v,
                    "late_us" => self.w.cfg.late_us = v,
                    "max_datagrams" => self.w.cfg.max_datagrams = v as usize,
                    _ => panic!("unknown set key {key}"),
                }
                let t = self.w.now_us;
                self.w.log(json!({"ev":"Set","t":t,"key":key,"v":v}));
            }
            "fates" => {
                // explicit fates for the next datagrams of one direction, counted from now:
                // {"do":"fates","dir":"c2s"|"s2c","list":["ok","x","dup:3000",..]}
                let from_server = s["dir"].as_str().unwrap_or("c2s") == "s2c";
                let list: Vec<sim::Fate> = s["list"]
                    .as_array()
                    .map(|a| a.iter().filter_map(|x| x.as_str()).map(sim::parse_fate).collect())
                    .unwrap_or_default();
                let sent = self.w.sent_count[from_server as usize];
                let cur = if from_server { &mut self.w.fates_s2c } else { &mut self.w.fates_c2s };
                cur.truncate(sent);
                while cur.len() < sent {
                    cur.push(sim::Fate::Deliver);
                }
                cur.extend(list);
                let t = self.w.now_us;
                self.w.log(json!({"ev":"Fates","t":t,"dir":s["dir"],"from":sent}));
            }
            "migrate" => {
                // client node changes its address
                let n = s["n"].as_u64().unwrap_or(1) as usize;
                let a = addr_from(&s["addr"]);
                let old = self.w.nodes[n].addr;
                self.w.nodes[n].old_addrs.push(old);
                self.w.nodes[n].addr = a;
                let t = self.w.now_us;
                self.w.log(json!({"ev":"Migrate","t":t,"n":n,"old":addr_id(old),"new":addr_id(a)}));
            }
            "replay" => self.replay(s),
            "reset_like" => self.reset_like(s),
            "raw" => {
                // arbitrary bytes to a node
                let to = s["to"].as_u64().unwrap_or(0) as usize;
                let hexs = s["hex"].as_str().unwrap_or("");
                let data: Vec<u8> = (0..hexs.len() / 2)
                    .map(|i| u8::from_str_radix(&hexs[2 * i..2 * i + 2], 16).unwrap_or(0))
                    .collect();
                let src = s
                    .get("from")
                    .map(addr_from)
                    .unwrap_or_else(|| self.w.nodes[if to == 0 { 1 } else { 0 }].addr);
                let dst = self.w.nodes[to].addr;
                self.w.inject(src, dst, data, "raw", u64::MAX, 0);
            }
            "raw_short" => {
                // short-header-looking datagram with an unknown connection ID
                let to = s["to"].as_u64().unwrap_or(0) as usize;
                let len = s["len"].as_u64().unwrap_or(100) as usize;
                let salt = s["salt"].as_u64().unwrap_or(1);
                let mut data: Vec<u8> = (0..len)
                    .map(|i| (toycrypto::mix(salt * 7919 + i as u64) & 0xff) as u8)
                    .collect();
                if !data.is_empty() {
                    data[0] = 0x40 | (data[0] & 0x3f);
                }
                let src = s
                    .get("from")
                    .map(addr_from)
                    .unwrap_or_else(|| self.w.nodes[if to == 0 { 1 } else { 0 }].addr);
                let dst = self.w.nodes[to].addr;
                self.w.inject(src, dst, data, "raw", u64::MAX, 0);
            }
            "token" => crate::tokens::step(self, s),
            "retry_pkt" => crate::tokens::retry_pkt(self, s),
            "splice" => self.splice(s),
            "vn" => self.version_negotiation(s),
            "mitm" => self.install_mitm(s),
            "accept_waiting" => {
                // decide about the connection attempts parked by the "wait" incoming policy
                let n = s["n"].as_u64().unwrap_or(0) as usize;
                let how = s["how"].as_str().unwrap_or("accept").to_string();
                let list = std::mem::take(&mut self.w.nodes[n].waiting);
                let t = self.w.now_us;
                self.w.log(json!({"ev":"AcceptWaiting","t":t,"n":n,"how":how,"count":list.len(),
                    "ep":self.w.ep_probe(n)}));
                for inc in list {
                    if how == "retry" && inc.may_retry() {
                        self.w.retry(n, inc);
                    } else {
                        self.w.accept(n, inc);
                    }
                }
                // policy for connection attempts that arrive later (e.g. a retransmitted Initial)
                if let Some(p) = s["then"].as_str() {
                    self.w.cfg.incoming = p.to_string();
                }
                self.apps.tick(&mut self.w);
            }
            "drain" => self.drain(s),
            "pollx" => {
                // debugging aid: one explicit poll_transmit with the outcome logged either way
                let n = s["n"].as_u64().unwrap() as usize;
                let c = s["c"].as_u64().unwrap_or(0) as usize;
                let some = self.w.poll_transmit_once(n, c);
                let t = self.w.now_us;
                let p = self.w.probe(n, c);
                self.w.log(json!({"ev":"PollX","t":t,"n":n,"c":c,"some":some,"post":p}));
            }
            "spurious" => {
                // harmless extra calls on a connection
                let n = s["n"].as_u64().unwrap() as usize;
                let c = s["c"].as_u64().unwrap_or(0) as usize;
                if self.w.nodes[n].conns.contains_key(&c) {
                    // settle first: whatever is due at this instant is legitimate work
                    let mut k = 0;
                    while k < 64 && self.w.timer_due(n, c) {
                        self.w.fire_timeout(n, c);
                        k += 1;
                    }
                    self.w.flush_conn(n, c);
                    self.w.poll_app(n, c);
                    self.w.pump_endpoint_events(n, c);
                    if !self.w.nodes[n].conns.contains_key(&c) {
                        return;
                    }
                    // the same calls once more at the same instant must be no-ops
                    let pre = self.w.probe(n, c);
                    let mark = self.w.trace.len();
                    self.w.fire_timeout(n, c);
                    self.w.poll_transmit_once(n, c);
                    self.w.poll_app(n, c);
                    self.w.pump_endpoint_events(n, c);
                    let post = self.w.probe(n, c);
                    let produced = self.w.trace[mark..].iter().filter(|e| {
                        matches!(e["ev"].as_str().unwrap_or(""), "Tx" | "AppEvent" | "EpEvent")
                    }).count();
                    let t = self.w.now_us;
                    let mut diff: Vec<String> = Vec::new();
                    if let (Some(a), Some(b)) = (pre.as_object(), post.as_object()) {
                        for (k, v) in a {
                            if b.get(k) != Some(v) {
                                diff.push(format!("{}:{}->{}", k, v, b.get(k).cloned().unwrap_or(Value::Null)).chars().take(300).collect());
                            }
                        }
                    }
                    self.w
                        .log(json!({"ev":"Spurious","t":t,"n":n,"c":c,"same":pre == post && produced == 0,"produced":produced,"settle":k,"diff":diff}));
                }
            }
            o => panic!("unknown step {o}"),
        }
    }

    /// Explicit reading application: accept every stream the peer opened, read each known stream
    /// until it blocks or ends, take every datagram. {"do":"drain","n":0,"c":0?,"max_len":k?}
    fn drain(&mut self, s: &Value) {
        let n = s["n"].as_u64().unwrap_or(0) as usize;
        let max_len = s["max_len"].as_u64().unwrap_or(1 << 20);
        let conns: Vec<usize> = match s["c"].as_u64() {
            Some(c) => vec![c as usize],
            None => self.w.nodes[n].conns.keys().copied().collect(),
        };
        for c in conns {
            if !self.w.nodes[n].conns.contains_key(&c) {
                continue;
            }
            // the events are consumed by this application
            let _ = self.w.take_app_events(n, c);
            for dir in 0..2u64 {
                for _ in 0..10_000 {
                    let r = self.w.op(n, c, &json!({"op":"accept","dir":dir}));
                    if r["res"]["k"] != "Some" {
                        break;
                    }
                    let id = r["res"]["id"].as_u64().unwrap();
                    self.drain_known.entry((n, c)).or_default().push((id, false));
                }
            }
            let known = self.drain_known.get(&(n, c)).cloned().unwrap_or_default();
            for (i, (id, done)) in known.iter().enumerate() {
                if *done {
                    continue;
                }
                let r = self.w.op(n, c, &json!({"op":"read","id":id,"ordered":true,"max_len":max_len}));
                let k = r["res"]["k"].as_str().unwrap_or("");
                if k == "Finished" || k == "Reset" || k == "ClosedStream" {
                    self.drain_known.get_mut(&(n, c)).unwrap()[i].1 = true;
                }
            }
            for _ in 0..10_000 {
                let r = self.w.op(n, c, &json!({"op":"recv_dgram"}));
                if r["res"]["k"] != "Some" {
                    break;
                }
            }
            self.w.after_input(n, c);
        }
    }

    /// Re-deliver a genuine datagram seen earlier.
    /// {"do":"replay","dir":"c2s"|"s2c","nth":k,"from":[a,b,port]?,"delay":us}
    fn replay(&mut self, s: &Value) {
        let from_server = s["dir"].as_str().unwrap_or("c2s") == "s2c";
        let nth = s["nth"].as_i64().unwrap_or(0);
        let saddr = sim::server_addr();
        let cands: Vec<&Dgram> = self
            .w
            .history
            .iter()
            .filter(|d| (d.src == saddr) == from_server)
            .collect();
        let idx = if nth < 0 {
            cands.len() as i64 + nth
        } else {
            nth
        };
        let t = self.w.now_us;
        if idx < 0 || idx as usize >= cands.len() {
            self.w
                .log(json!({"ev":"Replay","t":t,"ok":false,"nth":nth}));
            return;
        }
        let d = cands[idx as usize].clone();
        let src = s.get("from").map(addr_from).unwrap_or(d.src);
        let cls = if src == d.src { "dup" } else { "spoof" };
        let delay = s["delay"].as_u64().unwrap_or(0);
        let id = self.w.inject(src, d.dst, d.data.clone(), cls, d.id, delay);
        if let Some(last) = self.w.net.last_mut() {
            last.pkts = d.pkts.clone();
            last.damage = d.damage;
            last.from_uid = d.from_uid;
        }
        self.w.log(json!({"ev":"Replay","t":t,"ok":true,"orig":d.id,"id":id,"cls":cls,
            "src":addr_id(src)}));
    }

    /// Send a datagram that looks like a stateless reset to node `to`.
    /// token: "exact" (token the peer issued for the CID in use), "flip", "random", "retired"
    fn reset_like(&mut self, s: &Value) {
        let to = s["to"].as_u64().unwrap_or(1) as usize;
        let c = s["c"].as_u64().unwrap_or(0) as usize;
        let len = s["len"].as_u64().unwrap_or(40) as usize;
        let kind = s["token"].as_str().unwrap_or("exact").to_string();
        // The victim (node `to`) currently addresses the peer with the peer's CID `dcid`; the peer
        // endpoint's reset token for it is HMAC(reset_key_of_peer, dcid)[..16].
        let peer = if to == 0 {
            self.w.nodes[0].conns.get(&c).map_or(1, |s| s.peer)
        } else {
            0
        };
        // find the CID in use: last short/long packet sent by `to` on conn c
        let victim_addr = self.w.nodes[to].addr;
        let mut dcid: Option<Vec<u8>> = None;
        let peer_cid_len = self.w.nodes[peer].cid_len;
        for d in self.w.history.iter().rev() {
            if d.src != victim_addr {
                continue;
            }
            let mut ctx = wire::TxCtx {
                dst_cid_len: peer_cid_len,
                next_pn: [0; 3],
            };
            if let Some(pk) = wire::parse_datagram(&d.data, &mut ctx) {
                if let Some(p) = pk.last() {
                    dcid = Some(p.dcid.clone());
                    break;
                }
            }
        }
        // with several connections on the victim's endpoint: the ID that very connection sends to
        if let Some(slot) = self.w.nodes[to].conns.get(&c) {
            if !slot.last_dcid.is_empty() {
                dcid = Some(slot.last_dcid.clone());
            }
        }
        let t = self.w.now_us;
        let Some(dcid) = dcid else {
            self.w
                .log(json!({"ev":"ResetLike","t":t,"ok":false}));
            return;
        };
        let key = toycrypto::ToyHmacKey(0x1234 + if peer == 0 { 0 } else { peer as u64 });
        let mut sig = [0u8; 32];
        quinn_proto::crypto::HmacKey::sign(&key, &dcid, &mut sig);
        let mut token = [0u8; 16];
        token.copy_from_slice(&sig[..16]);
        if kind == "ticket" {
            // the reset token among the transport parameters remembered with the session ticket (it
            // belongs to a connection ID of the EARLIER connection), in a datagram shaped like an Initial
            // for the victim's own connection ID: a resuming client must not honour it
            let old = self.w.client_cfgs.first().and_then(|c| c.ticket.as_ref()).and_then(|t| tp_reset_token(&t.params));
            let mut scid: Option<Vec<u8>> = None;
            for d in self.w.history.iter().rev() {
                if d.src != victim_addr || d.data.len() < 7 || d.data[0] & 0x80 == 0 {
                    continue;
                }
                let dl = d.data[5] as usize;
                if d.data.len() > 6 + dl {
                    let sl = d.data[6 + dl] as usize;
                    if d.data.len() >= 7 + dl + sl {
                        scid = Some(d.data[7 + dl..7 + dl + sl].to_vec());
                        break;
                    }
                }
            }
            let (Some(old), Some(scid)) = (old, scid) else {
                self.w.log(json!({"ev":"ResetLike","t":t,"ok":false}));
                return;
            };
            let mut data = vec![0xc0 | (toycrypto::mix(t) & 0x0f) as u8, 0, 0, 0, 1, scid.len() as u8];
            data.extend_from_slice(&scid);
            data.push(0);
            data.push(0);          // token length
            let total = len.max(60);
            let body = total - data.len() - 2;
            data.extend_from_slice(&[0x40 | (body >> 8) as u8, (body & 0xff) as u8]);      // length field
            while data.len() + 16 < total {
                data.push((toycrypto::mix(0x99 + data.len() as u64) & 0xff) as u8);
            }
            data.extend_from_slice(&old);
            let src = self.w.nodes[peer].addr;
            let id = self.w.inject(src, victim_addr, data, "reset", u64::MAX, 0);
            self.w.log(json!({"ev":"ResetLike","t":t,"ok":true,"to":to,"c":c,"kind":kind,"len":len,"id":id,"exact":false}));
            return;
        }
        match kind.as_str() {
            "exact" => {}
            "flip" => token[15] ^= 1,
            "random" => {
                for (i, b) in token.iter_mut().enumerate() {
                    *b = (toycrypto::mix(t + i as u64) & 0xff) as u8;
                }
            }
            _ => {}
        }
        let mut data = Vec::with_capacity(len);
        for i in 0..len.saturating_sub(16) {
            data.push((toycrypto::mix(0x77 + i as u64) & 0xff) as u8);
        }
        if !data.is_empty() {
            data[0] = 0x40 | (data[0] & 0x3f);
        }
        data.extend_from_slice(&token);
        let src = self.w.nodes[peer].addr;
        let id = self.w.inject(src, victim_addr, data, "reset", u64::MAX, 0);
        if let Some(d) = self.w.net.last_mut() {
            d.exact = kind == "exact" && len >= 21;
        }
        self.w.log(json!({"ev":"ResetLike","t":t,"ok":true,"to":to,"c":c,"kind":kind,"len":len,
            "id":id,"exact":kind=="exact" && len >= 21}));
    }

    /// Cross-connection datagram: a genuine short-header datagram of client `from_n` with its
    /// destination CID replaced by the one client `to_n` currently uses, sent from `to_n`'s address.
    fn splice(&mut self, s: &Value) {
        let from_n = s["from_n"].as_u64().unwrap_or(1) as usize;
        let to_n = s["to_n"].as_u64().unwrap_or(2) as usize;
        let nth = s["nth"].as_i64().unwrap_or(-1);
        let t = self.w.now_us;
        let fa = self.w.nodes[from_n].addr;
        let ta = self.w.nodes[to_n].addr;
        let scid_len = self.w.nodes[0].cid_len;
        let short = |d: &&Dgram| !d.data.is_empty() && d.data[0] & 0x80 == 0;
        let cands: Vec<&Dgram> = self.w.history.iter().filter(|d| d.src == fa).filter(short).collect();
        let target: Option<Vec<u8>> = self
            .w
            .history
            .iter()
            .rev()
            .find(|d| d.src == ta && !d.data.is_empty() && d.data[0] & 0x80 == 0)
            .map(|d| d.data[1..1 + scid_len].to_vec());
        let idx = if nth < 0 { cands.len() as i64 + nth } else { nth };
        if idx < 0 || idx as usize >= cands.len() || target.is_none() || scid_len == 0 {
            self.w.log(json!({"ev":"Splice","t":t,"ok":false}));
            return;
        }
        let mut data = cands[idx as usize].data.clone();
        data[1..1 + scid_len].copy_from_slice(&target.unwrap());
        let dst = sim::server_addr();
        let id = self.w.inject(ta, dst, data, "foreign", u64::MAX, 0);
        self.w.log(json!({"ev":"Splice","t":t,"ok":true,"id":id}));
    }

    /// Version Negotiation packet towards a client: {"do":"vn","to":1,"own":false}
    fn version_negotiation(&mut self, s: &Value) {
        let to = s["to"].as_u64().unwrap_or(1) as usize;
        let own = s["own"].as_bool().unwrap_or(false);
        let t = self.w.now_us;
        let addr = self.w.nodes[to].addr;
        // the client's first Initial tells its source and destination CIDs
        let first = self.w.history.iter().find(|d| d.src == addr && !d.data.is_empty() && d.data[0] & 0x80 != 0);
        let Some(first) = first else {
            self.w.log(json!({"ev":"Vn","t":t,"ok":false}));
            return;
        };
        let b = &first.data;
        let dl = b[5] as usize;
        let dcid = b[6..6 + dl].to_vec();
        let sl = b[6 + dl] as usize;
        let scid = b[7 + dl..7 + dl + sl].to_vec();
        let mut data = vec![0xc0u8 | 0x0a, 0, 0, 0, 0];
        data.push(scid.len() as u8);
        data.extend_from_slice(&scid);
        data.push(dcid.len() as u8);
        data.extend_from_slice(&dcid);
        data.extend_from_slice(&0x0a1a_2a3au32.to_be_bytes());
        data.extend_from_slice(&0xff00_0020u32.to_be_bytes());
        if own {
            data.extend_from_slice(&1u32.to_be_bytes());
        }
        let src = sim::server_addr();
        let id = self.w.inject(src, addr, data, if own { "vn_own" } else { "vn" }, u64::MAX, 0);
        self.w.log(json!({"ev":"Vn","t":t,"ok":true,"id":id,"own":own}));
    }

    /// {"do":"mitm","dir":"c2s"|"s2c","nth_short":k,"mode":"append"|"replace","hex":"...","count":n}
    /// Rewrites `count` (default 1) short-header datagrams of that direction, starting with the
    /// k-th one from now, as an authenticated man in the middle.
    fn install_mitm(&mut self, s: &Value) {
        let from_server = s["dir"].as_str().unwrap_or("c2s") == "s2c";
        let mut remaining = s["nth_short"].as_u64().unwrap_or(0);
        let replace = s["mode"].as_str().unwrap_or("append") == "replace";
        let hexs = s["hex"].as_str().unwrap_or("").to_string();
        let extra: Vec<u8> = (0..hexs.len() / 2)
            .map(|i| u8::from_str_radix(&hexs[2 * i..2 * i + 2], 16).unwrap_or(0))
            .collect();
        let mut left = s["count"].as_u64().unwrap_or(1);
        // optional: only datagrams from / to this client node
        let only: Option<std::net::SocketAddr> = s["node"].as_u64().map(|k| self.w.nodes[k as usize].addr);
        self.w.mitm = Some(Box::new(move |d, pkts, ctx| {
            if left == 0 || ctx.from_server != from_server {
                return;
            }
            if only.is_some_and(|a| d.src != a && d.dst != a) {
                return;
            }
            let Some(last) = pkts.last() else { return };
            if last.ty != wire::PType::Short {
                return;
            }
            if remaining > 0 {
                remaining -= 1;
                return;
            }
            let ok = if replace {
                sim::replace_frames(&mut d.data, pkts, ctx.secrets, &extra)
            } else {
                sim::append_frames(&mut d.data, pkts, ctx.secrets, &extra)
            };
            if ok {
                d.cls = "inject";
                left -= 1;
            }
        }));
    }
}


/// stateless_reset_token (id 0x02) of encoded transport parameters
fn tp_reset_token(p: &[u8]) -> Option<[u8; 16]> {
    fn var(p: &[u8], i: &mut usize) -> Option<u64> {
        let b = *p.get(*i)?;
        let n = 1usize << (b >> 6);
        if *i + n > p.len() {
            return None;
        }
        let mut v = (b & 0x3f) as u64;
        for k in 1..n {
            v = (v << 8) | p[*i + k] as u64;
        }
        *i += n;
        Some(v)
    }
    let mut i = 0;
    while i < p.len() {
        let id = var(p, &mut i)?;
        let len = var(p, &mut i)? as usize;
        if i + len > p.len() {
            return None;
        }
        if id == 2 && len == 16 {
            let mut t = [0u8; 16];
            t.copy_from_slice(&p[i..i + 16]);
            return Some(t);
        }
        i += len;
    }
    None
}
