//! C13 projection ("mtu"): per connection, every emitted datagram with the facts the size rules
//! talk about, and every change of the path MTU estimate with its possible causes.
//! Only extraction and renaming happens here; the rules are in spec/MtuTrace.tla.
use serde_json::{json, Value};

const CAP: i64 = 1 << 30;

fn cap(v: &Value) -> i64 {
    v.as_i64().unwrap_or(0).min(CAP)
}

fn side_cfg<'a>(trace: &'a [Value], n: i64) -> &'a Value {
    if n == 0 {
        &trace[0]["cfgx"]["server"]
    } else {
        &trace[0]["cfgx"]["client"]
    }
}

fn frames(p: &Value) -> Vec<&str> {
    p["fr"]
        .as_array()
        .map(|a| a.iter().filter_map(|f| f["f"].as_str()).collect())
        .unwrap_or_default()
}

/// one datagram of a transmit
fn dg_json(d: &Value) -> Value {
    let empty = Vec::new();
    let pk = d["pkts"].as_array().unwrap_or(&empty);
    let first = pk.first().map_or(-1, |p| p["sp"].as_i64().unwrap_or(-1));
    let init = pk.iter().any(|p| p["ty"] == "I");
    let initae = pk.iter().any(|p| p["ty"] == "I" && p["ae"] == true);
    let pathf = pk.iter().any(|p| {
        frames(p)
            .iter()
            .any(|f| *f == "PATH_CHALLENGE" || *f == "PATH_RESPONSE")
    });
    // the shape of an MTU probe: one 1-RTT packet made of PING [IMMEDIATE_ACK] PADDING
    let pshape = pk.len() == 1
        && pk[0]["ty"] == "S"
        && frames(&pk[0]).iter().any(|f| *f == "PING")
        && frames(&pk[0])
            .iter()
            .all(|f| matches!(*f, "PING" | "IMMEDIATE_ACK" | "PADDING"));
    json!({"size":d["size"],"ok":d["ok"],"first":first,"init":init,"initae":initae,"pathf":pathf,
        "pshape":pshape,"pn":pk.first().map_or(-1, |p| cap(&p["pn"]))})
}

/// acknowledged ranges [[lo, hi], ..] carried by the 1-RTT packets of a received datagram
fn acks_of(e: &Value) -> Vec<Value> {
    let mut out = Vec::new();
    if let Some(pk) = e["pk"].as_array() {
        for p in pk {
            if p["ty"] != "S" {
                continue;
            }
            if let Some(fr) = p["fr"].as_array() {
                for f in fr {
                    if f["f"] == "ACK" {
                        if let Some(rs) = f["ranges"].as_array() {
                            for r in rs {
                                out.push(json!([cap(&r[0]), cap(&r[1])]));
                            }
                        }
                    }
                }
            }
        }
    }
    out
}

pub fn mtu(trace: &[Value]) -> Vec<Value> {
    let run = trace[0]["run"].clone();
    let tag = &trace[0]["tag"];
    let live = tag["live"] == true;
    let mut out = Vec::new();
    // connection segments (a handle may be reused)
    let mut segments: Vec<(i64, i64, usize, usize)> = Vec::new();
    for (i, e) in trace.iter().enumerate() {
        let ev = e["ev"].as_str().unwrap_or("");
        if (ev == "Connect" || ev == "Accept") && e["ok"] == true {
            let n = e["n"].as_i64().unwrap();
            let c = e["c"].as_i64().unwrap();
            for s in segments.iter_mut() {
                if s.0 == n && s.1 == c && s.3 == usize::MAX {
                    s.3 = i;
                }
            }
            segments.push((n, c, i, usize::MAX));
        }
    }
    let link0 = trace[0]["cfgx"]["link_mtu"].as_i64().unwrap_or(1500);
    for (n, c, from, to) in segments {
        let to = to.min(trace.len());
        let cfg = side_cfg(trace, n);
        // node whose transport parameters are this connection's peer limits
        let peer_node: i64 = if n == 0 {
            trace[from]["peer"].as_i64().unwrap_or(1)
        } else {
            0
        };
        // latest transport parameters the peer endpoint presented so far (-1: none yet)
        let mut ptp: i64 = -1;
        for e in &trace[..from] {
            if e["ev"] == "TP" && e["n"].as_i64() == Some(peer_node) {
                ptp = cap(&e["udp"]);
            }
        }
        let mut link = link0;
        for e in &trace[..from] {
            if e["ev"] == "Set" && e["key"] == "link_mtu" {
                link = cap(&e["v"]);
            }
        }
        let mut last_keys = false;
        let mut last_mtu: i64 = 0;
        // packet number of the most recent MTU probe whose acknowledgement was not yet shown
        let mut probe_pn: i64 = -1;
        for (i, e) in trace[from..to].iter().enumerate() {
            let ev = e["ev"].as_str().unwrap_or("");
            if ev == "TP" && e["n"].as_i64() == Some(peer_node) {
                ptp = cap(&e["udp"]);
                continue;
            }
            if ev == "Set" && e["key"] == "link_mtu" {
                link = cap(&e["v"]);
                out.push(json!({"ev":"Link","t":cap(&e["t"]),"v":link}));
                continue;
            }
            if ev == "Until" && e["what"] == "apps" {
                // did any connection of the run install a new path generation whose estimate the
                // link did not carry at that moment
                let mut lk = link0;
                let mut newbig = false;
                for x in &trace[..from + i] {
                    if x["ev"] == "Set" && x["key"] == "link_mtu" {
                        lk = cap(&x["v"]);
                    }
                    let (a, b) = (&x["pre"]["path"], &x["post"]["path"]);
                    if a["gen"].is_i64() && b["gen"].is_i64() && b["gen"].as_i64() > a["gen"].as_i64()
                        && cap(&b["mtu"]) > lk
                    {
                        newbig = true;
                    }
                }
                out.push(json!({"ev":"Until","t":cap(&e["t"]),"ok":e["ok"],"newbig":newbig}));
                continue;
            }
            // (the cap on the length of a recording is the harness's, not a loop in quinn: the run is just cut)
            if ev == "Panic" || (ev == "StepBound" && e["what"] != "max_trace") {
                out.push(json!({"ev":"Abnormal","t":cap(&e["t"]),"what":ev}));
                continue;
            }
            if ev == "End" {
                out.push(json!({"ev":"End","t":cap(&e["t"]),"mtu":last_mtu,"link":link,
                    "done":e["apps_done"]}));
                continue;
            }
            if !(e["n"].as_i64() == Some(n) && e["c"].as_i64() == Some(c)) {
                continue;
            }
            match ev {
                "Connect" | "Accept" if i == 0 => {
                    let p = &e["post"];
                    last_keys = p["sp"][2]["keys"] == true;
                    last_mtu = cap(&p["path"]["mtu"]);
                    out.push(json!({"ev":"Reset","run":run,"n":n,"c":c,"t":cap(&e["t"]),"client":n != 0,
                        "imtu":cfg["initial_mtu"].as_i64().unwrap_or(1200),
                        "minmtu":cfg["min_mtu"].as_i64().unwrap_or(1200),
                        "upper":cfg["mtud_upper"].as_i64().unwrap_or(1452),
                        "minchg":cfg["mtud_min_change"].as_i64().unwrap_or(20),
                        "mtud":cfg["mtud"].as_bool().unwrap_or(true),
                        "interval":(cfg["mtud_interval_ms"].as_i64().unwrap_or(600_000)).min(1_000_000) * 1000,
                        "cooldown":(cfg["mtud_cooldown_ms"].as_i64().unwrap_or(60_000)).min(1_000_000) * 1000,
                        "mtu":last_mtu,"gen":cap(&p["path"]["gen"]),"rem":cap(&p["path"]["rem"]),
                        "keys":last_keys,"ptp":ptp,"link":link,"live":live,
                        "fb":tag["fb"].as_array().is_some_and(|a| a.iter().any(|x| x.as_i64() == Some(n)))}));
                }
                "Tx" => {
                    let (pre, post) = (&e["pre"], &e["post"]);
                    let dgs: Vec<Value> = e["dgs"]
                        .as_array()
                        .map(|a| a.iter().map(dg_json).collect())
                        .unwrap_or_default();
                    let lp: Vec<Value> = (0..3).map(|k| pre["sp"][k]["lp"].clone()).collect();
                    last_keys = post["sp"][2]["keys"] == true;
                    last_mtu = cap(&post["path"]["mtu"]);
                    if pre["stats"]["sprobe"] != post["stats"]["sprobe"] {
                        probe_pn = dgs.first().map_or(-1, |d| d["pn"].as_i64().unwrap_or(-1));
                    }
                    out.push(json!({"ev":"Tx","t":cap(&e["t"]),"m0":cap(&pre["path"]["mtu"]),"m1":last_mtu,
                        "est":pre["st"] == 1,"seg":cap(&e["seg"]),"onpath":e["dst"] == pre["path"]["rem"],
                        "lp":lp,"sp0":cap(&pre["stats"]["sprobe"]),"sp1":cap(&post["stats"]["sprobe"]),
                        "keys":last_keys,"ptp":ptp,"dgs":dgs}));
                }
                "Rx" | "Timeout" | "Call" => {
                    if ev == "Rx" && e["kind"] != "conn" {
                        continue;
                    }
                    let (pre, post) = (&e["pre"], &e["post"]);
                    if pre.is_null() || post.is_null() || pre.get("gone").is_some() || post.get("gone").is_some() {
                        continue;
                    }
                    let keys = post["sp"][2]["keys"] == true;
                    let op = if ev == "Call" { e["op"].as_str().unwrap_or("") } else { "" };
                    // ACK frames the connection really processed (FrameStats moved)
                    let acks = if ev == "Rx" && e["dfr"][0].as_i64().unwrap_or(0) > 0 {
                        acks_of(e)
                    } else {
                        Vec::new()
                    };
                    let probe_acked = probe_pn >= 0
                        && acks.iter().any(|r| {
                            r[0].as_i64().unwrap_or(0) <= probe_pn && probe_pn <= r[1].as_i64().unwrap_or(-1)
                        });
                    if probe_acked {
                        probe_pn = -1;
                    }
                    let changed = probe_acked
                        || pre["path"]["mtu"] != post["path"]["mtu"]
                        || pre["path"]["gen"] != post["path"]["gen"]
                        || pre["stats"]["lprobe"] != post["stats"]["lprobe"]
                        || pre["stats"]["bh"] != post["stats"]["bh"]
                        || keys != last_keys
                        || op == "path_changed";
                    if !changed {
                        continue;
                    }
                    last_keys = keys;
                    last_mtu = cap(&post["path"]["mtu"]);
                    let k = match ev {
                        "Rx" => "rx",
                        "Timeout" => "to",
                        _ => "call",
                    };
                    out.push(json!({"ev":"Step","k":k,"op":op,"t":cap(&e["t"]),
                        "m0":cap(&pre["path"]["mtu"]),"m1":last_mtu,
                        "gen0":cap(&pre["path"]["gen"]),"gen1":cap(&post["path"]["gen"]),
                        "rem0":cap(&pre["path"]["rem"]),"rem1":cap(&post["path"]["rem"]),
                        "chal0":pre["path"]["chal"],
                        "lp0":cap(&pre["stats"]["lprobe"]),"lp1":cap(&post["stats"]["lprobe"]),
                        "bh0":cap(&pre["stats"]["bh"]),"bh1":cap(&post["stats"]["bh"]),
                        "keys":keys,"ptp":ptp,"acks":acks}));
                }
                _ => {}
            }
        }
    }
    out
}
