//! Projection for the handshake key specification (HsTrace): packet types sent and processed, which
//! packet number spaces hold keys before and after every step, the connection state, HANDSHAKE_DONE
//! and the handshake events reported to the application.
//! Only runs with exactly one client/server connection pair are projected.
use serde_json::{json, Value};

fn keys(p: &Value) -> Value {
    json!([p["sp"][0]["keys"] == true, p["sp"][1]["keys"] == true, p["sp"][2]["keys"] == true])
}

fn has_done(p: &Value) -> bool {
    p["fr"].as_array().is_some_and(|a| a.iter().any(|f| f["f"] == "HANDSHAKE_DONE"))
}

pub fn hs(trace: &[Value]) -> Vec<Value> {
    let mut out = vec![json!({"ev":"Reset","run":trace[0]["run"]})];
    let conns = trace.iter().filter(|e| (e["ev"] == "Connect" || e["ev"] == "Accept") && e["ok"] == true).count();
    if conns != 2 || trace[0]["clients"].as_i64().unwrap_or(1) != 1 {
        return out;
    }
    for e in trace {
        let ev = e["ev"].as_str().unwrap_or("");
        let n = e["n"].as_i64().unwrap_or(-1);
        if !(0..=1).contains(&n) {
            continue;
        }
        let side = if n == 0 { "s" } else { "c" };
        let st = |p: &Value| p["st"].as_i64().unwrap_or(0);
        match ev {
            "Tx" => {
                let mut tys: Vec<Value> = Vec::new();
                let mut hd = false;
                for d in e["dgs"].as_array().cloned().unwrap_or_default() {
                    for p in d["pkts"].as_array().cloned().unwrap_or_default() {
                        tys.push(p["ty"].clone());
                        hd |= has_done(&p);
                    }
                }
                out.push(json!({"ev":"Tx","side":side,"tys":tys,"hd":hd,"ka":keys(&e["pre"]),"kb":keys(&e["post"]),
                    "st0":st(&e["pre"]),"st1":st(&e["post"])}));
            }
            "Rx" if e["kind"] == "conn" => {
                let pre = &e["pre"];
                let post = &e["post"];
                let authed = post["authed"].as_i64().unwrap_or(0) - pre["authed"].as_i64().unwrap_or(0);
                let pk = e["pk"].as_array().cloned().unwrap_or_default();
                let npk = pk.len() as i64;
                let tys: Vec<Value> = pk.iter().map(|p| p["ty"].clone()).collect();
                let whole = authed >= npk && npk > 0 && e["damaged"] != true;
                // processed packet types when certain: all of them, or none
                let (sure, proc): (bool, Vec<Value>) = if whole {
                    (true, tys.clone())
                } else if authed == 0 {
                    (true, vec![])
                } else {
                    (false, tys.clone())
                };
                let hd_in = pk.iter().any(has_done);
                let nonshort = pk.iter().filter(|p| p["ty"] != "S").count();
                out.push(json!({"ev":"Rx","side":side,"tys":tys,"sure":sure,"proc":proc,"hd":hd_in && authed > 0,
                    "hdsure":hd_in && whole,"authed":authed,"nonshort":nonshort,
                    "ka":keys(pre),"kb":keys(post),"st0":st(pre),"st1":st(post)}));
            }
            "Timeout" | "Call" => {
                if e["pre"].is_object() && e["post"].is_object() && (keys(&e["pre"]) != keys(&e["post"])) {
                    out.push(json!({"ev":"Oth","side":side,"at":ev,"ka":keys(&e["pre"]),"kb":keys(&e["post"]),
                        "st0":st(&e["pre"]),"st1":st(&e["post"])}));
                }
            }
            "AppEvent" => {
                let k = e["e"]["k"].as_str().unwrap_or("");
                if matches!(k, "HandshakeDataReady" | "Connected" | "HandshakeConfirmed") {
                    out.push(json!({"ev":"Ev","side":side,"k":k}));
                }
            }
            _ => {}
        }
    }
    out
}
