//! C14 support: logging token store / token log, token minting and mutation, forged Retry packets,
//! and direct replay of call histories into `BloomTokenLog` / `TokenMemoryCache` (`qv tokens`).
use std::{
    collections::VecDeque,
    io::{BufRead, BufWriter, Write},
    net::{IpAddr, Ipv4Addr, SocketAddr},
    sync::{Arc, Mutex},
    time::{Duration, SystemTime, UNIX_EPOCH},
};

use bytes::Bytes;
use quinn_proto::{
    crypto::HandshakeTokenKey, BloomTokenLog, NoneTokenLog, ServerConfig, TokenLog, TokenMemoryCache,
    TokenReuseError, TokenStore,
};
use serde_json::{json, Value};

use crate::{
    script::Runner,
    sim::{self, addr_id, hex, Cfg, World},
    toycrypto,
};

pub const DEFAULT_KEY: u64 = 0x70ce;

// ---------------------------------------------------------------------------------------------
// logging wrappers

/// `TokenStore` shared by all clients of a run: a real `TokenMemoryCache` behind a log, plus a
/// queue of scripted tokens that are handed out first (how chosen bytes get into an Initial).
pub struct LogStore {
    pub inner: TokenMemoryCache,
    pub forced: Mutex<VecDeque<Vec<u8>>>,
    pub log: Mutex<Vec<Value>>,
    /// every token a client received in a NEW_TOKEN frame, in order
    pub seen: Mutex<Vec<Vec<u8>>>,
}

impl TokenStore for LogStore {
    fn insert(&self, server_name: &str, token: Bytes) {
        self.seen.lock().unwrap().push(token.to_vec());
        self.log
            .lock()
            .unwrap()
            .push(json!({"ev":"TokInsert","srv":server_name,"tok":hex(&token)}));
        self.inner.insert(server_name, token);
    }
    fn take(&self, server_name: &str) -> Option<Bytes> {
        if let Some(f) = self.forced.lock().unwrap().pop_front() {
            self.log
                .lock()
                .unwrap()
                .push(json!({"ev":"TokTake","srv":server_name,"tok":hex(&f),"forced":true}));
            return if f.is_empty() { None } else { Some(Bytes::from(f)) };
        }
        let r = self.inner.take(server_name);
        self.log.lock().unwrap().push(json!({"ev":"TokTake","srv":server_name,
            "tok":r.as_ref().map_or(String::new(), |b| hex(b)),"forced":false}));
        r
    }
}

/// `TokenLog` wrapper recording every `check_and_insert`
pub struct LogLog {
    pub inner: Arc<dyn TokenLog>,
    pub log: Arc<Mutex<Vec<Value>>>,
}

impl TokenLog for LogLog {
    fn check_and_insert(&self, nonce: u128, issued: SystemTime, lifetime: Duration) -> Result<(), TokenReuseError> {
        let r = self.inner.check_and_insert(nonce, issued, lifetime);
        let secs = issued.duration_since(UNIX_EPOCH).unwrap_or_default().as_secs() as i64 - 1_700_000_000;
        self.log.lock().unwrap().push(json!({"ev":"TokLog","nonce":hex(&nonce.to_le_bytes()),
            "issued_s":secs.clamp(-(1 << 30), 1 << 30),"life_ms":(lifetime.as_millis() as u64).min(1 << 30),"ok":r.is_ok()}));
        r
    }
}

thread_local! {
    /// log buffer created in configure_server, picked up by configure_world right after
    static SERVER_LOG: std::cell::RefCell<Option<Arc<Mutex<Vec<Value>>>>> = const { std::cell::RefCell::new(None) };
}

fn parse_log(spec: &str) -> Arc<dyn TokenLog> {
    let p: Vec<&str> = spec.split(':').collect();
    match p[0] {
        "none" => Arc::new(NoneTokenLog),
        "bloom" if p.len() >= 3 => Arc::new(BloomTokenLog::new_expected_items(
            p[1].parse().unwrap_or(1 << 20),
            p[2].parse().unwrap_or(1000),
        )),
        _ => Arc::new(BloomTokenLog::default()),
    }
}

/// Called while the server configuration of a world is assembled
pub fn configure_server(cfg: &Cfg, scfg: &mut ServerConfig) {
    if let Some(ms) = cfg.validation_token_lifetime_ms {
        scfg.validation_token.lifetime(Duration::from_millis(ms));
    }
    if !cfg.token_log.is_empty() {
        let buf = Arc::new(Mutex::new(Vec::new()));
        scfg.validation_token.log(Arc::new(LogLog {
            inner: parse_log(&cfg.token_log),
            log: buf.clone(),
        }));
        // handed to the world in configure_world (same thread, right after)
        SERVER_LOG.with(|c| *c.borrow_mut() = Some(buf));
    }
}

pub fn configure_world(w: &mut World) {
    let spec = w.cfg.token_store.clone();
    let srv_log = SERVER_LOG.with(|c| c.borrow_mut().take());
    if spec.is_empty() && srv_log.is_none() {
        return;
    }
    let p: Vec<&str> = spec.split(':').collect();
    let (servers, per) = if p[0] == "cache" && p.len() >= 3 {
        (p[1].parse().unwrap_or(256), p[2].parse().unwrap_or(2))
    } else {
        (256, 2)
    };
    let store = Arc::new(LogStore {
        inner: TokenMemoryCache::new(servers, per),
        forced: Mutex::new(VecDeque::new()),
        log: Mutex::new(Vec::new()),
        seen: Mutex::new(Vec::new()),
    });
    if !spec.is_empty() {
        w.token_store = Some(store.clone());
    }
    w.tok = Some(store);
    w.tok_srv_log = srv_log;
}

/// Move what the token store / token log recorded since the last call into the master trace
pub fn drain(w: &mut World, n: usize, uid: i64) {
    let t = w.now_us;
    let mut evs: Vec<Value> = Vec::new();
    if let Some(l) = &w.tok_srv_log {
        evs.append(&mut l.lock().unwrap());
    }
    if let Some(s) = &w.tok {
        evs.append(&mut s.log.lock().unwrap());
    }
    for mut e in evs {
        e["t"] = json!(t);
        e["n"] = json!(n);
        e["uid"] = json!(uid);
        w.trace.push(e);
    }
}

// ---------------------------------------------------------------------------------------------
// independent token codec (layout of quinn-proto/src/token.rs; toy AEAD = plaintext + keyed tag)

pub fn seal(key: u64, payload: &[u8], nonce: &[u8; 16]) -> Vec<u8> {
    let aead = toycrypto::ToyTokenKey(key).aead_from_hkdf(nonce);
    let mut buf = payload.to_vec();
    aead.seal(&mut buf, &[]).unwrap();
    buf.extend_from_slice(nonce);
    buf
}

fn put_ip(buf: &mut Vec<u8>, ip: IpAddr) {
    match ip {
        IpAddr::V4(x) => {
            buf.push(0);
            buf.extend_from_slice(&x.octets());
        }
        IpAddr::V6(x) => {
            buf.push(1);
            buf.extend_from_slice(&x.octets());
        }
    }
}

pub fn retry_payload(addr: SocketAddr, odcid: &[u8], issued_s: u64) -> Vec<u8> {
    let mut b = vec![0u8];
    put_ip(&mut b, addr.ip());
    b.extend_from_slice(&addr.port().to_be_bytes());
    b.push(odcid.len() as u8);
    b.extend_from_slice(odcid);
    b.extend_from_slice(&issued_s.to_be_bytes());
    b
}

pub fn validation_payload(ip: IpAddr, issued_s: u64) -> Vec<u8> {
    let mut b = vec![1u8];
    put_ip(&mut b, ip);
    b.extend_from_slice(&issued_s.to_be_bytes());
    b
}

fn unhex(h: &str) -> Vec<u8> {
    (0..h.len() / 2)
        .map(|i| u8::from_str_radix(&h[2 * i..2 * i + 2], 16).unwrap_or(0))
        .collect()
}

fn addr_of(w: &World, v: &Value) -> SocketAddr {
    if let Some(n) = v["node"].as_u64() {
        return w.nodes[n as usize].addr;
    }
    let a = &v["addr"];
    SocketAddr::new(
        IpAddr::V4(Ipv4Addr::new(10, 0, a[0].as_u64().unwrap_or(2) as u8, a[1].as_u64().unwrap_or(1) as u8)),
        a[2].as_u64().unwrap_or(6000) as u16,
    )
}

/// Resolve a token source description to bytes. Minted tokens are announced with a `TokMint` line.
fn source(w: &mut World, src: &Value) -> Option<Vec<u8>> {
    let i = src["i"].as_i64().unwrap_or(0);
    let pick = |v: &Vec<Vec<u8>>| -> Option<Vec<u8>> {
        let k = if i < 0 { v.len() as i64 + i } else { i };
        if k < 0 { None } else { v.get(k as usize).cloned() }
    };
    match src["k"].as_str().unwrap_or("") {
        "retry" => pick(&w.tok_retry),
        "new" => {
            let seen = w.tok.as_ref()?.seen.lock().unwrap().clone();
            pick(&seen)
        }
        "hex" => Some(unhex(src["hex"].as_str().unwrap_or(""))),
        "empty" => Some(Vec::new()),
        "mint" => {
            let kind = src["kind"].as_str().unwrap_or("new").to_string();
            let addr = addr_of(w, src);
            let key = src["key"].as_u64().unwrap_or(w.cfg.token_key.unwrap_or(DEFAULT_KEY));
            // issue instant in virtual microseconds: absolute ("at_us") or relative to now ("age_us")
            let at_us = src["at_us"]
                .as_u64()
                .unwrap_or_else(|| w.now_us.saturating_sub(src["age_us"].as_u64().unwrap_or(0)));
            let issued_s = 1_700_000_000 + at_us / 1_000_000;
            let odcid = unhex(src["odcid"].as_str().unwrap_or("0011223344556677"));
            let salt = src["salt"].as_u64().unwrap_or(1);
            let mut nonce = [0u8; 16];
            nonce[..8].copy_from_slice(&toycrypto::mix(salt ^ 0xc14).to_le_bytes());
            nonce[8..].copy_from_slice(&toycrypto::mix(salt ^ 0xc14c14).to_le_bytes());
            let payload = if kind == "retry" {
                retry_payload(addr, &odcid, issued_s)
            } else {
                validation_payload(addr.ip(), issued_s)
            };
            // malformed content under a genuine seal (what an incompatible version of this server
            // might have issued): "extra" trailing bytes, "cut" bytes missing, "type" byte override
            let mut payload = payload;
            let mut wellformed = true;
            if let Some(n) = src["extra"].as_u64() {
                payload.extend(std::iter::repeat(0x5a).take(n as usize));
                wellformed = false;
            }
            if let Some(n) = src["cut"].as_u64() {
                let l = payload.len().saturating_sub(n as usize);
                payload.truncate(l);
                wellformed = false;
            }
            if let Some(ty) = src["type"].as_u64() {
                payload[0] = ty as u8;
                wellformed = false;
            }
            let tok = seal(key, &payload, &nonce);
            let t = w.now_us;
            let own = wellformed && key == w.cfg.token_key.unwrap_or(DEFAULT_KEY);
            w.trace.push(json!({"ev":"TokMint","t":t,"kind":kind,"addr":addr_id(addr),"odcid":hex(&odcid),
                "at_us":at_us.min(1 << 30),"own":own,"tok":hex(&tok)}));
            Some(tok)
        }
        _ => None,
    }
}

/// Apply one mutation: ["flip",pos,xor] (negative pos counts from the end), ["trunc",k], ["ext",k],
/// ["nonce_of",src] (nonce of another token), ["rekey",key] (same payload sealed under another key),
/// ["payload_of",src] (payload+tag of another token under this token's nonce)
fn mutate(w: &mut World, tok: Vec<u8>, m: &Value) -> Vec<u8> {
    let mut t = tok;
    match m[0].as_str().unwrap_or("") {
        "flip" => {
            let pos = m[1].as_i64().unwrap_or(0);
            let x = m[2].as_u64().unwrap_or(1) as u8;
            let k = if pos < 0 { t.len() as i64 + pos } else { pos };
            if k >= 0 && (k as usize) < t.len() {
                t[k as usize] ^= if x == 0 { 1 } else { x };
            }
        }
        "trunc" => {
            let k = (m[1].as_u64().unwrap_or(1) as usize).min(t.len());
            t.truncate(t.len() - k);
        }
        "ext" => {
            for i in 0..m[1].as_u64().unwrap_or(1) {
                t.push((toycrypto::mix(i + 0xe47) & 0xff) as u8);
            }
        }
        "nonce_of" => {
            if let Some(o) = source(w, &m[1]) {
                if o.len() >= 16 && t.len() >= 16 {
                    let n = t.len();
                    t[n - 16..].copy_from_slice(&o[o.len() - 16..]);
                }
            }
        }
        "payload_of" => {
            if let Some(o) = source(w, &m[1]) {
                if o.len() >= 16 && t.len() >= 16 {
                    let mut x = o[..o.len() - 16].to_vec();
                    x.extend_from_slice(&t[t.len() - 16..]);
                    t = x;
                }
            }
        }
        "rekey" => {
            if t.len() >= 32 {
                let key = m[1].as_u64().unwrap_or(0xbad);
                let mut nonce = [0u8; 16];
                nonce.copy_from_slice(&t[t.len() - 16..]);
                t = seal(key, &t[..t.len() - 32].to_vec(), &nonce);
            }
        }
        _ => {}
    }
    t
}

/// {"do":"token","op":"force","src":{..},"mut":[[..],..]}: the next `TokenStore::take` returns these bytes
/// {"do":"token","op":"store","srv":"x","src":{..}} / {"op":"take","srv":"x"}: direct store calls
pub fn step(r: &mut Runner, s: &Value) {
    let w = &mut r.w;
    let t = w.now_us;
    if w.tok.is_none() {
        w.trace.push(json!({"ev":"TokStep","t":t,"ok":false,"why":"no store"}));
        return;
    }
    match s["op"].as_str().unwrap_or("force") {
        "force" => {
            let Some(mut tok) = source(w, &s["src"]) else {
                w.trace.push(json!({"ev":"TokStep","t":t,"ok":false,"why":"no such token"}));
                return;
            };
            let orig = tok.clone();
            if let Some(ms) = s["mut"].as_array() {
                for m in ms.clone() {
                    tok = mutate(w, tok, &m);
                }
            }
            w.trace.push(json!({"ev":"TokStep","t":t,"ok":true,"op":"force","tok":hex(&tok),"orig":hex(&orig),
                "mutated":tok != orig}));
            w.tok.as_ref().unwrap().forced.lock().unwrap().push_back(tok);
        }
        "store" => {
            if let Some(tok) = source(w, &s["src"]) {
                let st = w.tok.clone().unwrap();
                st.insert(s["srv"].as_str().unwrap_or("server"), Bytes::from(tok));
                drain(w, 0, -1);
            }
        }
        "take" => {
            let st = w.tok.clone().unwrap();
            let _ = st.take(s["srv"].as_str().unwrap_or("server"));
            drain(w, 0, -1);
        }
        o => panic!("unknown token op {o}"),
    }
}

/// Forged Retry towards client node `to`, built from that client's latest connection attempt:
/// {"do":"retry_pkt","to":1,"tag":"ok"|"bad"|"other_odcid"|"cur","tok_len":20,"salt":1,"delay":0}
pub fn retry_pkt(r: &mut Runner, s: &Value) {
    let w = &mut r.w;
    let to = s["to"].as_u64().unwrap_or(1) as usize;
    let addr = w.nodes[to].addr;
    let t = w.now_us;
    let inits: Vec<&sim::Dgram> = w
        .history
        .iter()
        .filter(|d| d.src == addr && d.data.len() > 7 && d.data[0] & 0xb0 == 0x80)
        .collect();
    let parse = |b: &[u8]| -> Option<(Vec<u8>, Vec<u8>)> {
        let dl = *b.get(5)? as usize;
        let dcid = b.get(6..6 + dl)?.to_vec();
        let sl = *b.get(6 + dl)? as usize;
        let scid = b.get(7 + dl..7 + dl + sl)?.to_vec();
        Some((dcid, scid))
    };
    let Some(last) = inits.last().and_then(|d| parse(&d.data)) else {
        w.trace.push(json!({"ev":"RetryPkt","t":t,"ok":false}));
        return;
    };
    // the attempt's original destination CID: first Initial with the same client source CID
    let first = inits.iter().filter_map(|d| parse(&d.data)).find(|x| x.1 == last.1).unwrap();
    let version = inits.last().unwrap().data[1..5].to_vec();
    let salt = s["salt"].as_u64().unwrap_or(1);
    let mut pkt = vec![0xf0u8];
    pkt.extend_from_slice(&version);
    pkt.push(last.1.len() as u8);
    pkt.extend_from_slice(&last.1);
    let new_scid = toycrypto::mix(salt ^ 0x5c1d).to_be_bytes();
    pkt.push(8);
    pkt.extend_from_slice(&new_scid);
    let tl = s["tok_len"].as_u64().unwrap_or(20);
    for i in 0..tl {
        pkt.push((toycrypto::mix(salt * 131 + i) & 0xff) as u8);
    }
    let mode = s["tag"].as_str().unwrap_or("ok").to_string();
    let mut tag = match mode.as_str() {
        "other_odcid" => toycrypto::retry_tag(&last.1, &pkt),
        // valid for the destination ID the client uses now (what a second Retry of a server that
        // could not read the first Retry's token looks like)
        "cur" => toycrypto::retry_tag(&last.0, &pkt),
        _ => toycrypto::retry_tag(&first.0, &pkt),
    };
    if mode == "bad" {
        tag[15] ^= 1;
    }
    pkt.extend_from_slice(&tag);
    let src = sim::server_addr();
    let id = w.inject(src, addr, pkt, "forged", u64::MAX, s["delay"].as_u64().unwrap_or(0));
    w.trace.push(json!({"ev":"RetryPkt","t":t,"ok":true,"id":id,"tag":mode,"tok_len":tl,"scid":hex(&new_scid)}));
}

/// Integrity tag check of a Retry packet as a client with original destination CID `odcid` must do it
pub fn retry_tag_ok(odcid: &[u8], raw: &[u8]) -> bool {
    if raw.len() < 16 {
        return false;
    }
    let n = raw.len() - 16;
    toycrypto::retry_tag(odcid, &raw[..n]) == raw[n..]
}

// ---------------------------------------------------------------------------------------------
// component replay: qv tokens <histories.ndjson> <out.ndjson>

fn nonce_of(id: u64) -> u128 {
    // ids above 100 share their low 64 bits with id-100 (the log keeps 64-bit fingerprints)
    if id > 100 {
        (toycrypto::mix(id - 100) as u128) | ((id as u128) << 64)
    } else {
        (toycrypto::mix(id) as u128) | (0x77u128 << 64)
    }
}

pub fn run(histories: &str, out: &str) {
    let inp = std::fs::File::open(histories).expect("histories");
    let mut o = BufWriter::new(std::fs::File::create(out).expect("out"));
    let mut run = 0u64;
    let mut first = 0u64;
    let args: Vec<String> = std::env::args().collect();
    if let Some(i) = args.iter().position(|a| a == "--first-run") {
        first = args[i + 1].parse().unwrap_or(0);
    }
    for line in std::io::BufReader::new(inp).lines() {
        let line = line.unwrap();
        if line.trim().is_empty() {
            continue;
        }
        let h: Value = serde_json::from_str(&line).unwrap();
        let id = first + run;
        run += 1;
        match h["kind"].as_str().unwrap_or("") {
            "log" => {
                // {"kind":"log","unit_ms":500,"life":4,"mode":"set"|"bloom","calls":[[nonce id, issued],..]}
                let unit = h["unit_ms"].as_u64().unwrap_or(1000);
                let life = h["life"].as_u64().unwrap_or(2);
                let mode = h["mode"].as_str().unwrap_or("set");
                let log: Box<dyn TokenLog> = match mode {
                    "bloom" => Box::new(BloomTokenLog::new_expected_items(h["max_bytes"].as_u64().unwrap_or(16) as usize, 4)),
                    "none" => Box::new(NoneTokenLog),
                    _ => Box::new(BloomTokenLog::default()),
                };
                writeln!(o, "{}", json!({"ev":"Reset","run":id,"kind":"log","life":life,"mode":mode})).unwrap();
                for c in h["calls"].as_array().cloned().unwrap_or_default() {
                    let n = c[0].as_u64().unwrap_or(1);
                    let i = c[1].as_u64().unwrap_or(0);
                    let r = std::panic::catch_unwind(std::panic::AssertUnwindSafe(|| {
                        log.check_and_insert(
                            nonce_of(n),
                            UNIX_EPOCH + Duration::from_millis(i * unit),
                            Duration::from_millis(life * unit),
                        )
                        .is_ok()
                    }));
                    match r {
                        Ok(ok) => writeln!(o, "{}", json!({"ev":"LogCall","n":n,"fp":if n > 100 { n - 100 } else { n },"i":i,"ok":ok})).unwrap(),
                        Err(_) => {
                            writeln!(o, "{}", json!({"ev":"Panic","what":"check_and_insert"})).unwrap();
                            break;
                        }
                    }
                }
            }
            "cache" => {
                // {"kind":"cache","servers":2,"per":2,"ops":[["s",srv,tok],["t",srv],..]}
                let servers = h["servers"].as_u64().unwrap_or(2) as u32;
                let per = h["per"].as_u64().unwrap_or(2) as usize;
                let cache = TokenMemoryCache::new(servers, per);
                writeln!(o, "{}", json!({"ev":"Reset","run":id,"kind":"cache","servers":servers,"per":per})).unwrap();
                for c in h["ops"].as_array().cloned().unwrap_or_default() {
                    let srv = c[1].as_u64().unwrap_or(1);
                    let name = format!("srv{srv}");
                    let r = std::panic::catch_unwind(std::panic::AssertUnwindSafe(|| match c[0].as_str().unwrap_or("t") {
                        "s" => {
                            let tok = c[2].as_u64().unwrap_or(1);
                            cache.insert(&name, Bytes::from(tok.to_be_bytes().to_vec()));
                            json!({"ev":"CacheStore","srv":srv,"tok":tok})
                        }
                        _ => {
                            let r = cache.take(&name);
                            let v = r.map_or(-1, |b| {
                                let mut x = [0u8; 8];
                                if b.len() == 8 {
                                    x.copy_from_slice(&b);
                                    u64::from_be_bytes(x) as i64
                                } else {
                                    -2
                                }
                            });
                            json!({"ev":"CacheTake","srv":srv,"r":v})
                        }
                    }));
                    match r {
                        Ok(v) => writeln!(o, "{}", v).unwrap(),
                        Err(_) => {
                            writeln!(o, "{}", json!({"ev":"Panic","what":"cache"})).unwrap();
                            break;
                        }
                    }
                }
            }
            _ => {}
        }
    }
}
